(* Generic model of the fixed little-endian record codecs (ADR 0017 style): a format
   descriptor, a generic encoder and a generic cursor decoder with trailing-byte rejection.
   `to_payload_bytes` / `from_payload_bytes` pairs that are straight push_* / read_*
   sequences are instances (descriptors at the end of this file, transcribed by hand from
   crates/warp-core/src/causal_wal.rs and checked against the real codec by correspondence).
   Definitions only. *)
From Coq Require Import List NArith Bool PeanoNat.
From Echo Require Import Base.Bytes.
Import ListNotations.
Open Scope N_scope.

Inductive fmt :=
| FU (w : nat)                    (* w-byte little-endian unsigned (u8/u16/u32/u64) *)
| FRaw (n : nat)                  (* n raw bytes (hashes, ids) *)
| FConst (c : bytes)              (* fixed bytes: magic, version *)
| FOpt (f : fmt)                  (* u8 tag: 0 => nothing, 1 => f; other tags rejected *)
| FBytes (w : nat)                (* w-byte LE length, then that many bytes *)
| FVec (w : nat) (f : fmt)        (* w-byte LE count, then count items *)
| FSeq (l : list fmt)             (* fields in wire order *)
| FEnum (alts : list (N * fmt)).  (* u8 code, then the payload of that alternative; unknown codes rejected *)

Inductive fval :=
| XU (n : N)
| XRaw (bs : bytes)
| XUnit
| XNone
| XSome (v : fval)
| XBytes (bs : bytes)
| XVec (l : list fval)
| XSeq (l : list fval)
| XEnum (code : N) (v : fval).

Fixpoint find_alt (c : N) (alts : list (N * fmt)) : option fmt :=
  match alts with
  | [] => None
  | (c', f) :: r => if c =? c' then Some f else find_alt c r
  end.

Definition obind {A B} (o : option A) (f : A -> option B) : option B :=
  match o with Some a => f a | None => None end.

(* encoder: None on ill-typed values (numbers out of range, wrong lengths, unknown codes) *)
Fixpoint enc_fmt (f : fmt) (v : fval) {struct f} : option bytes :=
  match f, v with
  | FU w, XU n => if n <? 256 ^ N.of_nat w then Some (le_bytes w n) else None
  | FRaw k, XRaw bs => if Nat.eqb (length bs) k && wf_bytes bs then Some bs else None
  | FConst c, XUnit => Some c
  | FOpt _, XNone => Some [0]
  | FOpt f', XSome x => obind (enc_fmt f' x) (fun b => Some (1 :: b))
  | FBytes w, XBytes bs =>
      if (lenN bs <? 256 ^ N.of_nat w) && wf_bytes bs then Some (le_bytes w (lenN bs) ++ bs) else None
  | FVec w f', XVec l =>
      if lenN l <? 256 ^ N.of_nat w then
        obind ((fix go (l : list fval) : option bytes :=
                  match l with
                  | [] => Some []
                  | x :: r => obind (enc_fmt f' x) (fun bx => obind (go r) (fun br => Some (bx ++ br)))
                  end) l)
              (fun body => Some (le_bytes w (lenN l) ++ body))
      else None
  | FSeq fs, XSeq vs =>
      (fix go (fs : list fmt) (vs : list fval) : option bytes :=
         match fs, vs with
         | [], [] => Some []
         | f1 :: fr, x :: vr => obind (enc_fmt f1 x) (fun bx => obind (go fr vr) (fun br => Some (bx ++ br)))
         | _, _ => None
         end) fs vs
  | FEnum alts, XEnum c x =>
      if c <? 256 then
        (fix go (alts : list (N * fmt)) : option bytes :=
           match alts with
           | [] => None
           | (c', f') :: r => if c =? c' then obind (enc_fmt f' x) (fun b => Some (c :: b)) else go r
           end) alts
      else None
  | _, _ => None
  end.

Definition read_le (w : nat) (b : bytes) : option (N * bytes) :=
  if (length b <? w)%nat then None else Some (from_le (firstn w b), skipn w b).

Fixpoint starts_with (c b : bytes) : option bytes :=
  match c, b with
  | [], _ => Some b
  | x :: c', y :: b' => if x =? y then starts_with c' b' else None
  | _ :: _, [] => None
  end.

(* count-prefixed loop; [k] is fuel (items have at least one byte in well-formed formats) *)
Fixpoint dec_items (d : bytes -> option (fval * bytes)) (k : nat) (n : N) (b : bytes)
  : option (list fval * bytes) :=
  if n =? 0 then Some ([], b)
  else match k with
       | O => None
       | S k' => obind (d b) (fun '(x, b1) => obind (dec_items d k' (n - 1) b1) (fun '(xs, b2) => Some (x :: xs, b2)))
       end.

(* cursor decoder: value and remaining bytes *)
Fixpoint dec_fmt (f : fmt) (b : bytes) {struct f} : option (fval * bytes) :=
  match f with
  | FU w => obind (read_le w b) (fun '(n, r) => Some (XU n, r))
  | FRaw k => if (length b <? k)%nat then None else Some (XRaw (firstn k b), skipn k b)
  | FConst c => obind (starts_with c b) (fun r => Some (XUnit, r))
  | FOpt f' =>
      match b with
      | [] => None
      | t :: r => if t =? 0 then Some (XNone, r)
                  else if t =? 1 then obind (dec_fmt f' r) (fun '(x, r1) => Some (XSome x, r1))
                  else None
      end
  | FBytes w =>
      obind (read_le w b) (fun '(n, r) =>
        if lenN r <? n then None
        else Some (XBytes (firstn (N.to_nat n) r), skipn (N.to_nat n) r))
  | FVec w f' =>
      obind (read_le w b) (fun '(n, r) =>
        obind (dec_items (dec_fmt f') (S (length r)) n r) (fun '(xs, r1) => Some (XVec xs, r1)))
  | FSeq fs =>
      (fix go (fs : list fmt) (b : bytes) : option (fval * bytes) :=
         match fs with
         | [] => Some (XSeq [], b)
         | f1 :: fr =>
             obind (dec_fmt f1 b) (fun '(x, b1) =>
             obind (go fr b1) (fun '(v, b2) =>
               match v with XSeq xs => Some (XSeq (x :: xs), b2) | _ => None end))
         end) fs b
  | FEnum alts =>
      match b with
      | [] => None
      | c :: r =>
          (fix go (alts : list (N * fmt)) : option (fval * bytes) :=
             match alts with
             | [] => None
             | (c', f') :: ar => if c =? c' then obind (dec_fmt f' r) (fun '(x, r1) => Some (XEnum c x, r1)) else go ar
             end) alts
      end
  end.

(* from_payload_bytes: the whole input must be consumed (cursor.finish()) *)
Definition dec_top (f : fmt) (b : bytes) : option fval :=
  match dec_fmt f b with
  | Some (v, []) => Some v
  | _ => None
  end.

(* smallest encoding size; vectors need items of at least one byte *)
Fixpoint min_size (f : fmt) : nat :=
  match f with
  | FU w => w
  | FRaw n => n
  | FConst c => length c
  | FOpt _ => 1
  | FBytes w => w
  | FVec w _ => w
  | FSeq l => fold_right (fun f acc => (min_size f + acc)%nat) O l
  | FEnum _ => 1
  end.

Fixpoint wf_fmt (f : fmt) : bool :=
  match f with
  | FU _ | FRaw _ | FBytes _ => true
  | FConst c => wf_bytes c
  | FOpt f' => wf_fmt f'
  | FVec _ f' => wf_fmt f' && (1 <=? min_size f')%nat
  | FSeq l => forallb wf_fmt l
  | FEnum alts => forallb (fun a => wf_fmt (snd a)) alts
  end.

(* ------------------------------------------------------------------ tie: run one case *)
(* (1, re-encoding) when accepted, (0, []) when rejected, (2, []) if an accepted value fails to re-encode *)
Definition run_fmt (f : fmt) (b : bytes) : N * bytes :=
  match dec_top f b with
  | None => (0, [])
  | Some v => match enc_fmt f v with Some b' => (1, b') | None => (2, []) end
  end.

(* ------------------------------------------------------------------ descriptors
   Hand transcriptions of `to_payload_bytes` / `from_payload_bytes` in
   crates/warp-core/src/causal_wal.rs (push_* / WalPayloadCursor::read_* sequences) and of the
   EINT envelope in crates/echo-wasm-abi/src/lib.rs.  Each is run against the real codec on
   generated and mutated byte strings by the C12 check (accept/reject and re-encoding). *)
Definition H32 : fmt := FRaw 32.                      (* Hash, WorldlineId, StrandId, HeadId, ... *)
Definition U8 : fmt := FU 1.
Definition U16 : fmt := FU 2.
Definition U32 : fmt := FU 4.
Definition U64 : fmt := FU 8.                         (* Lsn, WorldlineTick, GlobalTick *)
Definition OPT_HASH : fmt := FOpt H32.                (* push_optional_hash / read_optional_hash *)
Definition BYTES64 : fmt := FBytes 8.                 (* u64 length + bytes: read_vec *)
Definition WHK : fmt := FSeq [H32; H32].              (* WriterHeadKey: worldline_id, head_id *)
Definition ADR : fmt := FSeq [H32; H32].              (* AuthorityDomainRef: origin_id, domain_id *)
(* CausalTickReceiptRef::to_canonical_bytes (176 bytes) *)
Definition CTRR : fmt := FSeq [H32; U64; U64; H32; H32; H32; H32].
Definition codes (l : list N) : fmt := FEnum (map (fun c => (c, FSeq [])) l).
Definition TICK_DECISION : fmt := codes [1; 2; 3].
Definition MATERIAL_KIND : fmt := codes [1; 2; 3; 4; 5; 6; 7].
Definition MATERIAL_POSTURE : fmt := codes [1; 2; 3; 4; 5; 6].
Definition IMPORT_OUTCOME : fmt := codes [1; 2; 3; 4].
Definition BRAID_STATUS : fmt := codes [1; 2; 3].
Definition BRAID_MEMBER_REF : fmt := FEnum [(1, FSeq [H32]); (2, FSeq [H32; ADR])].
Definition BRAID_EVENT : fmt :=
  FEnum [(1, FSeq [H32; ADR]); (2, FSeq [BRAID_MEMBER_REF; U64]); (3, FSeq [H32]); (4, FSeq [H32; H32])].

Definition d_submission_acceptance : fmt := FSeq [H32; H32; OPT_HASH; H32].
Definition d_submission_envelope : fmt := FSeq [H32; H32; U64; WHK; BYTES64].
Definition d_retained_material : fmt := FSeq [H32; H32; MATERIAL_KIND; MATERIAL_POSTURE].
Definition d_reading_ref : fmt := FSeq [H32; H32; H32; H32; MATERIAL_POSTURE].
Definition d_checkpoint : fmt := FSeq [H32; U64; H32; H32; H32; H32; U16; H32].
Definition d_checkpoint_publication : fmt := FSeq [H32; H32].
Definition d_materialization_intent : fmt := FSeq [H32; H32; H32; H32; H32].
Definition d_materialization_observation : fmt := FSeq [H32; H32; H32].
Definition d_strand_drop : fmt := FSeq [H32; H32; H32; U64; H32; H32; OPT_HASH].
Definition d_topology_braid_event : fmt := FSeq [H32; H32; U64; BRAID_EVENT; BRAID_STATUS; H32; H32; OPT_HASH].
Definition d_braid_shell_retention : fmt := FSeq [H32; H32; H32; H32; H32; IMPORT_OUTCOME; H32; H32; OPT_HASH].
Definition d_suffix_import : fmt := FSeq [H32; H32; H32; H32; H32; H32; H32; IMPORT_OUTCOME; H32; H32; H32].
(* "ETICK002" *)
Definition d_tick_receipt : fmt := FSeq [FConst [0x45; 0x54; 0x49; 0x43; 0x4B; 0x30; 0x30; 0x32]; CTRR; TICK_DECISION].
(* the wire layout of StrandForkRecord; the real decoder additionally rejects writer heads that
   are not in canonical order (see [strand_fork_dec] below) *)
Definition d_strand_fork : fmt := FSeq [H32; H32; H32; U64; H32; H32; H32; FVec 8 WHK; H32; H32; OPT_HASH].
(* "EINT" op_id:u32 vars_len:u32 vars *)
Definition d_eint : fmt := FSeq [FConst [0x45; 0x49; 0x4E; 0x54]; U32; FBytes 4].

Definition descriptor (name : N) : option fmt :=
  match name with
  | 1 => Some d_submission_acceptance | 2 => Some d_submission_envelope | 3 => Some d_retained_material
  | 4 => Some d_reading_ref | 5 => Some d_checkpoint | 6 => Some d_checkpoint_publication
  | 7 => Some d_materialization_intent | 8 => Some d_materialization_observation | 9 => Some d_strand_drop
  | 10 => Some d_topology_braid_event | 11 => Some d_braid_shell_retention | 12 => Some d_suffix_import
  | 13 => Some d_tick_receipt | 14 => Some d_strand_fork | 15 => Some d_eint
  | _ => None
  end.

Definition all_descriptors : list fmt :=
  [d_submission_acceptance; d_submission_envelope; d_retained_material; d_reading_ref; d_checkpoint;
   d_checkpoint_publication; d_materialization_intent; d_materialization_observation; d_strand_drop;
   d_topology_braid_event; d_braid_shell_retention; d_suffix_import; d_tick_receipt; d_strand_fork; d_eint].

(* ------------------------------------------------------------------ StrandForkRecord as it is
   `to_payload_bytes` writes `canonical_writer_heads(&self.writer_heads)` (stable sort by
   (worldline_id, head_id) bytes, no dedup); `from_payload_bytes` reads the heads and rejects
   the payload with NonCanonicalWriterHeads when `canonical_writer_heads(&heads) != heads`. *)
From Echo Require Import Base.Order.

Definition head_key (v : fval) : bytes :=
  match v with XSeq [XRaw a; XRaw b] => a ++ b | _ => [] end.

(* stable insertion: before the first element that is not smaller *)
Fixpoint insert_head (x : fval) (l : list fval) : list fval :=
  match l with
  | [] => [x]
  | y :: r => match bytes_cmp (head_key x) (head_key y) with
              | Gt => y :: insert_head x r
              | _ => x :: l
              end
  end.
Definition sort_heads (l : list fval) : list fval := fold_right insert_head [] l.

(* the writer_heads field is the 8th of the sequence *)
Definition canonicalize_fork (v : fval) : fval :=
  match v with
  | XSeq [a; b; c; d; e; f; g; XVec hs; i; j; k] => XSeq [a; b; c; d; e; f; g; XVec (sort_heads hs); i; j; k]
  | other => other
  end.

Definition bytes_eqb (x y : bytes) : bool := if list_eq_dec N.eq_dec x y then true else false.

Fixpoint fval_eqb (a b : fval) {struct a} : bool :=
  match a, b with
  | XU n, XU m => n =? m
  | XRaw x, XRaw y => bytes_eqb x y
  | XUnit, XUnit => true
  | XNone, XNone => true
  | XSome x, XSome y => fval_eqb x y
  | XBytes x, XBytes y => bytes_eqb x y
  | XVec l, XVec m =>
      (fix go (l m : list fval) : bool :=
         match l, m with
         | [], [] => true
         | x :: l', y :: m' => fval_eqb x y && go l' m'
         | _, _ => false
         end) l m
  | XSeq l, XSeq m =>
      (fix go (l m : list fval) : bool :=
         match l, m with
         | [], [] => true
         | x :: l', y :: m' => fval_eqb x y && go l' m'
         | _, _ => false
         end) l m
  | XEnum c x, XEnum d y => (c =? d) && fval_eqb x y
  | _, _ => false
  end.

Definition strand_fork_dec (b : bytes) : option fval :=
  match dec_top d_strand_fork b with
  | Some v => if fval_eqb (canonicalize_fork v) v then Some v else None
  | None => None
  end.
Definition strand_fork_enc (v : fval) : option bytes := enc_fmt d_strand_fork (canonicalize_fork v).

Definition run_strand_fork (b : bytes) : N * bytes :=
  match strand_fork_dec b with
  | None => (0, [])
  | Some v => match strand_fork_enc v with Some b' => (1, b') | None => (2, []) end
  end.

Definition run_record (name : N) (b : bytes) : N * bytes :=
  if name =? 14 then run_strand_fork b
  else match descriptor name with Some d => run_fmt d b | None => (3, []) end.
