(* C15 — speculative lanes fork faithfully and settle lawfully.
   Only property theorems live here: each is closed by [exact], pinned by [Check ... : statement]
   and followed by [Print Assumptions].  All statements hold for EVERY choice of the hash
   functions (state root, commit id, artifact ids, shell digest).
   PARTIAL by design (see props/c15.py): braid shell bodies, member blinding and retention posture
   are exercised by the tie, not modelled. *)
From Coq Require Import List NArith Bool Lia.
From Echo Require Import Base.FinMap Model.Strand Proofs.StrandProofs.
Import ListNotations.
Open Scope N_scope.

(* Forking copies exactly the parent's history prefix (rewritten to the child lane) and touches
   no other history. *)
Theorem fork_prefix : forall Hroot w q w' es,
  fork_steps Hroot w q = Ok w' ->
  entries_of (snd w) (fq_src q) = Some es ->
  entries_of (snd w') (fq_child q) =
    Some (map (rewrite_entry (fq_src q) (fq_child q)) (firstnN (fq_tick q + 1) es)) /\
  fq_tick q < lenN es /\
  (forall l, l <> fq_child q -> alookup l (pv_lanes (snd w')) = alookup l (pv_lanes (snd w))) /\
  pv_shells (snd w') = pv_shells (snd w) /\ pv_plural_index (snd w') = pv_plural_index (snd w).
Proof. exact fork_prefix_lemma. Qed.
Check fork_prefix : forall Hroot w q w' es,
  fork_steps Hroot w q = Ok w' ->
  entries_of (snd w) (fq_src q) = Some es ->
  entries_of (snd w') (fq_child q) =
    Some (map (rewrite_entry (fq_src q) (fq_child q)) (firstnN (fq_tick q + 1) es)) /\
  fq_tick q < lenN es /\
  (forall l, l <> fq_child q -> alookup l (pv_lanes (snd w')) = alookup l (pv_lanes (snd w))) /\
  pv_shells (snd w') = pv_shells (snd w) /\ pv_plural_index (snd w') = pv_plural_index (snd w).
Print Assumptions fork_prefix.

(* The basis pins the source coordinate (lane, tick, commit id, boundary hash), and the child's
   entry at the fork tick carries the same commitments. *)
Theorem fork_basis_pinned : forall Hroot w q w',
  fork_steps Hroot w q = Ok w' ->
  exists s se es ces ce,
    alookup (fq_strand q) (rt_strands (fst w')) = Some s /\
    entries_of (snd w) (fq_src q) = Some es /\ nthN es (fq_tick q) = Some se /\
    entries_of (snd w') (fq_child q) = Some ces /\ nthN ces (fq_tick q) = Some ce /\
    st_src s = fq_src q /\ st_fork_tick s = fq_tick q /\
    st_commit s = e_commit se /\ st_boundary s = e_root se /\ st_ref s = e_ref se /\
    e_commit ce = e_commit se /\ e_root ce = e_root se /\ e_patch ce = e_patch se /\ e_lane ce = fq_child q.
Proof. exact fork_basis_lemma. Qed.
Check fork_basis_pinned : forall Hroot w q w',
  fork_steps Hroot w q = Ok w' ->
  exists s se es ces ce,
    alookup (fq_strand q) (rt_strands (fst w')) = Some s /\
    entries_of (snd w) (fq_src q) = Some es /\ nthN es (fq_tick q) = Some se /\
    entries_of (snd w') (fq_child q) = Some ces /\ nthN ces (fq_tick q) = Some ce /\
    st_src s = fq_src q /\ st_fork_tick s = fq_tick q /\
    st_commit s = e_commit se /\ st_boundary s = e_root se /\ st_ref s = e_ref se /\
    e_commit ce = e_commit se /\ e_root ce = e_root se /\ e_patch ce = e_patch se /\ e_lane ce = fq_child q.
Print Assumptions fork_basis_pinned.

(* No shared writer heads: the strand's heads live on the child lane, were not registered before
   and none of them belongs to the source lane; all old heads stay registered. *)
Theorem fork_heads_fresh : forall Hroot w q w',
  fork_steps Hroot w q = Ok w' ->
  exists s, alookup (fq_strand q) (rt_strands (fst w')) = Some s /\
    st_heads s = fq_heads q /\ st_child s = fq_child q /\ st_src s = fq_src q /\
    st_child s <> st_src s /\
    rt_heads (fst w') = rt_heads (fst w) ++ st_heads s /\
    (forall hk, In hk (st_heads s) ->
       fst hk = st_child s /\ fst hk <> st_src s /\ existsb (hkey_eqb hk) (rt_heads (fst w)) = false) /\
    amem (st_child s) (rt_lanes (fst w)) = false.
Proof. exact fork_heads_fresh_lemma. Qed.
Check fork_heads_fresh : forall Hroot w q w',
  fork_steps Hroot w q = Ok w' ->
  exists s, alookup (fq_strand q) (rt_strands (fst w')) = Some s /\
    st_heads s = fq_heads q /\ st_child s = fq_child q /\ st_src s = fq_src q /\
    st_child s <> st_src s /\
    rt_heads (fst w') = rt_heads (fst w) ++ st_heads s /\
    (forall hk, In hk (st_heads s) ->
       fst hk = st_child s /\ fst hk <> st_src s /\ existsb (hkey_eqb hk) (rt_heads (fst w)) = false) /\
    amem (st_child s) (rt_lanes (fst w)) = false.
Print Assumptions fork_heads_fresh.

(* A failed fork leaves runtime and provenance exactly as they were. *)
Theorem fork_atomic : forall Hroot w q e,
  snd (fork_strand Hroot w q) = Some e -> fst (fork_strand Hroot w q) = w.
Proof. exact fork_atomic_lemma. Qed.
Check fork_atomic : forall Hroot w q e,
  snd (fork_strand Hroot w q) = Some e -> fst (fork_strand Hroot w q) = w.
Print Assumptions fork_atomic.

(* A committed tick of one of the strand's heads changes no component of the parent lane, and a
   committed tick on the parent lane changes no component of the strand's lane. *)
Theorem lane_isolation : forall Hroot Hcommit w sid s hk p w',
  wf_strands (fst w) -> alookup sid (rt_strands (fst w)) = Some s ->
  tick Hroot Hcommit w hk p = Ok w' ->
  (In hk (st_heads s) ->
     alookup (st_src s) (rt_lanes (fst w')) = alookup (st_src s) (rt_lanes (fst w)) /\
     alookup (st_src s) (pv_lanes (snd w')) = alookup (st_src s) (pv_lanes (snd w))) /\
  (fst hk = st_src s ->
     alookup (st_child s) (rt_lanes (fst w')) = alookup (st_child s) (rt_lanes (fst w)) /\
     alookup (st_child s) (pv_lanes (snd w')) = alookup (st_child s) (pv_lanes (snd w))) /\
  rt_strands (fst w') = rt_strands (fst w) /\ rt_heads (fst w') = rt_heads (fst w).
Proof. exact lane_isolation_lemma. Qed.
Check lane_isolation : forall Hroot Hcommit w sid s hk p w',
  wf_strands (fst w) -> alookup sid (rt_strands (fst w)) = Some s ->
  tick Hroot Hcommit w hk p = Ok w' ->
  (In hk (st_heads s) ->
     alookup (st_src s) (rt_lanes (fst w')) = alookup (st_src s) (rt_lanes (fst w)) /\
     alookup (st_src s) (pv_lanes (snd w')) = alookup (st_src s) (pv_lanes (snd w))) /\
  (fst hk = st_src s ->
     alookup (st_child s) (rt_lanes (fst w')) = alookup (st_child s) (rt_lanes (fst w)) /\
     alookup (st_child s) (pv_lanes (snd w')) = alookup (st_child s) (pv_lanes (snd w))) /\
  rt_strands (fst w') = rt_strands (fst w) /\ rt_heads (fst w') = rt_heads (fst w).
Print Assumptions lane_isolation.

(* ... and the well-formedness it assumes is what fork_strand establishes and ticks keep. *)
Theorem strands_stay_wellformed : forall Hroot Hcommit w,
  wf_strands (fst w) ->
  (forall q w', fork_steps Hroot w q = Ok w' -> wf_strands (fst w')) /\
  (forall hk p w', tick Hroot Hcommit w hk p = Ok w' -> wf_strands (fst w')).
Proof. exact wf_strands_preserved. Qed.
Check strands_stay_wellformed : forall Hroot Hcommit w,
  wf_strands (fst w) ->
  (forall q w', fork_steps Hroot w q = Ok w' -> wf_strands (fst w')) /\
  (forall hk p w', tick Hroot Hcommit w hk p = Ok w' -> wf_strands (fst w')).
Print Assumptions strands_stay_wellformed.

(* The plan is a value computed from the strand record, the two frontiers and the two histories and from nothing
   else (it returns no state): two worlds that agree on those give the same plan, whatever else differs. *)
Theorem plan_pure_deterministic : forall Hroot Hart Hplural w1 w2 sid pol,
  alookup sid (rt_strands (fst w1)) = alookup sid (rt_strands (fst w2)) ->
  (forall s, alookup sid (rt_strands (fst w1)) = Some s ->
     alookup (st_src s) (rt_lanes (fst w1)) = alookup (st_src s) (rt_lanes (fst w2)) /\
     alookup (st_child s) (rt_lanes (fst w1)) = alookup (st_child s) (rt_lanes (fst w2)) /\
     alookup (st_src s) (pv_lanes (snd w1)) = alookup (st_src s) (pv_lanes (snd w2)) /\
     alookup (st_child s) (pv_lanes (snd w1)) = alookup (st_child s) (pv_lanes (snd w2))) ->
  plan Hroot Hart Hplural w1 sid pol = plan Hroot Hart Hplural w2 sid pol.
Proof. exact plan_frame. Qed.
Check plan_pure_deterministic : forall Hroot Hart Hplural w1 w2 sid pol,
  alookup sid (rt_strands (fst w1)) = alookup sid (rt_strands (fst w2)) ->
  (forall s, alookup sid (rt_strands (fst w1)) = Some s ->
     alookup (st_src s) (rt_lanes (fst w1)) = alookup (st_src s) (rt_lanes (fst w2)) /\
     alookup (st_child s) (rt_lanes (fst w1)) = alookup (st_child s) (rt_lanes (fst w2)) /\
     alookup (st_src s) (pv_lanes (snd w1)) = alookup (st_src s) (pv_lanes (snd w2)) /\
     alookup (st_child s) (pv_lanes (snd w1)) = alookup (st_child s) (pv_lanes (snd w2))) ->
  plan Hroot Hart Hplural w1 sid pol = plan Hroot Hart Hplural w2 sid pol.
Print Assumptions plan_pure_deterministic.

(* All-or-nothing execution: a settlement that returns an error (at any decision, or at the final shell append)
   leaves runtime and provenance exactly as they were. *)
Theorem settle_atomic : forall Hroot Hcommit Hart Hplural Hshell w sid pol e,
  snd (settle Hroot Hcommit Hart Hplural Hshell w sid pol) = Err e ->
  fst (settle Hroot Hcommit Hart Hplural Hshell w sid pol) = w.
Proof. exact settle_atomic_lemma. Qed.
Check settle_atomic : forall Hroot Hcommit Hart Hplural Hshell w sid pol e,
  snd (settle Hroot Hcommit Hart Hplural Hshell w sid pol) = Err e ->
  fst (settle Hroot Hcommit Hart Hplural Hshell w sid pol) = w.
Print Assumptions settle_atomic.

(* A slot the parent wrote since the fork keeps the parent's value through a successful settlement, provided the
   strand's patches declare their writes to such slots (honest_on; implied by honest_slots). *)
Theorem never_overwrite : forall Hroot Hcommit Hart Hplural Hshell w sid pol w' out s pfr pfr' pes ces x,
  settle Hroot Hcommit Hart Hplural Hshell w sid pol = (w', Ok out) ->
  alookup sid (rt_strands (fst w)) = Some s -> st_child s <> st_src s ->
  entries_of (snd w) (st_src s) = Some pes -> entries_of (snd w) (st_child s) = Some ces ->
  coherent (st_child s) ces ->
  alookup (st_src s) (rt_lanes (fst w)) = Some pfr ->
  alookup (st_src s) (rt_lanes (fst w')) = Some pfr' ->
  honest_on (parent_writes (skipnN (st_fork_tick s + 1) pes)) (skipnN (st_fork_tick s + 1) ces) ->
  memN x (parent_writes (skipnN (st_fork_tick s + 1) pes)) = true ->
  sget (f_state pfr') x = sget (f_state pfr) x.
Proof. exact never_overwrite_lemma. Qed.
Check never_overwrite : forall Hroot Hcommit Hart Hplural Hshell w sid pol w' out s pfr pfr' pes ces x,
  settle Hroot Hcommit Hart Hplural Hshell w sid pol = (w', Ok out) ->
  alookup sid (rt_strands (fst w)) = Some s -> st_child s <> st_src s ->
  entries_of (snd w) (st_src s) = Some pes -> entries_of (snd w) (st_child s) = Some ces ->
  coherent (st_child s) ces ->
  alookup (st_src s) (rt_lanes (fst w)) = Some pfr ->
  alookup (st_src s) (rt_lanes (fst w')) = Some pfr' ->
  honest_on (parent_writes (skipnN (st_fork_tick s + 1) pes)) (skipnN (st_fork_tick s + 1) ces) ->
  memN x (parent_writes (skipnN (st_fork_tick s + 1) pes)) = true ->
  sget (f_state pfr') x = sget (f_state pfr) x.
Print Assumptions never_overwrite.

(* Where the parent still agrees with the strand's fork state on a slot, the settled parent carries on that slot
   the value the strand had after its imported prefix (so in particular every slot written by an imported entry
   and untouched by the parent takes the strand's value). *)
Theorem import_takes_strand_values : forall Hroot Hcommit Hart Hplural Hshell w sid pol w' out s pfr pfr' ces x cst0 cstn,
  settle Hroot Hcommit Hart Hplural Hshell w sid pol = (w', Ok out) ->
  alookup sid (rt_strands (fst w)) = Some s -> st_child s <> st_src s ->
  entries_of (snd w) (st_child s) = Some ces -> coherent (st_child s) ces ->
  alookup (st_src s) (rt_lanes (fst w)) = Some pfr ->
  alookup (st_src s) (rt_lanes (fst w')) = Some pfr' ->
  sget (f_state pfr) x = sget cst0 x ->
  apply_entries cst0 (firstn (n_imports (pl_decisions (so_plan out))) (skipnN (st_fork_tick s + 1) ces)) = Some cstn ->
  sget (f_state pfr') x = sget cstn x.
Proof. exact import_takes_strand_values_lemma. Qed.
Check import_takes_strand_values : forall Hroot Hcommit Hart Hplural Hshell w sid pol w' out s pfr pfr' ces x cst0 cstn,
  settle Hroot Hcommit Hart Hplural Hshell w sid pol = (w', Ok out) ->
  alookup sid (rt_strands (fst w)) = Some s -> st_child s <> st_src s ->
  entries_of (snd w) (st_child s) = Some ces -> coherent (st_child s) ces ->
  alookup (st_src s) (rt_lanes (fst w)) = Some pfr ->
  alookup (st_src s) (rt_lanes (fst w')) = Some pfr' ->
  sget (f_state pfr) x = sget cst0 x ->
  apply_entries cst0 (firstn (n_imports (pl_decisions (so_plan out))) (skipnN (st_fork_tick s + 1) ces)) = Some cstn ->
  sget (f_state pfr') x = sget cstn x.
Print Assumptions import_takes_strand_values.

(* ... and the agreement assumed above is what an honest parent suffix gives off its declared writes. *)
Theorem parent_unchanged_off_its_writes : forall moved st0 st x,
  apply_entries st0 moved = Some st -> honest_slots moved ->
  memN x (parent_writes moved) = false -> sget st x = sget st0 x.
Proof. exact unchanged_off_writes. Qed.
Check parent_unchanged_off_its_writes : forall moved st0 st x,
  apply_entries st0 moved = Some st -> honest_slots moved ->
  memN x (parent_writes moved) = false -> sget st x = sget st0 x.
Print Assumptions parent_unchanged_off_its_writes.

(* The parent stays verifiable from its own history: if its history replayed (recorded roots checked) to its live
   state before, the extended history (one entry per decision) replays to the settled live state. *)
Theorem parent_stays_verifiable : forall Hroot Hcommit Hart Hplural Hshell w sid pol w' out s pfr pes,
  settle Hroot Hcommit Hart Hplural Hshell w sid pol = (w', Ok out) ->
  alookup sid (rt_strands (fst w)) = Some s ->
  alookup (st_src s) (rt_lanes (fst w)) = Some pfr -> entries_of (snd w) (st_src s) = Some pes ->
  replay_entries Hroot (f_init pfr) pes = Some (f_state pfr) ->
  exists pfr' pes' extra,
    alookup (st_src s) (rt_lanes (fst w')) = Some pfr' /\ entries_of (snd w') (st_src s) = Some pes' /\
    pes' = pes ++ extra /\ lenN extra = lenN (pl_decisions (so_plan out)) /\
    f_init pfr' = f_init pfr /\ f_tick pfr' = f_tick pfr + lenN extra /\
    replay_entries Hroot (f_init pfr') pes' = Some (f_state pfr').
Proof. exact parent_stays_verifiable_lemma. Qed.
Check parent_stays_verifiable : forall Hroot Hcommit Hart Hplural Hshell w sid pol w' out s pfr pes,
  settle Hroot Hcommit Hart Hplural Hshell w sid pol = (w', Ok out) ->
  alookup sid (rt_strands (fst w)) = Some s ->
  alookup (st_src s) (rt_lanes (fst w)) = Some pfr -> entries_of (snd w) (st_src s) = Some pes ->
  replay_entries Hroot (f_init pfr) pes = Some (f_state pfr) ->
  exists pfr' pes' extra,
    alookup (st_src s) (rt_lanes (fst w')) = Some pfr' /\ entries_of (snd w') (st_src s) = Some pes' /\
    pes' = pes ++ extra /\ lenN extra = lenN (pl_decisions (so_plan out)) /\
    f_init pfr' = f_init pfr /\ f_tick pfr' = f_tick pfr + lenN extra /\
    replay_entries Hroot (f_init pfr') pes' = Some (f_state pfr').
Print Assumptions parent_stays_verifiable.

(* The coordinate coherence assumed above (entry i of lane l says (l, i)) is an invariant of ticks, forks and
   settlements. *)
Theorem histories_stay_coherent : forall Hroot Hcommit Hart Hplural Hshell w,
  coherent_prov (snd w) ->
  (forall hk p w', tick Hroot Hcommit w hk p = Ok w' -> coherent_prov (snd w')) /\
  (forall q w', fork_steps Hroot w q = Ok w' -> coherent_prov (snd w')) /\
  (forall sid pol w' out, settle Hroot Hcommit Hart Hplural Hshell w sid pol = (w', Ok out) -> coherent_prov (snd w')).
Proof. exact coherent_preserved. Qed.
Check histories_stay_coherent : forall Hroot Hcommit Hart Hplural Hshell w,
  coherent_prov (snd w) ->
  (forall hk p w', tick Hroot Hcommit w hk p = Ok w' -> coherent_prov (snd w')) /\
  (forall q w', fork_steps Hroot w q = Ok w' -> coherent_prov (snd w')) /\
  (forall sid pol w' out, settle Hroot Hcommit Hart Hplural Hshell w sid pol = (w', Ok out) -> coherent_prov (snd w')).
Print Assumptions histories_stay_coherent.

(* Both invariants hold of the initial world (one registered worldline, no strand). *)
Theorem initial_world_wellformed : forall Hroot c,
  coherent_prov (snd (init_world Hroot c)) /\ wf_strands (fst (init_world Hroot c)).
Proof. exact init_world_wellformed. Qed.
Check initial_world_wellformed : forall Hroot c,
  coherent_prov (snd (init_world Hroot c)) /\ wf_strands (fst (init_world Hroot c)).
Print Assumptions initial_world_wellformed.

(* Non-vacuity.  One concrete run: a base tick, a fork at tick 0, a parent tick writing slot 13, and three
   strand ticks -- disjoint (writes 15), read-overlapping (reads 13, writes 11) and write-overlapping with a
   different value (writes 13).  The plan imports the first two (the second after a clean revalidation of slot
   13) and keeps the third as conflict residue; every hypothesis of the theorems above holds of this world; the
   parent keeps its own 13 and takes the strand's 15 and 11; and with the plural ids pre-bound the same
   settlement under the plural policy fails at the shell and changes nothing. *)
Example c15_nonvacuous :
  exists s pfr pes ces w' out pfr',
    alookup 0 (rt_strands (fst ex_w)) = Some s /\ st_child s <> st_src s /\ wf_strands (fst ex_w) /\
    entries_of (snd ex_w) (st_src s) = Some pes /\ entries_of (snd ex_w) (st_child s) = Some ces /\
    coherent (st_child s) ces /\ coherent_prov (snd ex_w) /\
    honest_slots (skipnN (st_fork_tick s + 1) ces) /\ honest_slots (skipnN (st_fork_tick s + 1) pes) /\
    alookup (st_src s) (rt_lanes (fst ex_w)) = Some pfr /\
    replay_entries c_root (f_init pfr) pes = Some (f_state pfr) /\
    settle_c ex_w 0 (mkPolicy 1 false) = (w', Ok out) /\
    map dec_obs (pl_decisions (so_plan out)) = [(1, 1, 0, 0, []); (1, 2, 0, 1, [13]); (2, 3, 4, 3, [13])] /\
    alookup (st_src s) (rt_lanes (fst w')) = Some pfr' /\
    parent_writes (skipnN (st_fork_tick s + 1) pes) = [13] /\
    (sget (f_state pfr) 13, sget (f_state pfr') 13, sget (f_state pfr') 15, sget (f_state pfr') 11)
      = (Some 5, Some 5, Some 7, Some 2) /\
    (* injected late failure under the plural policy: an error and an unchanged world *)
    (let wi := fst (prebind c_root c_art c_plural c_shell ex_w 0 (mkPolicy 2 true)) in
     snd (settle_c wi 0 (mkPolicy 2 true)) = Err EShell /\ fst (settle_c wi 0 (mkPolicy 2 true)) = wi).
Proof.
  do 7 eexists.
  split; [vm_compute; reflexivity|].
  split; [vm_compute; discriminate|].
  split; [apply wf_strandsb_spec; vm_compute; reflexivity|].
  split; [vm_compute; reflexivity|].
  split; [vm_compute; reflexivity|].
  split; [apply coherentb_spec; vm_compute; reflexivity|].
  split; [apply coherent_provb_spec; vm_compute; reflexivity|].
  split; [apply honest_slotsb_spec; vm_compute; reflexivity|].
  split; [apply honest_slotsb_spec; vm_compute; reflexivity|].
  split; [vm_compute; reflexivity|].
  split; [vm_compute; reflexivity|].
  split; [vm_compute; reflexivity|].
  split; [vm_compute; reflexivity|].
  split; [vm_compute; reflexivity|].
  split; [vm_compute; reflexivity|].
  split; [vm_compute; reflexivity|].
  cbv zeta. split; vm_compute; reflexivity.
Qed.
