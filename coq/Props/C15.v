(* C15 — speculative lanes fork faithfully and settle lawfully.
   Only property theorems live here: each is closed by [exact], pinned by [Check ... : statement]
   and followed by [Print Assumptions].  All statements hold for EVERY choice of the hash
   functions (state root, commit id, artifact ids, shell digest).
   PARTIAL by design (see props/c15.py): braid shell bodies, member blinding and retention posture
   are exercised by the tie, not modelled. *)
From Coq Require Import List NArith Bool.
From Echo Require Import Base.FinMap Model.Strand Proofs.StrandProofs.
Import ListNotations.
Open Scope N_scope.

(* Forking copies exactly the parent's history prefix (rewritten to the child lane) and touches
   no other history. *)
Theorem fork_prefix : forall Hroot w q w' es,
  fork_steps Hroot w q = Ok w' ->
  entries_of (snd w) (fq_src q) = Some es ->
  entries_of (snd w') (fq_child q) =
    Some (map (rewrite_entry (fq_src q) (fq_child q)) (firstnN (fq_tick q + 1) es)) /\
  fq_tick q < lenN es /\
  (forall l, l <> fq_child q -> alookup l (pv_lanes (snd w')) = alookup l (pv_lanes (snd w))) /\
  pv_shells (snd w') = pv_shells (snd w) /\ pv_plural_index (snd w') = pv_plural_index (snd w).
Proof. exact fork_prefix_lemma. Qed.
Check fork_prefix : forall Hroot w q w' es,
  fork_steps Hroot w q = Ok w' ->
  entries_of (snd w) (fq_src q) = Some es ->
  entries_of (snd w') (fq_child q) =
    Some (map (rewrite_entry (fq_src q) (fq_child q)) (firstnN (fq_tick q + 1) es)) /\
  fq_tick q < lenN es /\
  (forall l, l <> fq_child q -> alookup l (pv_lanes (snd w')) = alookup l (pv_lanes (snd w))) /\
  pv_shells (snd w') = pv_shells (snd w) /\ pv_plural_index (snd w') = pv_plural_index (snd w).
Print Assumptions fork_prefix.

(* The basis pins the source coordinate (lane, tick, commit id, boundary hash), and the child's
   entry at the fork tick carries the same commitments. *)
Theorem fork_basis_pinned : forall Hroot w q w',
  fork_steps Hroot w q = Ok w' ->
  exists s se es ces ce,
    alookup (fq_strand q) (rt_strands (fst w')) = Some s /\
    entries_of (snd w) (fq_src q) = Some es /\ nthN es (fq_tick q) = Some se /\
    entries_of (snd w') (fq_child q) = Some ces /\ nthN ces (fq_tick q) = Some ce /\
    st_src s = fq_src q /\ st_fork_tick s = fq_tick q /\
    st_commit s = e_commit se /\ st_boundary s = e_root se /\ st_ref s = e_ref se /\
    e_commit ce = e_commit se /\ e_root ce = e_root se /\ e_patch ce = e_patch se /\ e_lane ce = fq_child q.
Proof. exact fork_basis_lemma. Qed.
Check fork_basis_pinned : forall Hroot w q w',
  fork_steps Hroot w q = Ok w' ->
  exists s se es ces ce,
    alookup (fq_strand q) (rt_strands (fst w')) = Some s /\
    entries_of (snd w) (fq_src q) = Some es /\ nthN es (fq_tick q) = Some se /\
    entries_of (snd w') (fq_child q) = Some ces /\ nthN ces (fq_tick q) = Some ce /\
    st_src s = fq_src q /\ st_fork_tick s = fq_tick q /\
    st_commit s = e_commit se /\ st_boundary s = e_root se /\ st_ref s = e_ref se /\
    e_commit ce = e_commit se /\ e_root ce = e_root se /\ e_patch ce = e_patch se /\ e_lane ce = fq_child q.
Print Assumptions fork_basis_pinned.

(* No shared writer heads: the strand's heads live on the child lane, were not registered before
   and none of them belongs to the source lane; all old heads stay registered. *)
Theorem fork_heads_fresh : forall Hroot w q w',
  fork_steps Hroot w q = Ok w' ->
  exists s, alookup (fq_strand q) (rt_strands (fst w')) = Some s /\
    st_heads s = fq_heads q /\ st_child s = fq_child q /\ st_src s = fq_src q /\
    st_child s <> st_src s /\
    rt_heads (fst w') = rt_heads (fst w) ++ st_heads s /\
    (forall hk, In hk (st_heads s) ->
       fst hk = st_child s /\ fst hk <> st_src s /\ existsb (hkey_eqb hk) (rt_heads (fst w)) = false) /\
    amem (st_child s) (rt_lanes (fst w)) = false.
Proof. exact fork_heads_fresh_lemma. Qed.
Check fork_heads_fresh : forall Hroot w q w',
  fork_steps Hroot w q = Ok w' ->
  exists s, alookup (fq_strand q) (rt_strands (fst w')) = Some s /\
    st_heads s = fq_heads q /\ st_child s = fq_child q /\ st_src s = fq_src q /\
    st_child s <> st_src s /\
    rt_heads (fst w') = rt_heads (fst w) ++ st_heads s /\
    (forall hk, In hk (st_heads s) ->
       fst hk = st_child s /\ fst hk <> st_src s /\ existsb (hkey_eqb hk) (rt_heads (fst w)) = false) /\
    amem (st_child s) (rt_lanes (fst w)) = false.
Print Assumptions fork_heads_fresh.

(* A failed fork leaves runtime and provenance exactly as they were. *)
Theorem fork_atomic : forall Hroot w q e,
  snd (fork_strand Hroot w q) = Some e -> fst (fork_strand Hroot w q) = w.
Proof. exact fork_atomic_lemma. Qed.
Check fork_atomic : forall Hroot w q e,
  snd (fork_strand Hroot w q) = Some e -> fst (fork_strand Hroot w q) = w.
Print Assumptions fork_atomic.

(* A committed tick of one of the strand's heads changes no component of the parent lane, and a
   committed tick on the parent lane changes no component of the strand's lane. *)
Theorem lane_isolation : forall Hroot Hcommit w sid s hk p w',
  wf_strands (fst w) -> alookup sid (rt_strands (fst w)) = Some s ->
  tick Hroot Hcommit w hk p = Ok w' ->
  (In hk (st_heads s) ->
     alookup (st_src s) (rt_lanes (fst w')) = alookup (st_src s) (rt_lanes (fst w)) /\
     alookup (st_src s) (pv_lanes (snd w')) = alookup (st_src s) (pv_lanes (snd w))) /\
  (fst hk = st_src s ->
     alookup (st_child s) (rt_lanes (fst w')) = alookup (st_child s) (rt_lanes (fst w)) /\
     alookup (st_child s) (pv_lanes (snd w')) = alookup (st_child s) (pv_lanes (snd w))) /\
  rt_strands (fst w') = rt_strands (fst w) /\ rt_heads (fst w') = rt_heads (fst w).
Proof. exact lane_isolation_lemma. Qed.
Check lane_isolation : forall Hroot Hcommit w sid s hk p w',
  wf_strands (fst w) -> alookup sid (rt_strands (fst w)) = Some s ->
  tick Hroot Hcommit w hk p = Ok w' ->
  (In hk (st_heads s) ->
     alookup (st_src s) (rt_lanes (fst w')) = alookup (st_src s) (rt_lanes (fst w)) /\
     alookup (st_src s) (pv_lanes (snd w')) = alookup (st_src s) (pv_lanes (snd w))) /\
  (fst hk = st_src s ->
     alookup (st_child s) (rt_lanes (fst w')) = alookup (st_child s) (rt_lanes (fst w)) /\
     alookup (st_child s) (pv_lanes (snd w')) = alookup (st_child s) (pv_lanes (snd w))) /\
  rt_strands (fst w') = rt_strands (fst w) /\ rt_heads (fst w') = rt_heads (fst w).
Print Assumptions lane_isolation.

(* ... and the well-formedness it assumes is what fork_strand establishes and ticks keep. *)
Theorem strands_stay_wellformed : forall Hroot Hcommit w,
  wf_strands (fst w) ->
  (forall q w', fork_steps Hroot w q = Ok w' -> wf_strands (fst w')) /\
  (forall hk p w', tick Hroot Hcommit w hk p = Ok w' -> wf_strands (fst w')).
Proof. exact wf_strands_preserved. Qed.
Check strands_stay_wellformed : forall Hroot Hcommit w,
  wf_strands (fst w) ->
  (forall q w', fork_steps Hroot w q = Ok w' -> wf_strands (fst w')) /\
  (forall hk p w', tick Hroot Hcommit w hk p = Ok w' -> wf_strands (fst w')).
Print Assumptions strands_stay_wellformed.
