(* C16 — observation is read-only and bound to its coordinate.
   Only property theorems live here: each is closed by [exact], pinned by [Check ... : statement] and followed by
   [Print Assumptions].  Read-only-ness itself is vacuous for a Gallina function and is NOT claimed here: it is
   checked on the implementation by fingerprints around every read (props/c16.py, harness c16.rs).
   Tick numbering follows the code's documented convention: [ATick t] names committed append t, i.e. the state
   after commit t = replay cursor coordinate t+1. *)
From Coq Require Import List NArith Bool.
From Echo Require Import Base.Bytes Model.Observe Proofs.ObserveProofs.
Import ListNotations.
Open Scope N_scope.

(* A reading depends only on the named worldline's record, the installed observers and (through the documented
   freshness field only) the global tick: no other worldline, live or recorded, can influence it. *)
Theorem observe_bound_to_worldline : forall (St P : Type) (W W' : world St P) r,
  lookupN (r_wl r) (lines W) = lookupN (r_wl r) (lines W') -> queries W = queries W' ->
  mask (observe W r) = mask (observe W' r) /\ (gtick W = gtick W' -> observe W r = observe W' r).
Proof. exact observe_bound. Qed.
Check observe_bound_to_worldline : forall (St P : Type) (W W' : world St P) r,
  lookupN (r_wl r) (lines W) = lookupN (r_wl r) (lines W') -> queries W = queries W' ->
  mask (observe W r) = mask (observe W' r) /\ (gtick W = gtick W' -> observe W r = observe W' r).
Print Assumptions observe_bound_to_worldline.

(* A historical read is unaffected by later commits on that worldline, by anything that happens to other
   worldlines (commits, forks) and by the passage of global ticks, modulo the freshness field. *)
Theorem observe_historical_stable : forall (St P : Type) (W W' : world St P) r id (w w' : wline St P) t more,
  r_wl r = id -> r_at r = ATick t ->
  lookupN id (lines W) = Some w -> lookupN id (lines W') = Some w' ->
  w_hist w' = w_hist w ++ more -> strand_id_of w' = strand_id_of w -> queries W' = queries W ->
  t < lenN (w_hist w) ->
  mask (observe W' r) = mask (observe W r).
Proof. exact historical_stable. Qed.
Check observe_historical_stable : forall (St P : Type) (W W' : world St P) r id (w w' : wline St P) t more,
  r_wl r = id -> r_at r = ATick t ->
  lookupN id (lines W) = Some w -> lookupN id (lines W') = Some w' ->
  w_hist w' = w_hist w ++ more -> strand_id_of w' = strand_id_of w -> queries W' = queries W ->
  t < lenN (w_hist w) ->
  mask (observe W' r) = mask (observe W r).
Print Assumptions observe_historical_stable.

(* A historical read equals the reading projected from the state replayed (and verified) at that coordinate. *)
Theorem observe_matches_replay : forall (St P : Type) (apply : St -> P -> option St) (root : St -> N)
    (W : world St P) r id (w : wline St P) t e s,
  r_wl r = id -> r_at r = ATick t -> lookupN id (lines W) = Some w ->
  nthN (w_hist w) t = Some e -> replay apply root w (t + 1) = Some s ->
  observe W r = project root W w r t e s.
Proof. exact matches_replay. Qed.
Check observe_matches_replay : forall (St P : Type) (apply : St -> P -> option St) (root : St -> N)
    (W : world St P) r id (w : wline St P) t e s,
  r_wl r = id -> r_at r = ATick t -> lookupN id (lines W) = Some w ->
  nthN (w_hist w) t = Some e -> replay apply root w (t + 1) = Some s ->
  observe W r = project root W w r t e s.
Print Assumptions observe_matches_replay.

(* Unavailable history is a typed obstruction ... *)
Theorem observe_unavailable : forall (St P : Type) (W : world St P) r id (w : wline St P) t,
  r_wl r = id -> r_at r = ATick t -> lookupN id (lines W) = Some w -> lenN (w_hist w) <= t ->
  valid_pair (r_frame r) (kind_of (r_proj r)) = true -> validate_contract (queries W) r = None ->
  observe W r = Obstruction (EInvalidTick t).
Proof. exact unavailable. Qed.
Check observe_unavailable : forall (St P : Type) (W : world St P) r id (w : wline St P) t,
  r_wl r = id -> r_at r = ATick t -> lookupN id (lines W) = Some w -> lenN (w_hist w) <= t ->
  valid_pair (r_frame r) (kind_of (r_proj r)) = true -> validate_contract (queries W) r = None ->
  observe W r = Obstruction (EInvalidTick t).
Print Assumptions observe_unavailable.

(* ... and never a reading of some other state, whatever else the request says. *)
Theorem observe_unavailable_never_reads : forall (St P : Type) (W : world St P) r id (w : wline St P) t,
  r_wl r = id -> r_at r = ATick t -> lookupN id (lines W) = Some w -> lenN (w_hist w) <= t ->
  exists e, observe W r = Obstruction e.
Proof. exact unavailable_never_reads. Qed.
Check observe_unavailable_never_reads : forall (St P : Type) (W : world St P) r id (w : wline St P) t,
  r_wl r = id -> r_at r = ATick t -> lookupN id (lines W) = Some w -> lenN (w_hist w) <= t ->
  exists e, observe W r = Obstruction e.
Print Assumptions observe_unavailable_never_reads.

Theorem observe_unknown_worldline : forall (St P : Type) (W : world St P) r,
  lookupN (r_wl r) (lines W) = None -> observe W r = Obstruction EInvalidWorldline.
Proof. exact unknown_worldline. Qed.
Check observe_unknown_worldline : forall (St P : Type) (W : world St P) r,
  lookupN (r_wl r) (lines W) = None -> observe W r = Obstruction EInvalidWorldline.
Print Assumptions observe_unknown_worldline.

(* The frame/projection validity matrix is exactly the four centralised pairs, and the obstruction names the
   request's own frame and projection kind. *)
Theorem frame_projection_matrix_exact : forall (St P : Type) (W : world St P) r (w : wline St P),
  lookupN (r_wl r) (lines W) = Some w ->
  let f := r_frame r in let k := kind_of (r_proj r) in
  (observe W r = Obstruction (EUnsupportedFrameProjection f k) <->
   ~ ((f = FCommitBoundary /\ (k = KHead \/ k = KSnapshot)) \/ (f = FRecordedTruth /\ k = KTruth) \/ (f = FQueryView /\ k = KQuery)))
  /\ (forall f' k', observe W r = Obstruction (EUnsupportedFrameProjection f' k') -> f' = f /\ k' = k).
Proof. exact matrix_exact. Qed.
Check frame_projection_matrix_exact : forall (St P : Type) (W : world St P) r (w : wline St P),
  lookupN (r_wl r) (lines W) = Some w ->
  let f := r_frame r in let k := kind_of (r_proj r) in
  (observe W r = Obstruction (EUnsupportedFrameProjection f k) <->
   ~ ((f = FCommitBoundary /\ (k = KHead \/ k = KSnapshot)) \/ (f = FRecordedTruth /\ k = KTruth) \/ (f = FQueryView /\ k = KQuery)))
  /\ (forall f' k', observe W r = Obstruction (EUnsupportedFrameProjection f' k') -> f' = f /\ k' = k).
Print Assumptions frame_projection_matrix_exact.

(* Recorded truth of a worldline without commits is unavailable at every coordinate (never the U0 state). *)
Theorem recorded_truth_needs_a_commit : forall (St P : Type) (W : world St P) r (w : wline St P),
  lookupN (r_wl r) (lines W) = Some w -> w_hist w = [] -> r_frame r = FRecordedTruth ->
  exists e, observe W r = Obstruction e /\
    (kind_of (r_proj r) = KTruth -> validate_contract (queries W) r = None ->
     e = match r_at r with AFrontier => EObservationUnavailable | ATick t => EInvalidTick t end).
Proof. exact truth_needs_commit. Qed.
Check recorded_truth_needs_a_commit : forall (St P : Type) (W : world St P) r (w : wline St P),
  lookupN (r_wl r) (lines W) = Some w -> w_hist w = [] -> r_frame r = FRecordedTruth ->
  exists e, observe W r = Obstruction e /\
    (kind_of (r_proj r) = KTruth -> validate_contract (queries W) r = None ->
     e = match r_at r with AFrontier => EObservationUnavailable | ATick t => EInvalidTick t end).
Print Assumptions recorded_truth_needs_a_commit.

(* A frontier reading shows the last recorded commit (root, commit id, commit cycle, witness), with the
   documented tick numbering per frame. *)
Theorem frontier_reads_last_commit : forall (St P : Type) (W : world St P) r (w : wline St P) e a,
  lookupN (r_wl r) (lines W) = Some w -> last_opt (w_hist w) = Some e -> r_at r = AFrontier ->
  observe W r = Reading a ->
  rs_root (a_resolved a) = e_root e /\ rs_commit (a_resolved a) = e_commit e /\ rs_cgt (a_resolved a) = Some (e_gtick e) /\
  a_witness a = WCommit {| pr_wl := r_wl r; pr_tick := lenN (w_hist w) - 1; pr_commit := e_commit e |} /\
  rs_tick (a_resolved a) = (match r_frame r with FRecordedTruth => lenN (w_hist w) - 1 | _ => lenN (w_hist w) end).
Proof. exact frontier_last_commit. Qed.
Check frontier_reads_last_commit : forall (St P : Type) (W : world St P) r (w : wline St P) e a,
  lookupN (r_wl r) (lines W) = Some w -> last_opt (w_hist w) = Some e -> r_at r = AFrontier ->
  observe W r = Reading a ->
  rs_root (a_resolved a) = e_root e /\ rs_commit (a_resolved a) = e_commit e /\ rs_cgt (a_resolved a) = Some (e_gtick e) /\
  a_witness a = WCommit {| pr_wl := r_wl r; pr_tick := lenN (w_hist w) - 1; pr_commit := e_commit e |} /\
  rs_tick (a_resolved a) = (match r_frame r with FRecordedTruth => lenN (w_hist w) - 1 | _ => lenN (w_hist w) end).
Print Assumptions frontier_reads_last_commit.

(* A truth reading at tick t carries exactly the filtered recorded outputs of entry t, in recorded order, bound to
   that entry's root and commit id. *)
Theorem truth_payload_is_recorded_outputs : forall (St P : Type) (W : world St P) r (w : wline St P) t e f a,
  lookupN (r_wl r) (lines W) = Some w -> r_at r = ATick t -> nthN (w_hist w) t = Some e ->
  r_proj r = PTruth f -> observe W r = Reading a ->
  a_payload a = PlTruth (filter_outputs f (e_outputs e)) /\
  (forall c d, In (c, d) (filter_outputs f (e_outputs e)) -> In (c, d) (e_outputs e)) /\
  rs_root (a_resolved a) = e_root e /\ rs_commit (a_resolved a) = e_commit e /\ rs_tick (a_resolved a) = t.
Proof. exact truth_payload. Qed.
Check truth_payload_is_recorded_outputs : forall (St P : Type) (W : world St P) r (w : wline St P) t e f a,
  lookupN (r_wl r) (lines W) = Some w -> r_at r = ATick t -> nthN (w_hist w) t = Some e ->
  r_proj r = PTruth f -> observe W r = Reading a ->
  a_payload a = PlTruth (filter_outputs f (e_outputs e)) /\
  (forall c d, In (c, d) (filter_outputs f (e_outputs e)) -> In (c, d) (e_outputs e)) /\
  rs_root (a_resolved a) = e_root e /\ rs_commit (a_resolved a) = e_commit e /\ rs_tick (a_resolved a) = t.
Print Assumptions truth_payload_is_recorded_outputs.

(* An optic reading is exactly the bridged commit-boundary observation under the optic's byte budget ... *)
Theorem optic_reading_is_bridged_observation : forall (St P : Type) (W : world St P) q a,
  observe_optic W q = OReading a ->
  exists r, optic_to_request q = inr r /\ observe W r = Reading a /\
            r_frame r = FCommitBoundary /\ (r_proj r = PHead \/ r_proj r = PSnapshot) /\
            (forall mb, o_max_bytes q = Some mb -> exists mw, r_budget r = BBounded mb mw).
Proof. exact optic_bridged. Qed.
Check optic_reading_is_bridged_observation : forall (St P : Type) (W : world St P) q a,
  observe_optic W q = OReading a ->
  exists r, optic_to_request q = inr r /\ observe W r = Reading a /\
            r_frame r = FCommitBoundary /\ (r_proj r = PHead \/ r_proj r = PSnapshot) /\
            (forall mb, o_max_bytes q = Some mb -> exists mw, r_budget r = BBounded mb mw).
Print Assumptions optic_reading_is_bridged_observation.

(* ... and an optic aimed at an unavailable tick (by tick or by provenance ref) is obstructed, never read. *)
Theorem optic_unavailable_is_obstruction : forall (St P : Type) (W : world St P) q id (w : wline St P) t,
  o_coord q = CoWorldline id (OcTick t) \/
    (exists c, o_coord q = CoWorldline id (OcProvenance {| pr_wl := id; pr_tick := t; pr_commit := c |})) ->
  lookupN id (lines W) = Some w -> lenN (w_hist w) <= t ->
  exists k, observe_optic W q = OObstructed k.
Proof. exact optic_unavailable. Qed.
Check optic_unavailable_is_obstruction : forall (St P : Type) (W : world St P) q id (w : wline St P) t,
  o_coord q = CoWorldline id (OcTick t) \/
    (exists c, o_coord q = CoWorldline id (OcProvenance {| pr_wl := id; pr_tick := t; pr_commit := c |})) ->
  lookupN id (lines W) = Some w -> lenN (w_hist w) <= t ->
  exists k, observe_optic W q = OObstructed k.
Print Assumptions optic_unavailable_is_obstruction.

(* Non-vacuity: a concrete two-worldline world (state = a counter, patch = increment, root = 100 + counter) in
   which the hypotheses of the theorems above are met by non-trivial values: worldline 7 has three verified commits
   with recorded outputs, worldline 9 is a strand child. *)
Definition ex_apply (s p : N) : option N := Some (s + p).
Definition ex_root (s : N) : N := 100 + s.
Definition ex_e (p g r c : N) (o : list (N * bytes)) : entry N := Build_entry N p g r c o.
Definition ex_w7 : wline N N :=
  Build_wline N N 0 100 500
    [ex_e 1 1 101 501 [(3, [1; 2]); (1, [9])]; ex_e 2 2 103 503 []; ex_e 4 5 107 507 [(2, [7])]] None [1].
Definition ex_w9 : wline N N := Build_wline N N 0 100 500 [ex_e 1 1 101 501 []] (Some (77, LAtAnchor)) [].
Definition ex_W : world N N := Build_world N N [(7, ex_w7); (9, ex_w9)] 5 [(4, Build_aplan 1 2 3 4 5 6)].
Definition ex_W' : world N N :=
  Build_world N N [(9, ex_w9);
                   (7, Build_wline N N 0 100 500 (w_hist ex_w7 ++ [ex_e 8 9 115 515 [(1, [1])]]) None [])] 9
              [(4, Build_aplan 1 2 3 4 5 6)].
Definition ex_req (a : at_) (f : frame) (p : proj) (b : bplan) : request :=
  Build_request 7 a f p (OBuiltin b) None BUnbounded RPublic.

Example c16_nonvacuous :
  (* replay verifies all three commits of worldline 7 *)
  replay ex_apply ex_root ex_w7 3 = Some 7 /\
  (* a historical truth read returns the filtered recorded outputs in recorded order, and is stable *)
  (exists a, observe ex_W (ex_req (ATick 0) FRecordedTruth (PTruth (Some [1; 3])) BTruth) = Reading a /\
             a_payload a = PlTruth [(3, [1; 2]); (1, [9])] /\ rs_root (a_resolved a) = 101) /\
  mask (observe ex_W' (ex_req (ATick 1) FCommitBoundary PHead BHead)) =
    mask (observe ex_W (ex_req (ATick 1) FCommitBoundary PHead BHead)) /\
  observe ex_W' (ex_req (ATick 1) FCommitBoundary PHead BHead) <> observe ex_W (ex_req (ATick 1) FCommitBoundary PHead BHead) /\
  observe ex_W (ex_req (ATick 1) FCommitBoundary PSnapshot BSnapshot) =
    project ex_root ex_W ex_w7 (ex_req (ATick 1) FCommitBoundary PSnapshot BSnapshot) 1 (ex_e 2 2 103 503 []) 3 /\
  (* the frontier moved, the historical coordinate did not *)
  observe ex_W (ex_req (ATick 3) FCommitBoundary PHead BHead) = Obstruction (EInvalidTick 3) /\
  (exists a, observe ex_W' (ex_req (ATick 3) FCommitBoundary PHead BHead) = Reading a /\ rs_root (a_resolved a) = 115) /\
  observe ex_W (ex_req AFrontier FRecordedTruth PHead BHead) = Obstruction (EUnsupportedFrameProjection FRecordedTruth KHead) /\
  observe ex_W (Build_request 8 AFrontier FCommitBoundary PHead (OBuiltin BHead) None BUnbounded RPublic) = Obstruction EInvalidWorldline /\
  (* strand child: historical posture; optic bridge reads and obstructs *)
  (exists a, observe ex_W (Build_request 9 (ATick 0) FCommitBoundary PHead (OBuiltin BHead) None BUnbounded RPublic) = Reading a /\
             a_posture a = PoHistorical 77) /\
  (exists a, observe_optic ex_W (Build_optic_request (FoWorldline 7) (CoWorldline 7 OcFrontier) ShHead (Some 4096) (Some 2) None DBoundaryOnly) = OReading a /\
             rs_tick (a_resolved a) = 3 /\ rs_root (a_resolved a) = 107) /\
  observe_optic ex_W (Build_optic_request (FoWorldline 7) (CoWorldline 7 (OcTick 3)) ShHead (Some 4096) (Some 1) None DBoundaryOnly) = OObstructed OMissingWitness /\
  observe_optic ex_W (Build_optic_request (FoWorldline 7) (CoWorldline 7 OcFrontier) ShHead (Some 4096) (Some 1) None DBoundaryOnly) = OObstructed OLiveTailRequiresReduction /\
  (* the artifact identity preimage is domain-separated canonical CBOR: it starts with the domain string and a 5-entry map *)
  (exists a, observe ex_W (ex_req AFrontier FCommitBoundary PHead BHead) = Reading a /\
             firstn 5 (artifact_preimage a) = [101; 99; 104; 111; 58] /\ nth 29 (artifact_preimage a) 0 = 165).
Proof.
  split; [vm_compute; reflexivity|].
  split; [eexists; split; [vm_compute; reflexivity|split; reflexivity]|].
  split; [vm_compute; reflexivity|].
  split; [vm_compute; discriminate|].
  split; [vm_compute; reflexivity|].
  split; [vm_compute; reflexivity|].
  split; [eexists; split; [vm_compute; reflexivity|reflexivity]|].
  split; [vm_compute; reflexivity|].
  split; [vm_compute; reflexivity|].
  split; [eexists; split; [vm_compute; reflexivity|reflexivity]|].
  split; [eexists; split; [vm_compute; reflexivity|split; reflexivity]|].
  split; [vm_compute; reflexivity|].
  split; [vm_compute; reflexivity|].
  eexists; split; [vm_compute; reflexivity|split; vm_compute; reflexivity].
Qed.
