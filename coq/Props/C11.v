(* C11 -- the log rejects corruption instead of reinterpreting it.
   Only property theorems live here: each is closed by [exact], pinned by [Check ... : statement]
   and followed by [Print Assumptions].  The hash function is a universally quantified parameter.

   The structural part (deletion / duplication / reordering of commit markers) was FALSE of the code
   before /repo commit a96d311 (finding F7: previous_*_digest fields are written but never compared,
   a commit marker only selected "its" frames); the model follows the fixed code. *)
From Coq Require Import List NArith.
From Echo Require Import Base.Bytes Model.Wal Proofs.WalProofs Proofs.WalProofs2 Proofs.WalProofs3
  Proofs.WalProofs5 Proofs.WalProofs6.
Import ListNotations.
Open Scope N_scope.

(* Structural edits of commit markers.  recover_from_frames_and_commits is given the frames of a valid
   log (plus any uncommitted tail) and ANY list built from that log's own commit markers - markers
   removed, duplicated, reordered.  If it succeeds, the list is a prefix of the log's markers and the
   recovered history is the corresponding prefix of the committed history; every other selection is an
   error.  (Detected by the commit-marker tiling check added to /repo in commit a96d311; before that
   commit every selection was accepted - finding F7, see the regression Example below.)
   Hypothesis "LSN space not exhausted": no transaction ends at LSN 2^64-1 (Lsn::checked_next). *)
Theorem commit_selection_detected : forall (H : bytes -> N) l0 ts extra cs r,
  log_valid H l0 ts -> consec (l0 + lenN (log_frames ts)) extra ->
  Forall (fun f => frame_check H f = None) extra ->
  Forall (fun t => c_last (w_commit t) <> 2 ^ 64 - 1) ts ->
  incl cs (map w_commit ts) -> log_frames ts <> [] ->
  recover_fc H (log_frames ts ++ extra) cs = Ok r ->
  exists n, cs = map w_commit (firstn n ts) /\ fst r = map rtx_of (firstn n ts).
Proof. exact WalProofs2.commit_selection_detected. Qed.
Check commit_selection_detected : forall (H : bytes -> N) l0 ts extra cs r,
  log_valid H l0 ts -> consec (l0 + lenN (log_frames ts)) extra ->
  Forall (fun f => frame_check H f = None) extra ->
  Forall (fun t => c_last (w_commit t) <> 2 ^ 64 - 1) ts ->
  incl cs (map w_commit ts) -> log_frames ts <> [] ->
  recover_fc H (log_frames ts ++ extra) cs = Ok r ->
  exists n, cs = map w_commit (firstn n ts) /\ fst r = map rtx_of (firstn n ts).
Print Assumptions commit_selection_detected.

(* ---- what IS detected: damage inside a disk record ----
   Bytes [d] of the right length replace record [r] of a log (flipped bits, zeroed ranges, anything).
   Records before it are unaffected; then the reader returns an error, or classifies a torn tail
   (exactly the records before [r]: a prefix of the history), or - the explicit hash event - its
   digest check passes at that position on bytes that are not the original record. *)
Theorem record_damage : forall (H : bytes -> N) rs r d post,
  Forall (lrec_wf H) rs -> Forall payload_small rs ->
  length d = lrec_size r -> d <> enc_lrec H r ->
  (exists e, read_segment H (encode_log H rs ++ d ++ post) = Err e) \/
  read_segment H (encode_log H rs ++ d ++ post) = Ok (rs, true) \/
  AcceptsAt H (d ++ post).
Proof. exact record_damage_segment. Qed.
Check record_damage : forall (H : bytes -> N) rs r d post,
  Forall (lrec_wf H) rs -> Forall payload_small rs ->
  length d = lrec_size r -> d <> enc_lrec H r ->
  (exists e, read_segment H (encode_log H rs ++ d ++ post) = Err e) \/
  read_segment H (encode_log H rs ++ d ++ post) = Ok (rs, true) \/
  AcceptsAt H (d ++ post).
Print Assumptions record_damage.

(* The hash event classified.  Damage of the kind byte / payload that leaves the length field and the
   stored digest alone (every bit flip and zeroed range inside a payload): rejected, or a collision. *)
Theorem payload_damage_detected : forall (H : bytes -> N) (A : Type) (dec : N -> bytes -> res A)
  kind payload kind' payload' rest fuel,
  kind < 256 -> lenN payload < 2 ^ 64 -> length payload' = length payload ->
  (kind', payload') <> (kind, payload) ->
  read_loop H dec (S fuel)
    ((hdr17 kind' (lenN payload) ++ payload' ++ h32b (disk_digest H kind payload)) ++ rest) = Err EDigest \/
  Collision32 H.
Proof. exact payload_damage_collision. Qed.
Check payload_damage_detected : forall (H : bytes -> N) (A : Type) (dec : N -> bytes -> res A)
  kind payload kind' payload' rest fuel,
  kind < 256 -> lenN payload < 2 ^ 64 -> length payload' = length payload ->
  (kind', payload') <> (kind, payload) ->
  read_loop H dec (S fuel)
    ((hdr17 kind' (lenN payload) ++ payload' ++ h32b (disk_digest H kind payload)) ++ rest) = Err EDigest \/
  Collision32 H.
Print Assumptions payload_damage_detected.

(* Damage confined to the 32 stored digest bytes is ALWAYS rejected (no assumption on the hash). *)
Theorem digest_damage_rejected : forall (H : bytes -> N) (A : Type) (dec : N -> bytes -> res A)
  kind payload dg' rest fuel,
  kind < 256 -> lenN payload < 2 ^ 64 -> length dg' = 32%nat -> wf_bytes dg' = true ->
  dg' <> h32b (disk_digest H kind payload) ->
  read_loop H dec (S fuel) ((hdr17 kind (lenN payload) ++ payload ++ dg') ++ rest) = Err EDigest.
Proof. exact digest_damage_detected. Qed.
Check digest_damage_rejected : forall (H : bytes -> N) (A : Type) (dec : N -> bytes -> res A)
  kind payload dg' rest fuel,
  kind < 256 -> lenN payload < 2 ^ 64 -> length dg' = 32%nat -> wf_bytes dg' = true ->
  dg' <> h32b (disk_digest H kind payload) ->
  read_loop H dec (S fuel) ((hdr17 kind (lenN payload) ++ payload ++ dg') ++ rest) = Err EDigest.
Print Assumptions digest_damage_rejected.

(* ---- what IS detected at the frame level: LSN continuity ----
   (transaction-local index, record count, records root and commit digest are checked by
   validate_tx; their detection is exercised exhaustively by harness mode `api`, not proved here) *)
Theorem interior_frame_deletion_rejected : forall (H : bytes -> N) l0 a f b cs,
  consec l0 (a ++ f :: b) -> Forall (fun g => frame_check H g = None) (a ++ f :: b) ->
  a <> [] -> b <> [] ->
  recover_fc H (a ++ b) cs = Err VLsn.
Proof. exact interior_frame_deletion_detected. Qed.
Check interior_frame_deletion_rejected : forall (H : bytes -> N) l0 a f b cs,
  consec l0 (a ++ f :: b) -> Forall (fun g => frame_check H g = None) (a ++ f :: b) ->
  a <> [] -> b <> [] ->
  recover_fc H (a ++ b) cs = Err VLsn.
Print Assumptions interior_frame_deletion_rejected.

Theorem duplicated_frame_rejected : forall (H : bytes -> N) l0 a f b cs,
  consec l0 (a ++ f :: b) -> Forall (fun g => frame_check H g = None) (a ++ f :: b) ->
  recover_fc H (a ++ f :: f :: b) cs = Err VLsn.
Proof. exact duplicated_frame_detected. Qed.
Check duplicated_frame_rejected : forall (H : bytes -> N) l0 a f b cs,
  consec l0 (a ++ f :: b) -> Forall (fun g => frame_check H g = None) (a ++ f :: b) ->
  recover_fc H (a ++ f :: f :: b) cs = Err VLsn.
Print Assumptions duplicated_frame_rejected.

(* Non-vacuity and regression witness for F7 (replayed on the real crate by harness modes api / edit /
   hostedit): a valid three-transaction log; the full marker list recovers it; without the middle
   marker, with it duplicated, or with two markers exchanged, recovery is an LSN-continuity error
   (before the fix these returned transactions [1;3], [1;2;2;3] and [2;1;3] with a Clean tail). *)
Example c11_witness :
  log_valid exH 0 ex_log /\
  recover_fc exH (log_frames ex_log) (map w_commit ex_log) = Ok (map rtx_of ex_log, TClean) /\
  recover_fc exH (log_frames ex_log) (map w_commit [ex_t1; ex_t3]) = Err VLsn /\
  recover_fc exH (log_frames ex_log) (map w_commit [ex_t1; ex_t2; ex_t2; ex_t3]) = Err VLsn /\
  recover_fc exH (log_frames ex_log) (map w_commit [ex_t2; ex_t1; ex_t3]) = Err VLsn /\
  summarize (recover_segment exH 1 (encode_log exH (remove_nth 4 (log_recs ex_log)))) =
    summarize (Err VLsn).
Proof.
  split; [exact ex_log_valid|]. repeat split; vm_compute; reflexivity.
Qed.

(* The theorems above quantify over logs written by any number of writer epochs (a commit marker and its
   frames carry the epoch: c_epoch / f_epoch; the tiling check ignores it).  Non-vacuity for that case:
   a valid log written by three writer epochs (5, 6, 7, 7); removing the last marker of an epoch or the
   first marker of its successor - with later markers of other epochs surviving - is an error, through
   the marker vector and through the bytes. *)
Example c11_multi_epoch :
  log_valid exH 0 ex_log2 /\
  map (fun t => c_epoch (w_commit t)) ex_log2 = [5; 6; 7; 7] /\
  recover_fc exH (log_frames ex_log2) (map w_commit ex_log2) = Ok (map rtx_of ex_log2, TClean) /\
  recover_fc exH (log_frames ex_log2) (map w_commit [ex2_t1; ex2_t3; ex2_t4]) = Err VLsn /\
  recover_fc exH (log_frames ex_log2) (map w_commit [ex2_t1; ex2_t2; ex2_t4]) = Err VLsn /\
  recover_fc exH (log_frames ex_log2) (map w_commit [ex2_t2; ex2_t3; ex2_t4]) = Err VLsn /\
  summarize (recover_segment exH 1 (encode_log exH (remove_nth 4 (log_recs ex_log2)))) = summarize (Err VLsn) /\
  summarize (recover_store exH (encode_log exH (remove_nth 4 (log_recs ex_log2)))) = summarize (Err VLsn).
Proof.
  split; [exact ex2_log_valid|]. repeat split; vm_compute; reflexivity.
Qed.
