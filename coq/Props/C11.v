(* C11 -- the log rejects corruption instead of reinterpreting it.
   Only property theorems live here: each is closed by [exact], pinned by [Check ... : statement]
   and followed by [Print Assumptions].  The hash function is a universally quantified parameter.

   Full statement of the structural part (DESIGN 5, C11):
     structural_edit : for deletion, duplication, adjacent swap of whole valid records,
                       recover (edit log) = Err _ \/ the result is a prefix of the committed history.
   It is FALSE of the faithful model for commit markers: previous_frame_digest and
   previous_committed_transaction_digest are written but never compared on read, and a commit
   marker only selects "its" frames.  The refutations below are universal (every valid log), the
   Example gives the concrete vm_compute witness; what IS detected is stated after them. *)
From Coq Require Import List NArith.
From Echo Require Import Base.Bytes Model.Wal Proofs.WalProofs Proofs.WalProofs2 Proofs.WalProofs3
  Proofs.WalProofs5 Proofs.WalProofs6.
Import ListNotations.
Open Scope N_scope.

(* On the frames of a valid log (plus any uncommitted tail) EVERY selection of its commit markers -
   omissions, repetitions, any order - is accepted, each marker yielding its transaction. *)
Theorem commit_markers_unchained_refuted : forall (H : bytes -> N) l0 ts extra sel,
  log_valid H l0 ts -> consec (l0 + lenN (log_frames ts)) extra ->
  Forall (fun f => frame_check H f = None) extra -> incl sel ts ->
  recover_fc H (log_frames ts ++ extra) (map w_commit sel) =
  Ok (map rtx_of sel, fc_tail (log_frames ts ++ extra) (map w_commit sel)).
Proof. exact recover_fc_selected. Qed.
Check commit_markers_unchained_refuted : forall (H : bytes -> N) l0 ts extra sel,
  log_valid H l0 ts -> consec (l0 + lenN (log_frames ts)) extra ->
  Forall (fun f => frame_check H f = None) extra -> incl sel ts ->
  recover_fc H (log_frames ts ++ extra) (map w_commit sel) =
  Ok (map rtx_of sel, fc_tail (log_frames ts ++ extra) (map w_commit sel)).
Print Assumptions commit_markers_unchained_refuted.

(* Removing the commit marker of any transaction but the last: accepted, the transaction vanishes,
   the tail is reported Clean. *)
Theorem commit_removal_refuted : forall (H : bytes -> N) l0 a t b,
  log_valid H l0 (a ++ t :: b) -> b <> [] ->
  recover_fc H (log_frames (a ++ t :: b)) (map w_commit (a ++ b)) = Ok (map rtx_of (a ++ b), TClean).
Proof. exact commit_removal_accepted. Qed.
Check commit_removal_refuted : forall (H : bytes -> N) l0 a t b,
  log_valid H l0 (a ++ t :: b) -> b <> [] ->
  recover_fc H (log_frames (a ++ t :: b)) (map w_commit (a ++ b)) = Ok (map rtx_of (a ++ b), TClean).
Print Assumptions commit_removal_refuted.

(* A duplicated commit marker: accepted, the transaction is returned twice. *)
Theorem commit_duplicate_refuted : forall (H : bytes -> N) l0 a t b,
  log_valid H l0 (a ++ t :: b) ->
  recover_fc H (log_frames (a ++ t :: b)) (map w_commit (a ++ t :: t :: b)) =
  Ok (map rtx_of (a ++ t :: t :: b), TClean).
Proof. exact commit_duplicate_accepted. Qed.
Check commit_duplicate_refuted : forall (H : bytes -> N) l0 a t b,
  log_valid H l0 (a ++ t :: b) ->
  recover_fc H (log_frames (a ++ t :: b)) (map w_commit (a ++ t :: t :: b)) =
  Ok (map rtx_of (a ++ t :: t :: b), TClean).
Print Assumptions commit_duplicate_refuted.

(* Two adjacent commit markers exchanged: accepted, the transactions come back in the wrong order. *)
Theorem commit_swap_refuted : forall (H : bytes -> N) l0 a t1 t2 b,
  log_valid H l0 (a ++ t1 :: t2 :: b) -> b <> [] ->
  recover_fc H (log_frames (a ++ t1 :: t2 :: b)) (map w_commit (a ++ t2 :: t1 :: b)) =
  Ok (map rtx_of (a ++ t2 :: t1 :: b), TClean).
Proof. exact commit_swap_accepted. Qed.
Check commit_swap_refuted : forall (H : bytes -> N) l0 a t1 t2 b,
  log_valid H l0 (a ++ t1 :: t2 :: b) -> b <> [] ->
  recover_fc H (log_frames (a ++ t1 :: t2 :: b)) (map w_commit (a ++ t2 :: t1 :: b)) =
  Ok (map rtx_of (a ++ t2 :: t1 :: b), TClean).
Print Assumptions commit_swap_refuted.

(* ---- what IS detected: damage inside a disk record ----
   Bytes [d] of the right length replace record [r] of a log (flipped bits, zeroed ranges, anything).
   Records before it are unaffected; then the reader returns an error, or classifies a torn tail
   (exactly the records before [r]: a prefix of the history), or - the explicit hash event - its
   digest check passes at that position on bytes that are not the original record. *)
Theorem record_damage : forall (H : bytes -> N) rs r d post,
  Forall (lrec_wf H) rs -> Forall payload_small rs ->
  length d = lrec_size r -> d <> enc_lrec H r ->
  (exists e, read_segment H (encode_log H rs ++ d ++ post) = Err e) \/
  read_segment H (encode_log H rs ++ d ++ post) = Ok (rs, true) \/
  AcceptsAt H (d ++ post).
Proof. exact record_damage_segment. Qed.
Check record_damage : forall (H : bytes -> N) rs r d post,
  Forall (lrec_wf H) rs -> Forall payload_small rs ->
  length d = lrec_size r -> d <> enc_lrec H r ->
  (exists e, read_segment H (encode_log H rs ++ d ++ post) = Err e) \/
  read_segment H (encode_log H rs ++ d ++ post) = Ok (rs, true) \/
  AcceptsAt H (d ++ post).
Print Assumptions record_damage.

(* The hash event classified.  Damage of the kind byte / payload that leaves the length field and the
   stored digest alone (every bit flip and zeroed range inside a payload): rejected, or a collision. *)
Theorem payload_damage_detected : forall (H : bytes -> N) (A : Type) (dec : N -> bytes -> res A)
  kind payload kind' payload' rest fuel,
  kind < 256 -> lenN payload < 2 ^ 64 -> length payload' = length payload ->
  (kind', payload') <> (kind, payload) ->
  read_loop H dec (S fuel)
    ((hdr17 kind' (lenN payload) ++ payload' ++ h32b (disk_digest H kind payload)) ++ rest) = Err EDigest \/
  Collision32 H.
Proof. exact payload_damage_collision. Qed.
Check payload_damage_detected : forall (H : bytes -> N) (A : Type) (dec : N -> bytes -> res A)
  kind payload kind' payload' rest fuel,
  kind < 256 -> lenN payload < 2 ^ 64 -> length payload' = length payload ->
  (kind', payload') <> (kind, payload) ->
  read_loop H dec (S fuel)
    ((hdr17 kind' (lenN payload) ++ payload' ++ h32b (disk_digest H kind payload)) ++ rest) = Err EDigest \/
  Collision32 H.
Print Assumptions payload_damage_detected.

(* Damage confined to the 32 stored digest bytes is ALWAYS rejected (no assumption on the hash). *)
Theorem digest_damage_rejected : forall (H : bytes -> N) (A : Type) (dec : N -> bytes -> res A)
  kind payload dg' rest fuel,
  kind < 256 -> lenN payload < 2 ^ 64 -> length dg' = 32%nat -> wf_bytes dg' = true ->
  dg' <> h32b (disk_digest H kind payload) ->
  read_loop H dec (S fuel) ((hdr17 kind (lenN payload) ++ payload ++ dg') ++ rest) = Err EDigest.
Proof. exact digest_damage_detected. Qed.
Check digest_damage_rejected : forall (H : bytes -> N) (A : Type) (dec : N -> bytes -> res A)
  kind payload dg' rest fuel,
  kind < 256 -> lenN payload < 2 ^ 64 -> length dg' = 32%nat -> wf_bytes dg' = true ->
  dg' <> h32b (disk_digest H kind payload) ->
  read_loop H dec (S fuel) ((hdr17 kind (lenN payload) ++ payload ++ dg') ++ rest) = Err EDigest.
Print Assumptions digest_damage_rejected.

(* ---- what IS detected at the frame level: LSN continuity ----
   (transaction-local index, record count, records root and commit digest are checked by
   validate_tx; their detection is exercised exhaustively by harness mode `api`, not proved here) *)
Theorem interior_frame_deletion_rejected : forall (H : bytes -> N) l0 a f b cs,
  consec l0 (a ++ f :: b) -> Forall (fun g => frame_check H g = None) (a ++ f :: b) ->
  a <> [] -> b <> [] ->
  recover_fc H (a ++ b) cs = Err VLsn.
Proof. exact interior_frame_deletion_detected. Qed.
Check interior_frame_deletion_rejected : forall (H : bytes -> N) l0 a f b cs,
  consec l0 (a ++ f :: b) -> Forall (fun g => frame_check H g = None) (a ++ f :: b) ->
  a <> [] -> b <> [] ->
  recover_fc H (a ++ b) cs = Err VLsn.
Print Assumptions interior_frame_deletion_rejected.

Theorem duplicated_frame_rejected : forall (H : bytes -> N) l0 a f b cs,
  consec l0 (a ++ f :: b) -> Forall (fun g => frame_check H g = None) (a ++ f :: b) ->
  recover_fc H (a ++ f :: f :: b) cs = Err VLsn.
Proof. exact duplicated_frame_detected. Qed.
Check duplicated_frame_rejected : forall (H : bytes -> N) l0 a f b cs,
  consec l0 (a ++ f :: b) -> Forall (fun g => frame_check H g = None) (a ++ f :: b) ->
  recover_fc H (a ++ f :: f :: b) cs = Err VLsn.
Print Assumptions duplicated_frame_rejected.

(* Non-vacuity and the concrete witness (replayed on the real crate by harness modes api / edit /
   hostedit): a valid three-transaction log; without the middle commit marker recovery returns
   transactions 1 and 3 with a Clean tail; with it duplicated, four transactions. *)
Example c11_witness :
  log_valid exH 0 ex_log /\
  recover_fc exH (log_frames ex_log) (map w_commit [ex_t1; ex_t3]) = Ok (map rtx_of [ex_t1; ex_t3], TClean) /\
  recover_fc exH (log_frames ex_log) (map w_commit [ex_t1; ex_t2; ex_t2; ex_t3]) =
    Ok (map rtx_of [ex_t1; ex_t2; ex_t2; ex_t3], TClean) /\
  summarize (recover_segment exH 1 (encode_log exH (remove_nth 4 (log_recs ex_log)))) =
    summarize (Ok (map rtx_of [ex_t1; ex_t3], TClean)).
Proof.
  split; [exact ex_log_valid|]. split; [|split].
  - exact (commit_removal_accepted exH 0 [ex_t1] ex_t2 [ex_t3] ex_log_valid ltac:(discriminate)).
  - exact (commit_duplicate_accepted exH 0 [ex_t1] ex_t2 [ex_t3] ex_log_valid).
  - vm_compute. reflexivity.
Qed.
