(* C17 — external actions move once through request, claim and settlement, durably.
   Only property theorems live here: each is closed by [exact], pinned by
   [Check ... : statement] and followed by [Print Assumptions].

   [H] is an arbitrary hash function, [D] the depth of the sparse Merkle index, [EH] the table of
   empty-subtree hashes; every statement quantifies over ARBITRARY operation sequences [ops]
   (valid and invalid arguments, store faults, crash/recover and tail truncation steps) run from
   the empty store.  state_after = final (store, coordinator); trace_of = (operation, result) list. *)
From Coq Require Import List NArith.
From Echo Require Import Base.FinMap Base.Bytes Model.ExtAct Proofs.ExtActProofs.
Import ListNotations.
Open Scope N_scope.

(* For every request id the recorded lifecycle (the committed records naming it, in log order)
   is a prefix of requested, claimed, settled. *)
Theorem lifecycle_prefix : forall H D EH ops k,
  exists sfx, steps_of k (sto_committed (sy_store (state_after H D EH ops))) ++ sfx
              = [SRequested; SClaimed; SSettled].
Proof. exact lifecycle_prefix_run. Qed.
Check lifecycle_prefix : forall H D EH ops k,
  exists sfx, steps_of k (sto_committed (sy_store (state_after H D EH ops))) ++ sfx
              = [SRequested; SClaimed; SSettled].
Print Assumptions lifecycle_prefix.

(* At most one claim grant is ever issued per request id, over the whole history (across faults,
   recoveries and re-presented tokens) ... *)
Theorem one_claim : forall H D EH ops k,
  (length (filter (is_claim_grant k) (trace_of H D EH ops)) <= 1)%nat.
Proof. exact one_claim_run. Qed.
Check one_claim : forall H D EH ops k,
  (length (filter (is_claim_grant k) (trace_of H D EH ops)) <= 1)%nat.
Print Assumptions one_claim.

(* ... and every grant ever handed out for that id (by the claim itself or reconstructed after a
   crash by claim_grant) carries the same claim and the same commit. *)
Theorem grants_agree : forall H D EH ops o1 r1 c1 n1 o2 r2 c2 n2,
  In (o1, OutGrant r1 c1 n1) (trace_of H D EH ops) -> In (o2, OutGrant r2 c2 n2) (trace_of H D EH ops) ->
  rq_id r1 = rq_id r2 -> c1 = c2 /\ n1 = n2.
Proof. exact grants_agree_run. Qed.
Check grants_agree : forall H D EH ops o1 r1 c1 n1 o2 r2 c2 n2,
  In (o1, OutGrant r1 c1 n1) (trace_of H D EH ops) -> In (o2, OutGrant r2 c2 n2) (trace_of H D EH ops) ->
  rq_id r1 = rq_id r2 -> c1 = c2 /\ n1 = n2.
Print Assumptions grants_agree.

(* A settlement is in the log only for the exact claimed attempt of a recorded request and
   within the declared bounds (bytes <= request budget <= 1 MiB, digest bound to the bytes,
   schema and basis of the request, non-zero evidence). *)
Theorem settlement_exact_attempt_and_bounds : forall H D EH ops st n,
  has (sto_committed (sy_store (state_after H D EH ops))) n (BSettle st) ->
  exists r cl nr nc,
    has (sto_committed (sy_store (state_after H D EH ops))) nr (BRequest r) /\
    has (sto_committed (sy_store (state_after H D EH ops))) nc (BClaim cl) /\
    rq_id r = st_request st /\ cl_request cl = st_request st /\
    st_attempt st = cl_attempt cl /\ st_adapter st = cl_adapter cl /\
    cl_attempt cl = attempt_id H (rq_id r) (cl_ordinal cl) (cl_adapter cl) (cl_lease cl) (cl_policy cl) /\
    cl_ordinal cl < rq_max_attempts r /\ rq_max_attempts r = 1 /\
    st_basis st = rq_basis r /\ st_schema st = rq_set_schema r /\
    lenN (st_bytes st) <= rq_max_bytes r /\ rq_max_bytes r <= MAX_SETTLEMENT_BYTES /\
    H32 H (st_bytes st) = st_digest st /\ st_schema_ev st <> 0 /\ st_ext_ev st <> 0.
Proof. exact settlement_exact_run. Qed.
Check settlement_exact_attempt_and_bounds : forall H D EH ops st n,
  has (sto_committed (sy_store (state_after H D EH ops))) n (BSettle st) ->
  exists r cl nr nc,
    has (sto_committed (sy_store (state_after H D EH ops))) nr (BRequest r) /\
    has (sto_committed (sy_store (state_after H D EH ops))) nc (BClaim cl) /\
    rq_id r = st_request st /\ cl_request cl = st_request st /\
    st_attempt st = cl_attempt cl /\ st_adapter st = cl_adapter cl /\
    cl_attempt cl = attempt_id H (rq_id r) (cl_ordinal cl) (cl_adapter cl) (cl_lease cl) (cl_policy cl) /\
    cl_ordinal cl < rq_max_attempts r /\ rq_max_attempts r = 1 /\
    st_basis st = rq_basis r /\ st_schema st = rq_set_schema r /\
    lenN (st_bytes st) <= rq_max_bytes r /\ rq_max_bytes r <= MAX_SETTLEMENT_BYTES /\
    H32 H (st_bytes st) = st_digest st /\ st_schema_ev st <> 0 /\ st_ext_ev st <> 0.
Print Assumptions settlement_exact_attempt_and_bounds.

(* Every authority ever returned (request token, claim grant, admitted settlement; fresh or
   reconstructed or answered to a retry) is justified by a committed record with that commit id;
   the committed log is append-only (the model appends the record before it builds the result),
   so the record is still there at the end of any continuation. *)
Theorem log_before_grant : forall H D EH ops o r,
  In (o, r) (trace_of H D EH ops) -> grant_backed r (sto_committed (sy_store (state_after H D EH ops))).
Proof. exact log_before_grant_run. Qed.
Check log_before_grant : forall H D EH ops o r,
  In (o, r) (trace_of H D EH ops) -> grant_backed r (sto_committed (sy_store (state_after H D EH ops))).
Print Assumptions log_before_grant.

(* A store fault never yields a grant and never changes the index; unless the commit marker
   became durable before the fault (FailAfterSync) the committed log is unchanged as well, i.e.
   a partial transaction is invisible. *)
Theorem fault_without_grant : forall H D EH s o,
  op_fault o <> NoFault ->
  is_grant (snd (step H D EH s o)) = false /\
  co_index (sy_coord (fst (step H D EH s o))) = co_index (sy_coord s) /\
  (op_fault o <> FailAfterSync ->
   sto_committed (sy_store (fst (step H D EH s o))) = sto_committed (sy_store s)).
Proof. exact fault_step. Qed.
Check fault_without_grant : forall H D EH s o,
  op_fault o <> NoFault ->
  is_grant (snd (step H D EH s o)) = false /\
  co_index (sy_coord (fst (step H D EH s o))) = co_index (sy_coord s) /\
  (op_fault o <> FailAfterSync ->
   sto_committed (sy_store (fst (step H D EH s o))) = sto_committed (sy_store s)).
Print Assumptions fault_without_grant.

(* Crash after any operation sequence: recovery from the store returns exactly the live
   coordinator (index with every entry, Merkle node map hence root digest, continuation, and
   therefore every reconstructible grant) whenever the live coordinator is usable ... *)
Theorem recover_eq_live : forall H D EH ops,
  co_ready (sy_coord (state_after H D EH ops)) = true ->
  recover H D EH (sy_store (state_after H D EH ops)) = Ok (sy_coord (state_after H D EH ops)).
Proof. exact recover_eq_live_run. Qed.
Check recover_eq_live : forall H D EH ops,
  co_ready (sy_coord (state_after H D EH ops)) = true ->
  recover H D EH (sy_store (state_after H D EH ops)) = Ok (sy_coord (state_after H D EH ops)).
Print Assumptions recover_eq_live.

(* ... and in every state (also after faults, i.e. at the crash points inside a transaction) the
   committed log is recoverable once the uncommitted tail is dropped; what is recovered is the
   live index, or the live index advanced by the single transaction whose acknowledgement was
   lost. *)
Theorem recover_after_crash : forall H D EH ops,
  let s := state_after H D EH ops in
  exists co, recover H D EH (truncate (sy_store s)) = Ok co /\ co_ready co = true /\
    (co_ready (sy_coord s) = true -> co = sy_coord s) /\
    (co_index co = co_index (sy_coord s) \/
     exists l t, sto_committed (sy_store s) = l ++ [t] /\ observe H D EH l = Ok (co_index (sy_coord s)) /\
                 observe H D EH (l ++ [t]) = Ok (co_index co)).
Proof. exact recover_after_crash_run. Qed.
Check recover_after_crash : forall H D EH ops,
  let s := state_after H D EH ops in
  exists co, recover H D EH (truncate (sy_store s)) = Ok co /\ co_ready co = true /\
    (co_ready (sy_coord s) = true -> co = sy_coord s) /\
    (co_index co = co_index (sy_coord s) \/
     exists l t, sto_committed (sy_store s) = l ++ [t] /\ observe H D EH l = Ok (co_index (sy_coord s)) /\
                 observe H D EH (l ++ [t]) = Ok (co_index co)).
Print Assumptions recover_after_crash.

(* A retry is answered from the retained result and appends nothing: the state (store and
   coordinator) is unchanged and the only settlement it can return is the retained one, which
   equals the candidate, with its original commit. *)
Theorem retry_from_retained : forall H D EH s cand,
  fst (step H D EH s (ORetry cand)) = s /\
  (forall st c, snd (step H D EH s (ORetry cand)) = OutAdmitted st c ->
     exists e, get (co_index (sy_coord s)) (st_request cand) = Some e /\
               e_settlement e = Some st /\ e_settlement_commit e = Some c /\ st = cand).
Proof. intros H D EH s cand. split; [exact (retry_state H D EH s cand)|exact (retry_sound H D EH s cand)]. Qed.
Check retry_from_retained : forall H D EH s cand,
  fst (step H D EH s (ORetry cand)) = s /\
  (forall st c, snd (step H D EH s (ORetry cand)) = OutAdmitted st c ->
     exists e, get (co_index (sy_coord s)) (st_request cand) = Some e /\
               e_settlement e = Some st /\ e_settlement_commit e = Some c /\ st = cand).
Print Assumptions retry_from_retained.

(* The incrementally maintained sparse Merkle index (one key path rewritten per insert or
   replace, siblings read from the retained node map) has the root of the tree rebuilt from the
   entries alone, for every depth and every sequence of inserts/replaces. *)
Theorem incremental_root_eq_rebuilt : forall H D EH,
  EH = empty_table H D D ->
  forall es, (forall e, In e es -> rq_id (e_request e) < 2 ^ N.of_nat D) ->
  root_digest EH (fold_left (upsert H D EH) es empty_index)
  = spec_root H D (ix_entries (fold_left (upsert H D EH) es empty_index)).
Proof. exact root_rebuilt. Qed.
Check incremental_root_eq_rebuilt : forall H D EH,
  EH = empty_table H D D ->
  forall es, (forall e, In e es -> rq_id (e_request e) < 2 ^ N.of_nat D) ->
  root_digest EH (fold_left (upsert H D EH) es empty_index)
  = spec_root H D (ix_entries (fold_left (upsert H D EH) es empty_index)).
Print Assumptions incremental_root_eq_rebuilt.

(* ... in particular for the coordinator's index at depth 256 after any operation sequence. *)
Theorem coordinator_root_eq_rebuilt : forall H ops,
  let EH := empty_table H 256 256 in
  let idx := co_index (sy_coord (state_after H 256 EH ops)) in
  root_digest EH idx = spec_root H 256 (ix_entries idx).
Proof. exact root_rebuilt_run. Qed.
Check coordinator_root_eq_rebuilt : forall H ops,
  let EH := empty_table H 256 256 in
  let idx := co_index (sy_coord (state_after H 256 EH ops)) in
  root_digest EH idx = spec_root H 256 (ix_entries idx).
Print Assumptions coordinator_root_eq_rebuilt.

(* Non-vacuity: a concrete history under real BLAKE3 at depth 256 -- request, duplicate request,
   claim, a second claim with the same token, a flush fault on the settlement (crash inside the
   transaction), truncation, recovery, reconstructed grant, settlement, retry -- produces grants,
   rejections, a three-record log, one claim grant, and recovery equal to the live coordinator. *)
Definition ex_r0 : request :=
  {| rq_id := 0; rq_worldline := 7; rq_op := 11; rq_in_schema := 12; rq_set_schema := 13; rq_scope := 14;
     rq_basis := 15; rq_max_bytes := 64; rq_max_attempts := 1; rq_input := 16; rq_recon := 17 |}.
Definition ex_r : request := match new_request B3.hash ex_r0 with Ok r => r | Err _ => ex_r0 end.
Definition ex_auth : authz :=
  match authorize B3.hash [(11, (14, 99))] ex_r 99 with
  | Ok a => a
  | Err _ => {| au_adapter := 0; au_op := 0; au_scope := 0; au_request := 0; au_basis := 0; au_policy := 0 |}
  end.
Definition ex_claim : claim := claim_for_request B3.hash ex_r 99 0 5 (au_policy ex_auth).
Definition ex_cand : settle :=
  {| st_request := rq_id ex_r; st_attempt := cl_attempt ex_claim; st_adapter := 99; st_kind := Succeeded;
     st_schema := 13; st_basis := 15; st_bytes := [1; 2; 3]; st_digest := result_digest B3.hash [1; 2; 3];
     st_schema_ev := 8; st_ext_ev := 9 |}.
Definition ex_ops : list op :=
  [ORequest ex_r NoFault; ORequest ex_r NoFault; OClaim ex_r ex_auth 15 0 5 NoFault;
   OClaim ex_r ex_auth 15 0 5 NoFault; OSettle ex_r ex_claim 1 ex_cand FailFlush; ORecover; OTruncate; ORecover;
   OClaimGrant (rq_id ex_r); OSettle ex_r ex_claim 1 ex_cand NoFault; ORetry ex_cand;
   OSettle ex_r ex_claim 1 ex_cand NoFault].
Definition out_class (o : out) : N :=
  match o with OutToken _ _ => 1 | OutGrant _ _ _ => 2 | OutAdmitted _ _ => 3 | OutRecovered => 4 | OutErr _ => 5 end.

Example c17_nonvacuous :
  let s := state_after B3.hash DEPTH EH256 ex_ops in
  map (fun x => out_class (snd x)) (trace_of B3.hash DEPTH EH256 ex_ops) = [1; 5; 2; 5; 5; 5; 4; 4; 2; 3; 3; 5] /\
  steps_of (rq_id ex_r) (sto_committed (sy_store s)) = [SRequested; SClaimed; SSettled] /\
  length (filter (is_claim_grant (rq_id ex_r)) (trace_of B3.hash DEPTH EH256 ex_ops)) = 1%nat /\
  co_ready (sy_coord s) = true /\
  recover B3.hash DEPTH EH256 (sy_store s) = Ok (sy_coord s) /\
  EH256 = empty_table B3.hash DEPTH DEPTH.
Proof. vm_compute. repeat split; reflexivity. Qed.

(* ... and for the Merkle statement a depth-3 tree under a toy hash: inserts, a replace and the
   rebuilt root coincide (and differ from the empty root). *)
Definition toy_hash (l : bytes) : N := fold_left (fun a b => (a * 31 + b + 7) mod 1000003) l 5.
Definition ex_entry (k v : N) : entry :=
  mk_requested {| rq_id := k; rq_worldline := v; rq_op := 0; rq_in_schema := 0; rq_set_schema := 0; rq_scope := 0;
                  rq_basis := 0; rq_max_bytes := 1; rq_max_attempts := 1; rq_input := 0; rq_recon := 0 |} 0.
Example c17_merkle_nonvacuous :
  let EH := empty_table toy_hash 3 3 in
  let idx := fold_left (upsert toy_hash 3 EH) [ex_entry 5 1; ex_entry 2 2; ex_entry 7 3; ex_entry 2 9] empty_index in
  root_digest EH idx = spec_root toy_hash 3 (ix_entries idx) /\
  root_digest EH idx <> root_digest EH empty_index /\ length (ix_entries idx) = 3%nat.
Proof. vm_compute. repeat split; try reflexivity. discriminate. Qed.
