(* C06 — the state root commits to exactly the reachable state.
   Only property theorems live here: each is closed by [exact], pinned by
   [Check ... : statement] and followed by [Print Assumptions]. *)
From Coq Require Import List NArith Permutation.
From Echo Require Import Base.FinMap Base.Bytes Model.Root Proofs.RootProofs Proofs.RootProofs2 Proofs.RootProofs3 Proofs.RootProofs4 Proofs.RootProofs5.
Import ListNotations.
Open Scope N_scope.

(* collect_reachable_graph (queue, visiting order, fuel) computes exactly the inductive
   reachability relation: sound, complete, and the fuel never runs out. *)
Theorem reach_bfs_sound_complete : forall s r,
  exists rn rw, reach s r = (rn, rw) /\
    sorted nkey_cmp rn /\ sorted N.compare rw /\
    (forall k, nmem k rn = true <-> Reach s r k) /\
    (forall w, wmem w rw = true <-> ReachW s r w).
Proof. exact reach_spec. Qed.
Check reach_bfs_sound_complete : forall s r,
  exists rn rw, reach s r = (rn, rw) /\
    sorted nkey_cmp rn /\ sorted N.compare rw /\
    (forall k, nmem k rn = true <-> Reach s r k) /\
    (forall w, wmem w rw = true <-> ReachW s r w).
Print Assumptions reach_bfs_sound_complete.

(* The preimage depends on the state only through its reachable content ... *)
Theorem root_layout_free : forall s1 s2 r,
  reach_content s1 r = reach_content s2 r -> root_preimage s1 r = root_preimage s2 r.
Proof. exact root_layout_free_w. Qed.
Check root_layout_free : forall s1 s2 r,
  reach_content s1 r = reach_content s2 r -> root_preimage s1 r = root_preimage s2 r.
Print Assumptions root_layout_free.

(* ... and the reachable content does not depend on bucket insertion order, nor on anything
   unreachable (nodes, edges, attachments, instances): two well-formed states that agree at every
   key reachable in the first have the same content and the same preimage. *)
Theorem root_layout_free_sem : forall s1 s2 r,
  wf_state s1 = true -> wf_state s2 = true -> agree_on_reachable s1 s2 r ->
  reach_content s1 r = reach_content s2 r /\ root_preimage s1 r = root_preimage s2 r.
Proof.
  exact (fun s1 s2 r W1 W2 HA =>
    conj (reach_content_layout_free_w s1 s2 r W1 W2 HA) (root_layout_free_sem_w s1 s2 r W1 W2 HA)).
Qed.
Check root_layout_free_sem : forall s1 s2 r,
  wf_state s1 = true -> wf_state s2 = true -> agree_on_reachable s1 s2 r ->
  reach_content s1 r = reach_content s2 r /\ root_preimage s1 r = root_preimage s2 r.
Print Assumptions root_layout_free_sem.

(* FULL statement (false of the code as it is, DESIGN F3):
     root_injective : forall H s1 r1 s2 r2, state_root H s1 r1 = state_root H s2 r2 ->
                        reach_content s1 r1 = reach_content s2 r2 \/ Collision H.
   The preimage carries no node / bucket / instance counts, so it is not uniquely decodable:
   f3_a (one node record with a 31-byte atom) and f3_b (no node record, one edge bucket) have the
   same preimage, hence the same root under every hash function. *)
Theorem root_injective_refuted :
  exists s1 s2 r, root_preimage s1 r = root_preimage s2 r /\ reach_content s1 r <> reach_content s2 r.
Proof. exact root_injective_refuted_w. Qed.
Check root_injective_refuted :
  exists s1 s2 r, root_preimage s1 r = root_preimage s2 r /\ reach_content s1 r <> reach_content s2 r.
Print Assumptions root_injective_refuted.

(* What does hold: with the section counts (skeleton) equal, equal roots mean equal content
   (root key, every node type, edge id/type/target, attachment tag/type/length/bytes, instance
   root/parent) or a hash collision.  Missing for the full statement: the counts themselves. *)
Theorem root_injective_same_skeleton_partial : forall (H : bytes -> N) s1 s2 r1 r2,
  content_ok (reach_content s1 r1) -> content_ok (reach_content s2 r2) ->
  skeleton (reach_content s1 r1) = skeleton (reach_content s2 r2) ->
  state_root H s1 r1 = state_root H s2 r2 ->
  reach_content s1 r1 = reach_content s2 r2 \/ Collision H.
Proof. exact state_root_same_skeleton_w. Qed.
Check root_injective_same_skeleton_partial : forall (H : bytes -> N) s1 s2 r1 r2,
  content_ok (reach_content s1 r1) -> content_ok (reach_content s2 r2) ->
  skeleton (reach_content s1 r1) = skeleton (reach_content s2 r2) ->
  state_root H s1 r1 = state_root H s2 r2 ->
  reach_content s1 r1 = reach_content s2 r2 \/ Collision H.
Print Assumptions root_injective_same_skeleton_partial.

(* Every single mutation of the reachable content changes the preimage: any in-place change
   (skeleton kept: a field, an attachment, an edge added to / removed from an existing bucket),
   and adding or removing one node record, one bucket or one instance section.  Partial: a state
   edit that changes reachability may amount to several such steps at once (explored on the
   implementation by the mutation oracle instead). *)
Theorem root_single_mutation_partial : forall c1 c2,
  content_ok c1 -> content_ok c2 -> content_mut c1 c2 ->
  enc_content c1 <> enc_content c2 /\ enc_content c2 <> enc_content c1.
Proof. exact content_mut_changes_preimage. Qed.
Check root_single_mutation_partial : forall c1 c2,
  content_ok c1 -> content_ok c2 -> content_mut c1 c2 ->
  enc_content c1 <> enc_content c2 /\ enc_content c2 <> enc_content c1.
Print Assumptions root_single_mutation_partial.

(* root_preimage really is the encoding of the content the two theorems above talk about *)
Theorem root_preimage_is_content_encoding : forall s r,
  root_preimage s r = enc_content (reach_content s r).
Proof. exact root_preimage_factor. Qed.
Check root_preimage_is_content_encoding : forall s r,
  root_preimage s r = enc_content (reach_content s r).
Print Assumptions root_preimage_is_content_encoding.

(* The second, columnar implementation (SnapshotAccumulator: from_warp_state, compute_reachability,
   compute_state_root) feeds the hasher exactly the same bytes as snapshot.rs on every well-formed
   state.  (Before the F2 fix, commit e41f993, this was false: the accumulator omitted
   domain::STATE_ROOT_V1; f2_s / f2_root was the refutation witness, now an agreement example.) *)
Theorem acc_agrees : forall s r,
  wf_state s = true -> acc_root_preimage (from_state s) r = root_preimage s r.
Proof. exact acc_agrees_w. Qed.
Check acc_agrees : forall s r,
  wf_state s = true -> acc_root_preimage (from_state s) r = root_preimage s r.
Print Assumptions acc_agrees.

(* Op sequences: whenever apply_ops_to_state accepts a sequence (returns Ok, portal invariants
   included), SnapshotAccumulator::apply_ops on the tables of the pre-state does not panic and its
   state root is the state root of the post-state. *)
Theorem acc_refines_store : forall s ops s',
  wf_state s = true -> apply_ops s ops = (None, s') ->
  exists a', acc_apply (from_state s) ops = Some a' /\
             forall r, acc_root_preimage a' r = root_preimage s' r.
Proof. exact acc_refines_store_w. Qed.
Check acc_refines_store : forall s ops s',
  wf_state s = true -> apply_ops s ops = (None, s') ->
  exists a', acc_apply (from_state s) ops = Some a' /\
             forall r, acc_root_preimage a' r = root_preimage s' r.
Print Assumptions acc_refines_store.

(* the underlying invariant: any accumulator whose tables represent a state hashes like it *)
Theorem acc_agrees_any_representation : forall s a r,
  wf_state s = true -> Rep a s -> acc_root_preimage a r = root_preimage s r.
Proof. exact (fun s a r W R => acc_agrees_rep s W a R r). Qed.
Check acc_agrees_any_representation : forall s a r,
  wf_state s = true -> Rep a s -> acc_root_preimage a r = root_preimage s r.
Print Assumptions acc_agrees_any_representation.

Example acc_agrees_on_former_f2_witness :
  wf_state f2_s = true /\ acc_root_preimage (from_state f2_s) f2_root = root_preimage f2_s f2_root.
Proof. split; [vm_compute; reflexivity|exact f2_witness_agrees]. Qed.

(* an accepted op sequence on the two-instance example: new node, new edge, attachment, a fresh
   portal with its child instance, delete + re-create of an attached edge *)
Example acc_refines_store_nonvacuous :
  let ops := [UpsertNode 1 12 3; UpsertEdge 1 (mkEdge 22 11 12 4);
              SetAtt (node_alpha 1 12) (Some (Atom 9 [7]));
              OpenPortal (node_alpha 1 10) 5 50 (PEmpty 6);
              DeleteEdge 1 10 20; UpsertEdge 1 (mkEdge 20 10 12 8)] in
  fst (apply_ops ex_s1 ops) = None /\
  snd (apply_ops ex_s1 ops) <> ex_s1 /\
  skeleton (reach_content (snd (apply_ops ex_s1 ops)) ex_root) = [(3%nat, 2%nat); (1%nat, 0%nat); (1%nat, 0%nat)].
Proof. cbv zeta. split; [vm_compute; reflexivity|split; [vm_compute; discriminate|vm_compute; reflexivity]]. Qed.

(* The well-formedness hypothesis above is met by every state that can be built: any script of
   GraphStore / WarpState API calls from the empty state, and any apply_ops_to_state on top of a
   well-formed state (whether it returns Ok or leaves a partially applied patch behind on Err). *)
Theorem api_states_well_formed : forall l ops,
  wf_state (build l) = true /\ wf_state (snd (apply_ops (build l) ops)) = true.
Proof. exact (fun l ops => conj (build_wf_w l) (apply_ops_wf_w (build l) ops (build_wf_w l))). Qed.
Check api_states_well_formed : forall l ops,
  wf_state (build l) = true /\ wf_state (snd (apply_ops (build l) ops)) = true.
Print Assumptions api_states_well_formed.

(* Non-vacuity. ex_s1 / ex_s2: two instances linked by a portal on an edge slot; ex_s2 is built in
   another order and carries an unreachable node with an edge into the reachable part, orphan
   attachments and an unreferenced instance.  They are different, well-formed states that meet the
   hypotheses of the layout theorems; their content meets [content_ok]; a concrete in-place
   mutation meets [content_mut]. *)
Example c06_nonvacuous :
  ex_s1 <> ex_s2 /\ wf_state ex_s1 = true /\ wf_state ex_s2 = true /\
  agree_on_reachable ex_s1 ex_s2 ex_root /\
  reach_content ex_s1 ex_root = reach_content ex_s2 ex_root /\
  skeleton (reach_content ex_s1 ex_root) = [(2%nat, 1%nat); (1%nat, 0%nat)] /\
  fst (reach ex_s1 ex_root) = [((1, 10), tt); ((1, 11), tt); ((2, 30), tt)] /\
  content_ok (reach_content ex_s1 ex_root) /\
  content_mut (reach_content ex_s1 ex_root)
              (reach_content (apply_sop ex_s1 (SNode 1 11 7)) ex_root).
Proof.
  split; [vm_compute; discriminate|].
  split; [vm_compute; reflexivity|]. split; [vm_compute; reflexivity|].
  split; [exact ex_agree|].
  split; [vm_compute; reflexivity|]. split; [vm_compute; reflexivity|].
  split; [vm_compute; reflexivity|].
  split.
  - apply content_okb_ok. vm_compute. reflexivity.
  - apply CM_inplace; vm_compute; [reflexivity|discriminate].
Qed.
