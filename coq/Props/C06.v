(* C06 — the state root commits to exactly the reachable state.
   Only property theorems live here: each is closed by [exact], pinned by
   [Check ... : statement] and followed by [Print Assumptions]. *)
From Coq Require Import List NArith Permutation.
From Echo Require Import Base.FinMap Base.Bytes Model.Root Proofs.RootProofs.
Import ListNotations.
Open Scope N_scope.

Theorem root_injective_refuted :
  exists s1 s2 r, root_preimage s1 r = root_preimage s2 r /\ reach_content s1 r <> reach_content s2 r.
Proof. exact root_injective_refuted_w. Qed.
Check root_injective_refuted :
  exists s1 s2 r, root_preimage s1 r = root_preimage s2 r /\ reach_content s1 r <> reach_content s2 r.
Print Assumptions root_injective_refuted.

Theorem acc_agrees_refuted :
  exists s r, acc_root_preimage (from_state s) r <> root_preimage s r.
Proof. exact acc_agrees_refuted_w. Qed.
Check acc_agrees_refuted :
  exists s r, acc_root_preimage (from_state s) r <> root_preimage s r.
Print Assumptions acc_agrees_refuted.
