(* C12 — canonical encodings are bijective: the ABI canonical CBOR value codec
   (crates/echo-wasm-abi/src/canonical.rs, modelled in Model/Cbor.v).
   Only property theorems live here: each is closed by [exact], pinned by
   [Check ... : statement] and followed by [Print Assumptions]. *)
From Coq Require Import List NArith ZArith Permutation.
From Echo Require Import Base.Bytes Model.Cbor Model.Fmt Proofs.CborFloatProofs Proofs.CborProofs Proofs.CborBudgetProofs Proofs.FmtProofs.
Import ListNotations.
Open Scope N_scope.

(* decode . encode = norm: every well-formed value (any ciborium Value of nesting depth <= 128
   -- MAX_DECODE_DEPTH, the documented domain of decode_value -- without tags and whose map keys
   have distinct encodings, i.e. whenever encode_value succeeds) decodes back to its normal form (integral floats in [-2^64, 2^64) as integers, NaN as the canonical NaN, map
   entries in encoded-key order). *)
Theorem cbor_roundtrip : forall v b,
  wf_value v = true -> enc v = Ok b -> decode b = Ok (norm v).
Proof. exact cbor_roundtrip_core. Qed.
Check cbor_roundtrip : forall v b,
  wf_value v = true -> enc v = Ok b -> decode b = Ok (norm v).
Print Assumptions cbor_roundtrip.

(* accepted => canonical, for EVERY byte string: whatever decode_value accepts re-encodes to
   exactly the same bytes. *)
Theorem cbor_canonical : forall b v,
  wf_bytes b = true -> decode b = Ok v -> enc v = Ok b.
Proof. exact cbor_canonical_core. Qed.
Check cbor_canonical : forall b v,
  wf_bytes b = true -> decode b = Ok v -> enc v = Ok b.
Print Assumptions cbor_canonical.

(* one value, one encoding: two accepted byte strings with the same value are equal, so a
   content hash over accepted bytes identifies the value. *)
Theorem cbor_decode_injective : forall b1 b2 v,
  wf_bytes b1 = true -> wf_bytes b2 = true -> decode b1 = Ok v -> decode b2 = Ok v -> b1 = b2.
Proof. exact cbor_decode_injective_core. Qed.
Check cbor_decode_injective : forall b1 b2 v,
  wf_bytes b1 = true -> wf_bytes b2 = true -> decode b1 = Ok v -> decode b2 = Ok v -> b1 = b2.
Print Assumptions cbor_decode_injective.

(* encoding is a function of the value as a MAP: the order in which entries were inserted into a
   map does not influence the bytes (writer determinism) *)
Theorem cbor_enc_map_order_free : forall es1 es2 b,
  Permutation es1 es2 -> enc (VMap es1) = Ok b -> enc (VMap es2) = Ok b.
Proof. exact enc_map_order_free. Qed.
Check cbor_enc_map_order_free : forall es1 es2 b,
  Permutation es1 es2 -> enc (VMap es1) = Ok b -> enc (VMap es2) = Ok b.
Print Assumptions cbor_enc_map_order_free.

(* the domain boundary is exact: depth 128 round-trips, depth 129 encodes but is rejected by the
   decoder (Decode("nesting too deep")); [wf_value] requires vdepth <= 128 *)
Theorem cbor_depth_129_encodes_but_is_rejected :
  let v := nest 129 (VInt 0) in
  wf_shape v = true /\ vdepth v = 129 /\
  exists b, enc v = Ok b /\ decode b = Err EDepth /\ decode_nb b = Err EDepth.
Proof. exact depth_129_encodes_but_is_rejected. Qed.
Check cbor_depth_129_encodes_but_is_rejected :
  let v := nest 129 (VInt 0) in
  wf_shape v = true /\ vdepth v = 129 /\
  exists b, enc v = Ok b /\ decode b = Err EDepth /\ decode_nb b = Err EDepth.
Print Assumptions cbor_depth_129_encodes_but_is_rejected.

Example cbor_depth_128_round_trips :
  let v := nest 128 (VInt 0) in wf_value v = true /\ exists b, enc v = Ok b /\ decode b = Ok v.
Proof. exact depth_128_round_trips. Qed.

(* the element budget of decode_value (declared array/map lengths charged against bytes.len())
   never changes an accepted value and is transparent on every input the budget-free decoder
   [decode_nb] accepts: it only turns some rejections into Incomplete *)
Theorem cbor_budget_only_removes : forall b v, decode b = Ok v -> decode_nb b = Ok v.
Proof. exact budget_only_removes. Qed.
Check cbor_budget_only_removes : forall b v, decode b = Ok v -> decode_nb b = Ok v.
Print Assumptions cbor_budget_only_removes.

Theorem cbor_budget_transparent : forall b v, wf_bytes b = true -> decode_nb b = Ok v -> decode b = Ok v.
Proof. exact budget_transparent. Qed.
Check cbor_budget_transparent : forall b v, wf_bytes b = true -> decode_nb b = Ok v -> decode b = Ok v.
Print Assumptions cbor_budget_transparent.

(* every other spelling is rejected: a byte string different from THE encoding of v never decodes to v *)
Theorem cbor_noncanonical_rejected : forall v b b',
  wf_value v = true -> enc v = Ok b -> wf_bytes b' = true -> b' <> b -> decode b' <> Ok (norm v).
Proof. exact noncanonical_rejected. Qed.
Check cbor_noncanonical_rejected : forall v b b',
  wf_value v = true -> enc v = Ok b -> wf_bytes b' = true -> b' <> b -> decode b' <> Ok (norm v).
Print Assumptions cbor_noncanonical_rejected.

(* what the decoder returns is a well-formed value in normal form (no integral floats in integer
   range, only the canonical NaN, map entries in encoded-key order) *)
Theorem cbor_decode_normal : forall b v,
  wf_bytes b = true -> decode b = Ok v -> wf_value v = true /\ norm v = v.
Proof. intros b v W D. split; [exact (decode_output_wf b v W D)|exact (decode_output_normal b v W D)]. Qed.
Check cbor_decode_normal : forall b v,
  wf_bytes b = true -> decode b = Ok v -> wf_value v = true /\ norm v = v.
Print Assumptions cbor_decode_normal.

(* the encoder emits bytes *)
Theorem cbor_enc_wf : forall v b, wf_value v = true -> enc v = Ok b -> wf_bytes b = true.
Proof. exact cbor_enc_wf_core. Qed.
Check cbor_enc_wf : forall v b, wf_value v = true -> enc v = Ok b -> wf_bytes b = true.
Print Assumptions cbor_enc_wf.

(* rejection per non-canonical class *)
Theorem cbor_reject_trailing : forall b v x xs,
  wf_bytes (b ++ x :: xs) = true -> decode b = Ok v -> decode (b ++ x :: xs) = Err ETrailing.
Proof. exact reject_trailing. Qed.
Check cbor_reject_trailing : forall b v x xs,
  wf_bytes (b ++ x :: xs) = true -> decode b = Ok v -> decode (b ++ x :: xs) = Err ETrailing.
Print Assumptions cbor_reject_trailing.

Theorem cbor_reject_tag : forall b0 r, 192 <= b0 < 224 -> decode (b0 :: r) = Err ETag.
Proof. exact reject_tag. Qed.
Check cbor_reject_tag : forall b0 r, 192 <= b0 < 224 -> decode (b0 :: r) = Err ETag.
Print Assumptions cbor_reject_tag.

Theorem cbor_reject_indefinite : forall b0 r,
  In b0 [0x1f; 0x3f; 0x5f; 0x7f; 0x9f; 0xbf; 0xff] -> decode (b0 :: r) = Err EIndefinite.
Proof. exact reject_indefinite. Qed.
Check cbor_reject_indefinite : forall b0 r,
  In b0 [0x1f; 0x3f; 0x5f; 0x7f; 0x9f; 0xbf; 0xff] -> decode (b0 :: r) = Err EIndefinite.
Print Assumptions cbor_reject_indefinite.

(* integers and the lengths of byte strings, text, arrays and maps spelled wider than necessary *)
Theorem cbor_reject_nonminimal_head : forall major w n rest,
  major < 6 -> In w [1%nat; 2%nat; 4%nat; 8%nat] -> n <= narrow_limit w ->
  decode ((major * 32 + wide_info w) :: be_bytes w n ++ rest) = Err ENonCanonInt.
Proof. exact reject_nonminimal_head. Qed.
Check cbor_reject_nonminimal_head : forall major w n rest,
  major < 6 -> In w [1%nat; 2%nat; 4%nat; 8%nat] -> n <= narrow_limit w ->
  decode ((major * 32 + wide_info w) :: be_bytes w n ++ rest) = Err ENonCanonInt.
Print Assumptions cbor_reject_nonminimal_head.

Theorem cbor_reject_f16_nan_payload : forall h rest,
  h < 65536 -> f64_is_nan (widen16 h) = true -> h <> 0x7e00 ->
  decode (0xf9 :: be_bytes 2 h ++ rest) = Err ENonCanonFloat.
Proof. exact reject_f16_nan_payload. Qed.
Check cbor_reject_f16_nan_payload : forall h rest,
  h < 65536 -> f64_is_nan (widen16 h) = true -> h <> 0x7e00 ->
  decode (0xf9 :: be_bytes 2 h ++ rest) = Err ENonCanonFloat.
Print Assumptions cbor_reject_f16_nan_payload.

Theorem cbor_reject_integral_float : forall b z rest,
  b < 2 ^ 64 -> f64_to_int b = Some z -> decode (0xfb :: be_bytes 8 b ++ rest) = Err EFloatShouldBeInt.
Proof. exact reject_integral_float_f64. Qed.
Check cbor_reject_integral_float : forall b z rest,
  b < 2 ^ 64 -> f64_to_int b = Some z -> decode (0xfb :: be_bytes 8 b ++ rest) = Err EFloatShouldBeInt.
Print Assumptions cbor_reject_integral_float.

Theorem cbor_reject_wide_float64 : forall b rest,
  b < 2 ^ 64 -> (f64_is_nan b = true \/ narrow16 b <> None \/ narrow32 b <> None) ->
  exists e, decode (0xfb :: be_bytes 8 b ++ rest) = Err e /\ (e = ENonCanonFloat \/ e = EFloatShouldBeInt).
Proof. exact reject_wide_float_f64. Qed.
Check cbor_reject_wide_float64 : forall b rest,
  b < 2 ^ 64 -> (f64_is_nan b = true \/ narrow16 b <> None \/ narrow32 b <> None) ->
  exists e, decode (0xfb :: be_bytes 8 b ++ rest) = Err e /\ (e = ENonCanonFloat \/ e = EFloatShouldBeInt).
Print Assumptions cbor_reject_wide_float64.

Theorem cbor_reject_wide_float32 : forall s rest,
  s < 4294967296 -> (f64_is_nan (widen32 s) = true \/ narrow16 (widen32 s) <> None) ->
  exists e, decode (0xfa :: be_bytes 4 s ++ rest) = Err e /\ (e = ENonCanonFloat \/ e = EFloatShouldBeInt).
Proof. exact reject_wide_float_f32. Qed.
Check cbor_reject_wide_float32 : forall s rest,
  s < 4294967296 -> (f64_is_nan (widen32 s) = true \/ narrow16 (widen32 s) <> None) ->
  exists e, decode (0xfa :: be_bytes 4 s ++ rest) = Err e /\ (e = ENonCanonFloat \/ e = EFloatShouldBeInt).
Print Assumptions cbor_reject_wide_float32.

(* the model's width selection is exact representability (what round-then-compare computes) *)
Theorem narrow16_exact : forall b h, b < 2 ^ 64 ->
  (narrow16 b = Some h <-> h < 65536 /\ widen16 h = b /\ f64_is_nan b = false).
Proof. exact narrow16_exact_core. Qed.
Check narrow16_exact : forall b h, b < 2 ^ 64 ->
  (narrow16 b = Some h <-> h < 65536 /\ widen16 h = b /\ f64_is_nan b = false).
Print Assumptions narrow16_exact.

Theorem narrow32_exact : forall b s, b < 2 ^ 64 ->
  (narrow32 b = Some s <-> s < 4294967296 /\ widen32 s = b /\ f64_is_nan b = false).
Proof. exact narrow32_exact_core. Qed.
Check narrow32_exact : forall b s, b < 2 ^ 64 ->
  (narrow32 b = Some s <-> s < 4294967296 /\ widen32 s = b /\ f64_is_nan b = false).
Print Assumptions narrow32_exact.

(* the decoder model is total without its fuel: [EFuel] is unreachable *)
Theorem cbor_decode_never_out_of_fuel : forall b, wf_bytes b = true -> decode b <> Err EFuel.
Proof. exact decode_never_out_of_fuel. Qed.
Check cbor_decode_never_out_of_fuel : forall b, wf_bytes b = true -> decode b <> Err EFuel.
Print Assumptions cbor_decode_never_out_of_fuel.

(* Non-vacuity: a nested value with every kind of node, an unsorted map and an integral float
   meets the hypotheses; its encoding is accepted and is a fixpoint of decode-then-encode. *)
Example c12_nonvacuous :
  let v := VArray [VInt 5; VInt (-18446744073709551616)%Z; VFloat 0x3ff8000000000000; VFloat 0x4008000000000000;
                   VFloat 0x43f0000000000000; VFloat 0x7ff8000000000001; VText [104; 195; 169];
                   VBytes [0; 255]; VBool true; VNull;
                   VMap [(VText [98], VNull); (VInt 1, VArray []); (VFloat 0x3ff0000000000001, VInt 2)]] in
  wf_value v = true /\
  exists b, enc v = Ok b /\ wf_bytes b = true /\ decode b = Ok (norm v) /\ norm v <> v /\ enc (norm v) = Ok b.
Proof.
  cbv zeta. split; [vm_compute; reflexivity|].
  eexists. split; [vm_compute; reflexivity|]. split; [vm_compute; reflexivity|].
  split; [vm_compute; reflexivity|]. split; [vm_compute; discriminate|vm_compute; reflexivity].
Qed.

(* The three defects found while building this check (fixed in /repo: f8fd569, 35fff59,
   50eacdd) stay pinned as regression examples of the model of the fixed code. *)
Example f16_nan_payload_now_rejected :
  decode [0xf9; 0x7e; 0x01] = Err ENonCanonFloat /\ decode [0xf9; 0xfe; 0x00] = Err ENonCanonFloat /\
  decode [0xf9; 0x7c; 0x01] = Err ENonCanonFloat /\ decode [0xf9; 0x7e; 0x00] = Ok (VFloat CANON_NAN).
Proof. vm_compute. repeat split. Qed.

Example int_below_i64_now_round_trips :
  enc (VInt (-18446744073709551616)%Z) = Ok [0x3b; 255; 255; 255; 255; 255; 255; 255; 255] /\
  decode [0x3b; 255; 255; 255; 255; 255; 255; 255; 255] = Ok (VInt (-18446744073709551616)%Z) /\
  decode [0x3b; 128; 0; 0; 0; 0; 0; 0; 0] = Ok (VInt (-9223372036854775809)%Z).
Proof. vm_compute. repeat split. Qed.

Example big_integral_float_now_round_trips :
  enc (VFloat 0x43f0000000000000) = Ok [0xfa; 0x5f; 0x80; 0; 0] /\            (* 2^64 stays a float *)
  decode [0xfa; 0x5f; 0x80; 0; 0] = Ok (VFloat 0x43f0000000000000) /\
  enc (VFloat 0x4400000000200000) = Ok [0xfb; 0x44; 0; 0; 0; 0; 0x20; 0; 0] /\
  decode [0xfb; 0x44; 0; 0; 0; 0; 0x20; 0; 0] = Ok (VFloat 0x4400000000200000) /\
  enc (VFloat 0xc3f0000000000000) = Ok [0x3b; 255; 255; 255; 255; 255; 255; 255; 255].   (* -2^64 is an integer *)
Proof. vm_compute. repeat split. Qed.

(* unsorted / duplicate map keys, RFC 7049 length-first order, non-minimal heads, wide floats *)
Example noncanonical_classes_rejected :
  decode [0xa2; 0x02; 0xf6; 0x01; 0xf6] = Err EMapKeyOrder /\
  decode [0xa2; 0x01; 0xf6; 0x01; 0xf6] = Err EMapKeyDup /\
  decode [0xa2; 0x18; 0x18; 0xf6; 0x20; 0xf6] = Ok (VMap [(VInt 24, VNull); (VInt (-1), VNull)]) /\  (* bytewise, not length-first *)
  decode [0xa2; 0x20; 0xf6; 0x18; 0x18; 0xf6] = Err EMapKeyOrder /\
  decode [0x18; 0x17] = Err ENonCanonInt /\ decode [0x58; 0x01; 0x00] = Err ENonCanonInt /\
  decode [0xfa; 0x3f; 0xc0; 0; 0] = Err ENonCanonFloat /\ decode [0xf9; 0x3c; 0x00] = Err EFloatShouldBeInt /\
  decode [0xc0; 0x00] = Err ETag /\ decode [0x9f; 0xff] = Err EIndefinite /\ decode [0x00; 0x00] = Err ETrailing /\
  decode [0x61; 0xff] = Err EUtf8 /\ decode [0xf8; 0x20] = Err ESimple /\ decode [0x1c] = Err EBadInfo.
Proof. vm_compute. repeat split. Qed.

(* ================================================================== fixed little-endian record codecs
   Generic theorems over format descriptors (Model/Fmt.v), proved once by induction on the
   descriptor; every transcribed record descriptor is an instance via [record_descriptors_wf]. *)
Theorem fmt_roundtrip : forall f v b, wf_fmt f = true -> enc_fmt f v = Some b -> dec_top f b = Some v.
Proof. exact fmt_roundtrip_top. Qed.
Check fmt_roundtrip : forall f v b, wf_fmt f = true -> enc_fmt f v = Some b -> dec_top f b = Some v.
Print Assumptions fmt_roundtrip.

Theorem fmt_canonical : forall f b v, wf_bytes b = true -> dec_top f b = Some v -> enc_fmt f v = Some b.
Proof. exact fmt_canonical_top. Qed.
Check fmt_canonical : forall f b v, wf_bytes b = true -> dec_top f b = Some v -> enc_fmt f v = Some b.
Print Assumptions fmt_canonical.

Theorem fmt_encoding_injective : forall f v1 v2 b,
  wf_fmt f = true -> enc_fmt f v1 = Some b -> enc_fmt f v2 = Some b -> v1 = v2.
Proof. exact fmt_enc_injective. Qed.
Check fmt_encoding_injective : forall f v1 v2 b,
  wf_fmt f = true -> enc_fmt f v1 = Some b -> enc_fmt f v2 = Some b -> v1 = v2.
Print Assumptions fmt_encoding_injective.

Theorem fmt_reject_trailing : forall f b v x xs,
  wf_fmt f = true -> wf_bytes b = true -> dec_top f b = Some v -> dec_top f (b ++ x :: xs) = None.
Proof. exact fmt_trailing_rejected. Qed.
Check fmt_reject_trailing : forall f b v x xs,
  wf_fmt f = true -> wf_bytes b = true -> dec_top f b = Some v -> dec_top f (b ++ x :: xs) = None.
Print Assumptions fmt_reject_trailing.

Theorem record_descriptors_wf : forallb wf_fmt all_descriptors = true.
Proof. exact all_descriptors_wf. Qed.
Check record_descriptors_wf : forallb wf_fmt all_descriptors = true.
Print Assumptions record_descriptors_wf.

(* DESIGN section 6 F8 (found by this check, fixed in /repo): StrandForkRecord::from_payload_bytes
   used to sort the writer heads it read; it now rejects a non-canonical order, so accepted =>
   canonical holds for this record too.  The old witness stays as a regression example. *)
Theorem strand_fork_canonical : forall b v,
  wf_bytes b = true -> strand_fork_dec b = Some v -> strand_fork_enc v = Some b.
Proof. exact strand_fork_canonical_core. Qed.
Check strand_fork_canonical : forall b v,
  wf_bytes b = true -> strand_fork_dec b = Some v -> strand_fork_enc v = Some b.
Print Assumptions strand_fork_canonical.

Example strand_fork_unsorted_heads_now_rejected :
  wf_bytes fork_witness = true /\ dec_top d_strand_fork fork_witness <> None /\ strand_fork_dec fork_witness = None.
Proof. exact fork_witness_rejected. Qed.

Example fmt_nonvacuous :
  let v := XSeq [XRaw (repeat 7 32); XRaw (repeat 9 32); XSome (XRaw (repeat 1 32)); XRaw (repeat 0 32)] in
  wf_fmt d_submission_acceptance = true /\
  exists b, enc_fmt d_submission_acceptance v = Some b /\ length b = 129%nat /\ dec_top d_submission_acceptance b = Some v /\
            dec_top d_submission_acceptance (b ++ [0]) = None /\
            dec_top d_topology_braid_event b = None.
Proof.
  cbv zeta. split; [reflexivity|]. eexists. split; [vm_compute; reflexivity|]. repeat split; vm_compute; reflexivity.
Qed.
