(* C12 — canonical encodings are bijective (ABI canonical CBOR core). *)
From Coq Require Import List NArith ZArith.
From Echo Require Import Base.Bytes Model.Cbor Proofs.CborProofs.
Import ListNotations.
Open Scope N_scope.

Theorem cbor_canonical_refuted :
  exists b v, wf_bytes b = true /\ decode b = Ok v /\ enc v <> Ok b.
Proof. exact canonical_refuted_f16_nan. Qed.
Check cbor_canonical_refuted : exists b v, wf_bytes b = true /\ decode b = Ok v /\ enc v <> Ok b.
Print Assumptions cbor_canonical_refuted.
