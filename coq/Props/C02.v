(* C02 — parallel execution is invisible: every worker schedule commits the same tick.
   Only pinned property theorems live here. *)
From Coq Require Import List NArith Permutation.
From Echo Require Import Model.Sched Model.Tick Proofs.TickProofs Proofs.ParProofs.
Import ListNotations.
Open Scope N_scope.

(* For every worker count and every assignment of work units to workers (the claim counter
   hands unit indices out in order, so a worker's private order is increasing unit index) the
   merged op sequence equals the single-worker one. *)
Theorem schedule_invisible : forall tbl enq workers assign, (0 < workers)%nat ->
  tick_ops_sched tbl enq workers assign = tick_ops tbl enq.
Proof. exact schedule_invisible_tick. Qed.
Check schedule_invisible : forall tbl enq workers assign, (0 < workers)%nat ->
  tick_ops_sched tbl enq workers assign = tick_ops tbl enq.
Print Assumptions schedule_invisible.

Theorem workers_invisible : forall tbl enq w1 w2 a1 a2, (0 < w1)%nat -> (0 < w2)%nat ->
  tick_ops_sched tbl enq w1 a1 = tick_ops_sched tbl enq w2 a2.
Proof. intros. rewrite !schedule_invisible_tick by assumption. reflexivity. Qed.
Check workers_invisible : forall tbl enq w1 w2 a1 a2, (0 < w1)%nat -> (0 < w2)%nat ->
  tick_ops_sched tbl enq w1 a1 = tick_ops_sched tbl enq w2 a2.
Print Assumptions workers_invisible.

(* The five shard-assignment / delta-accumulation policies are indistinguishable after the merge. *)
Theorem policies_invisible : forall p q shards w1 w2 a1 a2, (0 < w1)%nat -> (0 < w2)%nat ->
  merge (concat (policy_deltas p shards w1 a1)) = merge (concat (policy_deltas q shards w2 a2)).
Proof. exact policy_invisible. Qed.
Check policies_invisible : forall p q shards w1 w2 a1 a2, (0 < w1)%nat -> (0 < w2)%nat ->
  merge (concat (policy_deltas p shards w1 a1)) = merge (concat (policy_deltas q shards w2 a2)).
Print Assumptions policies_invisible.

(* What makes claim order unable to leak: the merge depends on the multiset of ops only. *)
Theorem merge_is_multiset_function : forall l1 l2, Permutation l1 l2 -> merge l1 = merge l2.
Proof. exact merge_perm. Qed.
Check merge_is_multiset_function : forall l1 l2, Permutation l1 l2 -> merge l1 = merge l2.
Print Assumptions merge_is_multiset_function.

(* A poisoning item (footprint violation / executor panic under enforcement) fails the tick
   under EVERY worker count and claim order, including schedules where earlier poisoned
   workers stop claiming; with no such item no schedule fails.  Which violation is reported
   may depend on the schedule; that it fails does not. *)
Theorem poison_fails_every_schedule : forall bad units workers assign,
  (0 < workers)%nat -> (exists u c, In u units /\ In c u /\ bad c = true) ->
  run_enforced bad units workers assign = Failed.
Proof. exact poison_total. Qed.
Check poison_fails_every_schedule : forall bad units workers assign,
  (0 < workers)%nat -> (exists u c, In u units /\ In c u /\ bad c = true) ->
  run_enforced bad units workers assign = Failed.
Print Assumptions poison_fails_every_schedule.

Theorem honest_fails_no_schedule : forall bad units workers assign,
  (forall u c, In u units -> In c u -> bad c = false) ->
  exists ds, run_enforced bad units workers assign = Deltas ds.
Proof. exact honest_never_fails. Qed.
Check honest_fails_no_schedule : forall bad units workers assign,
  (forall u c, In u units -> In c u -> bad c = false) ->
  exists ds, run_enforced bad units workers assign = Deltas ds.
Print Assumptions honest_fails_no_schedule.

(* Non-vacuity: 4 accepted candidates in 3 work units, two different 3-worker schedules and
   a 1-worker run; a poisoned variant. *)
Definition x_op (k c : N) : mop := {| op_key := k; op_content := c; op_new := None; op_target := Some 1 |}.
Definition x_cand (sc node : N) (ops : list mop) : cand :=
  {| c_scope := sc; c_rule := 1; c_warp := 1; c_node := node; c_fp := dflt_fp; c_ops := ops |}.
Example c02_nonvacuous :
  let tbl := [x_cand 1 (2 ^ 248) [x_op 8 80]; x_cand 2 (2 ^ 249) [x_op 3 30; x_op 8 80];
              x_cand 3 (2 ^ 248 + 5) [x_op 1 10]; x_cand 4 0 [x_op 7 70]] in
  length (work_units (accepted (drained tbl [0; 1; 2; 3]))) = 3%nat /\
  tick_ops_sched tbl [0; 1; 2; 3] 3 [2; 0; 1] = tick_ops_sched tbl [0; 1; 2; 3] 3 [0; 0; 2] /\
  tick_ops_sched tbl [0; 1; 2; 3] 3 [2; 0; 1] = tick_ops tbl [0; 1; 2; 3] /\
  tick_ops tbl [0; 1; 2; 3] = MergeOk [x_op 1 10; x_op 3 30; x_op 7 70; x_op 8 80] /\
  run_enforced (fun c => c_scope c =? 3) (work_units (accepted (drained tbl [0; 1; 2; 3]))) 3 [2; 0; 1] = Failed.
Proof. cbv zeta. repeat split; vm_compute; reflexivity. Qed.
