(* C20 — retained content is returned intact or not at all.
   Only property theorems live here: each is closed by [exact], pinned by
   [Check ... : statement] and followed by [Print Assumptions].
   [H] is an arbitrary hash function (never an axiom); statements that need binding
   conclude [... \/ Collision H]. *)
From Coq Require Import List NArith.
From Echo Require Import Base.FinMap Base.Bytes Model.Cas Proofs.CasProofs.
Import ListNotations.
Open Scope N_scope.

(* ---- every get returns bytes whose hash is the key, or nothing -------------------------- *)
Theorem get_intact_mem : forall H mx ops h b,
  mem_get (fst (mem_run H (mem_new mx) ops)) h = Some b -> H b = h.
Proof. exact mem_get_intact. Qed.
Check get_intact_mem : forall H mx ops h b,
  mem_get (fst (mem_run H (mem_new mx) ops)) h = Some b -> H b = h.
Print Assumptions get_intact_mem.

(* disk: for ANY file state (arbitrary corruption, any history with faults) *)
Theorem get_intact_disk : forall H d h b, disk_get H d h = OBytes (Some b) -> H b = h.
Proof. exact disk_get_intact. Qed.
Check get_intact_disk : forall H d h b, disk_get H d h = OBytes (Some b) -> H b = h.
Print Assumptions get_intact_disk.

(* ---- invariant by induction over arbitrary operation sequences -------------------------- *)
Theorem store_invariant_mem : forall H mx ops, mem_inv H (fst (mem_run H (mem_new mx) ops)).
Proof. exact mem_run_inv. Qed.
Check store_invariant_mem : forall H mx ops, mem_inv H (fst (mem_run H (mem_new mx) ops)).
Print Assumptions store_invariant_mem.

Theorem store_invariant_disk : forall H ops,
  forallb is_api ops = true -> disk_inv H (fst (disk_run H (disk_open []) ops)).
Proof. exact disk_run_inv. Qed.
Check store_invariant_disk : forall H ops,
  forallb is_api ops = true -> disk_inv H (fst (disk_run H (disk_open []) ops)).
Print Assumptions store_invariant_disk.

(* ---- refinement to the abstract store "set of byte strings offered under their own hash" -- *)
Theorem get_refines_offered_mem : forall H mx ops,
  (forall h b, mem_get (fst (mem_run H (mem_new mx) ops)) h = Some b ->
               H b = h /\ In b (flat_map (offered H) ops)) /\
  (forall b, In b (flat_map (offered H) ops) ->
             mem_get (fst (mem_run H (mem_new mx) ops)) (H b) = Some b \/ Collision H).
Proof. exact mem_get_refines. Qed.
Check get_refines_offered_mem : forall H mx ops,
  (forall h b, mem_get (fst (mem_run H (mem_new mx) ops)) h = Some b ->
               H b = h /\ In b (flat_map (offered H) ops)) /\
  (forall b, In b (flat_map (offered H) ops) ->
             mem_get (fst (mem_run H (mem_new mx) ops)) (H b) = Some b \/ Collision H).
Print Assumptions get_refines_offered_mem.

Theorem get_refines_offered_disk : forall H ops, forallb is_api ops = true ->
  (forall h b, disk_get H (fst (disk_run H (disk_open []) ops)) h = OBytes (Some b) ->
               H b = h /\ In b (flat_map (offered H) ops)) /\
  (forall b, In b (flat_map (offered H) ops) ->
             disk_get H (fst (disk_run H (disk_open []) ops)) (H b) = OBytes (Some b) \/ Collision H).
Proof. exact disk_get_refines. Qed.
Check get_refines_offered_disk : forall H ops, forallb is_api ops = true ->
  (forall h b, disk_get H (fst (disk_run H (disk_open []) ops)) h = OBytes (Some b) ->
               H b = h /\ In b (flat_map (offered H) ops)) /\
  (forall b, In b (flat_map (offered H) ops) ->
             disk_get H (fst (disk_run H (disk_open []) ops)) (H b) = OBytes (Some b) \/ Collision H).
Print Assumptions get_refines_offered_disk.

(* ---- get after put ------------------------------------------------------------------------ *)
Theorem get_after_put_mem : forall H s b, mem_inv H s ->
  mem_get (fst (mem_put H s b)) (H b) = Some b \/ Collision H.
Proof. exact mem_get_after_put. Qed.
Check get_after_put_mem : forall H s b, mem_inv H s ->
  mem_get (fst (mem_put H s b)) (H b) = Some b \/ Collision H.
Print Assumptions get_after_put_mem.

(* disk: put replaces the file, so this holds on any (even corrupted) tier: put repairs *)
Theorem get_after_put_disk : forall H d b, disk_get H (fst (disk_put H d b)) (H b) = OBytes (Some b).
Proof. exact disk_get_after_put. Qed.
Check get_after_put_disk : forall H d b, disk_get H (fst (disk_put H d b)) (H b) = OBytes (Some b).
Print Assumptions get_after_put_disk.

(* ---- mismatching bytes are refused on write, store unchanged ------------------------------ *)
Theorem put_verified_rejects_mem : forall H s h b, H b <> h ->
  mem_put_verified H s h b = (s, OMismatch h (H b)).
Proof. exact mem_put_verified_rejects. Qed.
Check put_verified_rejects_mem : forall H s h b, H b <> h ->
  mem_put_verified H s h b = (s, OMismatch h (H b)).
Print Assumptions put_verified_rejects_mem.

Theorem put_verified_rejects_disk : forall H d h b, H b <> h ->
  disk_put_verified H d h b = (d, OMismatch h (H b)).
Proof. exact disk_put_verified_rejects. Qed.
Check put_verified_rejects_disk : forall H d h b, H b <> h ->
  disk_put_verified H d h b = (d, OMismatch h (H b)).
Print Assumptions put_verified_rejects_disk.

(* ---- writes are idempotent ---------------------------------------------------------------- *)
Theorem put_idempotent_mem : forall H s b, mem_inv H s ->
  let s1 := fst (mem_put H s b) in mem_put H s1 b = (s1, H b).
Proof. exact mem_put_idempotent. Qed.
Check put_idempotent_mem : forall H s b, mem_inv H s ->
  let s1 := fst (mem_put H s b) in mem_put H s1 b = (s1, H b).
Print Assumptions put_idempotent_mem.

Theorem put_verified_idempotent_mem : forall H s h b,
  let s1 := fst (mem_put_verified H s h b) in
  snd (mem_put_verified H s h b) = OOk -> mem_put_verified H s1 h b = (s1, OOk).
Proof. exact mem_put_verified_idempotent. Qed.
Check put_verified_idempotent_mem : forall H s h b,
  let s1 := fst (mem_put_verified H s h b) in
  snd (mem_put_verified H s h b) = OOk -> mem_put_verified H s1 h b = (s1, OOk).
Print Assumptions put_verified_idempotent_mem.

Theorem put_idempotent_disk : forall H d b, sorted N.compare (d_files d) ->
  disk_put H (fst (disk_put H d b)) b = (fst (disk_put H d b), H b).
Proof. exact disk_put_idempotent. Qed.
Check put_idempotent_disk : forall H d b, sorted N.compare (d_files d) ->
  disk_put H (fst (disk_put H d b)) b = (fst (disk_put H d b), H b).
Print Assumptions put_idempotent_disk.

(* ---- pinning never changes content: erasing every pin/unpin from a history changes neither
        the stored blobs, nor the byte accounting, nor the result of any put/put_verified/get/has *)
Theorem pin_content_neutral_mem : forall H s ops,
  let r := mem_run H s ops in
  let r' := mem_run H s (filter not_pin ops) in
  m_blobs (fst r) = m_blobs (fst r') /\ m_bytes (fst r) = m_bytes (fst r') /\
  content_outs ops (snd r) = content_outs (filter not_pin ops) (snd r').
Proof. exact mem_pin_content_neutral. Qed.
Check pin_content_neutral_mem : forall H s ops,
  let r := mem_run H s ops in
  let r' := mem_run H s (filter not_pin ops) in
  m_blobs (fst r) = m_blobs (fst r') /\ m_bytes (fst r) = m_bytes (fst r') /\
  content_outs ops (snd r) = content_outs (filter not_pin ops) (snd r').
Print Assumptions pin_content_neutral_mem.

Theorem pin_content_neutral_disk : forall H d h,
  d_files (disk_pin d h) = d_files d /\ d_files (disk_unpin d h) = d_files d /\
  (forall h', disk_get H (disk_pin d h) h' = disk_get H d h') /\
  (forall h', disk_get H (disk_unpin d h) h' = disk_get H d h').
Proof. exact disk_pin_content_neutral. Qed.
Check pin_content_neutral_disk : forall H d h,
  d_files (disk_pin d h) = d_files d /\ d_files (disk_unpin d h) = d_files d /\
  (forall h', disk_get H (disk_pin d h) h' = disk_get H d h') /\
  (forall h', disk_get H (disk_unpin d h) h' = disk_get H d h').
Print Assumptions pin_content_neutral_disk.

(* ---- reopen: content survives, process-local pins do not ---------------------------------- *)
Theorem reopen_preserves : forall H d,
  d_files (disk_reopen d) = d_files d /\
  (forall h, disk_get H (disk_reopen d) h = disk_get H d h) /\
  (forall h, disk_has (disk_reopen d) h = disk_has d h) /\
  disk_list (disk_reopen d) = disk_list d /\
  (forall h, disk_is_pinned (disk_reopen d) h = false).
Proof. exact disk_reopen_preserves. Qed.
Check reopen_preserves : forall H d,
  d_files (disk_reopen d) = d_files d /\
  (forall h, disk_get H (disk_reopen d) h = disk_get H d h) /\
  (forall h, disk_has (disk_reopen d) h = disk_has d h) /\
  disk_list (disk_reopen d) = disk_list d /\
  (forall h, disk_is_pinned (disk_reopen d) h = false).
Print Assumptions reopen_preserves.

(* ---- corruption is detected on read -------------------------------------------------------- *)
Theorem corrupt_detected : forall H d h orig c,
  H orig = h -> find N.compare h (d_files d) = Some c -> c <> orig ->
  disk_get H d h = OMismatch h (H c) \/ Collision H.
Proof. exact disk_corrupt_detected. Qed.
Check corrupt_detected : forall H d h orig c,
  H orig = h -> find N.compare h (d_files d) = Some c -> c <> orig ->
  disk_get H d h = OMismatch h (H c) \/ Collision H.
Print Assumptions corrupt_detected.

Theorem corrupt_after_put_detected : forall H d orig c, c <> orig ->
  let d1 := fst (disk_put H d orig) in
  let d2 := fst (disk_step H d1 (EnvWrite (H orig) c)) in
  disk_get H d2 (H orig) = OMismatch (H orig) (H c) \/ Collision H.
Proof. exact disk_corrupt_after_put. Qed.
Check corrupt_after_put_detected : forall H d orig c, c <> orig ->
  let d1 := fst (disk_put H d orig) in
  let d2 := fst (disk_step H d1 (EnvWrite (H orig) c)) in
  disk_get H d2 (H orig) = OMismatch (H orig) (H c) \/ Collision H.
Print Assumptions corrupt_after_put_detected.

Theorem deleted_is_absent : forall H d h, sorted N.compare (d_files d) ->
  disk_get H (fst (disk_step H d (EnvDelete h))) h = OBytes None /\
  disk_has (fst (disk_step H d (EnvDelete h))) h = false.
Proof. exact disk_deleted_absent. Qed.
Check deleted_is_absent : forall H d h, sorted N.compare (d_files d) ->
  disk_get H (fst (disk_step H d (EnvDelete h))) h = OBytes None /\
  disk_has (fst (disk_step H d (EnvDelete h))) h = false.
Print Assumptions deleted_is_absent.

Theorem fault_is_local : forall H d h h' c, h' <> h ->
  disk_get H (fst (disk_step H d (EnvWrite h c))) h' = disk_get H d h' /\
  disk_get H (fst (disk_step H d (EnvDelete h))) h' = disk_get H d h'.
Proof. exact disk_fault_local. Qed.
Check fault_is_local : forall H d h h' c, h' <> h ->
  disk_get H (fst (disk_step H d (EnvWrite h c))) h' = disk_get H d h' /\
  disk_get H (fst (disk_step H d (EnvDelete h))) h' = disk_get H d h'.
Print Assumptions fault_is_local.

(* ---- semantic coordinates never alias ------------------------------------------------------ *)
(* after ANY history of retains / loads / direct store use / store replacement, the index entry
   of coordinate c is determined by the first retain issued for c alone ... *)
Theorem coordinate_no_alias : forall H ops c,
  descriptor (fst (fst (irun H istate0 ops))) c =
  option_map (fun b => (H b, lenN b)) (first_content ops c).
Proof. exact index_is_first_content. Qed.
Check coordinate_no_alias : forall H ops c,
  descriptor (fst (fst (irun H istate0 ops))) c =
  option_map (fun b => (H b, lenN b)) (first_content ops c).
Print Assumptions coordinate_no_alias.

(* ... and load(c) answers with exactly that content, never with another coordinate's *)
Theorem load_returns_first_content : forall H ops c d b,
  let st := fst (irun H istate0 ops) in
  load (fst st) (snd st) c = ROk (d, b) ->
  exists b0, first_content ops c = Some b0 /\ d = (H b0, lenN b0) /\ (b = b0 \/ Collision H).
Proof. exact load_is_first_content. Qed.
Check load_returns_first_content : forall H ops c d b,
  let st := fst (irun H istate0 ops) in
  load (fst st) (snd st) c = ROk (d, b) ->
  exists b0, first_content ops c = Some b0 /\ d = (H b0, lenN b0) /\ (b = b0 \/ Collision H).
Print Assumptions load_returns_first_content.

Theorem load_never_retained_is_obstruction : forall H ops c,
  let st := fst (irun H istate0 ops) in
  load (fst st) (snd st) c = RErr MissingSemanticCoordinate <-> first_content ops c = None.
Proof. exact load_missing_coordinate. Qed.
Check load_never_retained_is_obstruction : forall H ops c,
  let st := fst (irun H istate0 ops) in
  load (fst st) (snd st) c = RErr MissingSemanticCoordinate <-> first_content ops c = None.
Print Assumptions load_never_retained_is_obstruction.

Theorem retain_equal_idempotent : forall H ix s c b, descriptor ix c = Some (H b, lenN b) ->
  exists s', retain H ix s c b = (ix, s', ROk (H b, lenN b)) /\
    (mem_has s (H b) = true -> m_blobs s' = m_blobs s /\ m_bytes s' = m_bytes s).
Proof. exact retain_idempotent. Qed.
Check retain_equal_idempotent : forall H ix s c b, descriptor ix c = Some (H b, lenN b) ->
  exists s', retain H ix s c b = (ix, s', ROk (H b, lenN b)) /\
    (mem_has s (H b) = true -> m_blobs s' = m_blobs s /\ m_bytes s' = m_bytes s).
Print Assumptions retain_equal_idempotent.

Theorem retain_different_content_rejected : forall H ops c b0 b,
  first_content ops c = Some b0 -> b <> b0 ->
  let st := fst (irun H istate0 ops) in
  retain H (fst st) (snd st) c b =
    (fst st, snd st, RErr (SemanticCoordinateConflict (H b0) (H b))) \/ Collision H.
Proof. exact retain_after_history_rejected. Qed.
Check retain_different_content_rejected : forall H ops c b0 b,
  first_content ops c = Some b0 -> b <> b0 ->
  let st := fst (irun H istate0 ops) in
  retain H (fst st) (snd st) c b =
    (fst st, snd st, RErr (SemanticCoordinateConflict (H b0) (H b))) \/ Collision H.
Print Assumptions retain_different_content_rejected.

Theorem load_range_is_bounded_slice : forall ix s c off len mx d off' bs,
  load_range ix s c off len mx = ROk (d, off', bs) ->
  exists b, load ix s c = ROk (d, b) /\ off' = off /\ len <= mx /\ off + len <= snd d /\
            off + len < two64 /\ bs = firstn (N.to_nat len) (skipn (N.to_nat off) b).
Proof. exact load_range_is_slice. Qed.
Check load_range_is_bounded_slice : forall ix s c off len mx d off' bs,
  load_range ix s c off len mx = ROk (d, off', bs) ->
  exists b, load ix s c = ROk (d, b) /\ off' = off /\ len <= mx /\ off + len <= snd d /\
            off + len < two64 /\ bs = firstn (N.to_nat len) (skipn (N.to_nat off) b).
Print Assumptions load_range_is_bounded_slice.

(* ---- export profiles, record level (material validation of the self-contained and CAS-addressed
        profiles; WSC envelopes, projection comparison and WAL segment recovery are outside the model) -- *)
(* an accepted CAS-addressed import has every referenced blob present, hashing to its reference, of the
   referenced length *)
Theorem cas_import_ok_is_intact : forall H mats segrefs retrefs cas,
  cas_check H mats segrefs retrefs cas = CASOk ->
  forall r, In r (segrefs ++ retrefs) ->
    exists b, find N.compare (cref_hash r) cas = Some b /\ H b = cref_hash r /\ lenN b = cref_len r.
Proof. exact cas_ok_intact. Qed.
Check cas_import_ok_is_intact : forall H mats segrefs retrefs cas,
  cas_check H mats segrefs retrefs cas = CASOk ->
  forall r, In r (segrefs ++ retrefs) ->
    exists b, find N.compare (cref_hash r) cas = Some b /\ H b = cref_hash r /\ lenN b = cref_len r.
Print Assumptions cas_import_ok_is_intact.

Theorem withheld_or_corrupt_is_obstruction_cas : forall H mats segrefs retrefs cas r,
  In r (segrefs ++ retrefs) ->
  (find N.compare (cref_hash r) cas = None -> cas_check H mats segrefs retrefs cas <> CASOk) /\
  (forall orig c, H orig = cref_hash r -> find N.compare (cref_hash r) cas = Some c -> c <> orig ->
     cas_check H mats segrefs retrefs cas <> CASOk \/ Collision H).
Proof. exact cas_withheld_or_corrupt. Qed.
Check withheld_or_corrupt_is_obstruction_cas : forall H mats segrefs retrefs cas r,
  In r (segrefs ++ retrefs) ->
  (find N.compare (cref_hash r) cas = None -> cas_check H mats segrefs retrefs cas <> CASOk) /\
  (forall orig c, H orig = cref_hash r -> find N.compare (cref_hash r) cas = Some c -> c <> orig ->
     cas_check H mats segrefs retrefs cas <> CASOk \/ Collision H).
Print Assumptions withheld_or_corrupt_is_obstruction_cas.

(* an accepted self-contained import: every embedded payload hashes to the digest of its record and belongs
   to the record set; every present record has its payload *)
Theorem sc_import_ok_is_intact : forall H mats pays, sc_check H mats pays = SCOk ->
  (forall m b, In (m, b) pays -> H b = mat_digest m /\ exists m', In m' mats /\ mat_digest m' = mat_digest m) /\
  (forall m, In m mats -> mat_present m = true ->
     exists m' b, In (m', b) pays /\ mat_digest m' = mat_digest m /\ H b = mat_digest m).
Proof. exact sc_ok_intact. Qed.
Check sc_import_ok_is_intact : forall H mats pays, sc_check H mats pays = SCOk ->
  (forall m b, In (m, b) pays -> H b = mat_digest m /\ exists m', In m' mats /\ mat_digest m' = mat_digest m) /\
  (forall m, In m mats -> mat_present m = true ->
     exists m' b, In (m', b) pays /\ mat_digest m' = mat_digest m /\ H b = mat_digest m).
Print Assumptions sc_import_ok_is_intact.

Theorem withheld_or_corrupt_is_obstruction_sc : forall H mats pays,
  (forall m, In m mats -> mat_present m = true ->
     (forall m' b, In (m', b) pays -> mat_digest m' <> mat_digest m) -> sc_check H mats pays <> SCOk) /\
  (forall m c orig, In (m, c) pays -> H orig = mat_digest m -> c <> orig ->
     sc_check H mats pays <> SCOk \/ Collision H).
Proof. exact sc_withheld_or_corrupt. Qed.
Check withheld_or_corrupt_is_obstruction_sc : forall H mats pays,
  (forall m, In m mats -> mat_present m = true ->
     (forall m' b, In (m', b) pays -> mat_digest m' <> mat_digest m) -> sc_check H mats pays <> SCOk) /\
  (forall m c orig, In (m, c) pays -> H orig = mat_digest m -> c <> orig ->
     sc_check H mats pays <> SCOk \/ Collision H).
Print Assumptions withheld_or_corrupt_is_obstruction_sc.

(* round trip, partial: stated at record level and GIVEN that the reference set equals the present records
   (the full statement "import (export records) = records" needs the WSC envelope codec, which is not modelled) *)
Theorem export_import_roundtrip_cas_partial : forall H mats segrefs retrefs cas rs,
  canon key_cmp cref_cmp cref_key retrefs = Some rs ->
  tdiff (tset (map mat_triple (filter mat_present mats))) (tset (map cref_triple (map snd rs))) = 0 ->
  tdiff (tset (map cref_triple (map snd rs))) (tset (map mat_triple (filter mat_present mats))) = 0 ->
  (forall r, In r (segrefs ++ retrefs) ->
     exists b, find N.compare (cref_hash r) cas = Some b /\ H b = cref_hash r /\ lenN b = cref_len r) ->
  cas_check H mats segrefs retrefs cas = CASOk.
Proof. exact cas_roundtrip. Qed.
Check export_import_roundtrip_cas_partial : forall H mats segrefs retrefs cas rs,
  canon key_cmp cref_cmp cref_key retrefs = Some rs ->
  tdiff (tset (map mat_triple (filter mat_present mats))) (tset (map cref_triple (map snd rs))) = 0 ->
  tdiff (tset (map cref_triple (map snd rs))) (tset (map mat_triple (filter mat_present mats))) = 0 ->
  (forall r, In r (segrefs ++ retrefs) ->
     exists b, find N.compare (cref_hash r) cas = Some b /\ H b = cref_hash r /\ lenN b = cref_len r) ->
  cas_check H mats segrefs retrefs cas = CASOk.
Print Assumptions export_import_roundtrip_cas_partial.

Theorem export_import_roundtrip_sc_partial : forall H mats pays ps,
  canon N.compare payload_cmp (fun p => mat_digest (fst p)) pays = Some ps ->
  (forall m b, In (m, b) pays -> H b = mat_digest m /\ exists m', In m' mats /\ mat_digest m' = mat_digest m) ->
  (forall m, In m mats -> mat_present m = true -> exists m' b, In (m', b) pays /\ mat_digest m' = mat_digest m) ->
  sc_check H mats pays = SCOk.
Proof. exact sc_roundtrip. Qed.
Check export_import_roundtrip_sc_partial : forall H mats pays ps,
  canon N.compare payload_cmp (fun p => mat_digest (fst p)) pays = Some ps ->
  (forall m b, In (m, b) pays -> H b = mat_digest m /\ exists m', In m' mats /\ mat_digest m' = mat_digest m) ->
  (forall m, In m mats -> mat_present m = true -> exists m' b, In (m', b) pays /\ mat_digest m' = mat_digest m) ->
  sc_check H mats pays = SCOk.
Print Assumptions export_import_roundtrip_sc_partial.

(* ---- non-vacuity: a concrete hash, concrete histories on both tiers and the index ------------ *)
Example c20_nonvacuous :
  let H := toy_hash in
  let a := [1; 2; 3] in let c := [9; 9] in
  let ops := [Put a; Pin (H a); PutV (H a) c; PutV (H c) c; Get (H a); Unpin (H a); Get (H c); Get 5] in
  (* memory tier: a mismatch is refused, both blobs are stored and returned intact, 5 bytes accounted *)
  snd (mem_run H (mem_new (Some 4)) ops) =
    [OHash (H a); OUnit; OMismatch (H a) (H c); OOk; OBytes (Some a); OUnit; OBytes (Some c); OBytes None] /\
  m_bytes (fst (mem_run H (mem_new (Some 4)) ops)) = 5 /\
  mem_over_budget (fst (mem_run H (mem_new (Some 4)) ops)) = true /\
  H a <> H c /\
  (* disk tier: corruption is detected, deletion is absence, put repairs, reopen keeps content *)
  snd (disk_run H (disk_open []) [Put a; EnvWrite (H a) c; Get (H a); Put a; Reopen; Get (H a); EnvDelete (H a); Get (H a)]) =
    [OHash (H a); OUnit; OMismatch (H a) (H c); OHash (H a); OUnit; OBytes (Some a); OUnit; OBytes None] /\
  forallb is_api ops = true /\
  (* index: same bytes under two coordinates, different bytes under an occupied one *)
  let c1 : coord := ([110], ([97], ([98], (0, 1)))) in
  let c2 : coord := ([110], ([97], ([98], (1, 1)))) in
  snd (irun H istate0 [IRetain c1 a; IRetain c2 a; IRetain c1 c; ILoad c1; IFreshStore; ILoad c1; ILoad ([], ([], ([], (0, 0))))]) =
    [IODesc (ROk (H a, 3)); IODesc (ROk (H a, 3)); IODesc (RErr (SemanticCoordinateConflict (H a) (H c)));
     IOLoad (ROk ((H a, 3), a)); IOStore OUnit; IOLoad (RErr (MissingBlob (H a)));
     IOLoad (RErr MissingSemanticCoordinate)] /\
  first_content [IRetain c1 a; IRetain c2 a; IRetain c1 c] c1 = Some a /\
  (* export profiles: intact material accepted, withheld / corrupt / wrong-length material obstructed *)
  let m1 : material := (H a, (1, (5, 0))) in let m2 : material := (H c, (2, (1, 0))) in
  let r1 : cref := ((5, 1), (H a, 3)) in let r2 : cref := ((1, 2), (H c, 2)) in
  sc_check H [m1; m2] [(m1, a); (m2, c)] = SCOk /\
  sc_check H [m1; m2] [(m1, a)] = SCMissing (H c) /\
  sc_check H [m1; m2] [(m1, a); (m2, a)] = SCDigestMismatch (H c) (H a) /\
  cas_check H [m1; m2] [] [r1; r2] [(H a, a); (H c, c)] = CASOk /\
  cas_check H [m1; m2] [] [r1; r2] [(H a, a)] = CASMissingBlob (H c) 2 /\
  cas_check H [m1; m2] [] [r1; r2] [(H a, a); (H c, a)] = CASHashMismatch (H c) (H a) /\
  cas_check H [m1; m2] [] [r1] [(H a, a); (H c, c)] = CASRefMismatch 1 0 /\
  cas_check H [m1; m2] [] [r1; ((1, 2), (H c, 3))] [(H a, a); (H c, c)] = CASLenMismatch 3 2.
Proof. cbv zeta. repeat split; try (vm_compute; reflexivity). vm_compute. discriminate. Qed.
