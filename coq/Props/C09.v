(* C09 — a scheduler pass is all-or-nothing and strictly ordered.
   Only property theorems live here: each is closed by [exact], pinned by
   [Check ... : statement] and followed by [Print Assumptions].
   All theorems hold for EVERY engine [commit : S -> list N -> cres S], in particular for engines
   that leave arbitrary garbage in the frontier state when they fail or unwind. *)
From Coq Require Import List NArith Sorting.Sorted.
From Echo Require Import Base.FinMap Model.Pass Proofs.PassProofs.
Import ListNotations.
Open Scope N_scope.

(* The partial checkpoint is complete: whatever prefix of the loop ran and however it ended, nothing outside
   the runnable heads, the frontiers / provenance of their worldlines (provenance only grows) and the logged
   correlation writes has changed; and the un-rolled-back `?` exit of the loop is unreachable. *)
Theorem pass_frame : forall S (commit : S -> list N -> cres S) next keys (r : rt S) p,
  wf r p -> (forall k, In k keys -> find hkey_cmp k (heads r) <> None) ->
  match pass_loop S commit next keys {| ls_rt := r; ls_prov := p; ls_log := [] |} with
  | LDone st _ | LFail st _ _ | LPanic st =>
      (forall k, ~ In k keys -> find hkey_cmp k (heads (ls_rt st)) = find hkey_cmp k (heads r)) /\
      (forall w, ~ In w (map wl_of keys) ->
         find N.compare w (fronts (ls_rt st)) = find N.compare w (fronts r) /\
         find N.compare w (ls_prov st) = find N.compare w p) /\
      (forall w es, find N.compare w p = Some es -> exists ex, find N.compare w (ls_prov st) = Some (es ++ ex)) /\
      gtick (ls_rt st) = gtick r /\ faults (ls_rt st) = faults r /\ faulted_heads (ls_rt st) = faulted_heads r /\
      rt_fault (ls_rt st) = rt_fault r /\ next_gen (ls_rt st) = next_gen r /\
      rollback (ls_log st) (cor (ls_rt st)) = cor r
  | LOuter _ _ => False
  end.
Proof. exact pass_frame_explicit. Qed.
Check pass_frame : forall S (commit : S -> list N -> cres S) next keys (r : rt S) p,
  wf r p -> (forall k, In k keys -> find hkey_cmp k (heads r) <> None) ->
  match pass_loop S commit next keys {| ls_rt := r; ls_prov := p; ls_log := [] |} with
  | LDone st _ | LFail st _ _ | LPanic st =>
      (forall k, ~ In k keys -> find hkey_cmp k (heads (ls_rt st)) = find hkey_cmp k (heads r)) /\
      (forall w, ~ In w (map wl_of keys) ->
         find N.compare w (fronts (ls_rt st)) = find N.compare w (fronts r) /\
         find N.compare w (ls_prov st) = find N.compare w p) /\
      (forall w es, find N.compare w p = Some es -> exists ex, find N.compare w (ls_prov st) = Some (es ++ ex)) /\
      gtick (ls_rt st) = gtick r /\ faults (ls_rt st) = faults r /\ faulted_heads (ls_rt st) = faulted_heads r /\
      rt_fault (ls_rt st) = rt_fault r /\ next_gen (ls_rt st) = next_gen r /\
      rollback (ls_log st) (cor (ls_rt st)) = cor r
  | LOuter _ _ => False
  end.
Print Assumptions pass_frame.

(* All-or-nothing: a pass that ends in an error (at ANY position, of ANY kind, including the failures that
   strike after provenance was appended, the tick advanced and correlations were written) or in a caught
   unwind returns the provenance unchanged and a runtime that is EXACTLY the pre-pass runtime, or the
   pre-pass runtime with one fault recorded. *)
Theorem pass_atomic : forall S (commit : S -> list N -> cres S) (r : rt S) (p : provmap) r' p' o,
  wf r p -> super_tick S commit r p = (r', p', o) -> (forall recs, o <> OOk recs) ->
  p' = p /\ (r' = r \/ exists run sc c, record_fault S r run sc c = Some r').
Proof. exact super_tick_atomic. Qed.
Check pass_atomic : forall S (commit : S -> list N -> cres S) (r : rt S) (p : provmap) r' p' o,
  wf r p -> super_tick S commit r p = (r', p', o) -> (forall recs, o <> OOk recs) ->
  p' = p /\ (r' = r \/ exists run sc c, record_fault S r run sc c = Some r').
Print Assumptions pass_atomic.

(* ... and the evidence is exactly scoped: an engine error or a frontier overflow quarantines the one runnable
   head that failed, an unwind or a provenance / correlation failure the runtime; success records nothing. *)
Theorem pass_fault_evidence_exact : forall S (commit : S -> list N -> cres S) (r : rt S) (p : provmap) r' p' o,
  wf r p -> super_tick S commit r p = (r', p', o) ->
  match o with
  | OOk _ => faults r' = faults r /\ faulted_heads r' = faulted_heads r /\ rt_fault r' = rt_fault r
  | OPanic => r' = opt_default r (record_runtime_fault S r (gtick r + 1, runnable_keys S r) CausePanic)
  | OErr (EEngine x) =>
      exists k, In k (runnable_keys S r) /\
        record_head_fault S r (gtick r + 1, runnable_keys S r) k (CauseErr (EEngine x)) = Some r'
  | OErr (EFrontierOverflow w) =>
      exists k, In k (runnable_keys S r) /\ wl_of k = w /\
        record_head_fault S r (gtick r + 1, runnable_keys S r) k (CauseErr (EFrontierOverflow w)) = Some r'
  | OErr (ERuntimeFaultActive _) | OErr EGenOverflow | OErr (EUnknownHead _) => r' = r
  | OErr e => r' = r \/ record_runtime_fault S r (if gtick r =? tick_max then gtick r else gtick r + 1, runnable_keys S r)
                          (CauseErr e) = Some r'
  end.
Proof. exact fault_evidence_exact. Qed.
Check pass_fault_evidence_exact : forall S (commit : S -> list N -> cres S) (r : rt S) (p : provmap) r' p' o,
  wf r p -> super_tick S commit r p = (r', p', o) ->
  match o with
  | OOk _ => faults r' = faults r /\ faulted_heads r' = faulted_heads r /\ rt_fault r' = rt_fault r
  | OPanic => r' = opt_default r (record_runtime_fault S r (gtick r + 1, runnable_keys S r) CausePanic)
  | OErr (EEngine x) =>
      exists k, In k (runnable_keys S r) /\
        record_head_fault S r (gtick r + 1, runnable_keys S r) k (CauseErr (EEngine x)) = Some r'
  | OErr (EFrontierOverflow w) =>
      exists k, In k (runnable_keys S r) /\ wl_of k = w /\
        record_head_fault S r (gtick r + 1, runnable_keys S r) k (CauseErr (EFrontierOverflow w)) = Some r'
  | OErr (ERuntimeFaultActive _) | OErr EGenOverflow | OErr (EUnknownHead _) => r' = r
  | OErr e => r' = r \/ record_runtime_fault S r (if gtick r =? tick_max then gtick r else gtick r + 1, runnable_keys S r)
                          (CauseErr e) = Some r'
  end.
Print Assumptions pass_fault_evidence_exact.

(* Strict order and exact advance: a successful pass commits exactly the runnable heads that can admit, in
   strictly ascending (worldline, head) order, stamps every step with global tick + 1, advances every
   worldline by one tick per committed head (frontier and provenance alike), the global tick by exactly one,
   and records no fault. *)
Theorem pass_success_shape : forall S (commit : S -> list N -> cres S) (r : rt S) (p : provmap) r' p' recs,
  wf r p -> super_tick S commit r p = (r', p', OOk recs) ->
  gtick r' = gtick r + 1 /\
  map st_head recs = filter (can_admit_in (heads r)) (runnable_keys S r) /\
  StronglySorted hlt (map st_head recs) /\
  Forall (fun s => st_gtick s = gtick r + 1) recs /\
  (forall w f, find N.compare w (fronts r) = Some f ->
     exists f', find N.compare w (fronts r') = Some f' /\ f_tick f' = f_tick f + count_wl w recs) /\
  (forall w es, find N.compare w p = Some es ->
     exists ex, find N.compare w p' = Some (es ++ ex) /\ lenN ex = count_wl w recs /\
                Forall (fun e => e_gtick e = gtick r + 1) ex) /\
  faults r' = faults r /\ faulted_heads r' = faulted_heads r /\ rt_fault r' = rt_fault r /\
  wf r' p'.
Proof. exact super_tick_success. Qed.
Check pass_success_shape : forall S (commit : S -> list N -> cres S) (r : rt S) (p : provmap) r' p' recs,
  wf r p -> super_tick S commit r p = (r', p', OOk recs) ->
  gtick r' = gtick r + 1 /\
  map st_head recs = filter (can_admit_in (heads r)) (runnable_keys S r) /\
  StronglySorted hlt (map st_head recs) /\
  Forall (fun s => st_gtick s = gtick r + 1) recs /\
  (forall w f, find N.compare w (fronts r) = Some f ->
     exists f', find N.compare w (fronts r') = Some f' /\ f_tick f' = f_tick f + count_wl w recs) /\
  (forall w es, find N.compare w p = Some es ->
     exists ex, find N.compare w p' = Some (es ++ ex) /\ lenN ex = count_wl w recs /\
                Forall (fun e => e_gtick e = gtick r + 1) ex) /\
  faults r' = faults r /\ faulted_heads r' = faulted_heads r /\ rt_fault r' = rt_fault r /\
  wf r' p'.
Print Assumptions pass_success_shape.

(* RunnableWriterSet::rebuild + refresh_runnable: strictly ascending head keys; exactly the admitted,
   unpaused, unquarantined heads (none while the runtime is faulted). *)
Theorem pass_canonical_order : forall S (r : rt S), sorted hkey_cmp (heads r) ->
  StronglySorted hlt (runnable_keys S r) /\
  (forall k, In k (runnable_keys S r) <->
     rt_fault r = None /\ exists h, find hkey_cmp k (heads r) = Some h /\ h_admitted h = true /\ h_paused h = false /\
                                    find hkey_cmp k (faulted_heads r) = None).
Proof. exact canonical_order. Qed.
Check pass_canonical_order : forall S (r : rt S), sorted hkey_cmp (heads r) ->
  StronglySorted hlt (runnable_keys S r) /\
  (forall k, In k (runnable_keys S r) <->
     rt_fault r = None /\ exists h, find hkey_cmp k (heads r) = Some h /\ h_admitted h = true /\ h_paused h = false /\
                                    find hkey_cmp k (faulted_heads r) = None).
Print Assumptions pass_canonical_order.

(* Lawful rejections are receipts: whatever the receipt inside an Ok commit says (rejected candidates
   included), an engine that answers Ok never produces an engine-scoped fault nor a caught unwind. *)
Theorem rejection_is_receipt : forall S (commit : S -> list N -> cres S) (r : rt S) (p : provmap) r' p' o,
  super_tick S commit r p = (r', p', o) ->
  (forall s b, exists s' cid rdig, commit s b = COk s' cid rdig) ->
  o <> OPanic /\ (forall x, o <> OErr (EEngine x)).
Proof. exact ok_commit_never_faults. Qed.
Check rejection_is_receipt : forall S (commit : S -> list N -> cres S) (r : rt S) (p : provmap) r' p' o,
  super_tick S commit r p = (r', p', o) ->
  (forall s b, exists s' cid rdig, commit s b = COk s' cid rdig) ->
  o <> OPanic /\ (forall x, o <> OErr (EEngine x)).
Print Assumptions rejection_is_receipt.

(* Quarantine is local: a faulted head is not runnable, no pass (whatever its outcome) touches its inbox,
   commits it or lifts its quarantine; every other admitted, unpaused, unfaulted head stays runnable and is
   committed by a successful pass whenever it has work. *)
Theorem quarantine_local : forall S (commit : S -> list N -> cres S) (r : rt S) (p : provmap) r' p' o k g,
  wf r p -> find hkey_cmp k (faulted_heads r) = Some g -> super_tick S commit r p = (r', p', o) ->
  ~ In k (runnable_keys S r) /\
  find hkey_cmp k (heads r') = find hkey_cmp k (heads r) /\
  find hkey_cmp k (faulted_heads r') = Some g /\
  (forall recs, o = OOk recs -> ~ In k (map st_head recs)) /\
  (forall k2 h2, rt_fault r = None -> find hkey_cmp k2 (heads r) = Some h2 -> h_admitted h2 = true ->
     h_paused h2 = false -> find hkey_cmp k2 (faulted_heads r) = None ->
     In k2 (runnable_keys S r) /\
     (forall recs, o = OOk recs -> can_admit h2 = true -> In k2 (map st_head recs))).
Proof. exact quarantine_holds. Qed.
Check quarantine_local : forall S (commit : S -> list N -> cres S) (r : rt S) (p : provmap) r' p' o k g,
  wf r p -> find hkey_cmp k (faulted_heads r) = Some g -> super_tick S commit r p = (r', p', o) ->
  ~ In k (runnable_keys S r) /\
  find hkey_cmp k (heads r') = find hkey_cmp k (heads r) /\
  find hkey_cmp k (faulted_heads r') = Some g /\
  (forall recs, o = OOk recs -> ~ In k (map st_head recs)) /\
  (forall k2 h2, rt_fault r = None -> find hkey_cmp k2 (heads r) = Some h2 -> h_admitted h2 = true ->
     h_paused h2 = false -> find hkey_cmp k2 (faulted_heads r) = None ->
     In k2 (runnable_keys S r) /\
     (forall recs, o = OOk recs -> can_admit h2 = true -> In k2 (map st_head recs))).
Print Assumptions quarantine_local.

(* Trusted recovery: resolving the fault of head k changes fault evidence only, lifts exactly k's
   quarantine, makes k runnable again iff it is admitted and not paused, and keeps the (now Resolved) evidence. *)
Theorem recovery_restores_runnable : forall S (r : rt S) g rid r' f k,
  sorted hkey_cmp (heads r) -> sorted hkey_cmp (faulted_heads r) ->
  find_fault g (faults r) = Some f -> ft_scope f = SHead k -> find hkey_cmp k (faulted_heads r) = Some g ->
  resolve_fault S r g rid = ResOk r' ->
  same_but_faults S r r' /\ rt_fault r' = rt_fault r /\ next_gen r' = next_gen r /\
  find hkey_cmp k (faulted_heads r') = None /\
  (forall k2, k2 <> k -> find hkey_cmp k2 (faulted_heads r') = find hkey_cmp k2 (faulted_heads r)) /\
  (rt_fault r = None ->
     (In k (runnable_keys S r') <->
      exists h, find hkey_cmp k (heads r) = Some h /\ h_admitted h = true /\ h_paused h = false)) /\
  (exists f', find_fault g (faults r') = Some f' /\ ft_status f' = Resolved rid /\ ft_scope f' = SHead k /\
              ft_cause f' = ft_cause f) /\
  length (faults r') = length (faults r).
Proof. exact recovery_head. Qed.
Check recovery_restores_runnable : forall S (r : rt S) g rid r' f k,
  sorted hkey_cmp (heads r) -> sorted hkey_cmp (faulted_heads r) ->
  find_fault g (faults r) = Some f -> ft_scope f = SHead k -> find hkey_cmp k (faulted_heads r) = Some g ->
  resolve_fault S r g rid = ResOk r' ->
  same_but_faults S r r' /\ rt_fault r' = rt_fault r /\ next_gen r' = next_gen r /\
  find hkey_cmp k (faulted_heads r') = None /\
  (forall k2, k2 <> k -> find hkey_cmp k2 (faulted_heads r') = find hkey_cmp k2 (faulted_heads r)) /\
  (rt_fault r = None ->
     (In k (runnable_keys S r') <->
      exists h, find hkey_cmp k (heads r) = Some h /\ h_admitted h = true /\ h_paused h = false)) /\
  (exists f', find_fault g (faults r') = Some f' /\ ft_status f' = Resolved rid /\ ft_scope f' = SHead k /\
              ft_cause f' = ft_cause f) /\
  length (faults r') = length (faults r).
Print Assumptions recovery_restores_runnable.

Theorem recovery_clears_runtime_fault : forall S (r : rt S) g rid r' f,
  find_fault g (faults r) = Some f -> ft_scope f = SRuntime -> rt_fault r = Some g ->
  resolve_fault S r g rid = ResOk r' ->
  same_but_faults S r r' /\ rt_fault r' = None /\ faulted_heads r' = faulted_heads r /\
  length (faults r') = length (faults r).
Proof. exact recovery_runtime. Qed.
Check recovery_clears_runtime_fault : forall S (r : rt S) g rid r' f,
  find_fault g (faults r) = Some f -> ft_scope f = SRuntime -> rt_fault r = Some g ->
  resolve_fault S r g rid = ResOk r' ->
  same_but_faults S r r' /\ rt_fault r' = None /\ faulted_heads r' = faulted_heads r /\
  length (faults r') = length (faults r).
Print Assumptions recovery_clears_runtime_fault.

(* The hypothesis [wf] of the theorems above is an invariant of the public API: it holds after registration
   and after any sequence of ingest / ticketed submission / pass (any outcome) / recovery / eligibility
   changes / provenance replacement / history restore, so the theorems apply to "arbitrary further passes and recovery". *)
Theorem runtime_wf_preserved : forall S (commit : S -> list N -> cres S) (fsa : N -> S) (s0 : S) worlds hs ops,
  wf_all (rt_init s0 worlds hs) /\
  Forall (fun os => wf_all (snd os)) (run_ops S commit fsa (rt_init s0 worlds hs) ops).
Proof. intros S commit fsa s0 worlds hs ops. exact (conj (rt_init_wf S s0 worlds hs) (api_preserves_wf S commit fsa ops _ (rt_init_wf S s0 worlds hs))). Qed.
Check runtime_wf_preserved : forall S (commit : S -> list N -> cres S) (fsa : N -> S) (s0 : S) worlds hs ops,
  wf_all (rt_init s0 worlds hs) /\
  Forall (fun os => wf_all (snd os)) (run_ops S commit fsa (rt_init s0 worlds hs) ops).
Print Assumptions runtime_wf_preserved.

(* rollback_receipt_correlations undoes record_receipt_correlations exactly — all five indexes and the
   pending-submission set — whether the batch was fully correlated or refused half-way. *)
Theorem correlation_rollback_exact : forall k gt ta cid rdig batch c,
  corr_sorted c ->
  match correlate k gt ta cid rdig c [] batch with
  | CorrOk c' log' | CorrMismatch c' log' => rollback log' c' = c /\ witnessed c' = witnessed c /\ staged c' = staged c
  end.
Proof. exact correlate_rollback. Qed.
Check correlation_rollback_exact : forall k gt ta cid rdig batch c,
  corr_sorted c ->
  match correlate k gt ta cid rdig c [] batch with
  | CorrOk c' log' | CorrMismatch c' log' => rollback log' c' = c /\ witnessed c' = witnessed c /\ staged c' = staged c
  end.
Print Assumptions correlation_rollback_exact.

(* Non-vacuity.  Three heads on two worldlines, head (2,3) budgeted, head (2,9) with a ticketed submission.
   (a) The runtime is well formed and all three heads are runnable in canonical order although they were
       registered in another order.
   (b) With a failing intent (id 12 -> typed engine error) in the LAST head's batch the pass fails after two
       heads have committed: the result is the pre-pass runtime plus exactly one head-scoped fault on (2,9),
       provenance untouched.
   (c) Without it the pass commits (1,5), (2,3), (2,9) in that order; worldline 2 advances by two ticks,
       worldline 1 by one, the global tick by one; the budgeted head keeps its second intent; the ticketed
       submission is correlated. *)
Example c09_nonvacuous :
  let cm := table_commit [(12, 2)] in
  let st0 := rt_init (@nil N) [2; 1] [((2, 9), (PAll, false)); ((1, 5), (PAll, false)); ((2, 3), (PBudget 1, false))] in
  let ops := [OpIngest (1, 5) 10; OpIngest (2, 3) 11; OpIngest (2, 3) 14; OpTicketed (2, 9) 13 7] in
  let st := last (map snd (run_ops tstate cm (fun id => [id]) st0 ops)) st0 in
  let stb := last (map snd (run_ops tstate cm (fun id => [id]) st0 (ops ++ [OpIngest (2, 9) 12]))) st0 in
  wf_all st /\ wf_all stb /\
  runnable_keys _ (fst stb) = [(1, 5); (2, 3); (2, 9)] /\
  (let '(r', p', o) := super_tick tstate cm (fst stb) (snd stb) in
   o = OErr (EEngine 2) /\ p' = snd stb /\ same_but_faults _ (fst stb) r' /\
   faulted_heads r' = [((2, 9), 1)] /\ lenN (faults r') = 1 /\ rt_fault r' = None) /\
  (let '(r', p', o) := super_tick tstate cm (fst st) (snd st) in
   match o with OOk recs => map st_head recs = [(1, 5); (2, 3); (2, 9)] /\ map st_tick_after recs = [1; 1; 2] | _ => False end /\
   gtick r' = 1 /\
   map (fun wf => (fst wf, f_tick (snd wf))) (fronts r') = [(1, 1); (2, 2)] /\
   map (fun wes => (fst wes, lenN (snd wes))) p' = [(1, 1); (2, 2)] /\
   map (fun kh => (fst kh, map fst (h_pending (snd kh)))) (heads r') = [((1, 5), []); ((2, 3), [14]); ((2, 9), [])] /\
   map fst (by_tid (cor r')) = [((2, 9), 13)] /\ faults r' = []).
Proof.
  cbv zeta. split; [|split].
  1, 2: vm_compute; repeat split; try reflexivity; exact I.
  vm_compute. repeat split; reflexivity.
Qed.
