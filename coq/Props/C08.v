(* C08 — ingress is content-addressed, idempotent and order-free.
   Only property theorems live here: each is closed by [exact], pinned by
   [Check ... : statement] and followed by [Print Assumptions]. *)
From Coq Require Import List NArith Permutation.
From Echo Require Import Base.FinMap Base.Bytes Model.Inbox Proofs.InboxProofs.
Import ListNotations.
Open Scope N_scope.

(* The ingress id is a function of kind, bytes and the SET of cited causal parents:
   it ignores the routing target and the order / multiplicity of the cited parents. *)
Theorem id_function_of_content : forall (H : bytes -> N) t1 t2 k b ps1 ps2,
  (forall p, In p ps1 <-> In p ps2) ->
  ingress_id H (mk_envelope t1 k b ps1) = ingress_id H (mk_envelope t2 k b ps2).
Proof. exact id_function_of_content_l. Qed.
Check id_function_of_content : forall (H : bytes -> N) t1 t2 k b ps1 ps2,
  (forall p, In p ps1 <-> In p ps2) ->
  ingress_id H (mk_envelope t1 k b ps1) = ingress_id H (mk_envelope t2 k b ps2).
Print Assumptions id_function_of_content.

(* Arrival order and retry multiplicity do not matter: two submission sequences
   with the same SET of envelopes (any order, any repetitions) leave the same
   inbox (pending map and policy), starting from any inbox state, under any policy.
   Hypothesis (necessary, see ingest_target_spelling_refuted): within the
   collection an ingress id names a single envelope. *)
Theorem ingest_order_free : forall (H : bytes -> N) ib l1 l2,
  sorted N.compare (ib_pending ib) -> id_determines_envelope H l1 ->
  (forall e, In e l1 <-> In e l2) ->
  ingest_all H ib l1 = ingest_all H ib l2.
Proof. exact ingest_all_set. Qed.
Check ingest_order_free : forall (H : bytes -> N) ib l1 l2,
  sorted N.compare (ib_pending ib) -> id_determines_envelope H l1 ->
  (forall e, In e l1 <-> In e l2) ->
  ingest_all H ib l1 = ingest_all H ib l2.
Print Assumptions ingest_order_free.

(* ... and with no hypothesis at all the pending ID set is order free. *)
Theorem ingest_order_free_ids : forall (H : bytes -> N) ib l1 l2,
  sorted N.compare (ib_pending ib) -> (forall e, In e l1 <-> In e l2) ->
  map fst (ib_pending (ingest_all H ib l1)) = map fst (ib_pending (ingest_all H ib l2)).
Proof. exact ingest_all_ids_set. Qed.
Check ingest_order_free_ids : forall (H : bytes -> N) ib l1 l2,
  sorted N.compare (ib_pending ib) -> (forall e, In e l1 <-> In e l2) ->
  map fst (ib_pending (ingest_all H ib l1)) = map fst (ib_pending (ingest_all H ib l2)).
Print Assumptions ingest_order_free_ids.

(* DESIGN §6 F11: the full statement WITHOUT the hypothesis is false of the code as
   it is: the id does not cover the target and an occupied entry keeps the first
   envelope, so two spellings of one content retain an order-dependent envelope
   (same id set, different retained envelope). *)
Theorem ingest_target_spelling_refuted : forall (H : bytes -> N),
  exists e1 e2 : envelope,
    content e1 = content e2 /\ ingress_id H e1 = ingress_id H e2 /\ e1 <> e2 /\
    ingest_all H (inbox_new AcceptAll) [e1; e2] <> ingest_all H (inbox_new AcceptAll) [e2; e1] /\
    map fst (ib_pending (ingest_all H (inbox_new AcceptAll) [e1; e2])) =
    map fst (ib_pending (ingest_all H (inbox_new AcceptAll) [e2; e1])).
Proof. exact ingest_target_spelling_witness. Qed.
Check ingest_target_spelling_refuted : forall (H : bytes -> N),
  exists e1 e2 : envelope,
    content e1 = content e2 /\ ingress_id H e1 = ingress_id H e2 /\ e1 <> e2 /\
    ingest_all H (inbox_new AcceptAll) [e1; e2] <> ingest_all H (inbox_new AcceptAll) [e2; e1] /\
    map fst (ib_pending (ingest_all H (inbox_new AcceptAll) [e1; e2])) =
    map fst (ib_pending (ingest_all H (inbox_new AcceptAll) [e2; e1])).
Print Assumptions ingest_target_spelling_refuted.

(* The admitted batch is canonical: a prefix of the id-ordered pending map of length
   min(budget, |pending|) (all of it for AcceptAll / KindFilter), strictly ascending,
   and every admitted id is below every id left pending. *)
Theorem admit_canonical : forall ib ib' batch,
  sorted N.compare (ib_pending ib) -> inbox_admit ib = (ib', batch) ->
  ib_pending ib = batch ++ ib_pending ib' /\ ib_policy ib' = ib_policy ib /\
  lenN batch = match ib_policy ib with Budgeted n => N.min n (lenN (ib_pending ib)) | _ => lenN (ib_pending ib) end /\
  sorted N.compare batch /\ sorted N.compare (ib_pending ib') /\
  (forall i e j e', In (i, e) batch -> In (j, e') (ib_pending ib') -> i < j).
Proof. exact admit_spec. Qed.
Check admit_canonical : forall ib ib' batch,
  sorted N.compare (ib_pending ib) -> inbox_admit ib = (ib', batch) ->
  ib_pending ib = batch ++ ib_pending ib' /\ ib_policy ib' = ib_policy ib /\
  lenN batch = match ib_policy ib with Budgeted n => N.min n (lenN (ib_pending ib)) | _ => lenN (ib_pending ib) end /\
  sorted N.compare batch /\ sorted N.compare (ib_pending ib') /\
  (forall i e j e', In (i, e) batch -> In (j, e') (ib_pending ib') -> i < j).
Print Assumptions admit_canonical.
