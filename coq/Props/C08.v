(* C08 — ingress is content-addressed, idempotent and order-free.
   Only property theorems live here: each is closed by [exact], pinned by
   [Check ... : statement] and followed by [Print Assumptions].
   (generated layout: Theorem and Check statements are textually identical)

   NOT covered by a theorem: the "after a restart" half of the property (restore_* rebuilds
   committed_ingress from receipt correlations of the ticketed path; exercised by the harness
   in mode=restart, WAL recovery is C10); engine rule execution; rollback paths (C09). *)
From Coq Require Import List NArith Permutation.
From Echo Require Import Base.FinMap Base.Bytes Model.Inbox Proofs.InboxProofs.
Import ListNotations.
Open Scope N_scope.

(* The ingress id is a function of kind, bytes and the SET of cited causal parents: it ignores
   the routing target and the order / multiplicity in which parents are cited. *)
Theorem id_function_of_content : forall (H : bytes -> N) t1 t2 k b ps1 ps2,
  (forall p, In p ps1 <-> In p ps2) ->
  ingress_id H (mk_envelope t1 k b ps1) = ingress_id H (mk_envelope t2 k b ps2).
Proof. exact id_function_of_content_l. Qed.
Check id_function_of_content : forall (H : bytes -> N) t1 t2 k b ps1 ps2,
  (forall p, In p ps1 <-> In p ps2) ->
  ingress_id H (mk_envelope t1 k b ps1) = ingress_id H (mk_envelope t2 k b ps2).
Print Assumptions id_function_of_content.

(* Inside one domain (parentless / causal:v2) the hashed preimage is uniquely decodable:
   equal preimages imply equal (kind, bytes, parents).  wf_content = field widths of the Rust types. *)
Theorem id_preimage_inj_per_domain : forall k1 b1 ps1 k2 b2 ps2,
  wf_content k1 b1 ps1 -> wf_content k2 b2 ps2 -> (ps1 = [] <-> ps2 = []) ->
  id_preimage k1 b1 ps1 = id_preimage k2 b2 ps2 -> k1 = k2 /\ b1 = b2 /\ ps1 = ps2.
Proof. exact id_preimage_inj. Qed.
Check id_preimage_inj_per_domain : forall k1 b1 ps1 k2 b2 ps2,
  wf_content k1 b1 ps1 -> wf_content k2 b2 ps2 -> (ps1 = [] <-> ps2 = []) ->
  id_preimage k1 b1 ps1 = id_preimage k2 b2 ps2 -> k1 = k2 /\ b1 = b2 /\ ps1 = ps2.
Print Assumptions id_preimage_inj_per_domain.

(* Hence equal ids name equal content inside a domain, or exhibit a collision of the hash. *)
Theorem ingress_id_binds_content : forall (H : bytes -> N) e1 e2,
  wf_content (e_kind e1) (e_bytes e1) (e_parents e1) -> wf_content (e_kind e2) (e_bytes e2) (e_parents e2) ->
  (e_parents e1 = [] <-> e_parents e2 = []) ->
  ingress_id H e1 = ingress_id H e2 -> content e1 = content e2 \/ Collision H.
Proof. exact ingress_id_binds. Qed.
Check ingress_id_binds_content : forall (H : bytes -> N) e1 e2,
  wf_content (e_kind e1) (e_bytes e1) (e_parents e1) -> wf_content (e_kind e2) (e_bytes e2) (e_parents e2) ->
  (e_parents e1 = [] <-> e_parents e2 = []) ->
  ingress_id H e1 = ingress_id H e2 -> content e1 = content e2 \/ Collision H.
Print Assumptions ingress_id_binds_content.

(* ... but NOT across domains (the full 'id is injective in content' is false of the code): a
   parentless intent whose hand-made kind starts with the bytes "causal:v2\0" has the very same
   preimage, hence ingress id, as a causal intent.  (make_intent_kind output never has that shape
   except by a hash coincidence; IntentKind::from_hash is public.) *)
Theorem id_cross_domain_alias_refuted : wf_content alias_kind alias_bytes [] /\ wf_content 0 [] [alias_parent] /\
  id_preimage alias_kind alias_bytes [] = id_preimage 0 [] [alias_parent] /\
  (alias_kind, alias_bytes, @nil parent) <> (0, @nil N, [alias_parent]).
Proof. exact cross_domain_alias. Qed.
Check id_cross_domain_alias_refuted : wf_content alias_kind alias_bytes [] /\ wf_content 0 [] [alias_parent] /\
  id_preimage alias_kind alias_bytes [] = id_preimage 0 [] [alias_parent] /\
  (alias_kind, alias_bytes, @nil parent) <> (0, @nil N, [alias_parent]).
Print Assumptions id_cross_domain_alias_refuted.

(* Arrival order and retry multiplicity do not matter: two submission sequences with the same SET
   of envelopes (any order, any repetitions) leave the same inbox (pending map and policy), from
   any inbox state, under any policy.  Hypothesis (necessary, see ingest_target_spelling_refuted):
   within the collection an ingress id names a single envelope. *)
Theorem ingest_order_free : forall (H : bytes -> N) ib l1 l2,
  sorted N.compare (ib_pending ib) -> id_determines_envelope H l1 ->
  (forall e, In e l1 <-> In e l2) ->
  ingest_all H ib l1 = ingest_all H ib l2.
Proof. exact ingest_all_set. Qed.
Check ingest_order_free : forall (H : bytes -> N) ib l1 l2,
  sorted N.compare (ib_pending ib) -> id_determines_envelope H l1 ->
  (forall e, In e l1 <-> In e l2) ->
  ingest_all H ib l1 = ingest_all H ib l2.
Print Assumptions ingest_order_free.

(* ... and with no hypothesis at all the pending ID set is order free. *)
Theorem ingest_order_free_ids : forall (H : bytes -> N) ib l1 l2,
  sorted N.compare (ib_pending ib) -> (forall e, In e l1 <-> In e l2) ->
  map fst (ib_pending (ingest_all H ib l1)) = map fst (ib_pending (ingest_all H ib l2)).
Proof. exact ingest_all_ids_set. Qed.
Check ingest_order_free_ids : forall (H : bytes -> N) ib l1 l2,
  sorted N.compare (ib_pending ib) -> (forall e, In e l1 <-> In e l2) ->
  map fst (ib_pending (ingest_all H ib l1)) = map fst (ib_pending (ingest_all H ib l2)).
Print Assumptions ingest_order_free_ids.

(* DESIGN 6 F11: ingest_order_free WITHOUT its hypothesis is false of the code as it is: the id does
   not cover the target and an occupied entry keeps the first envelope, so two spellings of one
   content retain an order-dependent envelope (same id set, different retained envelope). *)
Theorem ingest_target_spelling_refuted : forall (H : bytes -> N),
  exists e1 e2 : envelope,
    content e1 = content e2 /\ ingress_id H e1 = ingress_id H e2 /\ e1 <> e2 /\
    ingest_all H (inbox_new AcceptAll) [e1; e2] <> ingest_all H (inbox_new AcceptAll) [e2; e1] /\
    map fst (ib_pending (ingest_all H (inbox_new AcceptAll) [e1; e2])) =
    map fst (ib_pending (ingest_all H (inbox_new AcceptAll) [e2; e1])).
Proof. exact ingest_target_spelling_witness. Qed.
Check ingest_target_spelling_refuted : forall (H : bytes -> N),
  exists e1 e2 : envelope,
    content e1 = content e2 /\ ingress_id H e1 = ingress_id H e2 /\ e1 <> e2 /\
    ingest_all H (inbox_new AcceptAll) [e1; e2] <> ingest_all H (inbox_new AcceptAll) [e2; e1] /\
    map fst (ib_pending (ingest_all H (inbox_new AcceptAll) [e1; e2])) =
    map fst (ib_pending (ingest_all H (inbox_new AcceptAll) [e2; e1])).
Print Assumptions ingest_target_spelling_refuted.

(* A retry while pending is reported Duplicate and leaves the inbox untouched. *)
Theorem ingest_retry_duplicate : forall (H : bytes -> N) ib e e',
  sorted N.compare (ib_pending ib) -> ingress_id H e' = ingress_id H e ->
  policy_accepts (ib_policy ib) e = true -> policy_accepts (ib_policy ib) e' = true ->
  ingest (fst (ingest ib (ingress_id H e) e)) (ingress_id H e') e' =
  (fst (ingest ib (ingress_id H e) e), Duplicate).
Proof. exact ingest_retry. Qed.
Check ingest_retry_duplicate : forall (H : bytes -> N) ib e e',
  sorted N.compare (ib_pending ib) -> ingress_id H e' = ingress_id H e ->
  policy_accepts (ib_policy ib) e = true -> policy_accepts (ib_policy ib) e' = true ->
  ingest (fst (ingest ib (ingress_id H e) e)) (ingress_id H e') e' =
  (fst (ingest ib (ingress_id H e) e), Duplicate).
Print Assumptions ingest_retry_duplicate.

(* The admitted batch is canonical: the prefix of the id-ordered pending map of length
   min(budget, |pending|) (all of it for AcceptAll / KindFilter), strictly ascending, every
   admitted id below every id left pending. *)
Theorem admit_canonical : forall ib ib' batch,
  sorted N.compare (ib_pending ib) -> inbox_admit ib = (ib', batch) ->
  ib_pending ib = batch ++ ib_pending ib' /\ ib_policy ib' = ib_policy ib /\
  lenN batch = match ib_policy ib with Budgeted n => N.min n (lenN (ib_pending ib)) | _ => lenN (ib_pending ib) end /\
  sorted N.compare batch /\ sorted N.compare (ib_pending ib') /\
  (forall i e j e', In (i, e) batch -> In (j, e') (ib_pending ib') -> i < j).
Proof. exact admit_spec. Qed.
Check admit_canonical : forall ib ib' batch,
  sorted N.compare (ib_pending ib) -> inbox_admit ib = (ib', batch) ->
  ib_pending ib = batch ++ ib_pending ib' /\ ib_policy ib' = ib_policy ib /\
  lenN batch = match ib_policy ib with Budgeted n => N.min n (lenN (ib_pending ib)) | _ => lenN (ib_pending ib) end /\
  sorted N.compare batch /\ sorted N.compare (ib_pending ib') /\
  (forall i e j e', In (i, e) batch -> In (j, e') (ib_pending ib') -> i < j).
Print Assumptions admit_canonical.

(* ... so batch order and content are independent of arrival order and retries. *)
Theorem admit_arrival_order_free : forall (H : bytes -> N) ib l1 l2,
  sorted N.compare (ib_pending ib) -> id_determines_envelope H l1 -> (forall e, In e l1 <-> In e l2) ->
  inbox_admit (ingest_all H ib l1) = inbox_admit (ingest_all H ib l2).
Proof. exact admit_arrival_independent. Qed.
Check admit_arrival_order_free : forall (H : bytes -> N) ib l1 l2,
  sorted N.compare (ib_pending ib) -> id_determines_envelope H l1 -> (forall e, In e l1 <-> In e l2) ->
  inbox_admit (ingest_all H ib l1) = inbox_admit (ingest_all H ib l2).
Print Assumptions admit_arrival_order_free.

(* admit_partitioned (trusted-host path): the batch is a function of the pending map alone, never
   mixes the two execution categories, is ascending, respects the budget, and batch + remaining is
   exactly the old pending map. *)
Theorem admit_partitioned_canonical : forall ib pk pl tick ib' batch,
  sorted N.compare (ib_pending ib) -> admit_partitioned ib pk pl tick = (ib', batch) ->
  (forall x, In x (ib_pending ib) <-> In x batch \/ In x (ib_pending ib')) /\
  sorted N.compare batch /\ sorted N.compare (ib_pending ib') /\ ib_policy ib' = ib_policy ib /\
  (exists sel, forall x, In x batch -> in_part pk x = sel) /\
  (match ib_policy ib with Budgeted n => lenN batch <= n | _ => True end).
Proof. exact admit_partitioned_spec. Qed.
Check admit_partitioned_canonical : forall ib pk pl tick ib' batch,
  sorted N.compare (ib_pending ib) -> admit_partitioned ib pk pl tick = (ib', batch) ->
  (forall x, In x (ib_pending ib) <-> In x batch \/ In x (ib_pending ib')) /\
  sorted N.compare batch /\ sorted N.compare (ib_pending ib') /\ ib_policy ib' = ib_policy ib /\
  (exists sel, forall x, In x batch -> in_part pk x = sel) /\
  (match ib_policy ib with Budgeted n => lenN batch <= n | _ => True end).
Print Assumptions admit_partitioned_canonical.

(* commit_with_state's dedupe of the admitted batch by ingress id never drops anything. *)
Theorem commit_dedupe_noop : forall ib ib' batch,
  sorted N.compare (ib_pending ib) -> inbox_admit ib = (ib', batch) -> commit_dedupe [] batch = batch.
Proof. exact commit_dedupe_noop_l. Qed.
Check commit_dedupe_noop : forall ib ib' batch,
  sorted N.compare (ib_pending ib) -> inbox_admit ib = (ib', batch) -> commit_dedupe [] batch = batch.
Print Assumptions commit_dedupe_noop.

(* Every runtime built by register_writer_head from the empty one satisfies the invariant used below
   (sorted maps, pending and committed disjoint). *)
Theorem registered_runtime_wf : forall rt h p nm d, rt_wf rt -> rt_wf (fst (register_head rt h p nm d)).
Proof. exact register_head_wf. Qed.
Check registered_runtime_wf : forall rt h p nm d, rt_wf rt -> rt_wf (fst (register_head rt h p nm d)).
Print Assumptions registered_runtime_wf.

(* Submitting the same SET of intents in a window (any arrival order, any retries, any routing
   spelling that keeps one envelope per id and head) yields the same runtime state, hence the same
   admitted batches, commits and dispositions for every continuation ops (passes, further
   submissions, policy and eligibility changes). *)
Theorem pass_order_free : forall (H : bytes -> N) rt l1 l2 ops,
  rt_wf rt -> id_determines_envelope_per_head H rt l1 -> (forall e, In e l1 <-> In e l2) ->
  run H (submit_all H rt l1) ops = run H (submit_all H rt l2) ops.
Proof. exact pass_order_free_l. Qed.
Check pass_order_free : forall (H : bytes -> N) rt l1 l2 ops,
  rt_wf rt -> id_determines_envelope_per_head H rt l1 -> (forall e, In e l1 <-> In e l2) ->
  run H (submit_all H rt l1) ops = run H (submit_all H rt l2) ops.
Print Assumptions pass_order_free.

(* For EVERY op sequence (submissions, retries, passes, policy and eligibility changes in any
   interleaving): no (head, ingress id) is committed twice, nothing already committed is committed
   again, and committed_ingress is exactly what was committed. *)
Theorem at_most_once : forall (H : bytes -> N) ops rt rt' outs,
  rt_wf rt -> run H rt ops = (rt', outs) ->
  NoDup (all_commits outs) /\
  (forall y, In y (all_commits outs) -> ~ cmem y (rt_committed rt)) /\
  (forall y, cmem y (rt_committed rt') <-> cmem y (rt_committed rt) \/ In y (all_commits outs)).
Proof. exact at_most_once_l. Qed.
Check at_most_once : forall (H : bytes -> N) ops rt rt' outs,
  rt_wf rt -> run H rt ops = (rt', outs) ->
  NoDup (all_commits outs) /\
  (forall y, In y (all_commits outs) -> ~ cmem y (rt_committed rt)) /\
  (forall y, cmem y (rt_committed rt') <-> cmem y (rt_committed rt) \/ In y (all_commits outs)).
Print Assumptions at_most_once.

(* A retry after the commit is a Duplicate and changes nothing. *)
Theorem retry_after_commit_duplicate : forall (H : bytes -> N) ops rt rt' outs e h,
  rt_wf rt -> run H rt ops = (rt', outs) ->
  In (h, ingress_id H e) (all_commits outs) -> resolve rt' (e_target e) = RHead h ->
  submit H rt' e = (rt', DDuplicate h (ingress_id H e)).
Proof. exact retry_after_commit. Qed.
Check retry_after_commit_duplicate : forall (H : bytes -> N) ops rt rt' outs e h,
  rt_wf rt -> run H rt ops = (rt', outs) ->
  In (h, ingress_id H e) (all_commits outs) -> resolve rt' (e_target e) = RHead h ->
  submit H rt' e = (rt', DDuplicate h (ingress_id H e)).
Print Assumptions retry_after_commit_duplicate.

(* A retry while pending is a Duplicate and changes nothing. *)
Theorem retry_while_pending_duplicate : forall (H : bytes -> N) rt e h s,
  resolve rt (e_target e) = RHead h -> ~ cmem (h, ingress_id H e) (rt_committed rt) ->
  find hkey_cmp h (rt_heads rt) = Some s -> policy_accepts (ib_policy (hs_inbox s)) e = true ->
  mem N.compare (ingress_id H e) (ib_pending (hs_inbox s)) = true ->
  submit H rt e = (rt, DDuplicate h (ingress_id H e)).
Proof. exact submit_pending_duplicate. Qed.
Check retry_while_pending_duplicate : forall (H : bytes -> N) rt e h s,
  resolve rt (e_target e) = RHead h -> ~ cmem (h, ingress_id H e) (rt_committed rt) ->
  find hkey_cmp h (rt_heads rt) = Some s -> policy_accepts (ib_policy (hs_inbox s)) e = true ->
  mem N.compare (ingress_id H e) (ib_pending (hs_inbox s)) = true ->
  submit H rt e = (rt, DDuplicate h (ingress_id H e)).
Print Assumptions retry_while_pending_duplicate.

(* Non-vacuity: a concrete runtime (two heads on one worldline, one budgeted, routed by default /
   name / exact head), built by register_head, satisfies rt_wf; a concrete window of three
   envelopes (two of them the same content for two different heads) satisfies
   id_determines_envelope_per_head under a concrete hash; the run commits a non-trivial set; and
   the conclusions hold on it for the reversed arrival order with retries. *)
Definition ex_H (pre : bytes) : N := from_be pre.
Definition ex_rt : runtime :=
  fst (register_head (fst (register_head (rt_empty [1]) (1, 10) AcceptAll None true))
         (1, 11) (Budgeted 1) (Some [111; 114]) false).
Definition ex_e1 := mk_envelope (TDefault 1) 17 [1; 2] [].
Definition ex_e2 := mk_envelope (TNamed 1 [111; 114]) 17 [1; 2] [].
Definition ex_e3 := mk_envelope (TExact 1 11) 18 [3]
  [(false, (1, (1, (1, (5, (6, (7, 8))))))); (false, (1, (1, (1, (5, (6, (7, 8)))))))].
Definition ex_l := [ex_e1; ex_e2; ex_e3].

Example c08_nonvacuous :
  rt_wf ex_rt /\
  id_determines_envelope_per_head ex_H ex_rt ex_l /\
  ingress_id ex_H ex_e1 = ingress_id ex_H ex_e2 /\
  length (all_commits (snd (run ex_H ex_rt (map Submit ex_l ++ [Pass; Submit ex_e1; Pass])))) = 3%nat /\
  (forall ops, run ex_H (submit_all ex_H ex_rt ex_l) ops = run ex_H (submit_all ex_H ex_rt (rev ex_l ++ ex_l)) ops) /\
  NoDup (all_commits (snd (run ex_H ex_rt (map Submit ex_l ++ [Pass; Submit ex_e1; Pass])))).
Proof.
  assert (Hwf : rt_wf ex_rt) by (unfold ex_rt; apply register_head_wf, register_head_wf, rt_empty_wf).
  assert (Hd : id_determines_envelope_per_head ex_H ex_rt ex_l).
  { intros a b Ha Hb E R. unfold ex_l in Ha, Hb. cbn [In] in Ha, Hb.
    destruct Ha as [<-|[<-|[<-|[]]]]; destruct Hb as [<-|[<-|[<-|[]]]]; try reflexivity;
      try (vm_compute in E; discriminate E); vm_compute in R; discriminate R. }
  split; [exact Hwf|]. split; [exact Hd|]. split; [reflexivity|]. split; [vm_compute; reflexivity|].
  split.
  - intros ops. apply pass_order_free; [exact Hwf|exact Hd|].
    intros e. unfold ex_l. cbn [rev app In]. tauto.
  - destruct (run ex_H ex_rt (map Submit ex_l ++ [Pass; Submit ex_e1; Pass])) as [rt' outs] eqn:R.
    apply (at_most_once ex_H _ ex_rt rt' outs Hwf R).
Qed.

(* ... and for the inbox-level theorems: a causal intent citing one parent twice is canonicalised,
   is well-formed content, the two-envelope collection satisfies id_determines_envelope, and a
   budget-1 inbox admits exactly one of them whatever the arrival order. *)
Example c08_nonvacuous_inbox :
  let l := [ex_e3; ex_e1] in
  id_determines_envelope ex_H l /\
  wf_content (e_kind ex_e3) (e_bytes ex_e3) (e_parents ex_e3) /\
  e_parents ex_e3 = [(false, (1, (1, (1, (5, (6, (7, 8)))))))] /\
  lenN (snd (inbox_admit (ingest_all ex_H (inbox_new (Budgeted 1)) l))) = 1 /\
  lenN (ib_pending (fst (inbox_admit (ingest_all ex_H (inbox_new (Budgeted 1)) l)))) = 1 /\
  inbox_admit (ingest_all ex_H (inbox_new (Budgeted 1)) l) =
  inbox_admit (ingest_all ex_H (inbox_new (Budgeted 1)) (rev l ++ l)).
Proof.
  cbv zeta.
  assert (Hd : id_determines_envelope ex_H [ex_e3; ex_e1]).
  { intros a b Ha Hb E. cbn [In] in Ha, Hb.
    destruct Ha as [<-|[<-|[]]]; destruct Hb as [<-|[<-|[]]]; try reflexivity; vm_compute in E; discriminate E. }
  split; [exact Hd|]. split.
  { unfold wf_content. split; [vm_compute; reflexivity|]. split; [vm_compute; reflexivity|].
    split; [vm_compute; reflexivity|]. constructor; [|constructor]. cbn. repeat split; vm_compute; reflexivity. }
  split; [vm_compute; reflexivity|]. split; [vm_compute; reflexivity|]. split; [vm_compute; reflexivity|].
  apply admit_arrival_order_free; [exact I|exact Hd|]. intros e. cbn [rev app In]. tauto.
Qed.
