(* C01 — a tick's outcome depends on the candidate set, never on arrival order.
   Only pinned property theorems live here. *)
From Coq Require Import List NArith Lia Permutation.
From Echo Require Import Base.FinMap Model.Sched Model.Tick
  Proofs.SchedProofs Proofs.SortProofs Proofs.DrainProofs Proofs.TickProofs.
Import ListNotations.
Open Scope N_scope.

(* The pending queue denotes a canonical map: whatever the enqueue sequence (any order, any
   repetition), draining yields the (scope hash, rule id)-sorted list of the last payload
   enqueued per key - for every batch size (both sort implementations). *)
Theorem drain_is_canonical_map : forall cs,
  Forall wf_cand cs -> drain_kv cs = queue_map cs.
Proof. exact drain_canonical. Qed.
Check drain_is_canonical_map : forall cs, Forall wf_cand cs -> drain_kv cs = queue_map cs.
Print Assumptions drain_is_canonical_map.

(* Receipt (order, dispositions, blockers) and merged effects are a function of the candidate
   SET: two enqueue sequences over the same candidate table that mention the same candidates,
   in any order and multiplicity, give the same tick. *)
Theorem tick_depends_on_set_only : forall tbl enq1 enq2,
  table_ok tbl -> enq_ok tbl enq1 -> enq_ok tbl enq2 ->
  (forall h, In h enq1 <-> In h enq2) -> tick tbl enq1 = tick tbl enq2.
Proof. exact tick_set_determined. Qed.
Check tick_depends_on_set_only : forall tbl enq1 enq2,
  table_ok tbl -> enq_ok tbl enq1 -> enq_ok tbl enq2 ->
  (forall h, In h enq1 <-> In h enq2) -> tick tbl enq1 = tick tbl enq2.
Print Assumptions tick_depends_on_set_only.

Theorem tick_considers_in_canonical_order : forall tbl enq,
  table_ok tbl -> enq_ok tbl enq ->
  to_order (tick tbl enq) = map snd (queue_map (queue_of tbl enq)) /\
  sorted kcmp (queue_map (queue_of tbl enq)).
Proof. exact tick_order_canonical. Qed.
Check tick_considers_in_canonical_order : forall tbl enq,
  table_ok tbl -> enq_ok tbl enq ->
  to_order (tick tbl enq) = map snd (queue_map (queue_of tbl enq)) /\
  sorted kcmp (queue_map (queue_of tbl enq)).
Print Assumptions tick_considers_in_canonical_order.

(* The applied op sequence is the canonical merge of the ops every ACCEPTED rewrite emitted
   against the pre-tick state (executor outputs are data of the candidate) ... *)
Theorem tick_effects : forall tbl enq,
  to_merged (tick tbl enq) = merge (flat_map c_ops (accepted (drained tbl enq))).
Proof. intros; reflexivity. Qed.
Check tick_effects : forall tbl enq,
  to_merged (tick tbl enq) = merge (flat_map c_ops (accepted (drained tbl enq))).
Print Assumptions tick_effects.

(* ... it contains no effect of a rejected rewrite: admission restricted to the accepted
   candidates accepts all of them, so dropping the rejected ones changes nothing ... *)
Theorem rejected_invisible : forall cs, accepted (accepted cs) = accepted cs.
Proof. exact accepted_idempotent. Qed.
Check rejected_invisible : forall cs, accepted (accepted cs) = accepted cs.
Print Assumptions rejected_invisible.

(* ... and the merge is a function of the multiset of emitted ops (result or error kind). *)
Theorem merge_order_free : forall l1 l2, Permutation l1 l2 -> merge l1 = merge l2.
Proof. exact merge_perm. Qed.
Check merge_order_free : forall l1 l2, Permutation l1 l2 -> merge l1 = merge l2.
Print Assumptions merge_order_free.

(* Non-vacuity: three candidates (one rejected), enqueued in two different orders with a
   repetition; the rejected candidate's ops do not appear. *)
Definition ex_op (k c : N) : mop := {| op_key := k; op_content := c; op_new := None; op_target := Some 1 |}.
Definition ex_cand (sc ru : N) (w r : list rkey) (ops : list mop) : cand :=
  {| c_scope := sc; c_rule := ru; c_warp := 1; c_node := sc;
     c_fp := {| n_read := r; n_write := w; e_read := []; e_write := []; a_read := []; a_write := [];
                b_in := []; b_out := []; factor_mask := 0 |};
     c_ops := ops |}.
Example c01_nonvacuous :
  let tbl := [ex_cand 30 1 [(1, 7)] [] [ex_op 5 50]; ex_cand 10 1 [(1, 7)] [] [ex_op 4 40; ex_op 9 90];
              ex_cand 20 2 [(1, 8)] [(1, 9)] [ex_op 9 90; ex_op 2 20]] in
  table_ok tbl /\ enq_ok tbl [0; 1; 2] /\ enq_ok tbl [2; 2; 1; 0; 1] /\
  tick tbl [0; 1; 2] = tick tbl [2; 2; 1; 0; 1] /\
  to_order (tick tbl [0; 1; 2]) = [1; 2; 0] /\
  to_receipt (tick tbl [0; 1; 2]) = Some [(true, []); (true, []); (false, [0])] /\
  to_merged (tick tbl [0; 1; 2]) = MergeOk [ex_op 2 20; ex_op 4 40; ex_op 9 90].
Proof.
  cbv zeta. split; [|split; [|split; [|split; [|split; [|split]]]]].
  - split.
    + repeat (apply Forall_cons; [split; vm_compute; reflexivity|]). apply Forall_nil.
    + intros i j Hi Hj. cbn in Hi, Hj.
      destruct i as [|[|[|i]]]; destruct j as [|[|[|j]]]; cbn; intros; try reflexivity; try discriminate; exfalso; lia.
  - unfold enq_ok. repeat (apply Forall_cons; [cbn; lia|]). apply Forall_nil.
  - unfold enq_ok. repeat (apply Forall_cons; [cbn; lia|]). apply Forall_nil.
  - vm_compute. reflexivity.
  - vm_compute. reflexivity.
  - vm_compute. reflexivity.
  - vm_compute. reflexivity.
Qed.
