(* C18 — materialized output is independent of emission order.
   Only property theorems live here: each is closed by [exact], pinned by
   [Check ... : statement] and followed by [Print Assumptions]. *)
From Coq Require Import List NArith Permutation.
From Echo Require Import Base.FinMap Base.Bytes Model.Bus Proofs.BusProofs.
Import ListNotations.
Open Scope N_scope.

(* Finalized channel bytes, reported conflicts, the digest preimage and the frame
   encoding are the same for every order of a duplicate-free emission set. *)
Theorem finalize_order_free : forall ps es1 es2,
  NoDup (map fst es1) -> Permutation es1 es2 -> run_tick ps es1 = run_tick ps es2.
Proof. exact run_tick_perm. Qed.
Check finalize_order_free : forall ps es1 es2,
  NoDup (map fst es1) -> Permutation es1 es2 -> run_tick ps es1 = run_tick ps es2.
Print Assumptions finalize_order_free.

(* Commutative reducers are invariant under any re-keying (any permutation of
   the value sequence), including payloads of unequal length. *)
Theorem commutative_rekey : forall op vs1 vs2,
  is_commutative op = true -> Permutation vs1 vs2 -> apply_op op vs1 = apply_op op vs2.
Proof. exact apply_op_perm. Qed.
Check commutative_rekey : forall op vs1 vs2,
  is_commutative op = true -> Permutation vs1 vs2 -> apply_op op vs1 = apply_op op vs2.
Print Assumptions commutative_rekey.

(* ... and the classification is exact: the other reducers do depend on order. *)
Theorem noncommutative_witness : forall op,
  is_commutative op = false ->
  exists vs1 vs2, Permutation vs1 vs2 /\ apply_op op vs1 <> apply_op op vs2.
Proof. exact noncommutative_exact. Qed.
Check noncommutative_witness : forall op,
  is_commutative op = false ->
  exists vs1 vs2, Permutation vs1 vs2 /\ apply_op op vs1 <> apply_op op vs2.
Print Assumptions noncommutative_witness.

(* A repeated (channel, key) emission is rejected and leaves the bus unchanged. *)
Theorem duplicate_rejected : forall b k v x,
  find ckey_cmp k b = Some x -> emit b k v = (b, EmitDup).
Proof. exact emit_dup. Qed.
Check duplicate_rejected : forall b k v x,
  find ckey_cmp k b = Some x -> emit b k v = (b, EmitDup).
Print Assumptions duplicate_rejected.

(* ... in every order: a sequence with a repeated key always yields a rejection,
   a duplicate-free one never does. *)
Theorem duplicate_always_reported : forall es,
  ~ NoDup (map fst es) -> In EmitDup (emit_all_results es).
Proof. exact dup_always_reported. Qed.
Check duplicate_always_reported : forall es,
  ~ NoDup (map fst es) -> In EmitDup (emit_all_results es).
Print Assumptions duplicate_always_reported.

Theorem distinct_never_rejected : forall es,
  NoDup (map fst es) -> ~ In EmitDup (emit_all_results es).
Proof. exact nodup_no_dup_reported. Qed.
Check distinct_never_rejected : forall es,
  NoDup (map fst es) -> ~ In EmitDup (emit_all_results es).
Print Assumptions distinct_never_rejected.

(* The emissions digest sorts channels before hashing. *)
Theorem digest_channel_order_free : forall c1 c2,
  NoDup (map fst c1) -> Permutation c1 c2 -> digest_preimage c1 = digest_preimage c2.
Proof. exact digest_order_free. Qed.
Check digest_channel_order_free : forall c1 c2,
  NoDup (map fst c1) -> Permutation c1 c2 -> digest_preimage c1 = digest_preimage c2.
Print Assumptions digest_channel_order_free.

(* Non-vacuity: a concrete duplicate-free, multi-channel, multi-policy emission
   set meets the hypotheses and produces a non-trivial report. *)
Example c18_nonvacuous :
  let es := [((2, (7, (1, 0))), [1; 2; 3]); ((1, (9, (1, 0))), [255]); ((2, (3, (1, 1))), [4]);
             ((3, (5, (2, 0))), [9; 9]); ((3, (4, (2, 0))), [1])] in
  let ps := [(1, PStrictSingle); (3, PReduce Sum)] in
  NoDup (map fst es) /\
  to_channels (run_tick ps es) =
    [(1, [255]); (2, [1; 0; 0; 0; 4; 3; 0; 0; 0; 1; 2; 3]); (3, [10; 9; 0; 0; 0; 0; 0; 0])] /\
  run_tick ps es = run_tick ps (rev es).
Proof.
  cbv zeta. split; [|split; vm_compute; reflexivity].
  repeat constructor; cbn; intuition discriminate.
Qed.
