(* C07 — replay is path-independent.
   Only property theorems live here: each is closed by [exact], pinned by [Check ... : statement] and followed
   by [Print Assumptions].  The theorems hold for ANY state type, patch application, state root, commit hash
   and patch digest (Section variables, nothing assumed about them). *)
From Coq Require Import List NArith.
From Echo Require Import Base.FinMap Model.Seek Proofs.SeekProofs.
Import ListNotations.
Open Scope N_scope.

Section C07.
  Variables St P : Type.
  Variable apply : St -> P -> aresult St.
  Variable root : St -> N.
  Variable commit_hash : N -> list N -> N -> N -> N.
  Variables p_digest_field p_digest_calc p_policy p_decision : P -> N.

  Notation replay := (replay St P apply root commit_hash p_digest_field p_digest_calc p_policy p_decision).
  Notation run_ops := (run_ops St P apply root commit_hash p_digest_field p_digest_calc p_policy p_decision).
  Notation verifies := (verifies St P apply root commit_hash p_digest_field p_digest_calc p_policy p_decision).
  Notation cps_valid := (cps_valid St P apply root commit_hash p_digest_field p_digest_calc p_policy p_decision).

  (* Whatever sequence of seeks (forward, backward, onto or across checkpoints), steps in any play mode, mode /
     pin / role changes and checkpoints taken from the cursor itself a client performs — including operations
     that fail — the cursor's materialized state (graph state AND replay metadata) is exactly the state obtained
     by replaying ticks 0..tick from U0, for a history that verifies and checkpoints that hold replayed states. *)
  Theorem seek_path_independent : forall (st : @store St P) (b : @wstate St) r pin ops,
    base_from_initial St b = b ->
    verifies (st_entries st) b -> cps_valid st b -> Forall (local_op St) ops ->
    let c := snd (fst (run_ops b (st, new_cursor St r b pin) ops)) in
    c_tick c <= st_len St P st /\ replay (st_entries st) b (c_tick c) = (c_ws c, None).
  Proof. exact (seek_path_independent_lemma St P apply root commit_hash p_digest_field p_digest_calc p_policy p_decision). Qed.
  Check seek_path_independent : forall (st : @store St P) (b : @wstate St) r pin ops,
    base_from_initial St b = b ->
    verifies (st_entries st) b -> cps_valid st b -> Forall (local_op St) ops ->
    let c := snd (fst (run_ops b (st, new_cursor St r b pin) ops)) in
    c_tick c <= st_len St P st /\ replay (st_entries st) b (c_tick c) = (c_ws c, None).

  (* Replaying t ticks depends on the first t entries only (later appends never change earlier states). *)
  Theorem replay_prefix : forall (h1 h2 : list (@entry P)) (b : @wstate St) t,
    t <= lenN h1 -> replay (h1 ++ h2) b t = replay h1 b t.
  Proof. exact (replay_prefix_lemma St P apply root commit_hash p_digest_field p_digest_calc p_policy p_decision). Qed.
  Check replay_prefix : forall (h1 h2 : list (@entry P)) (b : @wstate St) t,
    t <= lenN h1 -> replay (h1 ++ h2) b t = replay h1 b t.

  (* A fork at tick k replays every tick up to k+1 exactly like its source ... *)
  Theorem fork_faithful : forall (st : @store St P) (b : @wstate St) k (st' : @store St P) t,
    fork St P st k = inr st' -> t <= k + 1 ->
    replay (st_entries st') b t = replay (st_entries st) b t.
  Proof. exact (fork_faithful_lemma St P apply root commit_hash p_digest_field p_digest_calc p_policy p_decision). Qed.
  Check fork_faithful : forall (st : @store St P) (b : @wstate St) k (st' : @store St P) t,
    fork St P st k = inr st' -> t <= k + 1 ->
    replay (st_entries st') b t = replay (st_entries st) b t.

  (* ... its copied checkpoints stay valid, and any cursor run on the fork lands on the source's states. *)
  Theorem fork_seek_faithful : forall (st : @store St P) (b : @wstate St) k (st' : @store St P) r pin ops,
    base_from_initial St b = b ->
    verifies (st_entries st) b -> cps_valid st b -> fork St P st k = inr st' -> Forall (local_op St) ops ->
    let c := snd (fst (run_ops b (st', new_cursor St r b pin) ops)) in
    c_tick c <= k + 1 /\ replay (st_entries st) b (c_tick c) = (c_ws c, None).
  Proof. exact (fork_seek_lemma St P apply root commit_hash p_digest_field p_digest_calc p_policy p_decision). Qed.
  Check fork_seek_faithful : forall (st : @store St P) (b : @wstate St) k (st' : @store St P) r pin ops,
    base_from_initial St b = b ->
    verifies (st_entries st) b -> cps_valid st b -> fork St P st k = inr st' -> Forall (local_op St) ops ->
    let c := snd (fst (run_ops b (st', new_cursor St r b pin) ops)) in
    c_tick c <= k + 1 /\ replay (st_entries st) b (c_tick c) = (c_ws c, None).

  Notation add_checkpoint := (add_checkpoint St P root p_digest_field p_digest_calc p_decision).
  Notation restore_base := (restore_base St P root).
  Notation live_run := (live_run St P apply root commit_hash p_digest_field p_policy p_decision).
  Notation base_ok := (base_ok St P root).
  Notation same_but_roots := (same_but_roots St root).
  Notation RootCollision := (RootCollision St root).

  (* checkpoint_sound: a checkpoint accepted by add_checkpoint for tick t agrees with the replayed state of tick t
     on warp, tick history artifacts, last snapshot, materialization, tx counter, and on the ROOTS of its graph
     state and of its U0 state (the code compares roots, not graphs) ... *)
  Theorem checkpoint_sound : forall (st : @store St P) (b : @wstate St) t hash cw st' w,
    verifies (st_entries st) b -> base_ok st b ->
    add_checkpoint st t hash cw = inr st' ->
    replay (st_entries st) b t = (w, None) ->
    t <= st_len St P st /\ hash = ws_root St root cw /\ same_but_roots cw w.
  Proof. exact (checkpoint_sound_lemma St P apply root commit_hash p_digest_field p_digest_calc p_policy p_decision). Qed.
  Check checkpoint_sound : forall (st : @store St P) (b : @wstate St) t hash cw st' w,
    verifies (st_entries st) b -> base_ok st b ->
    add_checkpoint st t hash cw = inr st' ->
    replay (st_entries st) b t = (w, None) ->
    t <= st_len St P st /\ hash = ws_root St root cw /\ same_but_roots cw w.

  (* ... hence it IS that state, or the state root has a collision. *)
  Theorem checkpoint_sound_state : forall (St_eq_dec : forall x y : St, {x = y} + {x <> y}) (cw w : @wstate St),
    same_but_roots cw w -> cw = w \/ RootCollision.
  Proof. exact (same_roots_eq_or_collision St root). Qed.
  Check checkpoint_sound_state : forall (St_eq_dec : forall x y : St, {x = y} + {x <> y}) (cw w : @wstate St),
    same_but_roots cw w -> cw = w \/ RootCollision.

  (* Path independence with checkpoints of ARBITRARY content offered to add_checkpoint at any point of the run. *)
  Theorem seek_path_independent_foreign_cps :
    forall (St_eq_dec : forall x y : St, {x = y} + {x <> y}) (st : @store St P) (b : @wstate St) r pin ops,
    base_ok st b -> verifies (st_entries st) b -> cps_valid st b ->
    (let c := snd (fst (run_ops b (st, new_cursor St r b pin) ops)) in
     c_tick c <= st_len St P st /\ replay (st_entries st) b (c_tick c) = (c_ws c, None)) \/ RootCollision.
  Proof. exact (seek_path_independent_foreign_lemma St P apply root commit_hash p_digest_field p_digest_calc p_policy p_decision). Qed.
  Check seek_path_independent_foreign_cps :
    forall (St_eq_dec : forall x y : St, {x = y} + {x <> y}) (st : @store St P) (b : @wstate St) r pin ops,
    base_ok st b -> verifies (st_entries st) b -> cps_valid st b ->
    (let c := snd (fst (run_ops b (st, new_cursor St r b pin) ops)) in
     c_tick c <= st_len St P st /\ replay (st_entries st) b (c_tick c) = (c_ws c, None)) \/ RootCollision.

  (* The `target+1` lookup of restore_replay_base picks the LATEST checkpoint at or before the target, U0 if none. *)
  Theorem restore_base_nearest : forall (st : @store St P) (b : @wstate St) target w start,
    sorted (V := N * @wstate St) N.compare (st_cps st) -> target < u64_max ->
    restore_base st b target = inr (w, start) ->
    start <= target /\
    (forall t' c', In (t', c') (st_cps st) -> t' <= target -> t' <= start) /\
    (start = 0 /\ w = base_from_initial St b \/ exists hash, In (start, (hash, w)) (st_cps st)).
  Proof. exact (restore_base_nearest_lemma St P root). Qed.
  Check restore_base_nearest : forall (st : @store St P) (b : @wstate St) target w start,
    sorted (V := N * @wstate St) N.compare (st_cps st) -> target < u64_max ->
    restore_base st b target = inr (w, start) ->
    start <= target /\
    (forall t' c', In (t', c') (st_cps st) -> t' <= target -> t' <= start) /\
    (start = 0 /\ w = base_from_initial St b \/ exists hash, In (start, (hash, w)) (st_cps st)).

  (* What a successful restore_replay_base has verified about the checkpoint it starts from (the metadata part was
     added by /repo 90bd2fa): hash and state root equal the expected root of its tick, it carries exactly `tick`
     history artifacts and, for tick > 0, the last one is the commit recorded by entry tick-1. *)
  Theorem restore_base_checked : forall (st : @store St P) (b : @wstate St) target w start,
    restore_base st b target = inr (w, start) ->
    match cp_before St (st_cps st) (lookup_tick target) with
    | Some (t, (hash, cw)) =>
        t = start /\ cw = w /\
        expected_root_at St P st t = Some hash /\ ws_root St root cw = hash /\
        lenN (ws_hist cw) = t /\
        (t <> 0 -> exists e a, nthN (st_entries st) (t - 1) = Some e /\ last_opt (ws_hist cw) = Some a /\
                               a_commit a = e_commit e)
    | None => start = 0 /\ w = base_from_initial St b
    end.
  Proof. exact (restore_base_cases St P root). Qed.
  Check restore_base_checked : forall (st : @store St P) (b : @wstate St) target w start,
    restore_base st b target = inr (w, start) ->
    match cp_before St (st_cps st) (lookup_tick target) with
    | Some (t, (hash, cw)) =>
        t = start /\ cw = w /\
        expected_root_at St P st t = Some hash /\ ws_root St root cw = hash /\
        lenN (ws_hist cw) = t /\
        (t <> 0 -> exists e a, nthN (st_entries st) (t - 1) = Some e /\ last_opt (ws_hist cw) = Some a /\
                               a_commit a = e_commit e)
    | None => start = 0 /\ w = base_from_initial St b
    end.

  (* Appending an entry keeps every checkpoint valid and every earlier replay unchanged. *)
  Theorem append_preserves : forall (st : @store St P) (b : @wstate St) e,
    cps_valid st b -> cps_valid (append St P st e) b /\
    forall t, t <= st_len St P st -> replay (st_entries (append St P st e)) b t = replay (st_entries st) b t.
  Proof. exact (append_preserves_lemma St P apply root commit_hash p_digest_field p_digest_calc p_policy p_decision). Qed.
  Check append_preserves : forall (st : @store St P) (b : @wstate St) e,
    cps_valid st b -> cps_valid (append St P st e) b /\
    forall t, t <= st_len St P st -> replay (st_entries st ++ [e]) b t = replay (st_entries st) b t.

  (* "... and equals what the live runtime held at t": the history recorded by a live run (entry = patch, live
     post-state root, commit hash over the previous tip, receipt, outputs) verifies, and replaying it to tick t
     yields the live graph state after t commits. *)
  Theorem live_run_replays : forall s ps es ss (b : @wstate St),
    live_run s 0 None ps = Some (es, ss) ->
    Forall (fun po => p_digest_calc (fst po) = p_digest_field (fst po)) ps -> lenN ps < u64_max -> ws_init b = s ->
    verifies es b /\
    forall t, t <= lenN es -> ws_state (fst (replay es b t)) = nth (N.to_nat t) (s :: ss) s.
  Proof. exact (live_run_replays_lemma St P apply root commit_hash p_digest_field p_digest_calc p_policy p_decision). Qed.
  Check live_run_replays : forall s ps es ss (b : @wstate St),
    live_run s 0 None ps = Some (es, ss) ->
    Forall (fun po => p_digest_calc (fst po) = p_digest_field (fst po)) ps -> lenN ps < u64_max -> ws_init b = s ->
    verifies es b /\
    forall t, t <= lenN es -> ws_state (fst (replay es b t)) = nth (N.to_nat t) (s :: ss) s.
End C07.

Print Assumptions seek_path_independent.
Print Assumptions replay_prefix.
Print Assumptions fork_faithful.
Print Assumptions fork_seek_faithful.
Print Assumptions checkpoint_sound.
Print Assumptions checkpoint_sound_state.
Print Assumptions seek_path_independent_foreign_cps.
Print Assumptions restore_base_nearest.
Print Assumptions restore_base_checked.
Print Assumptions append_preserves.
Print Assumptions live_run_replays.

(* ------------------------------------------------------------------ concrete instance (slot maps) *)

Definition ex_init : slotmap := [(1, 1)].
Definition ex_patch (ws : list (N * option N)) (i : N) : spatch * N :=
  ({| sp_writes := ws; sp_field := 100 + i; sp_calc := 100 + i; sp_policy := 0; sp_decision := 200 + i |}, i).
Definition ex_ps : list (spatch * N) :=
  [ex_patch [(2, Some 1); (3, Some 5)] 0; ex_patch [(3, Some 6); (4, Some 2)] 1;
   ex_patch [(2, None); (5, Some 9)] 2; ex_patch [(3, Some 7)] 3].
Definition ex_h : list s_entry := match s_live_run ex_init 0 None ex_ps with Some (es, _) => es | None => [] end.
Definition ex_b : s_wstate := s_base ex_init 1.
Definition ex_st0 : s_store := {| st_u0 := 1; st_boundary := sroot ex_init; st_entries := ex_h; st_cps := [] |}.
Definition ex_cp (st : s_store) (t : N) : s_store :=
  let w := fst (s_replay ex_h ex_b t) in
  match s_add_checkpoint st t (sroot (ws_state w)) w with inr st' => st' | inl _ => st end.
Definition ex_st : s_store := ex_cp (ex_cp ex_st0 3) 1.
Definition ex_ops : list (op slotmap) :=
  [OSeek _ 4; OSeek _ 1; OSeek _ 2; OCheckpointHere _; OSetMode _ StepBack; OStep _; OSeek _ 3; OSeek _ 0;
   OSetMode _ Play; OStep _; OStep _; OSeek _ 9; OSetPin _ 2; OSeek _ 4; OSeek _ 2].

(* Non-vacuity: a 4-tick history, checkpoints at ticks 1 and 3 (accepted by add_checkpoint), and a run that seeks
   forward, backward onto and across checkpoints, steps in two modes, checkpoints from the cursor and hits two
   failing seeks; the hypotheses of seek_path_independent hold and the run is non-trivial. *)
Example c07_nonvacuous :
  base_from_initial slotmap ex_b = ex_b /\
  verifies slotmap spatch sapply sroot scommit sp_field sp_calc sp_policy sp_decision ex_h ex_b /\
  cps_valid slotmap spatch sapply sroot scommit sp_field sp_calc sp_policy sp_decision ex_st ex_b /\
  map fst (st_cps ex_st) = [1; 3] /\ Forall (local_op slotmap) ex_ops /\
  (let '(st', c, outs) := s_run_ops ex_b (ex_st, new_cursor slotmap Reader ex_b 4) ex_ops in
   c_tick c = 2 /\ ws_state (c_ws c) = [(1, 1); (2, 1); (3, 6); (4, 2)] /\ map fst (st_cps st') = [1; 2; 3] /\
   outs = [RSeek None; RSeek None; RSeek None; RCp None; RUnit; RStep (inr Seeked); RSeek None; RSeek None; RUnit;
           RStep (inr Advanced); RStep (inr Advanced); RSeek (Some (SPinned 9 4)); RUnit;
           RSeek (Some (SPinned 4 2)); RSeek None]).
Proof.
  split; [reflexivity|]. split; [vm_compute; reflexivity|]. split.
  - intros t hash cw Hin. vm_compute in Hin.
    destruct Hin as [E|[E|[]]]; inversion E; subst; (split; [vm_compute; discriminate|vm_compute; reflexivity]).
  - split; [vm_compute; reflexivity|]. split; [repeat constructor|]. vm_compute. repeat split; reflexivity.
Qed.

(* F12 (DESIGN section 6), closed by /repo commit 7e0a2d4: for EVERY store (also a tampered one), base, cursor and
   target, a seek that answers an error leaves the cursor on its previous tick AND its previous state.  Before that
   commit the forward path advanced the cursor state in place, so a rejected seek left a partially advanced,
   unverified state behind the unchanged tick (the former theorem `failed_seek_state_partial` exhibited it). *)
Theorem failed_seek_keeps_cursor :
  forall (st : s_store) (b : s_wstate) (c : s_cursor) (target : N) e,
    snd (s_seek_to st b c target) = Some e ->
    c_tick (fst (s_seek_to st b c target)) = c_tick c /\ c_ws (fst (s_seek_to st b c target)) = c_ws c /\
    c_pin (fst (s_seek_to st b c target)) = c_pin c /\ c_mode (fst (s_seek_to st b c target)) = c_mode c.
Proof. exact (seek_to_error_keeps_cursor slotmap spatch sapply sroot scommit sp_field sp_calc sp_policy sp_decision). Qed.
Check failed_seek_keeps_cursor :
  forall (st : s_store) (b : s_wstate) (c : s_cursor) (target : N) e,
    snd (s_seek_to st b c target) = Some e ->
    c_tick (fst (s_seek_to st b c target)) = c_tick c /\ c_ws (fst (s_seek_to st b c target)) = c_ws c /\
    c_pin (fst (s_seek_to st b c target)) = c_pin c /\ c_mode (fst (s_seek_to st b c target)) = c_mode c.
Print Assumptions failed_seek_keeps_cursor.

(* the regression witness on a tampered history: entry 2 carries a wrong state root; the forward seek from tick 1 to 4
   is rejected with SStateRoot 2 and the cursor still IS the replay of tick 1 *)
Definition ex_bad_h : list s_entry :=
  match ex_h with
  | e0 :: e1 :: e2 :: r =>
      e0 :: e1 :: {| e_tick := e_tick e2; e_patch := e_patch e2; e_root := e_root e2 + 1; e_pdig := e_pdig e2; e_commit := e_commit e2;
                     e_parents := e_parents e2; e_receipt := e_receipt e2; e_out := e_out e2 |} :: r
  | l => l
  end.
Example failed_seek_witness :
  let st := {| st_u0 := 1; st_boundary := sroot ex_init; st_entries := ex_bad_h; st_cps := [] |} in
  let c := fst (s_seek_to ex_st0 ex_b (new_cursor slotmap Reader ex_b 4) 1) in
  let '(c', e) := s_seek_to st ex_b c 4 in
  e = Some (SStateRoot 2) /\ c_tick c' = 1 /\ s_replay (st_entries st) ex_b (c_tick c') = (c_ws c', None).
Proof. vm_compute. repeat split; reflexivity. Qed.
