(* C07 — replay is path-independent.
   Only property theorems live here: each is closed by [exact], pinned by [Check ... : statement] and followed
   by [Print Assumptions].  The theorems hold for ANY state type, patch application, state root, commit hash
   and patch digest (Section variables, nothing assumed about them). *)
From Coq Require Import List NArith.
From Echo Require Import Base.FinMap Model.Seek Proofs.SeekProofs.
Import ListNotations.
Open Scope N_scope.

Section C07.
  Variables St P : Type.
  Variable apply : St -> P -> aresult St.
  Variable root : St -> N.
  Variable commit_hash : N -> list N -> N -> N -> N.
  Variables p_digest_field p_digest_calc p_policy p_decision : P -> N.

  Notation replay := (replay St P apply root commit_hash p_digest_field p_digest_calc p_policy p_decision).
  Notation run_ops := (run_ops St P apply root commit_hash p_digest_field p_digest_calc p_policy p_decision).
  Notation verifies := (verifies St P apply root commit_hash p_digest_field p_digest_calc p_policy p_decision).
  Notation cps_valid := (cps_valid St P apply root commit_hash p_digest_field p_digest_calc p_policy p_decision).

  (* Whatever sequence of seeks (forward, backward, onto or across checkpoints), steps in any play mode, mode /
     pin / role changes and checkpoints taken from the cursor itself a client performs — including operations
     that fail — the cursor's materialized state (graph state AND replay metadata) is exactly the state obtained
     by replaying ticks 0..tick from U0, for a history that verifies and checkpoints that hold replayed states. *)
  Theorem seek_path_independent : forall (st : @store St P) (b : @wstate St) r pin ops,
    base_from_initial St b = b ->
    verifies (st_entries st) b -> cps_valid st b -> Forall (local_op St) ops ->
    let c := snd (fst (run_ops b (st, new_cursor St r b pin) ops)) in
    c_tick c <= st_len St P st /\ replay (st_entries st) b (c_tick c) = (c_ws c, None).
  Proof. exact (seek_path_independent_lemma St P apply root commit_hash p_digest_field p_digest_calc p_policy p_decision). Qed.
  Check seek_path_independent : forall (st : @store St P) (b : @wstate St) r pin ops,
    base_from_initial St b = b ->
    verifies (st_entries st) b -> cps_valid st b -> Forall (local_op St) ops ->
    let c := snd (fst (run_ops b (st, new_cursor St r b pin) ops)) in
    c_tick c <= st_len St P st /\ replay (st_entries st) b (c_tick c) = (c_ws c, None).

  (* Replaying t ticks depends on the first t entries only (later appends never change earlier states). *)
  Theorem replay_prefix : forall (h1 h2 : list (@entry P)) (b : @wstate St) t,
    t <= lenN h1 -> replay (h1 ++ h2) b t = replay h1 b t.
  Proof. exact (replay_prefix_lemma St P apply root commit_hash p_digest_field p_digest_calc p_policy p_decision). Qed.
  Check replay_prefix : forall (h1 h2 : list (@entry P)) (b : @wstate St) t,
    t <= lenN h1 -> replay (h1 ++ h2) b t = replay h1 b t.

  (* A fork at tick k replays every tick up to k+1 exactly like its source ... *)
  Theorem fork_faithful : forall (st : @store St P) (b : @wstate St) k (st' : @store St P) t,
    fork St P st k = inr st' -> t <= k + 1 ->
    replay (st_entries st') b t = replay (st_entries st) b t.
  Proof. exact (fork_faithful_lemma St P apply root commit_hash p_digest_field p_digest_calc p_policy p_decision). Qed.
  Check fork_faithful : forall (st : @store St P) (b : @wstate St) k (st' : @store St P) t,
    fork St P st k = inr st' -> t <= k + 1 ->
    replay (st_entries st') b t = replay (st_entries st) b t.

  (* ... its copied checkpoints stay valid, and any cursor run on the fork lands on the source's states. *)
  Theorem fork_seek_faithful : forall (st : @store St P) (b : @wstate St) k (st' : @store St P) r pin ops,
    base_from_initial St b = b ->
    verifies (st_entries st) b -> cps_valid st b -> fork St P st k = inr st' -> Forall (local_op St) ops ->
    let c := snd (fst (run_ops b (st', new_cursor St r b pin) ops)) in
    c_tick c <= k + 1 /\ replay (st_entries st) b (c_tick c) = (c_ws c, None).
  Proof. exact (fork_seek_lemma St P apply root commit_hash p_digest_field p_digest_calc p_policy p_decision). Qed.
  Check fork_seek_faithful : forall (st : @store St P) (b : @wstate St) k (st' : @store St P) r pin ops,
    base_from_initial St b = b ->
    verifies (st_entries st) b -> cps_valid st b -> fork St P st k = inr st' -> Forall (local_op St) ops ->
    let c := snd (fst (run_ops b (st', new_cursor St r b pin) ops)) in
    c_tick c <= k + 1 /\ replay (st_entries st) b (c_tick c) = (c_ws c, None).
End C07.

Print Assumptions seek_path_independent.
Print Assumptions replay_prefix.
Print Assumptions fork_faithful.
Print Assumptions fork_seek_faithful.
