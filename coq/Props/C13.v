(* C13 — decoders and byte-level entry points are total (ABI canonical CBOR decoder, panic/alloc/depth aware model).
   Only property theorems live here. *)
From Coq Require Import List NArith ZArith.
From Echo Require Import Base.Bytes Model.CborPA Proofs.CborPAProofs.
Import ListNotations.
Open Scope N_scope.

(* REFUTED on the decoder as it is (cfg_unguarded): forall b, result (dec_pa cfg b) is not a panic. *)
Theorem dec_no_panic_refuted : exists b, result (dec_pa cfg_unguarded b) = Panic PCapacity.
Proof. exists w_capacity. exact unguarded_capacity_panic. Qed.
Check dec_no_panic_refuted : exists b, result (dec_pa cfg_unguarded b) = Panic PCapacity.
Print Assumptions dec_no_panic_refuted.
