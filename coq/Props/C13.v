(* C13 — decoders and byte-level entry points are total.
   Subject: the panic/alloc/depth-aware model [dec_pa] (Model/CborPA.v) of
   crates/echo-wasm-abi/src/canonical.rs :: decode_value.  [cfg_repo] = the decoder as it is in /repo now
   (= [cfg_guarded]: element budget + MAX_DECODE_DEPTH, /repo 65efcf1, see [repo_cfg_known]);
   [cfg_unguarded] = the decoder before that commit (the three [_refuted] witnesses).
   Only property theorems live here: each is closed by [exact], pinned by [Check] and followed by [Print Assumptions]. *)
From Coq Require Import List NArith ZArith.
From Echo Require Import Base.Bytes Model.CborPA Proofs.CborPAProofs Proofs.CborPASim Model.WscReadPA Proofs.WscReadPAProofs.
Import ListNotations.
Open Scope N_scope.

(* ---- facts that hold for EVERY configuration, in particular for the decoder as it is ---- *)

(* Termination: fuel 2*len+3 is never exhausted (the recursion of dec_value is well founded). *)
Theorem dec_terminates : forall c b, lenN b <= usize_max c -> result (dec_pa c b) <> Fuel.
Proof. exact pa_terminates. Qed.
Check dec_terminates : forall c b, lenN b <= usize_max c -> result (dec_pa c b) <> Fuel.
Print Assumptions dec_terminates.

(* No slice-index, slice-order or usize-overflow panic is reachable: the only possible panic is
   Vec::with_capacity's capacity overflow. *)
Theorem dec_panic_only_capacity : forall c b,
  lenN b <= usize_max c -> forall p, result (dec_pa c b) = Panic p -> p = PCapacity.
Proof. exact pa_panic_only_capacity. Qed.
Check dec_panic_only_capacity : forall c b,
  lenN b <= usize_max c -> forall p, result (dec_pa c b) = Panic p -> p = PCapacity.
Print Assumptions dec_panic_only_capacity.

(* ---- THE PROPERTY, for the decoder as it is in /repo now (cfg_repo) ----
   The only hypothesis is that 64 * len fits isize: every input shorter than 2^57 bytes. *)

(* FULL STATEMENT: for every byte string, decode_value does not panic. *)
Theorem dec_no_panic : forall b : bytes,
  size_entry * lenN b <= isize_max cfg_repo -> forall p, result (dec_pa cfg_repo b) <> Panic p.
Proof. exact repo_no_panic. Qed.
Check dec_no_panic : forall b : bytes,
  size_entry * lenN b <= isize_max cfg_repo -> forall p, result (dec_pa cfg_repo b) <> Panic p.
Print Assumptions dec_no_panic.

(* Peak live heap bytes (decoded value + pre-allocated buffers + live map-key copies) never exceed
   66 bytes per input byte, for every outcome (value or error), independent of nesting. *)
Theorem dec_alloc_linear : forall b : bytes,
  size_entry * lenN b <= isize_max cfg_repo -> alloc_peak (dec_pa cfg_repo b) <= 66 * lenN b.
Proof. exact repo_alloc_linear. Qed.
Check dec_alloc_linear : forall b : bytes,
  size_entry * lenN b <= isize_max cfg_repo -> alloc_peak (dec_pa cfg_repo b) <= 66 * lenN b.
Print Assumptions dec_alloc_linear.

(* The recursion never goes deeper than MAX_DECODE_DEPTH + 1 = 129 levels below the root. *)
Theorem dec_depth_bounded : forall b : bytes,
  size_entry * lenN b <= isize_max cfg_repo -> depth_max (dec_pa cfg_repo b) <= guard_depth + 1.
Proof. exact repo_depth_bounded. Qed.
Check dec_depth_bounded : forall b : bytes,
  size_entry * lenN b <= isize_max cfg_repo -> depth_max (dec_pa cfg_repo b) <= guard_depth + 1.
Print Assumptions dec_depth_bounded.

(* ---- the same three facts for ANY guarded configuration (e.g. cfg_guarded32 = wasm32 word size) ---- *)

(* FULL STATEMENT: forall b, result (dec_pa cfg b) is not a panic.  Hypotheses: the configuration is
   guarded, isize <= usize, and 64 * len fits isize (any input shorter than 2^57 bytes on 64-bit targets,
   2^25 bytes on wasm32). *)
Theorem dec_no_panic_any_guarded : forall c b,
  is_guarded c = true -> isize_max c <= usize_max c -> size_entry * lenN b <= isize_max c ->
  forall p, result (dec_pa c b) <> Panic p.
Proof. exact guarded_no_panic. Qed.
Check dec_no_panic_any_guarded : forall c b,
  is_guarded c = true -> isize_max c <= usize_max c -> size_entry * lenN b <= isize_max c ->
  forall p, result (dec_pa c b) <> Panic p.
Print Assumptions dec_no_panic_any_guarded.

(* Peak live heap bytes (decoded value + pre-allocated buffers + live map-key copies) never exceed
   66 bytes per input byte, for every outcome (value or error), independent of nesting. *)
Theorem dec_alloc_linear_any_guarded : forall c b,
  is_guarded c = true -> isize_max c <= usize_max c -> size_entry * lenN b <= isize_max c ->
  alloc_peak (dec_pa c b) <= 66 * lenN b.
Proof. exact guarded_alloc_linear. Qed.
Check dec_alloc_linear_any_guarded : forall c b,
  is_guarded c = true -> isize_max c <= usize_max c -> size_entry * lenN b <= isize_max c ->
  alloc_peak (dec_pa c b) <= 66 * lenN b.
Print Assumptions dec_alloc_linear_any_guarded.

(* The recursion never goes deeper than limit + 1 frames below the root. *)
Theorem dec_depth_bounded_any_guarded : forall c b m,
  guard c = true -> depth_limit c = Some m -> isize_max c <= usize_max c -> size_entry * lenN b <= isize_max c ->
  depth_max (dec_pa c b) <= m + 1.
Proof. exact guarded_depth_bounded. Qed.
Check dec_depth_bounded_any_guarded : forall c b m,
  guard c = true -> depth_limit c = Some m -> isize_max c <= usize_max c -> size_entry * lenN b <= isize_max c ->
  depth_max (dec_pa c b) <= m + 1.
Print Assumptions dec_depth_bounded_any_guarded.

(* The guard is transparent: whatever the unguarded decoder accepts without nesting deeper than the limit,
   the guarded decoder accepts with the identical value (the patch cannot break a valid payload). *)
Theorem guard_transparent : forall (b : bytes) v,
  lenN b <= usize_max cfg_unguarded ->
  result (dec_pa cfg_unguarded b) = Val v -> depth_max (dec_pa cfg_unguarded b) <= guard_depth ->
  result (dec_pa cfg_guarded b) = Val v.
Proof. exact guard_transparent_64. Qed.
Check guard_transparent : forall (b : bytes) v,
  lenN b <= usize_max cfg_unguarded ->
  result (dec_pa cfg_unguarded b) = Val v -> depth_max (dec_pa cfg_unguarded b) <= guard_depth ->
  result (dec_pa cfg_guarded b) = Val v.
Print Assumptions guard_transparent.

(* ... and it only removes behaviours: a value returned under the guard is exactly the value the
   unguarded decoder returns (the patch cannot make the decoder accept anything new). *)
Theorem guard_only_removes : forall (b : bytes) v,
  result (dec_pa cfg_guarded b) = Val v -> result (dec_pa cfg_unguarded b) = Val v.
Proof. exact guard_sound_64. Qed.
Check guard_only_removes : forall (b : bytes) v,
  result (dec_pa cfg_guarded b) = Val v -> result (dec_pa cfg_unguarded b) = Val v.
Print Assumptions guard_only_removes.

(* ---- REFUTED for the decoder before /repo 65efcf1 (cfg_unguarded); the witnesses are in corpus/C13/f6.txt and
        are replayed on /repo by the harness on every run (they must now be typed errors) ---- *)

Theorem dec_no_panic_refuted : exists b, result (dec_pa cfg_unguarded b) = Panic PCapacity.
Proof. exists w_capacity. exact unguarded_capacity_panic. Qed.
Check dec_no_panic_refuted : exists b, result (dec_pa cfg_unguarded b) = Panic PCapacity.
Print Assumptions dec_no_panic_refuted.

(* 9 input bytes, 64 TiB requested (the bound of dec_alloc_linear would be 594 bytes);
   5 input bytes, typed error returned, 2 MiB allocated. *)
Theorem dec_alloc_linear_refuted :
  (exists b, lenN b = 9 /\ alloc_peak (dec_pa cfg_unguarded b) = 64 * (2 ^ 40 - 1)) /\
  (exists b, lenN b = 5 /\ result (dec_pa cfg_unguarded b) = Err EIncomplete /\
             alloc_peak (dec_pa cfg_unguarded b) = 2 ^ 21).
Proof. exact (conj (ex_intro _ w_huge unguarded_huge_alloc) (ex_intro _ w_small_huge unguarded_small_huge_alloc)). Qed.
Check dec_alloc_linear_refuted :
  (exists b, lenN b = 9 /\ alloc_peak (dec_pa cfg_unguarded b) = 64 * (2 ^ 40 - 1)) /\
  (exists b, lenN b = 5 /\ result (dec_pa cfg_unguarded b) = Err EIncomplete /\
             alloc_peak (dec_pa cfg_unguarded b) = 2 ^ 21).
Print Assumptions dec_alloc_linear_refuted.

(* recursion depth follows the input: 2001 bytes, 2000 nested frames *)
Theorem dec_depth_bounded_refuted :
  exists b, lenN b = 2001 /\ depth_max (dec_pa cfg_unguarded b) = 2000.
Proof. exact (ex_intro _ (nest 2000) unguarded_deep). Qed.
Check dec_depth_bounded_refuted :
  exists b, lenN b = 2001 /\ depth_max (dec_pa cfg_unguarded b) = 2000.
Print Assumptions dec_depth_bounded_refuted.

(* ---- WSC snapshot reader: section range validation (wsc/read.rs read_bytes / read_slice) ---- *)

(* For every offset/count (any u64, including lying ones) and every real buffer (len <= usize::MAX,
   len < u64::MAX) neither function can reach a slice-index panic. *)
Theorem wsc_read_no_panic : forall usize_max len base offset count elem align,
  len <= usize_max -> len < u64_max -> 0 < elem ->
  (forall p, read_bytes_pa usize_max len offset count <> RPanic p) /\
  (forall p, read_slice_pa usize_max len base offset count elem align <> RPanic p).
Proof. exact wsc_read_no_panic. Qed.
Check wsc_read_no_panic : forall usize_max len base offset count elem align,
  len <= usize_max -> len < u64_max -> 0 < elem ->
  (forall p, read_bytes_pa usize_max len offset count <> RPanic p) /\
  (forall p, read_slice_pa usize_max len base offset count elem align <> RPanic p).
Print Assumptions wsc_read_no_panic.

(* ... and an accepted section is exactly the requested range, inside the buffer and aligned. *)
Theorem wsc_read_exact : forall usize_max len base offset count elem align,
  len <= usize_max -> len < u64_max -> 0 < elem ->
  read_slice_pa usize_max len base offset count elem align = RErrOob \/
  read_slice_pa usize_max len base offset count elem align = RErrCast \/
  (read_slice_pa usize_max len base offset count elem align = ROk offset (offset + count * elem) /\
   offset + count * elem <= len /\ (base + offset) mod align = 0).
Proof. exact read_slice_total. Qed.
Check wsc_read_exact : forall usize_max len base offset count elem align,
  len <= usize_max -> len < u64_max -> 0 < elem ->
  read_slice_pa usize_max len base offset count elem align = RErrOob \/
  read_slice_pa usize_max len base offset count elem align = RErrCast \/
  (read_slice_pa usize_max len base offset count elem align = ROk offset (offset + count * elem) /\
   offset + count * elem <= len /\ (base + offset) mod align = 0).
Print Assumptions wsc_read_exact.

Example wsc_read_nonvacuous :
  read_slice_pa (2 ^ 64 - 1) 200 4096 16 2 16 8 = ROk 16 48 /\
  read_slice_pa (2 ^ 64 - 1) 200 4096 4 1 16 8 = RErrCast /\
  read_slice_pa (2 ^ 64 - 1) 200 4096 (2 ^ 64 - 1) 1 16 8 = RErrOob /\
  read_slice_pa (2 ^ 64 - 1) 200 4096 8 (2 ^ 60) 16 8 = RErrOob /\
  read_bytes_pa (2 ^ 32 - 1) 200 (2 ^ 32 + 1) 3 = RErrOob.
Proof. repeat split; vm_compute; reflexivity. Qed.

(* which configuration models /repo now (Model/CborPA.v: cfg_repo) *)
Theorem repo_cfg_known : cfg_repo = cfg_unguarded \/ cfg_repo = cfg_guarded.
Proof. exact repo_cfg_cases. Qed.
Check repo_cfg_known : cfg_repo = cfg_unguarded \/ cfg_repo = cfg_guarded.
Print Assumptions repo_cfg_known.

(* Non-vacuity: the guarded configurations meet the hypotheses; a concrete nested input with a map,
   text and bytes decodes to a value with non-zero meters, the hostile inputs become typed errors,
   and the depth limit is reached exactly. *)
Example c13_nonvacuous :
  let b := [162; 1; 130; 97; 65; 66; 1; 2; 161; 2; 3; 246] in   (* {1: ["A", h'0102'], {2: 3}: null} *)
  is_guarded cfg_guarded = true /\ isize_max cfg_guarded <= usize_max cfg_guarded /\
  size_entry * lenN b <= isize_max cfg_guarded /\ size_entry * lenN b <= isize_max cfg_repo /\ cfg_repo = cfg_guarded /\
  result (dec_pa cfg_guarded b) =
    Val (VMap [(VInt 1, VArr [VText [65]; VBytes [1; 2]]); (VMap [(VInt 2, VInt 3)], VNull)]) /\
  alloc_peak (dec_pa cfg_guarded b) = 263 /\ depth_max (dec_pa cfg_guarded b) = 2 /\
  result (dec_pa cfg_guarded w_capacity) = Err EIncomplete /\
  result (dec_pa cfg_guarded w_huge) = Err EIncomplete /\ alloc_peak (dec_pa cfg_guarded w_huge) = 0 /\
  (exists v, result (dec_pa cfg_guarded (nest 128)) = Val v) /\
  result (dec_pa cfg_guarded (nest 129)) = Err EDepth /\ depth_max (dec_pa cfg_guarded (nest 129)) = 129 /\
  is_guarded cfg_guarded32 = true /\ size_entry * lenN b <= isize_max cfg_guarded32 /\
  lenN b <= usize_max cfg_unguarded /\ result (dec_pa cfg_unguarded b) = result (dec_pa cfg_guarded b) /\
  depth_max (dec_pa cfg_unguarded b) <= guard_depth.
Proof. cbv zeta. repeat split; try (vm_compute; reflexivity); try (vm_compute; discriminate).
  eexists. vm_compute. reflexivity. Qed.
