(* C04 — a tick patch replays to exactly the state the tick produced.
   Only property theorems live here: each is closed by [exact], pinned by
   [Check ... : statement] and followed by [Print Assumptions]. *)
From Coq Require Import List NArith Bool Sorted.
From Echo Require Import Base.FinMap Model.Patch Proofs.PatchProofs Proofs.PatchProofs2 Proofs.PatchProofs3.
Import ListNotations.
Open Scope N_scope.

(* "A failed application is never reported as success": the first failing op is the result
   of the whole application, whatever follows it ... *)
Theorem apply_err_is_err : forall pre o post a s t e,
  apply_loop a false pre = Ok (s, t) -> apply_op s o = Err e ->
  apply_ops (pre ++ o :: post) a = Err e.
Proof. exact apply_op_err_propagates. Qed.
Check apply_err_is_err : forall pre o post a s t e,
  apply_loop a false pre = Ok (s, t) -> apply_op s o = Err e ->
  apply_ops (pre ++ o :: post) a = Err e.
Print Assumptions apply_err_is_err.

(* ... and success means every op applied and, when the portal topology was touched, the
   portal invariants were validated on the result. *)
Theorem apply_ok_means_all_applied : forall ops a s,
  apply_ops ops a = Ok s <->
  exists t, apply_loop a false ops = Ok (s, t) /\ (t = true -> validate_portal_invariants s = Ok tt).
Proof. exact apply_ops_ok_iff. Qed.
Check apply_ok_means_all_applied : forall ops a s,
  apply_ops ops a = Ok s <->
  exists t, apply_loop a false ops = Ok (s, t) /\ (t = true -> validate_portal_invariants s = Ok tt).
Print Assumptions apply_ok_means_all_applied.

(* FULL STATEMENT (false of the code, DESIGN section 6 F1):
     diff_apply_exact : WF a -> WF b -> forall s, apply_ops (diff a b) a = Ok s -> s = b.
   Refuted: an edge that changes its source node and keeps its attachment. *)
Theorem diff_apply_exact_refuted : exists a b s,
  wfb a = true /\ wfb b = true /\ apply_ops (diff a b) a = Ok s /\ s <> b.
Proof.
  exists w1_before, w1_after, w1_third.
  destruct w1_facts as (Ha & Hb & _ & _ & Hs & Hne). auto.
Qed.
Check diff_apply_exact_refuted : exists a b s,
  wfb a = true /\ wfb b = true /\ apply_ops (diff a b) a = Ok s /\ s <> b.
Print Assumptions diff_apply_exact_refuted.

(* ... and that is the only way to reach a third state: whenever the diff re-establishes the
   attachment of every re-parented edge ([reparent_ok], the minimal exclusion: it is exactly
   what the witness above violates), a replay that succeeds yields exactly the after state.
   Needs structural well-formedness only (canonical maps, stores/instances in step, attachments
   on existing owners); typed failures are allowed by this clause. *)
Theorem diff_apply_exact_partial : forall a b s,
  WFs a -> WFs b -> reparent_ok a b = true -> apply_ops (diff a b) a = Ok s -> s = b.
Proof. exact diff_apply_exact_struct. Qed.
Check diff_apply_exact_partial : forall a b s,
  WFs a -> WFs b -> reparent_ok a b = true -> apply_ops (diff a b) a = Ok s -> s = b.
Print Assumptions diff_apply_exact_partial.

(* The diff is in canonical order with pairwise distinct sort keys ... *)
Theorem diff_canonical : forall a b, Struct a -> Struct b ->
  StronglySorted key_lt (map sort_key (diff a b)).
Proof. exact diff_strictly_sorted. Qed.
Check diff_canonical : forall a b, Struct a -> Struct b ->
  StronglySorted key_lt (map sort_key (diff a b)).
Print Assumptions diff_canonical.

(* ... so the patch constructor (sort + last-wins dedupe by sort key) is the identity on it. *)
Theorem patch_constructor_identity : forall a b, Struct a -> Struct b -> patch_new (diff a b) = diff a b.
Proof. exact patch_new_diff. Qed.
Check patch_constructor_identity : forall a b, Struct a -> Struct b -> patch_new (diff a b) = diff a b.
Print Assumptions patch_constructor_identity.

(* Every op keeps the structural invariant, whatever the op list. *)
Theorem Struct_preserved : forall ops a s, Struct a -> apply_ops ops a = Ok s -> Struct s.
Proof. exact apply_ops_Struct. Qed.
Check Struct_preserved : forall ops a s, Struct a -> apply_ops ops a = Ok s -> Struct s.
Print Assumptions Struct_preserved.
