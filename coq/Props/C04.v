(* C04 — a tick patch replays to exactly the state the tick produced.
   Only property theorems live here: each is closed by [exact], pinned by
   [Check ... : statement] and followed by [Print Assumptions]. *)
From Coq Require Import List NArith Bool.
From Echo Require Import Base.FinMap Model.Patch Proofs.PatchProofs.
Import ListNotations.
Open Scope N_scope.

(* "A failed application is never reported as success": the first failing op is the result
   of the whole application, whatever follows it ... *)
Theorem apply_err_is_err : forall pre o post a s t e,
  apply_loop a false pre = Ok (s, t) -> apply_op s o = Err e ->
  apply_ops (pre ++ o :: post) a = Err e.
Proof. exact apply_op_err_propagates. Qed.
Check apply_err_is_err : forall pre o post a s t e,
  apply_loop a false pre = Ok (s, t) -> apply_op s o = Err e ->
  apply_ops (pre ++ o :: post) a = Err e.
Print Assumptions apply_err_is_err.

(* ... and success means every op applied and, when the portal topology was touched, the
   portal invariants were validated on the result. *)
Theorem apply_ok_means_all_applied : forall ops a s,
  apply_ops ops a = Ok s <->
  exists t, apply_loop a false ops = Ok (s, t) /\ (t = true -> validate_portal_invariants s = Ok tt).
Proof. exact apply_ops_ok_iff. Qed.
Check apply_ok_means_all_applied : forall ops a s,
  apply_ops ops a = Ok s <->
  exists t, apply_loop a false ops = Ok (s, t) /\ (t = true -> validate_portal_invariants s = Ok tt).
Print Assumptions apply_ok_means_all_applied.

(* FULL STATEMENT (false of the code, DESIGN section 6 F1):
     diff_apply_exact : WF a -> WF b -> forall s, apply_ops (diff a b) a = Ok s -> s = b.
   Refuted: an edge that changes its source node and keeps its attachment. *)
Theorem diff_apply_exact_refuted : exists a b s,
  wfb a = true /\ wfb b = true /\ apply_ops (diff a b) a = Ok s /\ s <> b.
Proof.
  exists w1_before, w1_after, w1_third.
  destruct w1_facts as (Ha & Hb & _ & _ & Hs & Hne). auto.
Qed.
Check diff_apply_exact_refuted : exists a b s,
  wfb a = true /\ wfb b = true /\ apply_ops (diff a b) a = Ok s /\ s <> b.
Print Assumptions diff_apply_exact_refuted.
