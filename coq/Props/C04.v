(* C04 — a tick patch replays to exactly the state the tick produced.
   Only property theorems live here: each is closed by [exact], pinned by
   [Check ... : statement] and followed by [Print Assumptions].

   Model: Model/Patch.v (tick_patch.rs diff/apply + the GraphStore/WarpState operations it drives),
   as of /repo commits c24eacb, fd806f7, 8f26be3, which fixed the three replay defects this
   property found (the corresponding witnesses are the Examples at the end).
   WFs = canonical maps, stores/instances in step, attachments on existing owners;
   WF  = WFs + edges reference existing nodes + the portal invariants the code validates. *)
From Coq Require Import List NArith Bool Sorted.
From Echo Require Import Base.FinMap Model.Patch Proofs.PatchProofs Proofs.PatchProofs2 Proofs.PatchProofs3
  Proofs.PatchProofs4.
Import ListNotations.
Open Scope N_scope.

(* "Never a third state": the delta between two (structurally) well-formed states either fails
   with a typed error or transforms the first into exactly the second. *)
Theorem diff_apply_exact : forall a b s,
  WFs a -> WFs b -> apply_ops (diff a b) a = Ok s -> s = b.
Proof. exact diff_apply_exact_struct. Qed.
Check diff_apply_exact : forall a b s,
  WFs a -> WFs b -> apply_ops (diff a b) a = Ok s -> s = b.
Print Assumptions diff_apply_exact.

(* Every transition into a well-formed state replays: the delta applies and yields exactly that state
   (for every op: its target instance, owner, isolation ... hold at its position in canonical order,
   and the final portal validation passes). *)
Theorem diff_apply_complete : forall a b,
  WFs a -> WF b -> apply_ops (diff a b) a = Ok b.
Proof. exact diff_apply_complete_wf. Qed.
Check diff_apply_complete : forall a b,
  WFs a -> WF b -> apply_ops (diff a b) a = Ok b.
Print Assumptions diff_apply_complete.

(* A committed tick (its ops applied successfully to the pre-state) whose post-state is well-formed
   emits a patch that replays the pre-state to exactly the post-state. *)
Theorem diff_apply_tick : forall ops a b,
  WFs a -> apply_ops ops a = Ok b -> WF b -> apply_ops (diff a b) a = Ok b.
Proof. exact diff_apply_tick_wf. Qed.
Check diff_apply_tick : forall ops a b,
  WFs a -> apply_ops ops a = Ok b -> WF b -> apply_ops (diff a b) a = Ok b.
Print Assumptions diff_apply_tick.

(* [WF b] cannot be dropped from the tick clause: UpsertEdge does not check its endpoints, a tick may
   leave a dangling edge, and then the emitted patch does not apply (typed error, not a third state). *)
Theorem diff_apply_tick_dangling_refuted : exists ops a b e,
  wfb a = true /\ apply_ops ops a = Ok b /\ wfsb b = true /\ refb b = false /\
  apply_ops (diff a b) a = Err e.
Proof.
  exists (patch_new w4_ops), w2_before, w4_after, (NodeNotIsolated 1 3).
  destruct w4_facts as (H1 & H2 & H3 & H4 & H5). auto.
Qed.
Check diff_apply_tick_dangling_refuted : exists ops a b e,
  wfb a = true /\ apply_ops ops a = Ok b /\ wfsb b = true /\ refb b = false /\
  apply_ops (diff a b) a = Err e.
Print Assumptions diff_apply_tick_dangling_refuted.

(* The diff is in canonical order with pairwise distinct sort keys ... *)
Theorem diff_canonical : forall a b, Struct a -> Struct b ->
  StronglySorted key_lt (map sort_key (diff a b)).
Proof. exact diff_strictly_sorted. Qed.
Check diff_canonical : forall a b, Struct a -> Struct b ->
  StronglySorted key_lt (map sort_key (diff a b)).
Print Assumptions diff_canonical.

(* ... so the patch constructor (sort + last-wins dedupe by sort key) is the identity on it. *)
Theorem patch_constructor_identity : forall a b, Struct a -> Struct b -> patch_new (diff a b) = diff a b.
Proof. exact patch_new_diff. Qed.
Check patch_constructor_identity : forall a b, Struct a -> Struct b -> patch_new (diff a b) = diff a b.
Print Assumptions patch_constructor_identity.

(* FULL STATEMENT (false of the code): WF_preserved : WF a -> apply_ops ops a = Ok b -> WF b.
   What every op list preserves is structural well-formedness (canonical maps, stores and instances in
   step, attachments only on existing owners) ... *)
Theorem WF_preserved_partial : forall ops a s, WFs a -> apply_ops ops a = Ok s -> WFs s.
Proof. exact apply_ops_WFs. Qed.
Check WF_preserved_partial : forall ops a s, WFs a -> apply_ops ops a = Ok s -> WFs s.
Print Assumptions WF_preserved_partial.

(* ... but not referential integrity: UpsertEdge does not check that its endpoints exist. *)
Theorem WF_preserved_refuted : exists ops a b, WF a /\ apply_ops ops a = Ok b /\ ~ WF b.
Proof.
  exists (patch_new w4_ops), w2_before, w4_after. destruct w4_facts as (H1 & H2 & _).
  split; [apply wfb_sound, H1|]. split; [exact H2|]. intros (_ & H & _). exact (w4_not_ref H).
Qed.
Check WF_preserved_refuted : exists ops a b, WF a /\ apply_ops ops a = Ok b /\ ~ WF b.
Print Assumptions WF_preserved_refuted.

(* "A failed application is never reported as success": the first failing op is the result
   of the whole application, whatever follows it ... *)
Theorem apply_err_is_err : forall pre o post a s t e,
  apply_loop a false pre = Ok (s, t) -> apply_op s o = Err e ->
  apply_ops (pre ++ o :: post) a = Err e.
Proof. exact apply_op_err_propagates. Qed.
Check apply_err_is_err : forall pre o post a s t e,
  apply_loop a false pre = Ok (s, t) -> apply_op s o = Err e ->
  apply_ops (pre ++ o :: post) a = Err e.
Print Assumptions apply_err_is_err.

(* ... and success means every op applied and, when the portal topology was touched, the
   portal invariants were validated on the result. *)
Theorem apply_ok_means_all_applied : forall ops a s,
  apply_ops ops a = Ok s <->
  exists t, apply_loop a false ops = Ok (s, t) /\ (t = true -> validate_portal_invariants s = Ok tt).
Proof. exact apply_ops_ok_iff. Qed.
Check apply_ok_means_all_applied : forall ops a s,
  apply_ops ops a = Ok s <->
  exists t, apply_loop a false ops = Ok (s, t) /\ (t = true -> validate_portal_invariants s = Ok tt).
Print Assumptions apply_ok_means_all_applied.

(* Non-vacuity, and the three transitions that did not replay before the fixes: an edge re-parented
   with its attachment kept, an edge re-targeted off a node deleted in the same tick, a portal opened
   on a node created in the same tick.  All states are well-formed, each is a committed tick, and each
   emitted patch now replays to exactly the post-state. *)
Example c04_nonvacuous :
  WF w1_before /\ WF w1_after /\ WF w2_before /\ WF w2_after /\ WF w3_before /\ WF w3_after /\
  apply_ops [UpsertEdge 1 9 2 3 8] w1_before = Ok w1_after /\
  diff w1_before w1_after =
    [DeleteEdge 1 1 9; UpsertEdge 1 9 2 3 8; SetAtt (edge_beta 1 9) (Some (Atom 5 [1;2]))] /\
  apply_ops (diff w1_before w1_after) w1_before = Ok w1_after /\
  apply_ops (patch_new w2_ops) w2_before = Ok w2_after /\
  diff w2_before w2_after = [DeleteEdge 1 1 9; DeleteNode 1 3; UpsertEdge 1 9 1 2 8] /\
  apply_ops (diff w2_before w2_after) w2_before = Ok w2_after /\
  apply_ops (patch_new w3_ops) w3_before = Ok w3_after /\
  diff w3_before w3_after =
    [UpsertWI 4 5 (Some (node_alpha 1 2)); UpsertNode 1 2 7; UpsertNode 4 5 6;
     SetAtt (node_alpha 1 2) (Some (Descend 4))] /\
  apply_ops (diff w3_before w3_after) w3_before = Ok w3_after.
Proof.
  destruct w1_facts as (A1 & B1 & C1 & D1 & E1 & _).
  destruct w2_facts as (A2 & B2 & C2 & D2 & E2).
  destruct w3_facts as (A3 & B3 & C3 & D3 & E3).
  split; [apply wfb_sound, A1|]. split; [apply wfb_sound, B1|]. split; [apply wfb_sound, A2|].
  split; [apply wfb_sound, B2|]. split; [apply wfb_sound, A3|]. split; [apply wfb_sound, B3|].
  repeat split; assumption.
Qed.
