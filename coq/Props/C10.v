(* C10 -- what was acknowledged survives any crash; what was not is invisible.
   Only property theorems live here: each is closed by [exact], pinned by
   [Check ... : statement] and followed by [Print Assumptions].  The hash function is a
   universally quantified parameter [H] of every theorem: nothing is assumed about BLAKE3. *)
From Coq Require Import List NArith.
From Echo Require Import Base.Bytes Model.Wal Proofs.WalProofs.
Import ListNotations.
Open Scope N_scope.

(* Reading ANY byte-length prefix of a log of well-formed records returns exactly the records that
   lie wholly inside the prefix, and reports a torn tail iff the prefix does not end on a record
   boundary (an incomplete final record is never an error and never a record). *)
Theorem read_prefix : forall (H : bytes -> N) rs k,
  Forall (lrec_wf H) rs -> Forall payload_small rs ->
  read_segment H (firstn k (encode_log H rs)) =
  Ok (whole_within lrec_size k rs, negb (on_boundary lrec_size k rs)).
Proof. exact read_segment_prefix. Qed.
Check read_prefix : forall (H : bytes -> N) rs k,
  Forall (lrec_wf H) rs -> Forall payload_small rs ->
  read_segment H (firstn k (encode_log H rs)) =
  Ok (whole_within lrec_size k rs, negb (on_boundary lrec_size k rs)).
Print Assumptions read_prefix.

(* The record codecs are exact on every in-range value. *)
Theorem frame_codec_roundtrip : forall f, wf_frame f -> parse_frame (encode_frame f) = Ok f.
Proof. exact parse_encode_frame. Qed.
Check frame_codec_roundtrip : forall f, wf_frame f -> parse_frame (encode_frame f) = Ok f.
Print Assumptions frame_codec_roundtrip.

Theorem commit_codec_roundtrip : forall c, wf_commit c -> decode_commit (encode_commit c) = Ok c.
Proof. exact decode_encode_commit. Qed.
Check commit_codec_roundtrip : forall c, wf_commit c -> decode_commit (encode_commit c) = Ok c.
Print Assumptions commit_codec_roundtrip.
