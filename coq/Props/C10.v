(* C10 -- what was acknowledged survives any crash; what was not is invisible.
   Only property theorems live here: each is closed by [exact], pinned by
   [Check ... : statement] and followed by [Print Assumptions].  The hash function is a
   universally quantified parameter [H] of every theorem: nothing is assumed about BLAKE3. *)
From Coq Require Import List NArith.
From Echo Require Import Base.Bytes Model.Wal Proofs.WalProofs Proofs.WalProofs2 Proofs.WalProofs4
  Proofs.WalProofs5 Proofs.WalProofs7.
Import ListNotations.
Open Scope N_scope.

(* Reading ANY byte-length prefix of a log of well-formed records returns exactly the records that
   lie wholly inside the prefix, and reports a torn tail iff the prefix does not end on a record
   boundary (an incomplete final record is never an error and never a record). *)
Theorem read_prefix : forall (H : bytes -> N) rs k,
  Forall (lrec_wf H) rs -> Forall payload_small rs ->
  read_segment H (firstn k (encode_log H rs)) =
  Ok (whole_within lrec_size k rs, negb (on_boundary lrec_size k rs)).
Proof. exact read_segment_prefix. Qed.
Check read_prefix : forall (H : bytes -> N) rs k,
  Forall (lrec_wf H) rs -> Forall payload_small rs ->
  read_segment H (firstn k (encode_log H rs)) =
  Ok (whole_within lrec_size k rs, negb (on_boundary lrec_size k rs)).
Print Assumptions read_prefix.

(* The record codecs are exact on every in-range value. *)
Theorem frame_codec_roundtrip : forall f, wf_frame f -> parse_frame (encode_frame f) = Ok f.
Proof. exact parse_encode_frame. Qed.
Check frame_codec_roundtrip : forall f, wf_frame f -> parse_frame (encode_frame f) = Ok f.
Print Assumptions frame_codec_roundtrip.

Theorem commit_codec_roundtrip : forall c, wf_commit c -> decode_commit (encode_commit c) = Ok c.
Proof. exact decode_encode_commit. Qed.
Check commit_codec_roundtrip : forall c, wf_commit c -> decode_commit (encode_commit c) = Ok c.
Print Assumptions commit_codec_roundtrip.

(* A committed log followed by ANY uncommitted frames (a transaction whose commit marker never made
   it to disk) recovers to exactly the committed transactions, in order, and the tail posture names
   the uncommitted part: nothing of an incomplete transaction is visible. *)
Theorem recover_committed_log : forall (H : bytes -> N) l0 ts extra,
  log_valid H l0 ts -> consec (l0 + lenN (log_frames ts)) extra ->
  Forall (fun f => frame_check H f = None) extra ->
  recover_fc H (log_frames ts ++ extra) (map w_commit ts) = Ok (map rtx_of ts, expected_tail ts extra).
Proof. exact recover_fc_log. Qed.
Check recover_committed_log : forall (H : bytes -> N) l0 ts extra,
  log_valid H l0 ts -> consec (l0 + lenN (log_frames ts)) extra ->
  Forall (fun f => frame_check H f = None) extra ->
  recover_fc H (log_frames ts ++ extra) (map w_commit ts) = Ok (map rtx_of ts, expected_tail ts extra).
Print Assumptions recover_committed_log.

(* C10 core: for EVERY byte length k, recovering the first k bytes of a valid log succeeds and returns
   exactly the transactions whose commit marker lies wholly inside k - in order, nothing of an
   incomplete transaction - and the tail is Clean iff k is a transaction boundary. *)
Theorem recover_prefix : forall (H : bytes -> N) sid l0 ts k,
  log_valid H l0 ts ->
  Forall (fun f => f_seg f = sid) (log_frames ts) ->
  Forall payload_small (log_recs ts) ->
  recover_segment H sid (firstn k (log_bytes H ts)) =
  Ok (map rtx_of (whole_within (tx_size H) k ts),
      if on_boundary (tx_size H) k ts then TClean
      else match last_commit_lsn (map w_commit (whole_within (tx_size H) k ts)) with
           | Some l => TAfter l
           | None => TAll
           end).
Proof. exact recover_segment_prefix. Qed.
Check recover_prefix : forall (H : bytes -> N) sid l0 ts k,
  log_valid H l0 ts ->
  Forall (fun f => f_seg f = sid) (log_frames ts) ->
  Forall payload_small (log_recs ts) ->
  recover_segment H sid (firstn k (log_bytes H ts)) =
  Ok (map rtx_of (whole_within (tx_size H) k ts),
      if on_boundary (tx_size H) k ts then TClean
      else match last_commit_lsn (map w_commit (whole_within (tx_size H) k ts)) with
           | Some l => TAfter l
           | None => TAll
           end).
Print Assumptions recover_prefix.

(* ack_durable, the part that is proved: a transaction is acknowledged only after its commit marker
   was written and synced, so at any later crash point k >= |bytes of the acknowledged log| every
   acknowledged transaction is recovered, in order, and whatever else is recovered is a prefix of
   the transactions that were in flight.
   NOT proved (exercised by the tie): the in-memory rollback of the host after an injected store
   fault, the writer-epoch ledger, and the atomicity of the repair rewrite (temp file + rename since /repo commit 5e38e24). *)
Theorem ack_durable_partial : forall (H : bytes -> N) sid l0 acked inflight k,
  log_valid H l0 (acked ++ inflight) ->
  Forall (fun f => f_seg f = sid) (log_frames (acked ++ inflight)) ->
  Forall payload_small (log_recs (acked ++ inflight)) ->
  (length (log_bytes H acked) <= k)%nat ->
  exists more tl,
    recover_segment H sid (firstn k (log_bytes H (acked ++ inflight))) =
      Ok (map rtx_of (acked ++ more), tl) /\
    exists rest, inflight = more ++ rest.
Proof. exact synced_transactions_survive. Qed.
Check ack_durable_partial : forall (H : bytes -> N) sid l0 acked inflight k,
  log_valid H l0 (acked ++ inflight) ->
  Forall (fun f => f_seg f = sid) (log_frames (acked ++ inflight)) ->
  Forall payload_small (log_recs (acked ++ inflight)) ->
  (length (log_bytes H acked) <= k)%nat ->
  exists more tl,
    recover_segment H sid (firstn k (log_bytes H (acked ++ inflight))) =
      Ok (map rtx_of (acked ++ more), tl) /\
    exists rest, inflight = more ++ rest.
Print Assumptions ack_durable_partial.

(* recover_idempotent: crash at ANY byte of a valid log, let the writable recovery of the filesystem
   store repair the segment (truncation rewrite: every kept frame, then every kept commit marker),
   recover again: exactly the committed transactions with a Clean tail; a second repair is a no-op. *)
Theorem recover_idempotent : forall (H : bytes -> N) l0 ts k,
  log_valid H l0 ts -> Forall payload_small (log_recs ts) ->
  recover_store H (repair H (firstn k (log_bytes H ts))) =
    Ok (map rtx_of (whole_within (tx_size H) k ts), TClean) /\
  repair H (repair H (firstn k (log_bytes H ts))) = repair H (firstn k (log_bytes H ts)).
Proof. exact repair_then_recover. Qed.
Check recover_idempotent : forall (H : bytes -> N) l0 ts k,
  log_valid H l0 ts -> Forall payload_small (log_recs ts) ->
  recover_store H (repair H (firstn k (log_bytes H ts))) =
    Ok (map rtx_of (whole_within (tx_size H) k ts), TClean) /\
  repair H (repair H (firstn k (log_bytes H ts))) = repair H (firstn k (log_bytes H ts)).
Print Assumptions recover_idempotent.

(* Non-vacuity: a concrete three-transaction log is valid, its encoding has every record in range,
   and cutting it in the middle of the third transaction recovers the first two with the tail
   reported after LSN 2. *)
Example c10_nonvacuous :
  log_valid exH 0 ex_log /\
  Forall (lrec_wf exH) (log_recs ex_log) /\ Forall payload_small (log_recs ex_log) /\
  summarize (recover_segment exH 1 (firstn 2100 (log_bytes exH ex_log))) =
  summarize (Ok (map rtx_of [ex_t1; ex_t2], TAfter 2)) /\
  summarize (recover_segment exH 1 (log_bytes exH ex_log)) = summarize (Ok (map rtx_of ex_log, TClean)).
Proof.
  split; [exact ex_log_valid|]. split; [|split; [|split; vm_compute; reflexivity]].
  - repeat constructor; vm_compute; reflexivity.
  - repeat constructor.
Qed.
