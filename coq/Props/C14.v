(* C14 — undeclared access never commits.  Only pinned property theorems live here. *)
From Coq Require Import List NArith Bool.
From Echo Require Import Base.FinMap Model.Patch Model.Guard Model.Tick Proofs.GuardProofs Proofs.ParProofs.
Import ListNotations.
Open Scope N_scope.

(* An item is accepted by the enforcement wrapper only if every read was declared, every
   emitted op lies inside the declared writes of its own instance (no cross-instance op, no
   instance-level op from a non-system rule) and the executor did not panic. *)
Theorem guard_is_sound : forall g tr ops,
  execute_item_enforced g tr = ItemOk ops -> honest_trace g tr /\ ops = emitted tr.
Proof. exact guard_sound. Qed.
Check guard_is_sound : forall g tr ops,
  execute_item_enforced g tr = ItemOk ops -> honest_trace g tr /\ ops = emitted tr.
Print Assumptions guard_is_sound.

(* ... and a rewrite that stays inside its declaration is never flagged. *)
Theorem guard_is_complete : forall g tr,
  honest_trace g tr -> execute_item_enforced g tr = ItemOk (emitted tr).
Proof. exact guard_complete. Qed.
Check guard_is_complete : forall g tr,
  honest_trace g tr -> execute_item_enforced g tr = ItemOk (emitted tr).
Print Assumptions guard_is_complete.

(* The post-hoc write validation accepts an op exactly when it is declared. *)
Theorem write_validation_exact : forall g o, check_op g o = None <-> declared_writes g o.
Proof. exact check_op_spec. Qed.
Check write_validation_exact : forall g o, check_op g o = None <-> declared_writes g o.
Print Assumptions write_validation_exact.

(* Tick level: one violating item, at any position of any work unit, fails the tick under every
   worker count and claim order (so nothing of the tick is applied); with only honest items no
   schedule fails. *)
Definition poisons (g_of : cand -> guard) (tr_of : cand -> list event) (c : cand) : bool :=
  match execute_item_enforced (g_of c) (tr_of c) with ItemPoisoned => true | ItemOk _ => false end.

Theorem violation_fails_tick : forall g_of tr_of units workers assign,
  (0 < workers)%nat ->
  (exists u c, In u units /\ In c u /\ ~ honest_trace (g_of c) (tr_of c)) ->
  run_enforced (poisons g_of tr_of) units workers assign = Failed.
Proof.
  intros g_of tr_of units workers assign Hw (u & c & Hu & Hc & Hv).
  apply poison_total; [exact Hw|]. exists u, c. repeat split; auto.
  unfold poisons. destruct (execute_item_enforced (g_of c) (tr_of c)) as [ops|] eqn:E; [|reflexivity].
  exfalso. apply Hv. eapply guard_sound. exact E.
Qed.
Check violation_fails_tick : forall g_of tr_of units workers assign,
  (0 < workers)%nat ->
  (exists u c, In u units /\ In c u /\ ~ honest_trace (g_of c) (tr_of c)) ->
  run_enforced (poisons g_of tr_of) units workers assign = Failed.
Print Assumptions violation_fails_tick.

Theorem honest_tick_never_flagged : forall g_of tr_of units workers assign,
  (forall u c, In u units -> In c u -> honest_trace (g_of c) (tr_of c)) ->
  exists ds, run_enforced (poisons g_of tr_of) units workers assign = Deltas ds.
Proof.
  intros g_of tr_of units workers assign H. apply honest_never_fails.
  intros u c Hu Hc. unfold poisons. rewrite (guard_complete _ _ (H u c Hu Hc)). reflexivity.
Qed.
Check honest_tick_never_flagged : forall g_of tr_of units workers assign,
  (forall u c, In u units -> In c u -> honest_trace (g_of c) (tr_of c)) ->
  exists ds, run_enforced (poisons g_of tr_of) units workers assign = Deltas ds.
Print Assumptions honest_tick_never_flagged.

(* The write targets attributed to an op cover every location whose observable content the op
   changes (node record + adjacency under the node key, edge existence, node / edge attachment).
   FULL statement: forall s o s' l, store_apply s o = Some s' -> ~ In l (target_locs o) -> obs_eq s s' l.
   It is FALSE for an UpsertEdge that re-parents an existing edge (the old source's adjacency
   changes but only the new source is attributed): refuted below, proved for every other op. *)
Theorem targets_cover_effects_partial : forall s o s',
  store_sorted s -> reparents s o = false -> store_apply s o = Some s' ->
  forall l, ~ In l (target_locs o) -> obs_eq s s' l.
Proof. exact GuardProofs.targets_cover_effects_partial. Qed.
Check targets_cover_effects_partial : forall s o s',
  store_sorted s -> reparents s o = false -> store_apply s o = Some s' ->
  forall l, ~ In l (target_locs o) -> obs_eq s s' l.
Print Assumptions targets_cover_effects_partial.

Theorem targets_cover_effects_refuted :
  exists s o s' l, store_sorted s /\ store_apply s o = Some s' /\ ~ In l (target_locs o) /\ ~ obs_eq s s' l.
Proof. exact GuardProofs.targets_cover_effects_refuted. Qed.
Check targets_cover_effects_refuted :
  exists s o s' l, store_sorted s /\ store_apply s o = Some s' /\ ~ In l (target_locs o) /\ ~ obs_eq s s' l.
Print Assumptions targets_cover_effects_refuted.

(* Non-vacuity: an honest trace, and the same trace with one read / one write undeclared. *)
Example c14_nonvacuous :
  let g := {| g_warp := 1; g_nodes_read := [2]; g_nodes_write := [3]; g_edges_read := []; g_edges_write := [9];
              g_atts_read := [node_alpha 1 2]; g_atts_write := [node_alpha 1 2]; g_system := false |} in
  let tr := [Read (ANode 2); Read (ANodeAtt 2); Emit (UpsertEdge 1 9 3 2 8); Emit (SetAtt (node_alpha 1 2) None)] in
  honest_trace g tr /\
  execute_item_enforced g tr = ItemOk [UpsertEdge 1 9 3 2 8; SetAtt (node_alpha 1 2) None] /\
  execute_item_enforced g (Read (AAdj 3) :: tr) = ItemPoisoned /\
  execute_item_enforced g (tr ++ [Emit (UpsertNode 2 5 7)]) = ItemPoisoned /\
  execute_item_enforced g (tr ++ [Emit (UpsertWI 4 1 None)]) = ItemPoisoned /\
  execute_item_enforced g (Emit (DeleteEdge 1 3 9) :: tr) = ItemPoisoned.
Proof.
  cbv zeta. split; [|split; [|split; [|split; [|split]]]]; try (vm_compute; reflexivity).
  repeat constructor.
Qed.
