(* C19 — deterministic math is bit-stable and canonical.
   Only property theorems live here: each is closed by [exact], pinned by
   [Check ... : statement] and followed by [Print Assumptions]. *)
From Coq Require Import NArith ZArith List Bool.
From Echo Require Import Model.TrigTable Model.Scalar Proofs.ScalarProofs.
Import ListNotations.
Open Scope N_scope.

(* F32Scalar::new maps every 32-bit pattern into the canonical set (never -0, never a subnormal,
   NaN only as 0x7fc00000). *)
Theorem new_canonical : forall bits, bits < TWO32 -> canonical (new bits).
Proof. exact new_canonical_l. Qed.
Check new_canonical : forall bits, bits < TWO32 -> canonical (new bits).
Print Assumptions new_canonical.

Theorem new_idempotent : forall bits, bits < TWO32 -> new (new bits) = new bits.
Proof. exact new_idempotent_l. Qed.
Check new_idempotent : forall bits, bits < TWO32 -> new (new bits) = new bits.
Print Assumptions new_idempotent.

(* the canonical set is exactly: +0, normal numbers of either sign, +-infinity, the one quiet NaN;
   and it is exactly the set of fixed points of `new` *)
Theorem canonical_classes : forall b,
  canonical b <->
  b < TWO32 /\ (b = 0 \/ (1 <= expo b <= 254) \/ b = 0x7f800000 \/ b = 0xff800000 \/ b = CANON_NAN).
Proof. exact canonical_classes_l. Qed.
Check canonical_classes : forall b,
  canonical b <->
  b < TWO32 /\ (b = 0 \/ (1 <= expo b <= 254) \/ b = 0x7f800000 \/ b = 0xff800000 \/ b = CANON_NAN).
Print Assumptions canonical_classes.

Theorem canonical_fixed_points : forall b, b < TWO32 -> (canonical b <-> new b = b).
Proof. exact canonical_iff_fixed. Qed.
Check canonical_fixed_points : forall b, b < TWO32 -> (canonical b <-> new b = b).
Print Assumptions canonical_fixed_points.

(* Every F32Scalar operation (+ - * / neg sin cos sin_cos) yields a canonical value, for ANY float
   primitives that return 32-bit patterns: closure does not depend on how the hardware rounds. *)
Theorem ops_closed : forall P, prims_wf P -> forall a b, a < TWO32 ->
  canonical (s_add P a b) /\ canonical (s_sub P a b) /\ canonical (s_mul P a b) /\ canonical (s_div P a b) /\
  canonical (s_neg a) /\ canonical (s_sin P a) /\ canonical (s_cos P a) /\
  canonical (fst (s_sin_cos P a)) /\ canonical (snd (s_sin_cos P a)).
Proof. exact ops_closed_l. Qed.
Check ops_closed : forall P, prims_wf P -> forall a b, a < TWO32 ->
  canonical (s_add P a b) /\ canonical (s_sub P a b) /\ canonical (s_mul P a b) /\ canonical (s_div P a b) /\
  canonical (s_neg a) /\ canonical (s_sin P a) /\ canonical (s_cos P a) /\
  canonical (fst (s_sin_cos P a)) /\ canonical (snd (s_sin_cos P a)).
Print Assumptions ops_closed.

(* Sine is exactly odd and cosine exactly even at the F32Scalar level, bit for bit, for every
   canonical argument, whatever add/sub/mul/div/rem/compare/trunc compute: only sign-bit algebra
   is used.  (x = 0 is excluded in the parametric form because -0 canonicalises to +0, so oddness at
   zero needs sin 0 = 0, which is a fact about the primitives; see sin_odd for binary32.) *)
Theorem sin_odd_any_rounding : forall P, prims_wf P -> forall x, canonical x -> x <> 0 ->
  s_sin P (s_neg x) = s_neg (s_sin P x).
Proof. exact sin_odd_l. Qed.
Check sin_odd_any_rounding : forall P, prims_wf P -> forall x, canonical x -> x <> 0 ->
  s_sin P (s_neg x) = s_neg (s_sin P x).
Print Assumptions sin_odd_any_rounding.

Theorem cos_even : forall P x, canonical x -> s_cos P (s_neg x) = s_cos P x.
Proof. exact cos_even_l. Qed.
Check cos_even : forall P x, canonical x -> s_cos P (s_neg x) = s_cos P x.
Print Assumptions cos_even.

(* IEEE-754 binary32 round-to-nearest-even instance (Flocq): odd for every canonical x, zero included *)
Theorem sin_odd : forall x, canonical x -> s_sin flocq_prims (s_neg x) = s_neg (s_sin flocq_prims x).
Proof. exact sin_odd_flocq. Qed.
Check sin_odd : forall x, canonical x -> s_sin flocq_prims (s_neg x) = s_neg (s_sin flocq_prims x).
Print Assumptions sin_odd.

(* Non-vacuity: a canonical, finite, non-zero angle (pi/8) whose sine and cosine are non-trivial and
   whose negation flips exactly the sign bit of the sine. *)
Example c19_nonvacuous :
  let x := 0x3ec90fdb in
  canonical x /\ x <> 0 /\ prims_wf flocq_prims /\
  s_sin flocq_prims x = 0x3ec3ef15 /\ s_cos flocq_prims x = 0x3f6c835e /\
  s_sin flocq_prims (s_neg x) = 0xbec3ef15 /\ s_cos flocq_prims (s_neg x) = 0x3f6c835e /\
  new 0x80000000 = 0 /\ new 0x00000001 = 0 /\ new 0xffc12345 = CANON_NAN /\ new 0xff800000 = 0xff800000.
Proof.
  cbv zeta. split; [apply canonicalb_spec; vm_compute; reflexivity|].
  split; [discriminate|]. split; [exact flocq_prims_wf|].
  vm_compute. repeat split; reflexivity.
Qed.
