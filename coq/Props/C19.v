(* C19 — deterministic math is bit-stable and canonical.
   Only property theorems live here: each is closed by [exact], pinned by
   [Check ... : statement] and followed by [Print Assumptions]. *)
From Coq Require Import NArith ZArith List Bool.
From Echo Require Import Model.TrigTable Model.Scalar Proofs.ScalarProofs.
Import ListNotations.
Open Scope N_scope.

(* F32Scalar::new maps every 32-bit pattern into the canonical set (never -0, never a subnormal,
   NaN only as 0x7fc00000). *)
Theorem new_canonical : forall bits, bits < TWO32 -> canonical (new bits).
Proof. exact new_canonical_l. Qed.
Check new_canonical : forall bits, bits < TWO32 -> canonical (new bits).
Print Assumptions new_canonical.

Theorem new_idempotent : forall bits, bits < TWO32 -> new (new bits) = new bits.
Proof. exact new_idempotent_l. Qed.
Check new_idempotent : forall bits, bits < TWO32 -> new (new bits) = new bits.
Print Assumptions new_idempotent.

(* the canonical set is exactly: +0, normal numbers of either sign, +-infinity, the one quiet NaN;
   and it is exactly the set of fixed points of `new` *)
Theorem canonical_classes : forall b,
  canonical b <->
  b < TWO32 /\ (b = 0 \/ (1 <= expo b <= 254) \/ b = 0x7f800000 \/ b = 0xff800000 \/ b = CANON_NAN).
Proof. exact canonical_classes_l. Qed.
Check canonical_classes : forall b,
  canonical b <->
  b < TWO32 /\ (b = 0 \/ (1 <= expo b <= 254) \/ b = 0x7f800000 \/ b = 0xff800000 \/ b = CANON_NAN).
Print Assumptions canonical_classes.

Theorem canonical_fixed_points : forall b, b < TWO32 -> (canonical b <-> new b = b).
Proof. exact canonical_iff_fixed. Qed.
Check canonical_fixed_points : forall b, b < TWO32 -> (canonical b <-> new b = b).
Print Assumptions canonical_fixed_points.

(* Every F32Scalar operation (+ - * / neg sin cos sin_cos) yields a canonical value, for ANY float
   primitives that return 32-bit patterns: closure does not depend on how the hardware rounds. *)
Theorem ops_closed : forall P, prims_wf P -> forall a b, a < TWO32 ->
  canonical (s_add P a b) /\ canonical (s_sub P a b) /\ canonical (s_mul P a b) /\ canonical (s_div P a b) /\
  canonical (s_neg a) /\ canonical (s_sin P a) /\ canonical (s_cos P a) /\
  canonical (fst (s_sin_cos P a)) /\ canonical (snd (s_sin_cos P a)).
Proof. exact ops_closed_l. Qed.
Check ops_closed : forall P, prims_wf P -> forall a b, a < TWO32 ->
  canonical (s_add P a b) /\ canonical (s_sub P a b) /\ canonical (s_mul P a b) /\ canonical (s_div P a b) /\
  canonical (s_neg a) /\ canonical (s_sin P a) /\ canonical (s_cos P a) /\
  canonical (fst (s_sin_cos P a)) /\ canonical (snd (s_sin_cos P a)).
Print Assumptions ops_closed.

(* Sine is exactly odd and cosine exactly even at the F32Scalar level, bit for bit, for every
   canonical argument, whatever add/sub/mul/div/rem/compare/trunc compute: only sign-bit algebra
   is used.  (x = 0 is excluded in the parametric form because -0 canonicalises to +0, so oddness at
   zero needs sin 0 = 0, which is a fact about the primitives; see sin_odd for binary32.) *)
Theorem sin_odd_any_rounding : forall P, prims_wf P -> forall x, canonical x -> x <> 0 ->
  s_sin P (s_neg x) = s_neg (s_sin P x).
Proof. exact sin_odd_l. Qed.
Check sin_odd_any_rounding : forall P, prims_wf P -> forall x, canonical x -> x <> 0 ->
  s_sin P (s_neg x) = s_neg (s_sin P x).
Print Assumptions sin_odd_any_rounding.

Theorem cos_even : forall P x, canonical x -> s_cos P (s_neg x) = s_cos P x.
Proof. exact cos_even_l. Qed.
Check cos_even : forall P x, canonical x -> s_cos P (s_neg x) = s_cos P x.
Print Assumptions cos_even.

(* IEEE-754 binary32 round-to-nearest-even instance (Flocq): odd for every canonical x, zero included *)
Theorem sin_odd : forall x, canonical x -> s_sin flocq_prims (s_neg x) = s_neg (s_sin flocq_prims x).
Proof. exact sin_odd_flocq. Qed.
Check sin_odd : forall x, canonical x -> s_sin flocq_prims (s_neg x) = s_neg (s_sin flocq_prims x).
Print Assumptions sin_odd.

(* F32Scalar::new as the code literally computes its last branch (`num + 0.0` through the IEEE adder,
   Flocq binary32) is the field-level function used in the theorems above. *)
Theorem new_matches_adder : forall b, b < TWO32 -> new_via_adder b = new b.
Proof. exact new_via_adder_eq. Qed.
Check new_matches_adder : forall b, b < TWO32 -> new_via_adder b = new b.
Print Assumptions new_matches_adder.

(* The checked-in quarter-wave table (regenerated from trig_lut.rs): 1025 entries from +0.0 to 1.0,
   non-decreasing, every entry within [0, 1]. *)
Theorem sin_table_facts :
  length SIN_QTR_LUT_BITS = 1025%nat /\ SIN_QTR_SEGMENTS = 1024 /\ SIN_QTR_SEGMENTS_F32 = 0x44800000 /\
  lut 0 = 0 /\ lut 1024 = ONE /\ nondecreasing SIN_QTR_LUT_BITS = true /\
  forallb (fun x => x <=? ONE) SIN_QTR_LUT_BITS = true.
Proof. exact lut_facts. Qed.
Check sin_table_facts :
  length SIN_QTR_LUT_BITS = 1025%nat /\ SIN_QTR_SEGMENTS = 1024 /\ SIN_QTR_SEGMENTS_F32 = 0x44800000 /\
  lut 0 = 0 /\ lut 1024 = ONE /\ nondecreasing SIN_QTR_LUT_BITS = true /\
  forallb (fun x => x <=? ONE) SIN_QTR_LUT_BITS = true.
Print Assumptions sin_table_facts.

(* Q32.32: conversion from any f32 bit pattern is total and lands in i64 (both converters). *)
Theorem q32_total : forall b : N,
  in_i64 (fx_from_f32 b) /\ in_i64 (codec_fx_from_f32 b) /\ in_i64 (dfix_from_f32 b).
Proof. exact q32_total_l. Qed.
Check q32_total : forall b : N,
  in_i64 (fx_from_f32 b) /\ in_i64 (codec_fx_from_f32 b) /\ in_i64 (dfix_from_f32 b).
Print Assumptions q32_total.

(* DFix64 add / sub / neg are the exact integer result clamped into i64 (saturate, never wrap);
   mul / div always land in i64. *)
Theorem q32_saturates : forall a b, in_i64 a -> in_i64 b ->
  dfix_add a b = Z.max I64_MIN (Z.min I64_MAX (a + b)) /\
  dfix_sub a b = Z.max I64_MIN (Z.min I64_MAX (a - b)) /\
  dfix_neg a = Z.max I64_MIN (Z.min I64_MAX (- a)) /\
  in_i64 (dfix_mul a b) /\ in_i64 (dfix_div a b).
Proof. exact q32_saturates_l. Qed.
Check q32_saturates : forall a b, in_i64 a -> in_i64 b ->
  dfix_add a b = Z.max I64_MIN (Z.min I64_MAX (a + b)) /\
  dfix_sub a b = Z.max I64_MIN (Z.min I64_MAX (a - b)) /\
  dfix_neg a = Z.max I64_MIN (Z.min I64_MAX (- a)) /\
  in_i64 (dfix_mul a b) /\ in_i64 (dfix_div a b).
Print Assumptions q32_saturates.

(* ... and unless they saturate they are the nearest representable value. *)
Theorem q32_mul_nearest : forall a b, in_i64 a -> in_i64 b ->
  (I64_MIN < dfix_mul a b < I64_MAX)%Z -> (Z.abs (dfix_mul a b * 2 ^ 32 - a * b) <= 2 ^ 31)%Z.
Proof. exact dfix_mul_nearest_l. Qed.
Check q32_mul_nearest : forall a b, in_i64 a -> in_i64 b ->
  (I64_MIN < dfix_mul a b < I64_MAX)%Z -> (Z.abs (dfix_mul a b * 2 ^ 32 - a * b) <= 2 ^ 31)%Z.
Print Assumptions q32_mul_nearest.

Theorem q32_div_nearest : forall a b, in_i64 a -> in_i64 b -> b <> 0%Z ->
  (I64_MIN < dfix_div a b < I64_MAX)%Z -> (2 * Z.abs (dfix_div a b * b - a * 2 ^ 32) <= Z.abs b)%Z.
Proof. exact dfix_div_nearest_l. Qed.
Check q32_div_nearest : forall a b, in_i64 a -> in_i64 b -> b <> 0%Z ->
  (I64_MIN < dfix_div a b < I64_MAX)%Z -> (2 * Z.abs (dfix_div a b * b - a * 2 ^ 32) <= Z.abs b)%Z.
Print Assumptions q32_div_nearest.

(* Q32.32 -> f32 (fixed_q32_32::to_f32, DFix64::to_f32): for every i64 the result is a canonical finite
   float - never -0, a subnormal, an infinity or a NaN (case analysis on the leading-bit position). *)
Theorem q32_to_f32_canonical : forall raw, in_i64 raw ->
  canonical (fx_to_f32 raw) /\ is_finite (fx_to_f32 raw) = true.
Proof. exact fx_to_f32_canonical_l. Qed.
Check q32_to_f32_canonical : forall raw, in_i64 raw ->
  canonical (fx_to_f32 raw) /\ is_finite (fx_to_f32 raw) = true.
Print Assumptions q32_to_f32_canonical.

(* PRNG: next_int stays within the requested inclusive range on both code paths; the state is never
   all-zero after seeding and a step never reaches the all-zero sink. *)
Theorem prng_next_int_range : forall fuel st lo hi v st',
  (- 2 ^ 31 <= lo)%Z -> (hi < 2 ^ 31)%Z ->
  prng_next_int fuel st lo hi = Some (v, st') -> (lo <= v <= hi)%Z.
Proof. exact prng_next_int_in_range. Qed.
Check prng_next_int_range : forall fuel st lo hi v st',
  (- 2 ^ 31 <= lo)%Z -> (hi < 2 ^ 31)%Z ->
  prng_next_int fuel st lo hi = Some (v, st') -> (lo <= v <= hi)%Z.
Print Assumptions prng_next_int_range.

Theorem prng_never_zero_state :
  (forall s0 s1, prng_from_seed s0 s1 <> (0, 0)) /\
  (forall seed, prng_from_seed_u64 seed <> (0, 0)) /\
  (forall s0 s1, s0 < M64 -> s1 < M64 -> (s0, s1) <> (0, 0) -> snd (prng_next_u64 (s0, s1)) <> (0, 0)).
Proof. exact (conj prng_from_seed_nonzero (conj prng_from_seed_u64_nonzero prng_step_nonzero)). Qed.
Check prng_never_zero_state :
  (forall s0 s1, prng_from_seed s0 s1 <> (0, 0)) /\
  (forall seed, prng_from_seed_u64 seed <> (0, 0)) /\
  (forall s0 s1, s0 < M64 -> s1 < M64 -> (s0, s1) <> (0, 0) -> snd (prng_next_u64 (s0, s1)) <> (0, 0)).
Print Assumptions prng_never_zero_state.

(* RANGE (full): sine and cosine of EVERY 32-bit pattern stay within [-1, 1] under IEEE-754 binary32
   round-to-nearest-even (Flocq): the magnitude bits of the F32Scalar result are at most the bits of 1.0
   (for non-NaN patterns bit order of the magnitude is numeric order; the result is never NaN).
   Ingredients, each proved: (1) sin_cos_is_signed_interp - for ANY primitives every component of
   sin_cos_f32 on a finite angle is 0, a value of sin_qtr_interp, or its sign-flip; (2)
   sin_interp_segment_range - by monotone rounding the interpolation y0 + frac * (y1 - y0) between any two
   adjacent knots of the checked-in table stays in [0, 1] for every fraction in [0, 1] (table side: finite
   check of all 1024 segments of the regenerated table, lifted by forallb_forall); (3) for 0 <= a <= pi/2 the
   scaled argument t satisfies `t as usize` < 1024 and 0 <= t - trunc t <= 1 whenever t < 1024; (4) float
   order and bit order agree on [0, 1]. *)
Theorem sin_cos_range : forall x, x < TWO32 ->
  fabs (s_sin flocq_prims x) <= ONE /\ fabs (s_cos flocq_prims x) <= ONE.
Proof. exact sin_cos_range_l. Qed.
Check sin_cos_range : forall x, x < TWO32 ->
  fabs (s_sin flocq_prims x) <= ONE /\ fabs (s_cos flocq_prims x) <= ONE.
Print Assumptions sin_cos_range.

Theorem sin_cos_is_signed_interp : forall P, prims_wf P -> forall x, is_finite x = true ->
  signed_interp P (fst (sin_cos P x)) /\ signed_interp P (snd (sin_cos P x)).
Proof. exact sin_cos_signed_interp_l. Qed.
Check sin_cos_is_signed_interp : forall P, prims_wf P -> forall x, is_finite x = true ->
  signed_interp P (fst (sin_cos P x)) /\ signed_interp P (snd (sin_cos P x)).
Print Assumptions sin_cos_is_signed_interp.

Theorem sin_interp_segment_range : forall i frac, i < 1024 -> in01 frac = true ->
  in01 (f_add (lut i) (f_mul frac (f_sub (lut (i + 1)) (lut i)))) = true.
Proof. exact interp_step_in01. Qed.
Check sin_interp_segment_range : forall i frac, i < 1024 -> in01 frac = true ->
  in01 (f_add (lut i) (f_mul frac (f_sub (lut (i + 1)) (lut i)))) = true.
Print Assumptions sin_interp_segment_range.

(* TOTALITY of Quat::from_axis_angle (quat.rs after the overflow repair: when the squared length overflows to
   +inf the axis is first divided by its largest component magnitude).  For EVERY finite axis - zero, subnormal,
   up to f32::MAX in every component - and ANY angle pattern, all four components of the result are finite
   (in particular never NaN), under IEEE-754 binary32 round-to-nearest-even (Flocq).  Ingredients: a sum of
   rounded squares of finite numbers is finite or +inf, never NaN; if it is finite every component is at most
   2 * sqrt of it (rounding never halves a value above 2^-149); after the rescue division every component is within
   [-1, 1] and the new squared length is at most 4; sqrt, 1/len and the products then stay below 2^23; sin and cos
   of the half angle are finite with magnitude at most 1 (sin_cos_range machinery).  Release semantics: a non-finite
   ANGLE trips the documented debug_assert in debug builds. *)
Theorem from_axis_angle_total : forall x y z angle, x < TWO32 -> y < TWO32 -> z < TWO32 ->
  is_finite x = true -> is_finite y = true -> is_finite z = true ->
  all_finite (q4_list (q_from_axis_angle flocq_prims (x, y, z) angle)) = true.
Proof. exact from_axis_angle_total_l. Qed.
Check from_axis_angle_total : forall x y z angle, x < TWO32 -> y < TWO32 -> z < TWO32 ->
  is_finite x = true -> is_finite y = true -> is_finite z = true ->
  all_finite (q4_list (q_from_axis_angle flocq_prims (x, y, z) angle)) = true.
Print Assumptions from_axis_angle_total.

(* The repair does not touch any input whose squared length is not +-inf: on those the function is, for ANY float
   primitives, literally the old code path (q_from_axis_angle_v0 = quat.rs before the repair). *)
Theorem from_axis_angle_unchanged : forall P axis angle,
  is_inf (v_dot P axis axis) = false ->
  q_from_axis_angle P axis angle = q_from_axis_angle_v0 P axis angle.
Proof. exact from_axis_angle_unchanged_l. Qed.
Check from_axis_angle_unchanged : forall P axis angle,
  is_inf (v_dot P axis axis) = false ->
  q_from_axis_angle P axis angle = q_from_axis_angle_v0 P axis angle.
Print Assumptions from_axis_angle_unchanged.

(* Regression against the OLD definition (former known finding oracle:quat-from_axis_angle-nan-from-finite-input):
   on axis = (1e20, 0, 0), angle = 1.0 the old code produced NaN components because the squared length overflowed;
   the repaired code returns exactly the quaternion of the unit axis (1, 0, 0). *)
Example from_axis_angle_old_witness :
  exists ax ay az angle,
    all_finite [ax; ay; az; angle] = true /\
    has_nan (q4_list (q_from_axis_angle_v0 flocq_prims (ax, ay, az) angle)) = true /\
    is_inf (v_dot flocq_prims (ax, ay, az) (ax, ay, az)) = true /\
    q_from_axis_angle flocq_prims (ax, ay, az) angle = q_from_axis_angle flocq_prims (ONE, 0, 0) angle /\
    all_finite (q4_list (q_from_axis_angle flocq_prims (ax, ay, az) angle)) = true.
Proof. exact from_axis_angle_v0_nan_witness. Qed.

(* Non-vacuity: a canonical, finite, non-zero angle (pi/8) whose sine and cosine are non-trivial and
   whose negation flips exactly the sign bit of the sine. *)
Example c19_nonvacuous :
  let x := 0x3ec90fdb in
  canonical x /\ x <> 0 /\ prims_wf flocq_prims /\
  s_sin flocq_prims x = 0x3ec3ef15 /\ s_cos flocq_prims x = 0x3f6c835e /\
  s_sin flocq_prims (s_neg x) = 0xbec3ef15 /\ s_cos flocq_prims (s_neg x) = 0x3f6c835e /\
  new 0x80000000 = 0 /\ new 0x00000001 = 0 /\ new 0xffc12345 = CANON_NAN /\ new 0xff800000 = 0xff800000.
Proof.
  cbv zeta. split; [apply canonicalb_spec; vm_compute; reflexivity|].
  split; [discriminate|]. split; [exact flocq_prims_wf|].
  vm_compute. repeat split; reflexivity.
Qed.

(* Non-vacuity for the fixed-point and PRNG theorems: an unsaturated product and quotient that need
   rounding, a saturating sum, and a next_int call that returns a value on the rejection path. *)
Example c19_nonvacuous_fixed_prng :
  in_i64 6442450945%Z /\ in_i64 (-3)%Z /\
  (I64_MIN < dfix_mul 6442450945 (-3) < I64_MAX)%Z /\ dfix_mul 6442450945 (-3) = (-5)%Z /\
  (I64_MIN < dfix_div 8 (-3) < I64_MAX)%Z /\ dfix_div 8 (-3) = (-11453246123)%Z /\
  dfix_add I64_MAX 1 = I64_MAX /\ dfix_neg I64_MIN = I64_MAX /\
  fx_from_f32 0x3fc00000 = 6442450944%Z /\ fx_from_f32 0x7f7fffff = I64_MAX /\
  prng_next_int 64 (prng_from_seed 42 99) (-10) 10 = Some (5%Z, (1513209474797682761, 5016521801728)).
Proof. vm_compute. repeat split; intros; try discriminate; reflexivity. Qed.

(* Non-vacuity of the range theorems: the bound is attained (sin(pi/2) = 1.0 exactly, cos(pi) = -1.0), and a
   fraction strictly inside (0, 1) on the first (steepest) and on the last (flattest) segment gives values
   strictly inside the segment. *)
Example c19_nonvacuous_range :
  s_sin flocq_prims 0x3fc90fdb = ONE /\ s_cos flocq_prims 0x40490fdb = 0xbf800000 /\
  in01 0x3f000000 = true /\ (0 < 1024) /\ (1023 < 1024) /\
  f_add (lut 0) (f_mul 0x3f000000 (f_sub (lut 1) (lut 0))) = 0x3a490fd5 /\
  f_add (lut 1023) (f_mul 0x3f000000 (f_sub (lut 1024) (lut 1023))) = 0x3f7ffff6.
Proof. vm_compute. repeat split; reflexivity. Qed.
