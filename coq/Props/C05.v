(* C05 - history is hash-chained and tamper-evident.
   Only property theorems live here: each is closed by [exact], pinned by [Check ... : statement] and followed by
   [Print Assumptions].  H (the hash), St / apply / root (graph state, patch application, state root) are
   universally quantified parameters - nothing is assumed about them. *)
From Coq Require Import List NArith Bool.
From Echo Require Import Base.Bytes Model.Chain Proofs.ChainProofs Proofs.ChainProofs2 Proofs.ChainProofs3.
Import ListNotations.
Open Scope N_scope.

(* The byte layouts hashed into a commit id and into a patch digest are injective on values that fit their Rust
   types (self-delimiting: fixed widths, tags, length prefixes). *)
Theorem commit_preimage_inj : forall c1 c2,
  wf_cbody c1 = true -> wf_cbody c2 = true -> commit_preimage c1 = commit_preimage c2 -> c1 = c2.
Proof. exact commit_preimage_inj_proof. Qed.
Check commit_preimage_inj : forall c1 c2,
  wf_cbody c1 = true -> wf_cbody c2 = true -> commit_preimage c1 = commit_preimage c2 -> c1 = c2.
Print Assumptions commit_preimage_inj.

Theorem patch_preimage_inj : forall p1 p2,
  wf_pbody p1 = true -> wf_pbody p2 = true -> patch_preimage p1 = patch_preimage p2 -> p1 = p2.
Proof. exact patch_preimage_inj_proof. Qed.
Check patch_preimage_inj : forall p1 p2,
  wf_pbody p1 = true -> wf_pbody p2 = true -> patch_preimage p1 = patch_preimage p2 -> p1 = p2.
Print Assumptions patch_preimage_inj.

(* A commit id binds (parent commit ids, state root, patch digest, policy); a patch digest binds (policy, rule pack,
   status, in/out slots, every op including every atom payload byte). *)
Theorem commit_binds : forall (H : bytes -> N) c1 c2,
  wf_cbody c1 = true -> wf_cbody c2 = true -> commit_id H c1 = commit_id H c2 -> c1 = c2 \/ Collision H.
Proof. exact commit_binds_proof. Qed.
Check commit_binds : forall (H : bytes -> N) c1 c2,
  wf_cbody c1 = true -> wf_cbody c2 = true -> commit_id H c1 = commit_id H c2 -> c1 = c2 \/ Collision H.
Print Assumptions commit_binds.

Theorem patch_binds : forall (H : bytes -> N) p1 p2,
  wf_pbody p1 = true -> wf_pbody p2 = true -> patch_digest H p1 = patch_digest H p2 -> p1 = p2 \/ Collision H.
Proof. exact patch_binds_proof. Qed.
Check patch_binds : forall (H : bytes -> N) p1 p2,
  wf_pbody p1 = true -> wf_pbody p2 = true -> patch_digest H p1 = patch_digest H p2 -> p1 = p2 \/ Collision H.
Print Assumptions patch_binds.

(* Every store reachable by accepted appends is gap-free (entry i of worldline w carries tick i and worldline w),
   has canonical parents, and every parent ref resolves to a stored entry with that commit id. *)
Theorem append_gapfree : forall (H : bytes -> N) st, reach H st -> store_ok st.
Proof. exact append_gapfree_proof. Qed.
Check append_gapfree : forall (H : bytes -> N) st, reach H st -> store_ok st.
Print Assumptions append_gapfree.

(* Append-only: an accepted append keeps every stored entry in place, leaves other worldlines untouched and extends
   the target worldline by exactly the new entry at the next tick. *)
Theorem append_only : forall (H : bytes -> N) st e st',
  append_local H st e = inr st' ->
  (forall w t e0, lookup st w t = Some e0 -> lookup st' w t = Some e0) /\
  (forall w, w <> e_wl e -> find_wl w st' = find_wl w st) /\
  (exists h, find_wl (e_wl e) st = Some h /\
     find_wl (e_wl e) st' = Some {| h_u0 := h_u0 h; h_boundary := h_boundary h; h_entries := h_entries h ++ [e] |}
     /\ e_tick e = lenN (h_entries h)).
Proof. exact append_only_proof. Qed.
Check append_only : forall (H : bytes -> N) st e st',
  append_local H st e = inr st' ->
  (forall w t e0, lookup st w t = Some e0 -> lookup st' w t = Some e0) /\
  (forall w, w <> e_wl e -> find_wl w st' = find_wl w st) /\
  (exists h, find_wl (e_wl e) st = Some h /\
     find_wl (e_wl e) st' = Some {| h_u0 := h_u0 h; h_boundary := h_boundary h; h_entries := h_entries h ++ [e] |}
     /\ e_tick e = lenN (h_entries h)).
Print Assumptions append_only.

(* With parents taken from the worldline tip (super_tick_inner), every entry's parent is exactly the previous
   entry of its worldline (tick 0: no parent). *)
Theorem coordinator_chain_linked : forall (H : bytes -> N) st,
  reach_coord H st ->
  forall w h i e, find_wl w st = Some h -> nth_error (h_entries h) i = Some e -> linked_at (h_entries h) i e.
Proof. exact coordinator_chain_linked_proof. Qed.
Check coordinator_chain_linked : forall (H : bytes -> N) st,
  reach_coord H st ->
  forall w h i e, find_wl w st = Some h -> nth_error (h_entries h) i = Some e -> linked_at (h_entries h) i e.
Print Assumptions coordinator_chain_linked.

(* ANY tamper that preserves the commit-id chain: if both histories pass replay and carry the same commit ids then
   position by position parents, state root, patch digest, policy and the canonical patch content agree, and so do
   the final state roots - or H collides. *)
Theorem replay_anchored : forall (H : bytes -> N) (St : Type) (apply : St -> list op -> option St) (root : St -> N)
  (lc : bool) (wl u0 : N) es es' t t' w w' r r',
  Forall (fun e => wf_entry e = true) es -> Forall (fun e => wf_entry e = true) es' ->
  run H St apply root lc wl u0 es t w = inr r -> run H St apply root lc wl u0 es' t' w' = inr r' ->
  map e_commit es = map e_commit es' ->
  root (rs_state w) = root (rs_state w') ->
  (Forall2 core_eq es es' /\ root (rs_state r) = root (rs_state r')) \/ Collision H.
Proof. exact replay_anchored_proof. Qed.
Check replay_anchored : forall (H : bytes -> N) (St : Type) (apply : St -> list op -> option St) (root : St -> N)
  (lc : bool) (wl u0 : N) es es' t t' w w' r r',
  Forall (fun e => wf_entry e = true) es -> Forall (fun e => wf_entry e = true) es' ->
  run H St apply root lc wl u0 es t w = inr r -> run H St apply root lc wl u0 es' t' w' = inr r' ->
  map e_commit es = map e_commit es' ->
  root (rs_state w) = root (rs_state w') ->
  (Forall2 core_eq es es' /\ root (rs_state r) = root (rs_state r')) \/ Collision H.
Print Assumptions replay_anchored.

(* Single-field tamper at any position (the "field" may be the whole patch, parent list, receipt or output set,
   so every op / slot / atom byte / header field alteration is an instance): replay of the altered history fails
   with a typed error, or yields exactly the original core result (graph state, state root, commit-id chain, tick),
   or H collides, or the state root collides. *)
Theorem replay_single_field_tamper : forall (H : bytes -> N) (St : Type) (apply : St -> list op -> option St)
  (root : St -> N) (lc : bool) (wl u0 : N), (forall a b : St, {a = b} + {a <> b}) ->
  forall h i e e' n t w r,
  nth_error h i = Some e -> alters_one_field e e' ->
  Forall (fun x => wf_entry x = true) h -> wf_entry e' = true ->
  run H St apply root lc wl u0 (firstn n h) t w = inr r ->
  (exists x, run H St apply root lc wl u0 (firstn n (replace_nth i e' h)) t w = inl x)
  \/ (exists r', run H St apply root lc wl u0 (firstn n (replace_nth i e' h)) t w = inr r' /\
                 core_result St root r' = core_result St root r)
  \/ Collision H \/ RootCollision St root.
Proof. exact replay_single_field_tamper_proof. Qed.
Check replay_single_field_tamper : forall (H : bytes -> N) (St : Type) (apply : St -> list op -> option St)
  (root : St -> N) (lc : bool) (wl u0 : N), (forall a b : St, {a = b} + {a <> b}) ->
  forall h i e e' n t w r,
  nth_error h i = Some e -> alters_one_field e e' ->
  Forall (fun x => wf_entry x = true) h -> wf_entry e' = true ->
  run H St apply root lc wl u0 (firstn n h) t w = inr r ->
  (exists x, run H St apply root lc wl u0 (firstn n (replace_nth i e' h)) t w = inl x)
  \/ (exists r', run H St apply root lc wl u0 (firstn n (replace_nth i e' h)) t w = inr r' /\
                 core_result St root r' = core_result St root r)
  \/ Collision H \/ RootCollision St root.
Print Assumptions replay_single_field_tamper.

(* Structural tamper - entry swap, duplication, removal, repetition, as-is transplant from another worldline, in any
   combination: if the edited history (entries drawn from the original one, or carrying another worldline id) still
   passes replay, it is a PREFIX of the original.  So the only structural edit replay does not reject is truncation,
   and that yields the original result for the tick reached (replay_truncation). *)
Theorem replay_structural_tamper : forall (H : bytes -> N) (St : Type) (apply : St -> list op -> option St)
  (root : St -> N) (wl u0 : N) es es' t w w' r r',
  run H St apply root true wl u0 es t w = inr r ->
  (forall y, In y es' -> In y es \/ e_wl y <> wl) ->
  run H St apply root true wl u0 es' t w' = inr r' ->
  es' = firstn (length es') es.
Proof. exact replay_structural_tamper_on. Qed.
Check replay_structural_tamper : forall (H : bytes -> N) (St : Type) (apply : St -> list op -> option St)
  (root : St -> N) (wl u0 : N) es es' t w w' r r',
  run H St apply root true wl u0 es t w = inr r ->
  (forall y, In y es' -> In y es \/ e_wl y <> wl) ->
  run H St apply root true wl u0 es' t w' = inr r' ->
  es' = firstn (length es') es.
Print Assumptions replay_structural_tamper.

(* Arbitrary tampering (the general replay_any_tamper): a tip can always be replaced by another valid child of the
   same parent, so the strongest true statement needs an anchor.  With the link check replay ties every entry to its
   predecessor: ONE trusted tip commit id pins the whole commit-id chain of any single-parent history that verifies
   (then replay_anchored pins every committed field and the state root), up to a collision. *)
Theorem replay_tip_anchored : forall (H : bytes -> N) (St : Type) (apply : St -> list op -> option St)
  (root : St -> N) (wl u0 : N) es es' e e' t t' w w' r r',
  length es = length es' ->
  Forall (fun x => wf_entry x = true) (es ++ [e]) -> Forall (fun x => wf_entry x = true) (es' ++ [e']) ->
  (forall x, In x (es ++ [e]) -> (length (parent_ids x) <= 1)%nat) ->
  (forall x, In x (es' ++ [e']) -> (length (parent_ids x) <= 1)%nat) ->
  run H St apply root true wl u0 (es ++ [e]) t w = inr r -> run H St apply root true wl u0 (es' ++ [e']) t' w' = inr r' ->
  e_commit e = e_commit e' ->
  map e_commit (es ++ [e]) = map e_commit (es' ++ [e']) \/ Collision H.
Proof. exact replay_tip_anchored_on. Qed.
Check replay_tip_anchored : forall (H : bytes -> N) (St : Type) (apply : St -> list op -> option St)
  (root : St -> N) (wl u0 : N) es es' e e' t t' w w' r r',
  length es = length es' ->
  Forall (fun x => wf_entry x = true) (es ++ [e]) -> Forall (fun x => wf_entry x = true) (es' ++ [e']) ->
  (forall x, In x (es ++ [e]) -> (length (parent_ids x) <= 1)%nat) ->
  (forall x, In x (es' ++ [e']) -> (length (parent_ids x) <= 1)%nat) ->
  run H St apply root true wl u0 (es ++ [e]) t w = inr r -> run H St apply root true wl u0 (es' ++ [e']) t' w' = inr r' ->
  e_commit e = e_commit e' ->
  map e_commit (es ++ [e]) = map e_commit (es' ++ [e']) \/ Collision H.
Print Assumptions replay_tip_anchored.

(* Why the coordinate / link check is there: WITHOUT it (lc = false, advance_replay_state before the fix) the statement
   "every alteration is rejected or yields the original result" is false - an entry replaced by a copy of a later one
   is accepted whenever its patch is an absolute write, because each entry is then only checked against itself.
   For EVERY hash function: *)
Theorem unlinked_replay_any_tamper_refuted : forall (H : bytes -> N),
  exists (h : list entry) (dup : entry),
    nth_error h 1 = Some dup /\
    exists r r1 r1' r',
      run H N wapply wroot false 1 0 h 0 wbase = inr r /\
      run H N wapply wroot false 1 0 (firstn 1 h) 0 wbase = inr r1 /\
      run H N wapply wroot false 1 0 (firstn 1 (replace_nth 0 dup h)) 0 wbase = inr r1' /\
      rs_state r1 <> rs_state r1' /\ rs_tick N r1 = rs_tick N r1' /\
      run H N wapply wroot false 1 0 (replace_nth 0 dup h) 0 wbase = inr r'.
Proof. exact replay_any_tamper_refuted_proof. Qed.
Check unlinked_replay_any_tamper_refuted : forall (H : bytes -> N),
  exists (h : list entry) (dup : entry),
    nth_error h 1 = Some dup /\
    exists r r1 r1' r',
      run H N wapply wroot false 1 0 h 0 wbase = inr r /\
      run H N wapply wroot false 1 0 (firstn 1 h) 0 wbase = inr r1 /\
      run H N wapply wroot false 1 0 (firstn 1 (replace_nth 0 dup h)) 0 wbase = inr r1' /\
      rs_state r1 <> rs_state r1' /\ rs_tick N r1 = rs_tick N r1' /\
      run H N wapply wroot false 1 0 (replace_nth 0 dup h) 0 wbase = inr r'.
Print Assumptions unlinked_replay_any_tamper_refuted.

(* The chain-level core of replay_tip_anchored, for either setting of the check: for chains whose entries name
   their predecessor as only parent - what the coordinator produces, and what a verifier that also checked the link
   would enforce - one trusted tip commit id pins the whole commit-id chain (hence, by replay_anchored, every
   committed field of every entry), up to a collision. *)
Theorem linked_tip_binds_partial : forall (H : bytes -> N) (St : Type) (apply : St -> list op -> option St)
  (root : St -> N) (lc : bool) (wl u0 : N) es es' e e' t t' w w' r r',
  length es = length es' ->
  Forall (fun x => wf_entry x = true) (es ++ [e]) -> Forall (fun x => wf_entry x = true) (es' ++ [e']) ->
  run H St apply root lc wl u0 (es ++ [e]) t w = inr r -> run H St apply root lc wl u0 (es' ++ [e']) t' w' = inr r' ->
  linked (es ++ [e]) -> linked (es' ++ [e']) ->
  e_commit e = e_commit e' ->
  map e_commit (es ++ [e]) = map e_commit (es' ++ [e']) \/ Collision H.
Proof. exact linked_tip_binds_proof. Qed.
Check linked_tip_binds_partial : forall (H : bytes -> N) (St : Type) (apply : St -> list op -> option St)
  (root : St -> N) (lc : bool) (wl u0 : N) es es' e e' t t' w w' r r',
  length es = length es' ->
  Forall (fun x => wf_entry x = true) (es ++ [e]) -> Forall (fun x => wf_entry x = true) (es' ++ [e']) ->
  run H St apply root lc wl u0 (es ++ [e]) t w = inr r -> run H St apply root lc wl u0 (es' ++ [e']) t' w' = inr r' ->
  linked (es ++ [e]) -> linked (es' ++ [e']) ->
  e_commit e = e_commit e' ->
  map e_commit (es ++ [e]) = map e_commit (es' ++ [e']) \/ Collision H.
Print Assumptions linked_tip_binds_partial.

(* Truncation: every tick still available replays exactly as before; beyond it: HistoryUnavailable. *)
Theorem replay_truncation : forall (H : bytes -> N) (St : Type) (apply : St -> list op -> option St) (root : St -> N)
  (lc : bool) (wl : N) h k base bw target,
  (k <= length (h_entries h))%nat ->
  (target <= N.of_nat k ->
     replay_at H St apply root lc wl (trunc h k) base bw target = replay_at H St apply root lc wl h base bw target)
  /\ (N.of_nat k < target ->
        replay_at H St apply root lc wl (trunc h k) base bw target = inl (EHistoryUnavailable target)).
Proof. exact replay_truncation_proof. Qed.
Check replay_truncation : forall (H : bytes -> N) (St : Type) (apply : St -> list op -> option St) (root : St -> N)
  (lc : bool) (wl : N) h k base bw target,
  (k <= length (h_entries h))%nat ->
  (target <= N.of_nat k ->
     replay_at H St apply root lc wl (trunc h k) base bw target = replay_at H St apply root lc wl h base bw target)
  /\ (N.of_nat k < target ->
        replay_at H St apply root lc wl (trunc h k) base bw target = inl (EHistoryUnavailable target)).
Print Assumptions replay_truncation.

(* A checkpoint accepted by add_checkpoint carries the root and the exact tick history of the verified replay. *)
Theorem checkpoint_validated : forall (H : bytes -> N) (St : Type) (apply : St -> list op -> option St)
  (root : St -> N) (lc : bool) (wl u0 : N) (art_eqb : art -> art -> bool),
  (forall a b, art_eqb a b = true -> a = b) ->
  forall h cp base bw r,
  h_u0 h = u0 ->
  validate_checkpoint H St root art_eqb h cp = None ->
  replay_at H St apply root lc wl h base bw (cp_tick cp) = inr r ->
  root (rs_state (cp_state cp)) = root (rs_state r) /\ rs_hist (cp_state cp) = rs_hist r.
Proof. exact checkpoint_validated_proof. Qed.
Check checkpoint_validated : forall (H : bytes -> N) (St : Type) (apply : St -> list op -> option St)
  (root : St -> N) (lc : bool) (wl u0 : N) (art_eqb : art -> art -> bool),
  (forall a b, art_eqb a b = true -> a = b) ->
  forall h cp base bw r,
  h_u0 h = u0 ->
  validate_checkpoint H St root art_eqb h cp = None ->
  replay_at H St apply root lc wl h base bw (cp_tick cp) = inr r ->
  root (rs_state (cp_state cp)) = root (rs_state r) /\ rs_hist (cp_state cp) = rs_hist r.
Print Assumptions checkpoint_validated.

(* Information (documented, docs/spec/merkle-commit.md decision 3): the diagnostic digests are retained and replayed
   but bound by nothing; altering one leaves the core result unchanged. *)
Theorem diagnostics_unbound_refuted : forall (H : bytes -> N),
  exists e e', agree_except Fpatch e e' /\
    exists r r', run H N wapply wroot false 1 0 [e] 0 wbase = inr r /\ run H N wapply wroot false 1 0 [e'] 0 wbase = inr r' /\
                 core_result N wroot r = core_result N wroot r' /\ map a_plan (rs_hist r) <> map a_plan (rs_hist r').
Proof. exact diagnostics_unbound_refuted_proof. Qed.
Check diagnostics_unbound_refuted : forall (H : bytes -> N),
  exists e e', agree_except Fpatch e e' /\
    exists r r', run H N wapply wroot false 1 0 [e] 0 wbase = inr r /\ run H N wapply wroot false 1 0 [e'] 0 wbase = inr r' /\
                 core_result N wroot r = core_result N wroot r' /\ map a_plan (rs_hist r) <> map a_plan (rs_hist r').
Print Assumptions diagnostics_unbound_refuted.

(* The link check at work (re-labelled duplicates / gaps): an entry served at a coordinate k >= 1 whose recorded parents
   do not contain the commit of the verified entry k-1 - in particular a copy of entry k-1 (parents name entry k-2) or of
   entry k+1 (parents name entry k) with its tick and receipt re-labelled to k - is rejected by the full replay of the
   edited history to any target beyond k AND by every incremental run (cursor step, restored checkpoint) that starts
   at k on a state whose last replayed commit is that of entry k-1.  No collision case: the check compares recorded ids. *)
Theorem replay_unlinked_entry_rejected : forall (H : bytes -> N) (St : Type) (apply : St -> list op -> option St)
  (root : St -> N) (wl u0 : N) pre p e rest t w w1,
  run H St apply root true wl u0 (pre ++ [p]) t w = inr w1 ->
  ~ In (e_commit p) (parent_ids e) ->
  (exists x, run H St apply root true wl u0 ((pre ++ [p]) ++ e :: rest) t w = inl x) /\
  (forall w2 t2, last_commit St w2 = Some (e_commit p) ->
                 exists x, run H St apply root true wl u0 (e :: rest) t2 w2 = inl x).
Proof. exact replay_unlinked_entry_rejected_proof. Qed.
Check replay_unlinked_entry_rejected : forall (H : bytes -> N) (St : Type) (apply : St -> list op -> option St)
  (root : St -> N) (wl u0 : N) pre p e rest t w w1,
  run H St apply root true wl u0 (pre ++ [p]) t w = inr w1 ->
  ~ In (e_commit p) (parent_ids e) ->
  (exists x, run H St apply root true wl u0 ((pre ++ [p]) ++ e :: rest) t w = inl x) /\
  (forall w2 t2, last_commit St w2 = Some (e_commit p) ->
                 exists x, run H St apply root true wl u0 (e :: rest) t2 w2 = inl x).
Print Assumptions replay_unlinked_entry_rejected.

(* Recorded, outside C05's quantifier (DESIGN 9.3): at the GENESIS coordinate nothing was replayed before the entry, so
   the link check has nothing to compare with - an entry that records parents is accepted at tick 0, with the same
   state and a commit id different from the parent-less genesis commit (or H collides).  Mirrors advance_replay_state,
   which checks the link only when tick_history is non-empty. *)
Theorem genesis_entry_with_parents_accepted_refuted : forall (H : bytes -> N),
  exists (e0 e : entry),
    e_parents e0 = [] /\ e_parents e <> [] /\
    exists r r', run H N wapply wroot true 1 0 [e0] 0 wbase = inr r /\
                 run H N wapply wroot true 1 0 [e] 0 wbase = inr r' /\
                 rs_state r = rs_state r' /\
                 (map a_commit (rs_hist r) <> map a_commit (rs_hist r') \/ Collision H).
Proof. exact genesis_entry_with_parents_accepted_refuted_proof. Qed.
Check genesis_entry_with_parents_accepted_refuted : forall (H : bytes -> N),
  exists (e0 e : entry),
    e_parents e0 = [] /\ e_parents e <> [] /\
    exists r r', run H N wapply wroot true 1 0 [e0] 0 wbase = inr r /\
                 run H N wapply wroot true 1 0 [e] 0 wbase = inr r' /\
                 rs_state r = rs_state r' /\
                 (map a_commit (rs_hist r) <> map a_commit (rs_hist r') \/ Collision H).
Print Assumptions genesis_entry_with_parents_accepted_refuted.

(* Non-vacuity of replay_unlinked_entry_rejected: entry 0 of the witness history re-labelled to tick 1 (its parents are
   empty, so they do not contain commit 0) served at coordinate 1 is rejected by the link check, from U0 and from the
   verified state of tick 1; the same material passes when the check is off. *)
Example c05_relabelled_duplicate :
  let dup := wentry Hpoly 1 1 0 [] in
  ~ In (e_commit (we0 Hpoly)) (parent_ids dup) /\ e_commit dup = e_commit (we0 Hpoly) /\
  run Hpoly N wapply wroot true 1 0 [we0 Hpoly; dup] 0 wbase = inl (EParentLink 1) /\
  (exists w1, run Hpoly N wapply wroot true 1 0 [we0 Hpoly] 0 wbase = inr w1 /\
              run Hpoly N wapply wroot true 1 0 [dup] 1 w1 = inl (EParentLink 1)) /\
  (exists r, run Hpoly N wapply wroot false 1 0 [we0 Hpoly; dup] 0 wbase = inr r).
Proof.
  cbv zeta. split; [intros []|]. split; [vm_compute; reflexivity|]. split; [vm_compute; reflexivity|].
  split; eexists; [split|]; vm_compute; reflexivity.
Qed.

(* Non-vacuity: with a concrete hash (Hpoly, a polynomial fold mod 2^256, defined in ChainProofs3) the two-entry witness history is well formed,
   verifies, is linked, and a one-field alteration (state root of entry 0) of it is rejected with a typed error,
   while an alteration beyond the replayed prefix leaves the result unchanged. *)
Example c05_nonvacuous :
  let h := [we0 Hpoly; we1 Hpoly] in
  let e0' := {| e_wl := 1; e_tick := 0; e_gtick := 0; e_head := Some (1, 1); e_parents := []; e_kind := 0;
                e_root := 5; e_pdig := e_pdig (we0 Hpoly); e_commit := e_commit (we0 Hpoly);
                e_patch := e_patch (we0 Hpoly); e_receipt := None; e_outputs := []; e_atoms := 0 |} in
  forallb wf_entry h = true /\ wf_entry e0' = true /\ agree_except Froot (we0 Hpoly) e0' /\
  (exists r, run Hpoly N wapply wroot true 1 0 (firstn 2 h) 0 (wbase) = inr r /\ rs_state r = 2 /\ rs_tick N r = 2) /\
  run Hpoly N wapply wroot true 1 0 (firstn 2 (replace_nth 0 e0' h)) 0 wbase = inl (EStateRoot 0) /\
  run Hpoly N wapply wroot true 1 0 [we1 Hpoly; we1 Hpoly] 0 wbase = inl (EEntryTick 0) /\
  linked h /\ e_commit (we0 Hpoly) <> e_commit (we1 Hpoly) /\
  wf_cbody {| cb_parents := [e_commit (we0 Hpoly)]; cb_root := 2; cb_pdig := e_pdig (we1 Hpoly); cb_policy := 0 |} = true.
Proof.
  cbv zeta.
  split; [vm_compute; reflexivity|]. split; [vm_compute; reflexivity|].
  split.
  { unfold agree_except. repeat split; intros Hf; try reflexivity. exfalso; apply Hf; reflexivity. }
  split.
  { eexists. split; [vm_compute; reflexivity|]. split; vm_compute; reflexivity. }
  split; [vm_compute; reflexivity|].
  split; [vm_compute; reflexivity|].
  split.
  { intros [|[|i]] a b Ha Hb; cbn in Ha, Hb; try discriminate.
    injection Ha as <-. injection Hb as <-. vm_compute. reflexivity. }
  split; [vm_compute; discriminate|vm_compute; reflexivity].
Qed.
