(* C03 — admission is the canonical greedy independent set with exact blocking witnesses.
   Only pinned property theorems live here. *)
From Coq Require Import List NArith Permutation Sorting.Sorted.
From Echo Require Import Model.Sched Proofs.SchedProofs Proofs.SortProofs.
Import ListNotations.
Open Scope N_scope.

(* The reservation pass (check-then-mark over generation-stamped sets) computes exactly the
   declarative greedy selection over the pairwise conflict predicate. *)
Theorem reserve_is_greedy : forall l, run_reserve l = greedy l.
Proof. exact reserve_greedy. Qed.
Check reserve_is_greedy : forall l, run_reserve l = greedy l.
Print Assumptions reserve_is_greedy.

(* ... i.e. the candidate at any position is accepted iff it conflicts with none of the
   candidates accepted before it (rejected ones reserve nothing and never block). *)
Theorem greedy_decision_spec : forall pre f post,
  nth (length pre) (greedy (pre ++ f :: post)) false
  = negb (existsb (conflict f) (accepted_from [] pre)).
Proof. exact greedy_decision. Qed.
Check greedy_decision_spec : forall pre f post,
  nth (length pre) (greedy (pre ++ f :: post)) false
  = negb (existsb (conflict f) (accepted_from [] pre)).
Print Assumptions greedy_decision_spec.

Theorem rejected_reserves_nothing : forall a f, snd (reserve a f) = false -> fst (reserve a f) = a.
Proof. exact reject_reserves_nothing. Qed.
Check rejected_reserves_nothing : forall a f, snd (reserve a f) = false -> fst (reserve a f) = a.
Print Assumptions rejected_reserves_nothing.

Theorem accepted_set_independent : forall l,
  ForallOrdPairs (fun x y => conflict x y = false) (accepted_from [] l).
Proof. intros l. apply accepted_independent; [auto|constructor]. Qed.
Check accepted_set_independent : forall l,
  ForallOrdPairs (fun x y => conflict x y = false) (accepted_from [] l).
Print Assumptions accepted_set_independent.

Theorem conflict_symmetric : forall x y, conflict x y = conflict y x.
Proof. exact conflict_sym. Qed.
Check conflict_symmetric : forall x y, conflict x y = conflict y x.
Print Assumptions conflict_symmetric.

(* The receipt names exactly the earlier accepted candidates the rejected one conflicts with
   (the engine's separate blocker predicate is the same predicate), and the
   "rejected but no blocker" corruption branch is unreachable. *)
Theorem blocker_predicate_is_conflict : forall a b, fp_conflict a b = conflict a b.
Proof. exact fp_conflict_is_conflict. Qed.
Check blocker_predicate_is_conflict : forall a b, fp_conflict a b = conflict a b.
Print Assumptions blocker_predicate_is_conflict.

Theorem receipt_is_exact : forall l, receipt l = Some (receipt_spec l).
Proof. exact receipt_exact. Qed.
Check receipt_is_exact : forall l, receipt l = Some (receipt_spec l).
Print Assumptions receipt_is_exact.

Theorem receipt_decisions_are_greedy : forall l, map fst (receipt_spec l) = greedy l.
Proof. exact receipt_spec_decisions. Qed.
Check receipt_decisions_are_greedy : forall l, map fst (receipt_spec l) = greedy l.
Print Assumptions receipt_decisions_are_greedy.

Theorem receipt_blockers_shape : forall l,
  Forall (fun e => fst e = true /\ snd e = [] \/ fst e = false /\ snd e <> []) (receipt_spec l).
Proof. intros l. apply receipt_spec_blockers_from. Qed.
Check receipt_blockers_shape : forall l,
  Forall (fun e => fst e = true /\ snd e = [] \/ fst e = false /\ snd e <> []) (receipt_spec l).
Print Assumptions receipt_blockers_shape.

(* The two scheduler implementations agree whenever partition masks are sound ... *)
Theorem legacy_agrees_when_masks_sound : forall l, masks_sound l -> run_legacy l = run_reserve l.
Proof. exact legacy_agrees. Qed.
Check legacy_agrees_when_masks_sound : forall l, masks_sound l -> run_legacy l = run_reserve l.
Print Assumptions legacy_agrees_when_masks_sound.

(* ... and only then (placeholder masks make the legacy predicate accept conflicting pairs). *)
Theorem legacy_diverges_refuted : exists l, run_legacy l <> run_reserve l.
Proof. exact legacy_diverges. Qed.
Check legacy_diverges_refuted : exists l, run_legacy l <> run_reserve l.
Print Assumptions legacy_diverges_refuted.

(* Ordering: the 20-pass stable LSD radix sort and the comparison sort realise the same total
   order on (scope hash, rule id, nonce) for every batch (both sides of the threshold). *)
Theorem radix_drain_sorted : forall l,
  Forall wf_thin l -> NoDup (map thin_key l) -> radix_sort l = small_sort l.
Proof. exact radix_eq_small. Qed.
Check radix_drain_sorted : forall l,
  Forall wf_thin l -> NoDup (map thin_key l) -> radix_sort l = small_sort l.
Print Assumptions radix_drain_sorted.

Theorem drain_is_sorted_permutation : forall l,
  Forall wf_thin l -> NoDup (map thin_key l) ->
  drain_thin l = small_sort l /\ Permutation l (drain_thin l) /\
  StronglySorted (fun a b => thin_key a <= thin_key b) (drain_thin l).
Proof. exact drain_thin_sorted. Qed.
Check drain_is_sorted_permutation : forall l,
  Forall wf_thin l -> NoDup (map thin_key l) ->
  drain_thin l = small_sort l /\ Permutation l (drain_thin l) /\
  StronglySorted (fun a b => thin_key a <= thin_key b) (drain_thin l).
Print Assumptions drain_is_sorted_permutation.

Theorem cmp_thin_is_key_order : forall a b,
  wf_thin a -> wf_thin b -> cmp_thin a b = (thin_key a ?= thin_key b).
Proof. exact cmp_thin_key. Qed.
Check cmp_thin_is_key_order : forall a b,
  wf_thin a -> wf_thin b -> cmp_thin a b = (thin_key a ?= thin_key b).
Print Assumptions cmp_thin_is_key_order.

(* Non-vacuity: a write/read conflict, a port conflict in another instance, a sound-mask
   legacy run, and a radix batch whose keys share a 30-byte prefix. *)
Definition ex_fp (nr nw : list rkey) (bi : list rkey) (m : N) : footprint :=
  {| n_read := nr; n_write := nw; e_read := []; e_write := []; a_read := []; a_write := [];
     b_in := bi; b_out := []; factor_mask := m |}.
Example c03_nonvacuous :
  let l := [ex_fp [] [(1, 5)] [] 1; ex_fp [(1, 5)] [] [] 1; ex_fp [(2, 5)] [] [(2, 9)] 2;
            ex_fp [] [(1, 6)] [(2, 9)] 3; ex_fp [(1, 5)] [(1, 6)] [] 1] in
  run_reserve l = [true; false; true; false; false] /\
  receipt l = Some [(true, []); (false, [0]); (true, []); (false, [2]); (false, [0])] /\
  masks_sound l /\
  let t := [{| t_scope := 2 ^ 255 + 1; t_rule := 7; t_nonce := 0; t_handle := 0 |};
            {| t_scope := 2 ^ 255; t_rule := 7; t_nonce := 1; t_handle := 1 |};
            {| t_scope := 2 ^ 255; t_rule := 3; t_nonce := 2; t_handle := 2 |}] in
  Forall wf_thin t /\ NoDup (map thin_key t) /\ map t_handle (radix_sort t) = [2; 1; 0].
Proof.
  cbv zeta. split; [vm_compute; reflexivity|]. split; [vm_compute; reflexivity|]. split.
  - intros a b Ha Hb. cbn in Ha, Hb.
    repeat (destruct Ha as [<-|Ha]; [|]); try contradiction;
    repeat (destruct Hb as [<-|Hb]; [|]); try contradiction; vm_compute; intros; discriminate.
  - split; [|split; [|vm_compute; reflexivity]].
    + repeat constructor; vm_compute; reflexivity.
    + vm_compute. repeat constructor; cbn; intuition discriminate.
Qed.
