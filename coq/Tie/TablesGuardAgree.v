(* Footprint-guard / sort-key tables regenerated from /repo's current source (Gen/TablesGuard.v) are definitionally the model. *)
From Coq Require Import List NArith Bool.
From Echo Require Import Model.Patch Model.Guard Gen.TablesGuard.
Import ListNotations.
Open Scope N_scope.

Lemma op_write_targets_agrees : forall o, gen_op_write_targets o = op_write_targets o.
Proof. reflexivity. Qed.
Lemma sort_kind_agrees : forall o, gen_sort_kind o = fst (sort_key o).
Proof. destruct o; reflexivity. Qed.
