(* Materialization tables regenerated from /repo's current source (Gen/TablesBus.v) are definitionally the model. *)
From Coq Require Import List NArith Bool.
From Echo Require Import Base.Bytes Model.Bus Gen.TablesBus.
Import ListNotations.
Open Scope N_scope.

Lemma is_commutative_agrees : forall op, gen_is_commutative op = is_commutative op.
Proof. reflexivity. Qed.
Lemma frame_constants_agree :
  gen_frame_magic = frame_magic /\
  (forall cd, firstn 6 (encode_frame cd) = gen_frame_magic ++ le_bytes 2 gen_frame_version).
Proof. split; reflexivity. Qed.
Lemma emissions_digest_version_agrees :
  forall chans, firstn 2 (digest_preimage chans) = le_bytes 2 gen_emissions_digest_version.
Proof. reflexivity. Qed.
