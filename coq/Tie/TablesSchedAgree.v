(* Scheduler tables regenerated from /repo's current source (Gen/TablesSched.v) are definitionally the model. *)
From Coq Require Import List NArith Bool.
From Echo Require Import Model.Sched Model.Tick Gen.TablesSched.
Import ListNotations.
Open Scope N_scope.

Lemma small_sort_threshold_agrees : gen_small_sort_threshold = small_sort_threshold.
Proof. reflexivity. Qed.
Lemma bucket16_agrees : forall r p, gen_bucket16 r p = bucket16 r p.
Proof. reflexivity. Qed.
Lemma radix_passes_agree : gen_radix_passes = N.of_nat (length passes) /\ gen_radix_loop_passes = N.of_nat (length passes).
Proof. split; reflexivity. Qed.
Lemma has_conflict_agrees : forall a f, gen_has_conflict a f = has_conflict a f.
Proof. reflexivity. Qed.
Lemma mark_all_agrees : forall a f, gen_mark_all a f = mark_all a f.
Proof. reflexivity. Qed.
Lemma fp_conflict_agrees : forall a b, gen_fp_conflict a b = fp_conflict a b.
Proof. reflexivity. Qed.
Lemma independent_agrees : forall a b, gen_independent a b = independent a b.
Proof. reflexivity. Qed.
Lemma num_shards_agrees : forall node, shard_of node = (node / 2 ^ 248) mod gen_num_shards.
Proof. reflexivity. Qed.
