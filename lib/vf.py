"""Shared machinery for /verif checks (see DESIGN.md section 2).

A property plug-in (props/cXX.py) describes: pinned theorems, how to generate cases, how to run the
implementation (a harness binary) and the Coq model (terms evaluated by vm_compute) on them and how to
render both sides into the same canonical line.  This module does the rest: hygiene, proof build,
Print Assumptions audit, sharded coqc evaluation, cargo builds, diffing, known findings, evidence.
"""
import json, os, re, subprocess, sys, time, hashlib, random, shutil, concurrent.futures

ROOT = os.path.dirname(os.path.dirname(os.path.abspath(__file__)))
COQ = os.path.join(ROOT, "coq")
CACHE = os.path.join(ROOT, ".cache")
TARGET = os.path.join(CACHE, "target")
HARNESS = os.path.join(ROOT, "harness")
REPO = os.environ.get("VERIF_REPO", "/repo")   # scratch worktrees for mutation experiments only; checks use /repo
NCPU = os.cpu_count() or 4
SCRATCH = REPO != "/repo"
_TAG = hashlib.sha1(REPO.encode()).hexdigest()[:8]
WORK = os.path.join(CACHE, "scratch-" + _TAG) if SCRATCH else CACHE   # cases / coqrun / audit files
OUT = WORK if SCRATCH else ROOT                                         # evidence/ and replays/

AXIOM_ALLOW = {
    # standard-library axioms that may appear (named in DESIGN.md section 3)
    "ClassicalDedekindReals.sig_not_dec", "ClassicalDedekindReals.sig_forall_dec",
    "FunctionalExtensionality.functional_extensionality_dep", "Classical_Prop.classic",
    "functional_extensionality_dep", "classic", "sig_not_dec", "sig_forall_dec",
    "Eqdep.Eq_rect_eq.eq_rect_eq", "eq_rect_eq", "JMeq_eq", "JMeq.JMeq_eq",
    "ProofIrrelevance.proof_irrelevance", "proof_irrelevance",
}

# `admit` is flagged in tactic position only (a model may name a function `admit`, e.g. HeadInbox::admit);
# a proof containing the admit tactic cannot be closed by Qed anyway, so `Admitted` is the decisive pattern.
FORBIDDEN = re.compile(
    r"\b(Admitted|Axiom|Axioms|Parameter|Parameters|Conjecture|Conjectures|Abort All|give_up)\b"
    r"|(?:(?:^|[.;\[|({}]|^\s*[-+*]+)\s*|\b(?:by|try|repeat|first|solve)\s+)admit\s*(?=[.;|\])}])"
    r"|Admit Obligations|Unset Guard Checking|Unset Positivity Checking|Unset Universe Checking"
    r"|bypass_check|type-in-type|impredicative-set|native_compute", re.M)


class Broken(Exception):
    """A proof obligation or tie no longer checks (not by itself a violation)."""


def sh(cmd, timeout=600, cwd=None, env=None, input=None):
    e = dict(os.environ)
    e.setdefault("CARGO_NET_OFFLINE", "true")
    if env:
        e.update(env)
    try:
        p = subprocess.run(cmd, shell=isinstance(cmd, str), cwd=cwd, env=e, input=input,
                           stdout=subprocess.PIPE, stderr=subprocess.STDOUT, timeout=timeout, text=True)
    except subprocess.TimeoutExpired as ex:
        out = ex.stdout.decode(errors="replace") if isinstance(ex.stdout, bytes) else (ex.stdout or "")
        return 124, out + f"\n[vf] command timed out after {timeout}s: {cmd if isinstance(cmd, str) else ' '.join(map(str, cmd))[:300]}"
    return p.returncode, p.stdout


# --------------------------------------------------------------------------- hygiene / coq

def strip_coq_comments(src):
    out, depth, i = [], 0, 0
    while i < len(src):
        if src.startswith("(*", i):
            depth += 1; i += 2
        elif src.startswith("*)", i) and depth:
            depth -= 1; i += 2
        else:
            if depth == 0:
                out.append(src[i])
            i += 1
    return "".join(out)


def coq_files():
    res = []
    for d, _, fs in os.walk(COQ):
        for f in fs:
            if f.endswith(".v") and not f.startswith("."):
                res.append(os.path.relpath(os.path.join(d, f), COQ))
    return sorted(res)


def hygiene():
    """P0: no Admitted/admit/Axiom/Parameter/... anywhere, no Variable/Hypothesis outside a section."""
    hits = []
    for f in coq_files():
        src = strip_coq_comments(open(os.path.join(COQ, f)).read())
        for m in FORBIDDEN.finditer(src):
            hits.append(f"{f}: {m.group(0)}")
        depth = 0
        for ln in src.splitlines():
            s = ln.strip()
            if re.match(r"(Section|Module Type|Module)\s+\w+\s*\.", s) and s.startswith("Section"):
                depth += 1
            elif re.match(r"End\s+\w+\s*\.", s) and depth > 0:
                depth -= 1
            elif depth == 0 and re.match(r"(Variable|Variables|Hypothesis|Hypotheses|Context)\b", s):
                hits.append(f"{f}: section-less {s[:40]}")
    proj = open(os.path.join(COQ, "_CoqProject")).read()
    if re.search(r"type-in-type|impredicative-set|-vos|-vok|bypass", proj):
        hits.append("_CoqProject: forbidden flag")
    return hits


def ensure_makefile():
    files = [f for f in coq_files() if not f.startswith("run/")]
    proj = "-Q . Echo\n" + "\n".join(files) + "\n"
    p = os.path.join(COQ, "_CoqProject")
    old = open(p).read() if os.path.exists(p) else ""
    if old != proj or not os.path.exists(os.path.join(COQ, "Makefile")):
        open(p, "w").write(proj)
        rc, out = sh("coq_makefile -f _CoqProject -o Makefile", cwd=COQ, timeout=120)
        if rc:
            raise Broken("coq_makefile failed: " + out[-2000:])


def coq_make(targets, timeout=1500):
    ensure_makefile()
    rc, out = sh(["make", "-j%d" % NCPU] + list(targets), cwd=COQ, timeout=timeout)
    return rc, out


def coq_audit(prop, theorems, module=None):
    """Compile a tiny file that re-checks the pinned theorem names exist and prints their axioms."""
    module = module or f"Echo.Props.{prop}"
    d = os.path.join(WORK, "audit")
    os.makedirs(d, exist_ok=True)
    f = os.path.join(d, f"Audit{prop}.v")
    lines = [f"Require Import {module}."]
    for t in theorems:
        lines.append(f'Goal True. idtac "@@THM {t}". exact I. Qed.')
        lines.append(f"Print Assumptions {t}.")
    open(f, "w").write("\n".join(lines) + "\n")
    rc, out = sh(["coqc", "-noglob", "-Q", COQ, "Echo", f], timeout=600)
    if rc:
        raise Broken(f"audit of {prop} failed: {out[-1500:]}")
    res, cur = {}, None
    for ln in out.splitlines():
        if ln.startswith("@@THM "):
            cur = ln[6:].strip(); res[cur] = []
        elif cur is not None:
            s = ln.strip()
            if not s or s.startswith("Closed under") or s.startswith("Axioms:"):
                continue
            # an axiom entry starts at column 0 with its name; its type may continue on indented lines
            m = re.match(r"([A-Za-z_][\w.']*)\s*(:|$)", ln)
            if m:
                res[cur].append(m.group(1))
    bad = {t: [a for a in ax if a not in AXIOM_ALLOW and a.split(".")[-1] not in AXIOM_ALLOW]
           for t, ax in res.items()}
    bad = {t: a for t, a in bad.items() if a}
    missing = [t for t in theorems if t not in res]
    return res, bad, missing


# --------------------------------------------------------------------------- coq evaluation

class _P:
    def __init__(s, t): s.t = t; s.i = 0
    def ws(s):
        while s.i < len(s.t) and s.t[s.i].isspace(): s.i += 1
    def atom(s):
        s.ws(); t = s.t; c = t[s.i]
        if c == '[':
            s.i += 1; r = []
            s.ws()
            if t[s.i] == ']': s.i += 1; return r
            while True:
                r.append(s.expr()); s.ws()
                if t[s.i] == ';': s.i += 1
                elif t[s.i] == ']': s.i += 1; return r
                else: raise ValueError("list at %d: %r" % (s.i, t[s.i:s.i + 30]))
        if c == '(':
            s.i += 1; r = [s.expr()]; s.ws()
            while t[s.i] == ',':
                s.i += 1; r.append(s.expr()); s.ws()
            if t[s.i] != ')': raise ValueError("paren at %d" % s.i)
            s.i += 1
            return r[0] if len(r) == 1 else tuple(r)
        if c == '"':
            j = s.i + 1; b = []
            while True:
                if t[j] == '"':
                    if j + 1 < len(t) and t[j + 1] == '"': b.append('"'); j += 2; continue
                    break
                b.append(t[j]); j += 1
            s.i = j + 1
            if t.startswith("%string", s.i): s.i += 7
            return ("str", "".join(b))
        m = re.compile(r"-?\d+").match(t, s.i)
        if m:
            s.i = m.end()
            m2 = re.compile(r"%\w+").match(t, s.i)
            if m2: s.i = m2.end()
            return int(m.group(0))
        m = re.compile(r"[A-Za-z_][\w.']*").match(t, s.i)
        if m:
            s.i = m.end(); return m.group(0)
        raise ValueError("atom at %d: %r" % (s.i, t[s.i:s.i + 30]))
    def expr(s):
        a = s.atom(); args = []
        while True:
            s.ws()
            if s.i >= len(s.t) or s.t[s.i] in ";,])": break
            args.append(s.atom())
        if args:
            return ("app", a, args)
        return a


def parse_coq_value(text):
    p = _P(text.strip())
    v = p.expr(); p.ws()
    if p.i != len(p.t):
        raise ValueError("trailing: %r" % p.t[p.i:p.i + 40])
    return v


def _split_evals(out):
    """Returns the value strings of consecutive `Eval` outputs."""
    vals, cur, mode = [], None, None
    for ln in out.splitlines():
        if ln.startswith("     = "):
            if cur is not None: vals.append(" ".join(cur))
            cur = [ln[7:]]; mode = "v"
        elif ln.startswith("     : "):
            if cur is not None: vals.append(" ".join(cur)); cur = None
            mode = "t"
        elif mode == "v" and cur is not None:
            cur.append(ln.strip())
    if cur is not None: vals.append(" ".join(cur))
    return vals


def coq_eval(tag, preamble, terms, shards=None, timeout=900):
    """Evaluates each Gallina term with vm_compute (sharded over coqc processes); returns parsed values."""
    if not terms:
        return []
    d = os.path.join(WORK, "coqrun", tag)
    shutil.rmtree(d, ignore_errors=True)
    os.makedirs(d)
    shards = shards or min(NCPU, max(1, len(terms) // 8))
    chunks = [terms[i::shards] for i in range(shards)]
    def one(i):
        f = os.path.join(d, f"cases{i}.v")
        with open(f, "w") as fh:
            fh.write(preamble + "\nSet Printing Width 100000000.\nSet Printing Depth 100000000.\n")
            for t in chunks[i]:
                fh.write(f"Eval vm_compute in ({t}).\n")
        rc, out = sh(["coqc", "-noglob", "-Q", COQ, "Echo", f], timeout=timeout)
        if rc:
            raise Broken(f"model evaluation failed ({f}): {out[-1500:]}")
        vals = _split_evals(out)
        if len(vals) != len(chunks[i]):
            raise Broken(f"model evaluation produced {len(vals)} values for {len(chunks[i])} terms in {f}")
        return [parse_coq_value(v) for v in vals]
    with concurrent.futures.ThreadPoolExecutor(max_workers=shards) as ex:
        parts = list(ex.map(one, range(shards)))
    res = [None] * len(terms)
    for i, part in enumerate(parts):
        for j, v in enumerate(part):
            res[i + j * shards] = v
    return res


def coq_bytes(bs):
    return "[" + ";".join(str(b) for b in bs) + "]"


def coq_hexN(h):
    h = h.lstrip("0") or "0"
    return "0x" + h


# --------------------------------------------------------------------------- rust side

def sync_lock():
    src, dst = os.path.join(REPO, "Cargo.lock"), os.path.join(HARNESS, "Cargo.lock")
    if not os.path.exists(dst):
        shutil.copy(src, dst)


def _harness_dir():
    """/verif/harness for /repo; for VERIF_REPO=<scratch worktree> a rewritten copy with its own target dir."""
    global TARGET
    if REPO == "/repo":
        return HARNESS
    tag = hashlib.sha1(REPO.encode()).hexdigest()[:8]
    d = os.path.join(CACHE, "harness-" + tag)
    TARGET = os.path.join(CACHE, "target-" + tag)
    os.makedirs(d, exist_ok=True)
    for root, dirs, files in os.walk(HARNESS):
        dirs[:] = [x for x in dirs if x != "target"]
        for f in files:
            sp = os.path.join(root, f)
            dp = os.path.join(d, os.path.relpath(sp, HARNESS))
            os.makedirs(os.path.dirname(dp), exist_ok=True)
            data = open(sp, "rb").read()
            if f == "Cargo.toml":
                data = data.replace(b'"/repo/', ('"' + REPO.rstrip("/") + "/").encode())
            if not os.path.exists(dp) or open(dp, "rb").read() != data:
                open(dp, "wb").write(data)
    return d


def cargo_build(bins, release=False, features=None, timeout=3000, extra_env=None):
    """P3: (re)build harness binaries against /repo's current working tree (hooks on)."""
    sync_lock()
    cmd = ["cargo", "build", "--offline", "--quiet"]
    if release:
        cmd.append("--release")
    for b in bins:
        cmd += ["--bin", b]
    if features:
        cmd += ["--features", ",".join(features)]
    hd = _harness_dir()
    env = {"CARGO_TARGET_DIR": TARGET}
    if extra_env: env.update(extra_env)
    rc, out = sh(cmd, cwd=hd, timeout=timeout, env=env)
    if rc:
        raise Broken("harness build failed against /repo working tree:\n" + out[-3000:])
    prof = "release" if release else "debug"
    return {b: os.path.join(TARGET, prof, b) for b in bins}


def run_bin(path, casefile, timeout=900, args=()):
    rc, out = sh([path, casefile] + list(args), timeout=timeout)
    return rc, out


def vfhash(hexes):
    path = os.path.join(TARGET, "debug", "vfhash")
    if not os.path.exists(path):
        cargo_build(["vfhash"])
    rc, out = sh([path], input="\n".join(h if h else "-" for h in hexes) + "\n", timeout=300)
    if rc:
        raise Broken("vfhash failed: " + out[-500:])
    return out.split()


def hexb(bs):
    return "".join("%02x" % b for b in bs) if bs else "-"


def hex32(n):
    return "%064x" % n


# --------------------------------------------------------------------------- findings / evidence / verdict

def known_findings(prop):
    p = os.path.join(ROOT, "known_findings.jsonl")
    out = []
    if os.path.exists(p):
        for ln in open(p):
            ln = ln.strip()
            if ln and not ln.startswith("#"):
                d = json.loads(ln)
                if d.get("property") == prop and d.get("status") == "known":
                    out.append(d)
    return out


class Run:
    """Collects phase results, violations and coverage for one check invocation."""
    def __init__(self, prop, tier, seed, level="proof"):
        self.prop, self.tier, self.seed, self.level = prop, tier, seed, level
        self.t0 = time.time()
        self.phases = {}
        self.violations = []      # (signature, description, replay-dict)
        self.broken = []          # (what, detail)
        self.cov = {"obligations": 0, "discharged": 0, "evaluations": 0, "distinct_nontrivial": 0,
                    "samples": [], "trusted_base": [], "checker_cmd": ""}
        self.assumptions = []
        self.known_hit = []
        self.rng = random.Random(seed)

    def phase(self, name, **kw):
        self.phases[name] = kw

    def violation(self, sig, desc, replay):
        self.violations.append((sig, desc, replay))

    def is_broken(self, what, detail):
        self.broken.append((what, str(detail)[:3000]))

    # -- standard proof phase
    def proof_phase(self, theorems, extra_targets=(), module=None):
        hits = hygiene()
        self.phase("P0_hygiene", hits=hits)
        if hits:
            self.is_broken("hygiene", "; ".join(hits))
        target = f"Props/{self.prop}.vo"
        cmd = f"make -C coq {target} (coq_makefile, full .vo) + coqc audit with Print Assumptions"
        self.cov["checker_cmd"] = cmd
        self.cov["obligations"] = len(theorems)
        try:
            rc, out = coq_make([target] + list(extra_targets))
            if rc:
                self.is_broken("proof:" + target, out[-2500:])
                self.phase("P1_proof", ok=False)
                return False
            res, bad, missing = coq_audit(self.prop, theorems, module)
        except (Broken, subprocess.TimeoutExpired) as e:
            self.is_broken("proof:" + target, e)
            self.phase("P1_proof", ok=False)
            return False
        if missing:
            self.is_broken("proof:missing-theorems", ",".join(missing))
        if bad:
            self.is_broken("proof:unlisted-axioms", json.dumps(bad))
        self.cov["discharged"] = len([t for t in theorems if t in res and t not in bad])
        axioms = sorted({a for ax in res.values() for a in ax})
        self.cov["axioms"] = axioms
        self.cov["theorems"] = list(theorems)
        self.phase("P1_proof", ok=not (missing or bad), axioms=axioms)
        if self.tier == "thorough" and os.environ.get("VERIF_NO_COQCHK") != "1":
            self.coqchk_phase()
        return not (missing or bad)

    def coqchk_phase(self):
        """thorough tier: the independent checker re-checks the compiled closure of Props/<id>.vo; every axiom it lists
        must be declared by the standard library (path Coq.*: Uint63/Float primitives and their specs, the classical
        axioms Flocq imports), none by this development or an add-on library; no type-in-type / unsafe fixpoints /
        assumed positivity."""
        try:
            rc, out = sh(["coqchk", "-silent", "-o", "-Q", COQ, "Echo", f"Echo.Props.{self.prop}"], timeout=2400)
        except Exception as e:      # noqa
            self.is_broken("coqchk", repr(e)); return
        sect, ax, flags = None, [], {}
        for ln in out.splitlines():
            m = re.match(r"^\* (.*?):\s*(.*)$", ln)
            if m:
                sect = m.group(1); flags[sect] = m.group(2).strip()
            elif sect == "Axioms" and ln.strip():
                ax.append(ln.strip())
        foreign = [a for a in ax if not a.startswith("Coq.")]
        unsafe = {k: v for k, v in flags.items() if k not in ("Axioms", "Theory") and v not in ("<none>", "")}
        if flags.get("Theory", "Set is predicative") != "Set is predicative":
            unsafe["Theory"] = flags["Theory"]
        ok = rc == 0 and not foreign and not unsafe
        self.cov["coqchk"] = {"ok": ok, "axioms_in_closure": len(ax), "non_stdlib_axioms": foreign,
                              "stdlib_axiom_families": sorted({".".join(a.split(".")[:5]) for a in ax})}
        self.phase("P1b_coqchk", ok=ok, axioms=len(ax))
        if not ok:
            self.is_broken("coqchk", f"rc={rc} foreign={foreign} unsafe={unsafe} tail={out[-600:]}")

    def tables_phase(self, area):
        """P2: regenerate the table-shaped parts of the model (area Sched|Bus|Guard) from /repo's current source and
        re-check that they are definitionally the hand-written model (Tie/Tables<area>Agree.v)."""
        d = os.path.join(WORK, "tables-" + self.prop)
        shutil.rmtree(d, ignore_errors=True)
        os.makedirs(os.path.join(d, "Gen")); os.makedirs(os.path.join(d, "Tie"))
        sys.path.insert(0, os.path.join(ROOT, "translator"))
        try:
            import extract_tables
            extract_tables.REPO = REPO
            extract_tables.SRC = os.path.join(REPO, "crates/warp-core/src")
            text = extract_tables.generate(area)
        except Exception as e:   # ExtractError or IO
            self.is_broken("tables:extractor", f"translator could not parse the source: {e}")
            self.phase("P2_tables", ok=False)
            return False
        open(os.path.join(d, "Gen", f"Tables{area}.v"), "w").write(text)
        tie = open(os.path.join(COQ, "Tie", f"Tables{area}Agree.v")).read()
        nlem = tie.count("Lemma ")
        tie = tie.replace(f" Gen.Tables{area}.", f".\nFrom EchoT Require Import Gen.Tables{area}.")
        open(os.path.join(d, "Tie", f"Tables{area}Agree.v"), "w").write(tie)
        models = {"Sched": ["Model/Sched.vo", "Model/Tick.vo"], "Bus": ["Model/Bus.vo"], "Guard": ["Model/Patch.vo", "Model/Guard.vo"]}[area]
        rc, out = coq_make(models)
        if rc:
            self.is_broken("tables:models", out[-1500:]); return False
        for f in (f"Gen/Tables{area}.v", f"Tie/Tables{area}Agree.v"):
            rc, out = sh(["coqc", "-noglob", "-Q", COQ, "Echo", "-Q", d, "EchoT", os.path.join(d, f)], timeout=600)
            if rc:
                self.is_broken("tables:" + f, "regenerated table no longer equals the model (or does not compile):\n" + out[-1500:])
                self.phase("P2_tables", ok=False)
                return False
        self.cov["obligations"] += nlem
        self.cov["discharged"] += nlem
        self.cov["tables_regenerated_from_source"] = self.cov.get("tables_regenerated_from_source", 0) + nlem
        self.phase("P2_tables_" + area, ok=True, lemmas=nlem)
        return True

    def finish(self):
        prop = self.prop
        evd = os.path.join(OUT, "evidence")
        os.makedirs(evd, exist_ok=True)
        rdir = os.path.join(OUT, "replays")
        os.makedirs(rdir, exist_ok=True)
        kf = known_findings(prop)
        lines, fail = [], False
        reported = set()
        for sig, desc, replay in self.violations:
            match = next((k for k in kf if k.get("signature") == sig), None)
            if match:
                if sig not in reported:
                    lines.append(f"KNOWN-FINDING: property={prop} {match.get('what', desc)}")
                    reported.add(sig)
                self.known_hit.append(sig)
                continue
            if sig in reported:
                continue
            reported.add(sig)
            path = os.path.join(rdir, f"{prop}-{hashlib.sha1(sig.encode()).hexdigest()[:10]}.json")
            json.dump({"property": prop, "signature": sig, "description": desc, "replay": replay,
                       "seed": self.seed, "tier": self.tier}, open(path, "w"), indent=1)
            lines.append(f"VIOLATION property={prop} replay={path}")
            fail = True
        real = [v for v in self.violations if v[0] not in self.known_hit]
        if self.broken and not real:
            path = os.path.join(rdir, f"{prop}-broken.json")
            json.dump({"property": prop, "no_longer_checks": [{"what": w, "detail": d} for w, d in self.broken],
                       "seed": self.seed, "tier": self.tier,
                       "note": "a proof obligation / correspondence broke and the search found no failing input"},
                      open(path, "w"), indent=1)
            lines.append(f"VIOLATION property={prop} replay={path} no-failing-input-found")
            fail = True
        cov = dict(self.cov)
        cov["phases"] = self.phases
        cov["known_findings_hit"] = sorted(set(self.known_hit))
        cov["broken"] = [w for w, _ in self.broken]
        if not cov["samples"]:
            cov["samples"] = ["(no cases generated)"]
        ev = {"property_id": prop, "tier": self.tier, "seed": self.seed, "level": self.level,
              "coverage": cov, "assumptions": self.assumptions, "wall_s": round(time.time() - self.t0, 2),
              "violations": len(real) + (1 if (self.broken and not real) else 0)}
        json.dump(ev, open(os.path.join(evd, f"{prop}.json"), "w"), indent=1, default=str)
        for w, d in self.broken:
            print(f"[{prop}] no longer checks: {w}\n{d[-1200:]}", file=sys.stderr)
        for sig, desc, _ in real[:5]:
            print(f"[{prop}] violation {sig}: {desc}", file=sys.stderr)
        for ln in lines:
            print(ln)
        print(f"[{prop}] tier={self.tier} seed={self.seed} obligations={cov['obligations']}/{cov['discharged']} "
              f"evaluations={cov['evaluations']} wall={ev['wall_s']}s {'FAIL' if fail else 'ok'}", file=sys.stderr)
        return 1 if fail else 0


def diff_lines(run, cases, impl, model, what="correspondence"):
    """P4: compare canonical lines; returns list of differing indices."""
    bad = []
    if len(impl) != len(cases) or len(model) != len(cases):
        run.is_broken(what, f"line counts differ: cases={len(cases)} impl={len(impl)} model={len(model)}")
        return list(range(min(len(cases), 1)))
    for i, (a, b) in enumerate(zip(impl, model)):
        if a != b:
            bad.append(i)
    return bad


def load_corpus(prop):
    d = os.path.join(ROOT, "corpus", prop)
    out = []
    if os.path.isdir(d):
        for f in sorted(os.listdir(d)):
            for ln in open(os.path.join(d, f)):
                ln = ln.strip()
                if ln and not ln.startswith("#"):
                    out.append(ln)
    return out


def write_cases(tag, cases):
    d = os.path.join(WORK, "cases")
    os.makedirs(d, exist_ok=True)
    p = os.path.join(d, f"{tag}.txt")
    open(p, "w").write("\n".join(cases) + "\n")
    return p


def shrink_list(items, still_fails, max_rounds=40):
    """Greedy delta debugging on a list: drop elements while `still_fails(list)` holds."""
    cur = list(items)
    rounds = 0
    changed = True
    while changed and rounds < max_rounds:
        changed = False
        for i in range(len(cur)):
            cand = cur[:i] + cur[i + 1:]
            rounds += 1
            if rounds > max_rounds:
                break
            try:
                if still_fails(cand):
                    cur = cand; changed = True
                    break
            except Exception:
                pass
    return cur


def main_entry(plugin_run):
    """Common CLI: ./check Cxx [--tier quick|thorough] [--replay file]"""
    import argparse
    ap = argparse.ArgumentParser()
    ap.add_argument("--tier", default=os.environ.get("VERIF_TIER", "quick"))
    ap.add_argument("--replay", default=None)
    ap.add_argument("--seed", type=int, default=int(os.environ.get("VERIF_SEED", "20260923")))
    a = ap.parse_args(sys.argv[2:])
    tier = a.tier if a.tier in ("quick", "thorough") else "quick"
    return plugin_run(tier, a.seed, a.replay)
