#!/usr/bin/env python3
"""Regenerates /verif/MANIFEST.json from props/*.py metadata (each plug-in may define MANIFEST = {...})."""
import importlib, json, os, sys, subprocess
ROOT = os.path.dirname(os.path.dirname(os.path.abspath(__file__)))
sys.path.insert(0, os.path.join(ROOT, "lib")); sys.path.insert(0, os.path.join(ROOT, "props"))
ALL = ["C%02d" % i for i in range(1, 21)]
PENDING = {}
# Only properties the coordinator has reviewed and seen exit 0 on the unchanged tree are claimed.
CLAIMED = set(open(os.path.join(ROOT, "lib", "claimed.txt")).read().split())
checks, na = [], []
for pid in ALL:
    p = os.path.join(ROOT, "props", pid.lower() + ".py")
    meta = None
    if os.path.exists(p):
        mod = importlib.import_module(pid.lower())
        meta = getattr(mod, "MANIFEST", None)
    if meta and pid in CLAIMED:
        checks.append({
            "property_id": pid,
            "quick_cmd": f"./check {pid} --tier quick",
            "thorough_cmd": f"./check {pid} --tier thorough",
            "evidence_file": f"/verif/evidence/{pid}.json",
            "replay_cmd_template": f"./check {pid} --replay {{path}}",
            "engine": "coq-proof+correspondence",
            "level_claimed": {"category": meta.get("category", "proof"), "text": meta["text"], "design_ref": f"DESIGN.md section 5 ({pid})"},
            "level_note": meta["note"],
            "technique": meta.get("technique", "Coq 8.16 theorems over an executable Gallina model + differential correspondence (vm_compute vs Rust harness)"),
        })
    else:
        na.append({"property_id": pid, "reason": PENDING.get(pid, "not claimed yet: model/theorems/tie for this property are not built in this revision (see DESIGN.md section 8 build order); no check is registered rather than registering an unsound one")})
hooks = subprocess.run(["git", "-C", "/repo", "log", "--format=%H %s", "--grep=^verif hook"], capture_output=True, text=True).stdout.split("\n")
man = {
    "version": 1,
    "setup_cmd": "./setup.sh",
    "hooks": {
        "guard": "echo_verif",
        "enable": "cargo feature `echo_verif` on warp-core (harness/Cargo.toml enables warp-core/echo_verif); off by default",
        "baseline_off_cmd": "cd /repo && cargo nextest run --workspace --no-fail-fast --tool-config-file pb:/w/lib/nextest.toml --profile pb --test-threads 8 --offline || cargo test --workspace --no-fail-fast --offline",
        "source_commits": [h.split()[0] for h in hooks if h.strip()],
        "add_only": True,
    },
    "engines": [{"name": "coq-proof+correspondence", "path": "/verif/check", "serves_properties": [c["property_id"] for c in checks],
                 "kind_free_text": "Coq 8.16.1 theorems (coq/Props) over executable Gallina models (coq/Model), tied to /repo by running model (vm_compute) and implementation (harness/) on the same generated cases, plus implementation-side property oracles"}],
    "checks": checks,
    "not_applicable": na,
    "notes": "See DESIGN.md. ./check <id> rebuilds the harness against /repo's working tree on every run; known findings live in known_findings.jsonl.",
}
json.dump(man, open(os.path.join(ROOT, "MANIFEST.json"), "w"), indent=1)
print("claimed:", [c["property_id"] for c in checks])
