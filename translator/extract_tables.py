#!/usr/bin/env python3
"""Regenerates coq/Gen/Tables.v from the table-shaped parts of /repo's CURRENT source (DESIGN.md section 2.5).

Small syntactic-island extractors (brace matching + regexes).  Every extracted mechanism is re-emitted as a Gallina
definition with exactly the shape of the hand-written model, so that coq/Tie/TablesAgree.v proves `Gen.x = Model.x` by
reflexivity.  A code edit that changes a table changes Gen/Tables.v and breaks the reflexivity obligation; a harmless
rewrite the extractor cannot parse raises ExtractError (reported as a broken tie, not hidden)."""
import os, re, sys

REPO = os.environ.get("VERIF_REPO", "/repo")
ROOT = os.path.dirname(os.path.dirname(os.path.abspath(__file__)))
SRC = os.path.join(REPO, "crates/warp-core/src")


class ExtractError(Exception):
    pass


def strip_comments(s):
    s = re.sub(r"//[^\n]*", "", s)
    return re.sub(r"/\*.*?\*/", "", s, flags=re.S)


def read(path):
    return strip_comments(open(os.path.join(SRC, path)).read())


def fn_body(src, header_re):
    m = re.search(header_re, src)
    if not m:
        raise ExtractError(f"function header not found: {header_re}")
    i = src.index("{", m.end() - 1) if src[m.end() - 1] != "{" else m.end() - 1
    depth, j = 0, i
    while True:
        c = src[j]
        if c == "{": depth += 1
        elif c == "}":
            depth -= 1
            if depth == 0:
                return src[i + 1:j]
        j += 1


def const_int(src, name):
    m = re.search(r"const\s+%s\s*:\s*\w+\s*=\s*([0-9_xa-fA-F]+)\s*;" % name, src)
    if not m:
        raise ExtractError(f"const {name} not found")
    return int(m.group(1).replace("_", ""), 0)


FP = {"n_write": "n_write", "n_read": "n_read", "e_write": "e_write", "e_read": "e_read",
      "a_write": "a_write", "a_read": "a_read", "b_in": "b_in", "b_out": "b_out"}
ACT = {"nodes_written": "nodes_written", "nodes_read": "nodes_read", "edges_written": "edges_written",
       "edges_read": "edges_read", "attachments_written": "atts_written", "attachments_read": "atts_read", "ports": "ports"}


def scheduler_tables():
    src = read("scheduler.rs")
    out = []
    out.append(f"Definition gen_small_sort_threshold : N := {const_int(src, 'SMALL_SORT_THRESHOLD')}.")
    # bucket16
    body = fn_body(src, r"fn\s+bucket16\s*\([^)]*\)\s*->\s*u16\s*\{")
    arms = re.findall(r"(\d+)\s*=>\s*u16_from_u32_le\(\s*r\.(\w+)\s*,\s*(\d+)\s*\)", body)
    if [a[0] for a in arms] != ["0", "1", "2", "3"]:
        raise ExtractError(f"bucket16 arms not recognised: {arms}")
    rng = re.search(r"(\d+)\s*\.\.=\s*(\d+)\s*=>\s*\{\s*let\s+pair_idx_be\s*=\s*(\d+)\s*-\s*pass\s*;\s*u16_be_from_pair32\(\s*&r\.scope_be32\s*,\s*pair_idx_be\s*\)", body)
    if not rng or rng.group(1) != "4":
        raise ExtractError("bucket16 scope range arm not recognised")
    fld = {"nonce": "t_nonce", "rule_id": "t_rule"}
    g = "Definition gen_bucket16 (r : thin) (pass : N) : N :=\n"
    for p, f, idx in arms:
        g += f"  {'if' if p == '0' else 'else if'} pass =? {p} then u16_from_u32_le ({fld[f]} r) {idx}\n"
    g += f"  else u16_be_from_pair32 (t_scope r) ({rng.group(3)} - pass)."
    out.append(g)
    out.append(f"Definition gen_radix_passes : N := {int(rng.group(2)) + 1}.")
    m = re.search(r"for\s+pass\s+in\s+0\.\.(\d+)", fn_body(src, r"fn\s+radix_sort\s*\(&mut self\)\s*\{"))
    if not m:
        raise ExtractError("radix_sort pass loop not recognised")
    out.append(f"Definition gen_radix_loop_passes : N := {m.group(1)}.")
    # u16 helpers: widths
    # has_conflict
    body = fn_body(src, r"fn\s+has_conflict\s*\([^)]*\)\s*->\s*bool\s*\{")
    loops = re.findall(r"for\s+\w+\s+in\s+pr\.footprint\.(\w+)\.(?:iter|keys)\(\)\s*\{\s*if\s+(.*?)\{\s*return\s+true;", body, flags=re.S)
    if len(loops) != 8:
        raise ExtractError(f"has_conflict: expected 8 loops, found {len(loops)}")
    terms = []
    for f, cond in loops:
        sets = re.findall(r"active\.(\w+)\.contains\(", cond)
        if not sets or f not in FP:
            raise ExtractError(f"has_conflict loop not recognised: {f} {cond}")
        inner = " || ".join(f"kmem k ({ACT[s]} a)" for s in sets)
        terms.append(f"existsb (fun k => {inner}) ({FP[f]} f)")
    out.append("Definition gen_has_conflict (a : active) (f : footprint) : bool :=\n  " + "\n  || ".join(terms) + ".")
    # mark_all
    body = fn_body(src, r"fn\s+mark_all\s*\([^)]*\)\s*\{")
    marks = re.findall(r"for\s+\w+\s+in\s+pr\.footprint\.(\w+)\.(?:iter|keys)\(\)\s*\{\s*active\.(\w+)\.mark\(", body)
    if len(marks) != 8:
        raise ExtractError(f"mark_all: expected 8 loops, found {len(marks)}")
    by = {}
    for f, s in marks:
        by.setdefault(ACT[s], []).append(FP[f])
    order = ["nodes_written", "nodes_read", "edges_written", "edges_read", "atts_written", "atts_read", "ports"]
    g = "Definition gen_mark_all (a : active) (f : footprint) : active :=\n  {| " + ";\n     ".join(
        f"{s} := " + " ++ ".join(f"{x} f" for x in by.get(s, [])) + f" ++ {s} a" for s in order) + " |}."
    out.append(g)
    return out


def inter_chain(expr, a, b):
    """`x.f.intersects(&y.g) || ...` -> Gallina"""
    parts = re.findall(r"(\w+)\.(\w+)\.intersects\(\s*&(\w+)\.(\w+)\s*\)", expr)
    if not parts:
        raise ExtractError(f"intersects chain not recognised: {expr[:80]}")
    return " || ".join(f"intersects ({f1} {x}) ({f2} {y})" for x, f1, y, f2 in parts)


def conflict_tables():
    out = []
    src = read("engine_impl.rs")
    body = fn_body(src, r"fn\s+footprints_conflict\s*\(")
    ifs = re.findall(r"if\s+(.*?)\{\s*return\s+true;\s*\}", body, flags=re.S)
    tail = body[body.rindex("}") + 1:].strip() if ifs else body
    if len(ifs) != 3 or "intersects" not in tail:
        raise ExtractError(f"footprints_conflict shape not recognised ({len(ifs)} early returns)")
    g = "Definition gen_fp_conflict (a b : footprint) : bool :=\n"
    for i, c in enumerate(ifs):
        g += f"  {'if' if i == 0 else 'else if'} {inter_chain(c, 'a', 'b')} then true\n"
    g += f"  else {inter_chain(tail, 'a', 'b')}."
    out.append(g)
    src = read("footprint.rs")
    body = fn_body(src, r"pub\s+fn\s+independent\s*\(&self,\s*other:\s*&Self\)\s*->\s*bool\s*\{")
    if not re.search(r"if\s*\(self\.factor_mask\s*&\s*other\.factor_mask\)\s*==\s*0\s*\{\s*return\s+true;", body):
        raise ExtractError("independent: mask prefilter not recognised")
    ifs = re.findall(r"if\s+((?:self|other)\.\w+\.intersects.*?)\{\s*return\s+false;\s*\}", body, flags=re.S)
    if len(ifs) != 4:
        raise ExtractError(f"independent: expected 4 overlap groups, found {len(ifs)}")
    conv = lambda c: inter_chain(c.replace("self.", "a.").replace("other.", "b."), "a", "b")
    # the model writes independent as mask-prefilter + negb (fp_conflict): emit the four groups in the model's order
    groups = {re.findall(r"\.(\w+)\.intersects", c)[0][0]: conv(c) for c in ifs}   # keyed by first letter b/e/a/n
    if sorted(groups) != ["a", "b", "e", "n"]:
        raise ExtractError(f"independent: groups {sorted(groups)}")
    g = ("Definition gen_independent (a b : footprint) : bool :=\n"
         "  if N.eqb (N.land (factor_mask a) (factor_mask b)) 0 then true\n"
         f"  else negb (if {groups['b']} then true\n"
         f"             else if {groups['e']} then true\n"
         f"             else if {groups['a']} then true\n"
         f"             else {groups['n']}).")
    out.append(g)
    return out


def misc_tables():
    out = []
    src = read("parallel/shard.rs")
    out.append(f"Definition gen_num_shards : N := {const_int(src, 'NUM_SHARDS')}.")
    src = read("materialization/reduce_op.rs")
    body = fn_body(src, r"pub\s+const\s+fn\s+is_commutative\s*\(&self\)\s*->\s*bool\s*\{")
    names = re.findall(r"Self::(\w+)", body)
    if not names:
        raise ExtractError("is_commutative: matches! list not recognised")
    allops = ["Sum", "Max", "Min", "BitOr", "BitAnd", "First", "Last", "Concat"]
    g = "Definition gen_is_commutative (op : reduce_op) : bool :=\n  match op with " + " | ".join(n for n in allops if n in names) + " => true | _ => false end."
    out.append(g)
    src = read("materialization/frame.rs")
    m = re.search(r"FRAME_MAGIC\s*:\s*\[u8;\s*4\]\s*=\s*\[([^\]]*)\]", src)
    if not m:
        raise ExtractError("FRAME_MAGIC not found")
    out.append("Definition gen_frame_magic : list N := [" + "; ".join(str(int(x.strip(), 0)) for x in m.group(1).split(",")) + "].")
    out.append(f"Definition gen_frame_version : N := {const_int(src, 'FRAME_VERSION')}.")
    src = read("snapshot.rs")
    body = fn_body(src, r"pub\s+fn\s+compute_emissions_digest\s*\(")
    m = re.search(r"h\.update\(&(\d+)u16\.to_le_bytes\(\)\)", body)
    if not m or "sort_by" not in body:
        raise ExtractError("compute_emissions_digest: version tag / sort not recognised")
    out.append(f"Definition gen_emissions_digest_version : N := {m.group(1)}.")
    # op_write_targets (footprint_guard.rs)
    src = read("footprint_guard.rs")
    body = fn_body(src, r"fn\s+op_write_targets\s*\(op:\s*&WarpOp\)\s*->\s*OpTargets\s*\{")
    arms = re.findall(r"WarpOp::(\w+)\s*\{[^}]*\}\s*=>\s*OpTargets\s*\{(.*?)kind_str", body, flags=re.S)
    if len(arms) != 8:
        raise ExtractError(f"op_write_targets: expected 8 arms, found {len(arms)}")
    pat = {"UpsertNode": "UpsertNode w n _", "DeleteNode": "DeleteNode w n", "UpsertEdge": "UpsertEdge w e from _ _",
           "DeleteEdge": "DeleteEdge w from e", "SetAttachment": "SetAtt k _", "OpenPortal": "OpenPortal k _ _ _",
           "UpsertWarpInstance": "UpsertWI w _ _", "DeleteWarpInstance": "DeleteWI w"}
    tr = {"node.local_id": "n", "record.from": "from", "*from": "from", "record.id": "e", "*edge_id": "e",
          "AttachmentKey::node_alpha(*node)": "node_alpha w n", "*key": "k"}
    g = "Definition gen_op_write_targets (o : op) : targets :=\n  match o with\n"
    for name, fields in arms:
        def vec(field):
            m = re.search(field + r"\s*:\s*(Vec::new\(\)|vec!\[(.*?)\]\s*),", fields, flags=re.S)
            if not m:
                raise ExtractError(f"op_write_targets {name}: field {field}")
            if m.group(1).startswith("Vec::new"):
                return []
            inner = re.sub(r"\s+", " ", m.group(2).strip())
            if inner.startswith("AttachmentKey::edge_beta("):
                return ["edge_beta w e"]
            if inner not in tr:
                raise ExtractError(f"op_write_targets {name}: element {inner}")
            return [tr[inner]]
        inst = re.search(r"is_instance_op\s*:\s*(true|false)", fields).group(1)
        warp = re.search(r"op_warp\s*:\s*Some\((.*?)\)\s*,", fields, flags=re.S).group(1).strip()
        warp = {"node.warp_id": "w", "*warp_id": "w", "key.owner.warp_id()": "ak_warp k", "instance.warp_id": "w"}.get(warp)
        if warp is None:
            raise ExtractError(f"op_write_targets {name}: op_warp")
        g += (f"  | {pat[name]} => {{| t_nodes := [{'; '.join(vec('nodes'))}]; t_edges := [{'; '.join(vec('edges'))}]; "
              f"t_atts := [{'; '.join(vec('attachments'))}]; t_instance := {inst}; t_warp := {warp} |}}\n")
    g += "  end."
    out.append(g)
    # sort_key kind numbers (tick_patch.rs)
    src = read("tick_patch.rs")
    body = fn_body(src, r"pub\s+fn\s+sort_key\s*\(&self\)\s*->\s*WarpOpKey\s*\{")
    kinds = re.findall(r"Self::(\w+)\s*\{.*?kind\s*:\s*(\d+)", body, flags=re.S)
    if len(kinds) != 8:
        raise ExtractError(f"sort_key: expected 8 kinds, found {len(kinds)}")
    pk = {"OpenPortal": "OpenPortal _ _ _ _", "UpsertWarpInstance": "UpsertWI _ _ _", "DeleteWarpInstance": "DeleteWI _",
          "DeleteEdge": "DeleteEdge _ _ _", "DeleteNode": "DeleteNode _ _", "UpsertNode": "UpsertNode _ _ _",
          "UpsertEdge": "UpsertEdge _ _ _ _ _", "SetAttachment": "SetAtt _ _"}
    g = "Definition gen_sort_kind (o : op) : N :=\n  match o with\n" + "".join(f"  | {pk[n]} => {k}\n" for n, k in kinds) + "  end."
    out.append(g)
    return out


HEADER = """(* GENERATED by translator/extract_tables.py from %s - do not edit.
   Re-generated on every check; the matching Tie/ file proves each definition equal to the hand-written model. *)
From Coq Require Import List NArith Bool.
From Echo Require Import %s.
Import ListNotations.
Open Scope N_scope.
"""

AREAS = {
    # area: (source description, model imports, generator)
    "Sched": ("crates/warp-core/src/{scheduler.rs,engine_impl.rs,footprint.rs,parallel/shard.rs}", "Model.Sched",
              lambda: scheduler_tables() + conflict_tables() + [t for t in misc_tables() if "gen_num_shards" in t]),
    "Bus": ("crates/warp-core/src/{materialization/reduce_op.rs,materialization/frame.rs,snapshot.rs}", "Model.Bus",
            lambda: [t for t in misc_tables() if any(k in t for k in ("gen_is_commutative", "gen_frame_", "gen_emissions_"))]),
    "Guard": ("crates/warp-core/src/{footprint_guard.rs,tick_patch.rs}", "Model.Patch Model.Guard",
              lambda: [t for t in misc_tables() if any(k in t for k in ("gen_op_write_targets", "gen_sort_kind"))]),
}


def generate(area):
    desc, imports, gen = AREAS[area]
    return HEADER % (desc, imports) + "\n" + "\n\n".join(gen()) + "\n"


def main():
    rc = 0
    for area in AREAS:
        try:
            text = generate(area)
        except ExtractError as e:
            print(f"EXTRACT-ERROR ({area}): {e}")
            rc = 2
            continue
        out = os.path.join(ROOT, "coq", "Gen", f"Tables{area}.v")
        os.makedirs(os.path.dirname(out), exist_ok=True)
        old = open(out).read() if os.path.exists(out) else None
        if old != text:
            open(out, "w").write(text)
            print(f"Gen/Tables{area}.v regenerated (changed)")
        else:
            print(f"Gen/Tables{area}.v unchanged")
    return rc


if __name__ == "__main__":
    sys.exit(main())
