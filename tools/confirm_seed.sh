#!/bin/bash
# usage: tools/confirm_seed.sh <seed-worktree> <change.diff> <demo test target> [<lib test filter>]
# Confirms in the seed's own scratch worktree: demo passes WITHOUT the change, fails WITH it, crate unit tests (filter) pass with it.
set -u
wt=$1; diff=$2; demo=$3; filter=${4:-}
cd $wt || exit 2
export CARGO_TARGET_DIR=$wt/target
crate=${CRATE:-warp-core}
feat=""
[ "$crate" = warp-core ] && feat="--features native_rule_bootstrap,trusted_runtime,host_test"
# never use `git stash` here: the stash stack is shared by all worktrees of /repo
git checkout -q -- crates
# restore demo files from demo/
for f in demo/*.rs; do [ -f "$f" ] && cp "$f" crates/$crate/tests/; done
echo "--- without change"; timeout 3000 cargo test -p $crate --offline $feat --test $demo 2>&1 | grep -E "^test result|^error|FAILED|panicked" | head -5
git apply $diff || { echo "diff does not apply"; exit 2; }
echo "--- with change"; timeout 3000 cargo test -p $crate --offline $feat --test $demo 2>&1 | grep -E "^test result|^error|FAILED|panicked" | head -5
if [ -n "$filter" ]; then echo "--- unit tests ($filter) with change"; timeout 3000 cargo test -p $crate --offline $feat --lib $filter 2>&1 | grep -E "^test result|^error|FAILED" | head -5; fi
git checkout -q -- crates
