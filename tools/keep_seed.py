#!/usr/bin/env python3
"""tools/keep_seed.py <seed-id> <property> <patch.diff> <demo-file>[,<demo-file>..] <needs> <what-was-run> <caught-by>"""
import json, os, shutil, sys
sid, prop, patch, demos, needs, ran, caught = sys.argv[1:8]
d = os.path.join(os.path.dirname(os.path.dirname(os.path.abspath(__file__))), "seeded", sid)
os.makedirs(d, exist_ok=True)
shutil.copy(patch, os.path.join(d, "patch.diff"))
names = []
for f in demos.split(","):
    shutil.copy(f, os.path.join(d, os.path.basename(f))); names.append(os.path.basename(f))
json.dump({"id": sid, "breaks_property": prop, "needs_to_manifest": needs, "demonstration": names,
           "confirmed_by_coordinator": ran, "caught_by": caught}, open(os.path.join(d, "meta.json"), "w"), indent=1)
rep = os.environ.get("REPORT")
if rep and os.path.exists(rep):
    shutil.copy(rep, os.path.join(d, "seed_agent_report.md"))
print("kept", d)
