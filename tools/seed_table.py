#!/usr/bin/env python3
"""Regenerates the seeded-changes table of DESIGN.md (between the seeds:begin / seeds:end markers) from seeded/*/meta.json."""
import json, glob, os, re
root = os.path.dirname(os.path.dirname(os.path.abspath(__file__)))
rows = ["| seed (seeded/<id>/) | property | needs, in order to manifest | caught by |", "|---|---|---|---|"]
for f in sorted(glob.glob(os.path.join(root, "seeded", "*", "meta.json"))):
    m = json.load(open(f))
    esc = lambda s: str(s).replace("|", "\\|").replace("\n", " ")
    rows.append(f"| {m['id']} | {m['breaks_property']} | {esc(m['needs_to_manifest'])} | {esc(m['caught_by'])} |")
p = os.path.join(root, "DESIGN.md")
s = open(p).read()
new = "<!-- seeds:begin -->\n" + "\n".join(rows) + "\n<!-- seeds:end -->"
if "<!-- seeds:begin -->" in s:
    s = re.sub(r"(?s)<!-- seeds:begin -->.*?<!-- seeds:end -->", lambda _: new, s)
else:
    raise SystemExit("markers missing")
open(p, "w").write(s)
print(len(rows) - 2, "seeds")
