#!/bin/bash
# usage: tools/mut_test.sh <tag> <default-props> <patch.diff[@Cxx,Cyy]> ...
# One scratch worktree (incremental builds); each patch is applied, the checks run with VERIF_REPO, then reverted.
# Finally the clean worktree is checked with the default props (must exit 0).
set -u
tag=$1; defprops=$2; shift 2
wt=/tmp/wt-$tag
# KEEP=1: reuse (and keep) a long-lived scratch worktree so that harness builds stay incremental across patches
if [ "${KEEP:-0}" = 1 ] && [ -d $wt ]; then
  git -C $wt checkout -q -- . ; git -C $wt clean -fdq; git -C $wt checkout -q --detach $(git -C /repo rev-parse HEAD)
else
  git -C /repo worktree remove --force $wt >/dev/null 2>&1; rm -rf $wt
  git -C /repo worktree add --detach $wt HEAD >/dev/null 2>&1 || { echo "worktree failed"; exit 2; }
fi
last=CLEAN; [ "${NOCLEAN:-0}" = 1 ] && last=""
for spec in "$@" $last; do
  patch=${spec%@*}; props=$defprops
  [ "$spec" != "$patch" ] && props=${spec#*@}
  if [ "$patch" != CLEAN ]; then
    git -C $wt apply "$patch" 2>/dev/null || git -C $wt apply -3 "$patch" || { echo "PATCH DID NOT APPLY: $patch"; continue; }
  fi
  for p in ${props//,/ }; do
    out=/tmp/mut-$tag-$p-$(basename $patch .diff).out
    VERIF_REPO=$wt /verif/check $p > $out 2>&1; rc=$?
    echo "== $(basename $patch) $p exit=$rc"; grep -E "^VIOLATION|^KNOWN|no longer checks|violation " $out | cut -c1-260 | sort | uniq -c | sort -rn | head -5
  done
  git -C $wt checkout -- . ; git -C $wt clean -fdq
done
[ "${KEEP:-0}" = 1 ] && exit 0
h=$(python3 -c "import hashlib;print(hashlib.sha1('$wt'.encode()).hexdigest()[:8])")
git -C /repo worktree remove --force $wt; git -C /repo worktree prune
rm -rf /verif/.cache/target-$h /verif/.cache/harness-$h /verif/.cache/scratch-$h
