"""C17 — external actions move once through request, claim and settlement, durably."""
import os, json, re
import vf

PROP = "C17"
THEOREMS = ["lifecycle_prefix", "one_claim", "grants_agree", "settlement_exact_attempt_and_bounds", "log_before_grant",
            "fault_without_grant", "recover_eq_live", "recover_after_crash", "retry_from_retained",
            "incremental_root_eq_rebuilt", "coordinator_root_eq_rebuilt"]
PRE = ("From Coq Require Import List NArith.\nFrom Echo Require Import Base.Bytes Model.ExtAct.\n"
       "Import ListNotations.\nOpen Scope N_scope.\n")
FAULT = {"n": "NoFault", "a": "FailAppend", "f": "FailFlush", "s": "FailAfterSync", "t": "FailTorn"}
FIELD = {"worldline": "FWorldline", "op": "FOp", "inschema": "FInSchema", "setschema": "FSetSchema", "scope": "FScope",
         "basis": "FBasis", "maxbytes": "FMaxBytes", "maxattempts": "FMaxAttempts", "input": "FInput", "recon": "FRecon"}
CMUT = {"attempt": "MAttempt", "adapter": "MAdapter", "basis": "MBasis", "schema": "MSchema", "digest": "MDigest",
        "schemaev": "MSchemaEv", "extev": "MExtEv"}
KIND = {1: "Succeeded", 2: "Rejected", 3: "Failed", 4: "OutcomeUnknown"}
MAXB = 1048576
B_BASE = 1 << 32


def hx(n):
    return "%x" % n


def N(n):
    return vf.coq_hexN(hx(n))


def hexbytes(bs):
    return vf.hexb(bs)


# ----------------------------------------------------------------------------- case <-> line <-> term

def op_to_str(o):
    k = o[0]
    if k == "new":
        return "new:" + ":".join(hx(x) for x in o[1:])
    if k == "mut":
        return f"mut:{o[1]}:{o[2]}:{hx(o[3])}"
    if k == "auth":
        b = "+".join(",".join(hx(x) for x in t) for t in o[3]) or "-"
        return f"auth:{o[1]}:{hx(o[2])}:{b}"
    if k == "req":
        return f"req:{o[1]}:{o[2]}:{o[3]}"
    if k == "claim":
        return f"claim:{o[1]}:{o[2]}:{o[3]}:{hx(o[4])}:{hx(o[5])}:{hx(o[6])}:{o[7]}"
    if k == "cand":
        mv = o[7]
        mvs = hexbytes(mv) if o[6] == "bytes" else (str(mv) if o[6] in ("none", "requestof") else hx(mv))
        return f"cand:{o[1]}:{o[2]}:{hexbytes(o[3])}:{hx(o[4])}:{hx(o[5])}:{o[6]}:{mvs}"
    if k == "settle":
        return f"settle:{o[1]}:{o[2]}:{o[3]}:{o[4]}"
    if k == "retry":
        return f"retry:{o[1]}:{o[2]}"
    if k in ("rec", "grant", "adm"):
        return f"{k}:{o[1]}:{o[2]}"
    if k in ("recover", "trunc"):
        return f"{k}:{o[1]}"
    raise ValueError(k)


def op_from_str(s):
    f = s.split(":")
    k = f[0]
    h = lambda x: int(x, 16)
    if k == "new":
        return ("new",) + tuple(h(x) for x in f[1:11])
    if k == "mut":
        return ("mut", int(f[1]), f[2], h(f[3]))
    if k == "auth":
        bs = [] if f[3] in ("-", "") else [tuple(h(x) for x in t.split(",")) for t in f[3].split("+")]
        return ("auth", int(f[1]), h(f[2]), bs)
    if k == "req":
        return ("req", f[1], int(f[2]), f[3])
    if k == "claim":
        return ("claim", f[1], int(f[2]), int(f[3]), h(f[4]), h(f[5]), h(f[6]), f[7])
    if k == "cand":
        by = [] if f[3] == "-" else list(bytes.fromhex(f[3]))
        m = f[6]
        mv = (([] if f[7] == "-" else list(bytes.fromhex(f[7]))) if m == "bytes"
              else (int(f[7]) if m in ("none", "requestof") else h(f[7])))
        return ("cand", int(f[1]), int(f[2]), by, h(f[4]), h(f[5]), m, mv)
    if k == "settle":
        return ("settle", f[1], int(f[2]), int(f[3]), f[4])
    if k == "retry":
        return ("retry", f[1], int(f[2]))
    if k in ("rec", "grant", "adm"):
        return (k, f[1], int(f[2]))
    if k in ("recover", "trunc"):
        return (k, f[1])
    raise ValueError(s)


def render_case(store, ops):
    return f"store={store} ops=" + (";".join(op_to_str(o) for o in ops) or "-")


def parse_case(line):
    m = dict(t.split("=", 1) for t in line.split())
    ops = [] if m.get("ops", "-") in ("-", "") else [op_from_str(x) for x in m["ops"].split(";")]
    return m.get("store", "mem"), ops


def sysb(s):
    return "true" if s == "b" else "false"


def op_to_coq(o):
    k = o[0]
    if k == "new":
        w, op, i, ss, sc, ba, mb, ma, inp, rc = o[1:]
        return ("CNew {| rq_id := 0; rq_worldline := %s; rq_op := %s; rq_in_schema := %s; rq_set_schema := %s; rq_scope := %s; "
                "rq_basis := %s; rq_max_bytes := %s; rq_max_attempts := %s; rq_input := %s; rq_recon := %s |}"
                % tuple(N(x) for x in (w, op, i, ss, sc, ba, mb, ma, inp, rc)))
    if k == "mut":
        return f"CMut {o[1]} {FIELD[o[2]]} {N(o[3])}"
    if k == "auth":
        bs = ";".join(f"({N(a)},({N(b)},{N(c)}))" for a, b, c in o[3])
        return f"CAuth [{bs}] {o[1]} {N(o[2])}"
    if k == "req":
        return f"CRequest {sysb(o[1])} {o[2]} {FAULT[o[3]]}"
    if k == "claim":
        return f"CClaim {sysb(o[1])} {o[2]} {o[3]} {N(o[4])} {N(o[5])} {N(o[6])} {FAULT[o[7]]}"
    if k == "cand":
        m = o[6]
        if m == "none":
            mt = "MNone"
        elif m == "requestof":
            mt = f"(MRequestOf {o[7]})"
        elif m == "bytes":
            mt = f"(MBytes {vf.coq_bytes(o[7])})"
        else:
            mt = f"({CMUT[m]} {N(o[7])})"
        return f"CCand {o[1]} {KIND[o[2]]} {vf.coq_bytes(o[3])} {N(o[4])} {N(o[5])} {mt}"
    if k == "settle":
        return f"CSettle {sysb(o[1])} {o[2]} {o[3]} {FAULT[o[4]]}"
    if k == "retry":
        return f"CRetry {sysb(o[1])} {o[2]}"
    if k == "rec":
        return f"CRecorded {sysb(o[1])} {o[2]}"
    if k == "grant":
        return f"CGrant {sysb(o[1])} {o[2]}"
    if k == "adm":
        return f"CAdmitted {sysb(o[1])} {o[2]}"
    if k == "recover":
        return f"CRecover {sysb(o[1])}"
    if k == "trunc":
        return f"CTruncate {sysb(o[1])}"
    raise ValueError(k)


def to_term(line):
    _, ops = parse_case(line)
    return "crun256 [" + ";".join(op_to_coq(o) for o in ops) + "]"


def _state(st, full):
    root, (ready, (nc, (nt, dump))) = st
    f = (lambda n: vf.hex32(n)) if full else (lambda n: vf.hex32(n)[:16])
    rows = []
    for e in dump:
        i, (post, (rc, (cc, (sc, (att, dig))))) = e
        rows.append(f"{f(i)}.{post}.{rc}.{cc}.{sc}.{f(att)}.{f(dig)}")
    return f"{vf.hex32(root)},{ready},{nc},{nt},[{';'.join(rows)}]"


def _err(e):
    if isinstance(e, tuple) and e[0] == "app":
        return e[2][0]
    return None


def render_model(val):
    outs, finals = val
    parts = []
    for o in outs:
        code, payload, err, st = o
        if code == 0:
            r = "skip"
        elif code == 1:
            r = "err:" + _err(err)
        elif code == 2:
            r = f"token:{vf.hex32(payload[0])}:{payload[1]}"
        elif code == 3:
            r = f"grant:{vf.hex32(payload[0])}:{vf.hex32(payload[1])}:{vf.hex32(payload[2])}:{payload[3]}"
        elif code == 4:
            r = f"adm:{vf.hex32(payload[0])}:{vf.hex32(payload[1])}:{payload[2]}:{payload[3]}:{payload[4]}"
        elif code == 5:
            r = "ok"
        elif code == 6:
            r = f"req:{vf.hex32(payload[0])}"
        elif code == 7:
            r = "auth"
        elif code == 8:
            r = f"cand:{vf.hex32(payload[0])}:{vf.hex32(payload[1])}"
        else:
            r = f"?{code}"
        parts.append(f"{r}@{_state(st, False)}")
    fin = []
    for e, st in finals:
        en = _err(e)
        fin.append(("ok" if en is None else "err:" + en) + "@" + _state(st, True))
    return "res=" + "|".join(parts) + " final=" + "~".join(fin)


# ----------------------------------------------------------------------------- generator

class Sim:
    """Coarse python shadow of the protocol, only to steer the generator towards deep lifecycles and to
    keep pool indices meaningful.  It is NOT an oracle: nothing is compared with it."""

    def __init__(self):
        self.reqs, self.auths, self.tokens, self.grants, self.cands = [], [], [], [], []
        self.sys = {t: dict(ready=True, dirty=False, torn=False, index={}, durable={}) for t in "ab"}
        self.uid = 0

    def new(self, o):
        mb, ma = o[7], o[8]
        if mb == 0 or ma == 0 or ma != 1 or mb > MAXB:
            return
        self.reqs.append(dict(key=("k",) + tuple(o[1:]), valid=True, op=o[2], scope=o[5], basis=o[6], setschema=o[4], maxb=mb))

    def mut(self, o):
        if o[1] >= len(self.reqs):
            return
        r = dict(self.reqs[o[1]])
        r["valid"] = False
        r["content"] = (o[2], o[3])
        if o[2] == "basis":
            r["basis"] = o[3]
        if o[2] == "op":
            r["op"] = o[3]
        if o[2] == "scope":
            r["scope"] = o[3]
        self.reqs.append(r)

    def auth(self, o):
        if o[1] >= len(self.reqs):
            return
        r = self.reqs[o[1]]
        if (r["op"], r["scope"], o[2]) in set(o[3]):
            self.auths.append(dict(key=r["key"], op=r["op"], scope=r["scope"], basis=r["basis"], adapter=o[2], policy=tuple(sorted(set(o[3])))))

    def _commit(self, s, f, apply):
        st = self.sys[s]
        if f == "a":
            st["ready"] = False
            return False
        if f == "t":
            st["ready"] = False; st["torn"] = True
            return False
        if f == "f":
            st["ready"] = False; st["dirty"] = True
            return False
        apply(st["durable"])
        if f == "s":
            st["ready"] = False
            return False
        apply(st["index"])
        return True

    def req(self, o):
        _, s, q, f = o
        st = self.sys[s]
        if q >= len(self.reqs) or not st["ready"]:
            return
        r = self.reqs[q]
        if r["key"] in st["index"] or not r["valid"]:
            return
        self.uid += 1
        u = self.uid
        if self._commit(s, f, lambda ix: ix.__setitem__(r["key"], dict(post=0, req=r, claim=None, cuid=None, settled=None))):
            self.tokens.append(dict(q=q, key=r["key"], req=r))
        _ = u

    def rec(self, o):
        k, s, q = o
        st = self.sys[s]
        if q >= len(self.reqs) or not st["ready"]:
            return
        e = st["index"].get(self.reqs[q]["key"])
        if e is None:
            return
        if k == "rec" and e["claim"] is None:
            self.tokens.append(dict(q=q, key=e["req"]["key"], req=e["req"]))
        if k == "grant" and e["claim"] is not None and e["settled"] is None:
            self.grants.append(dict(key=e["req"]["key"], req=e["req"], claim=e["claim"], cuid=e["cuid"]))

    def claim(self, o):
        _, s, t, a, basis, ordinal, lease, f = o
        st = self.sys[s]
        if t >= len(self.tokens) or self.tokens[t] is None or a >= len(self.auths):
            return
        tok = self.tokens[t]
        self.tokens[t] = None
        au = self.auths[a]
        r = tok["req"]
        if not st["ready"] or not r["valid"]:
            return
        e = st["index"].get(r["key"])
        if e is None or e["claim"] is not None:
            return
        if au["op"] != r["op"] or au["scope"] != r["scope"] or au["key"] != r["key"] or au["basis"] != r["basis"]:
            return
        if basis != r["basis"] or ordinal != 0 or lease == 0:
            return
        self.uid += 1
        cl = (au["adapter"], lease, au["policy"])
        u = self.uid

        def ap(ix):
            ix[r["key"]] = dict(ix[r["key"]], post=1, claim=cl, cuid=u)
        if self._commit(s, f, ap):
            self.grants.append(dict(key=r["key"], req=r, claim=cl, cuid=u))

    def cand(self, o):
        g = o[1]
        if g >= len(self.grants) or self.grants[g] is None:
            return
        gr = self.grants[g]
        ok = o[6] == "none" and o[4] != 0 and o[5] != 0 and len(o[3]) <= gr["req"]["maxb"]
        self.cands.append(dict(key=gr["key"], claim=gr["claim"], ok=ok, sig=tuple(o[2:])))

    def settle(self, o):
        _, s, g, c, f = o
        st = self.sys[s]
        if g >= len(self.grants) or self.grants[g] is None or c >= len(self.cands):
            return
        gr = self.grants[g]
        self.grants[g] = None
        ca = self.cands[c]
        if not st["ready"]:
            return
        e = st["index"].get(gr["key"])
        if e is None or e["claim"] is None or e["claim"] != gr["claim"] or e["cuid"] != gr["cuid"] or e["settled"] is not None:
            return
        if not ca["ok"] or ca["key"] != gr["key"] or ca["claim"] != gr["claim"]:
            return

        def ap(ix):
            ix[gr["key"]] = dict(ix[gr["key"]], post=2, settled=ca["sig"])
        self._commit(s, f, ap)

    def recover(self, o):
        st = self.sys[o[1]]
        if not st["dirty"] and not st["torn"]:
            st["index"] = dict(st["durable"]); st["ready"] = True

    def trunc(self, o):
        self.sys[o[1]]["dirty"] = False
        self.sys[o[1]]["torn"] = False

    def apply(self, o):
        k = o[0]
        {"new": self.new, "mut": self.mut, "auth": self.auth, "req": self.req, "rec": self.rec, "grant": self.rec,
         "adm": lambda o: None, "claim": self.claim, "cand": self.cand, "settle": self.settle, "retry": lambda o: None,
         "recover": self.recover, "trunc": self.trunc}[k](o)


def gen_case(rng, tier, store=None, nops=None, fault_rate=0.12):
    store = store or ("fs" if rng.random() < 0.25 else "mem")
    sim = Sim()
    ops = []

    def emit(o):
        ops.append(o); sim.apply(o)

    idpool = [rng.getrandbits(256) for _ in range(4)] + [0, 1, (1 << 256) - 1, 1 << 255, rng.getrandbits(64)]
    OP, SCOPE = rng.choice(idpool[:4]), rng.choice(idpool[:4])
    adapters = [rng.getrandbits(256), rng.getrandbits(256)]
    registry = [(OP, SCOPE, adapters[0])] + ([(OP, SCOPE, adapters[1])] if rng.random() < 0.5 else []) + \
               ([(rng.choice(idpool), SCOPE, adapters[0])] if rng.random() < 0.3 else [])
    nreq = rng.randint(1, 4)
    # request ids that share a long prefix cannot be forced (ids are hashes); sizes / budgets vary instead
    for i in range(nreq):
        mb = rng.choice([1, 3, 8, 64, 64, 1024, MAXB])
        o = ("new", rng.choice(idpool), OP if rng.random() < 0.9 else rng.choice(idpool), rng.choice(idpool), rng.choice(idpool),
             SCOPE if rng.random() < 0.9 else rng.choice(idpool), rng.choice(idpool), mb, 1, rng.getrandbits(256), rng.choice(idpool))
        emit(o)
    if rng.random() < 0.35:
        emit(("new", 1, OP, 2, 3, SCOPE, 4, rng.choice([0, MAXB + 1, 5, 5]), rng.choice([0, 2, 1, 1]), 5, 6))
    n = nops or rng.randint(8, 28 if tier == "quick" else 40)
    fault = lambda: rng.choice("afst" if store == "fs" else "afs") if rng.random() < fault_rate else "n"
    S = lambda: "b" if rng.random() < 0.15 else "a"
    live = lambda pool: [i for i, x in enumerate(pool) if x is not None]
    def advance():
        """emit the next useful step of one request's lifecycle on one system"""
        q = rng.randrange(len(sim.reqs))
        r = sim.reqs[q]
        s = S()
        st = sim.sys[s]
        e = st["index"].get(r["key"])
        if e is None:
            emit(("req", s, q, fault())); return
        if e["post"] == 0:
            aus = [i for i, a in enumerate(sim.auths) if a["key"] == r["key"] and a["basis"] == r["basis"]]
            if not aus:
                emit(("auth", q, adapters[0], registry)); return
            toks = [i for i, t in enumerate(sim.tokens) if t is not None and t["key"] == r["key"] and t["req"]["valid"]]
            if not toks:
                emit(("rec", s, q)); return
            emit(("claim", s, rng.choice(toks), rng.choice(aus), r["basis"], 0, rng.getrandbits(256), fault())); return
        if e["post"] == 1:
            gs = [i for i, g in enumerate(sim.grants) if g is not None and g["key"] == r["key"] and g["cuid"] == e["cuid"]]
            if not gs:
                emit(("grant", s, q)); return
            g = rng.choice(gs)
            cs = [i for i, c in enumerate(sim.cands) if c["ok"] and c["key"] == r["key"] and c["claim"] == e["claim"]]
            if not cs or rng.random() < 0.2:
                mb = r["maxb"]
                ln = rng.choice([0, 1, min(mb, 40), min(mb, 200), min(mb, 1100), min(mb, 2100)])
                emit(("cand", g, rng.randint(1, 4), [rng.randint(0, 255) for _ in range(ln)], rng.getrandbits(256), rng.getrandbits(256), "none", 0))
                return
            emit(("settle", s, g, rng.choice(cs), fault())); return
        y = rng.random()
        cs = [i for i, c in enumerate(sim.cands) if c["key"] == r["key"]]
        if y < 0.5 and cs:
            emit(("retry", s, rng.choice(cs)))
        elif y < 0.7:
            emit(("adm", s, q))
        elif y < 0.85:
            emit(("grant", s, q))
        else:
            emit(("req", s, q, "n"))

    for _ in range(n):
        if not sim.reqs:
            break
        if rng.random() < 0.6:
            advance()
            for t in "ab":
                st = sim.sys[t]
                if not st["ready"] and rng.random() < 0.7:
                    if (st["dirty"] or st["torn"]) and rng.random() < 0.85:
                        emit(("trunc", t))
                    emit(("recover", t))
            continue
        x = rng.random()
        q = rng.randrange(len(sim.reqs))
        r = sim.reqs[q]
        if x < 0.14:
            emit(("req", S(), q, fault()))
        elif x < 0.20:
            emit(("auth", q, rng.choice(adapters) if rng.random() < 0.85 else rng.getrandbits(256),
                  registry if rng.random() < 0.9 else []))
        elif x < 0.36:
            toks, aus = live(sim.tokens), list(range(len(sim.auths)))
            if not aus:
                emit(("auth", q, adapters[0], registry)); continue
            if not toks:
                emit(("rec", S(), q)); continue
            t = rng.choice(toks)
            tr = sim.tokens[t]["req"]
            good = [i for i in aus if sim.auths[i]["key"] == tr["key"]]
            a = rng.choice(good) if good and rng.random() < 0.85 else rng.choice(aus)
            y = rng.random()
            basis = tr["basis"] if y < 0.88 else rng.choice(idpool)
            ordinal = 0 if y < 0.94 or y >= 0.97 else rng.choice([1, 2, 0xffffffff])
            lease = rng.getrandbits(256) if y < 0.97 else 0
            emit(("claim", S(), t, a, basis, ordinal, lease, fault()))
        elif x < 0.48:
            gs = live(sim.grants)
            if not gs:
                emit(("grant", S(), q)); continue
            g = rng.choice(gs)
            mb = sim.grants[g]["req"]["maxb"]
            y = rng.random()
            ln = rng.choice([0, 1, min(mb, 40), min(mb, 200), min(mb, 1100)]) if y < 0.85 else mb + 1
            if ln > 3000:
                ln = rng.choice([0, 5, 1500])
            by = [rng.randint(0, 255) for _ in range(ln)]
            m, mv = "none", 0
            z = rng.random()
            if z < 0.25:
                m = rng.choice(["requestof", "attempt", "adapter", "basis", "schema", "digest", "schemaev", "extev", "bytes"])
                mv = (rng.randrange(len(sim.reqs)) if m == "requestof" else
                      ([rng.randint(0, 255) for _ in range(rng.randint(0, 4))] if m == "bytes" else
                       (0 if m in ("schemaev", "extev") and rng.random() < 0.6 else rng.getrandbits(256))))
            sev = rng.getrandbits(256) if rng.random() < 0.95 else 0
            eev = rng.getrandbits(256) if rng.random() < 0.95 else 0
            emit(("cand", g, rng.randint(1, 4), by, sev, eev, m, mv))
        elif x < 0.62:
            gs = live(sim.grants)
            if not gs or not sim.cands:
                emit(("grant", S(), q)); continue
            g = rng.choice(gs)
            good = [i for i, c in enumerate(sim.cands) if c["key"] == sim.grants[g]["key"] and c["ok"]]
            c = rng.choice(good) if good and rng.random() < 0.8 else rng.randrange(len(sim.cands))
            emit(("settle", S(), g, c, fault()))
        elif x < 0.70:
            if sim.cands:
                emit(("retry", S(), rng.randrange(len(sim.cands))))
            else:
                emit(("adm", S(), q))
        elif x < 0.80:
            emit((rng.choice(["rec", "grant", "adm"]), S(), q))
        elif x < 0.84:
            emit(("mut", q, rng.choice(list(FIELD)), rng.choice([0, 1, 2, MAXB + 1, rng.getrandbits(256), rng.getrandbits(20)])))
        elif x < 0.93:
            emit(("recover", S()))
        elif x < 0.97:
            emit(("trunc", S()))
        else:
            # random indices (mostly skipped or rejected)
            emit(rng.choice([("claim", S(), rng.randint(0, 6), rng.randint(0, 4), r["basis"], 0, 7, "n"),
                             ("settle", S(), rng.randint(0, 6), rng.randint(0, 4), "n"),
                             ("retry", S(), rng.randint(0, 6))]))
        # poisoned coordinators are usually repaired so that the run continues
        for t in "ab":
            st = sim.sys[t]
            if not st["ready"] and rng.random() < 0.7:
                if (st["dirty"] or st["torn"]) and rng.random() < 0.85:
                    emit(("trunc", t))
                emit(("recover", t))
    return render_case(store, ops)


def happy_path(store, nreq, faults=()):
    """Deterministic full lifecycles, optionally with a fault at each transition (crash + repair + resume)."""
    ops = []
    reg = [(11, 14, 99)]
    for i in range(nreq):
        ops.append(("new", 7 + i, 11, 12, 13, 14, 15 + i, 64, 1, 16, 17))
        ops.append(("auth", i, 99, reg))
    t = g = c = 0
    for i in range(nreq):
        f = faults[i % len(faults)] if faults else "n"
        ops.append(("req", "a", i, f))
        if f != "n":
            if f == "t":
                ops.append(("recover", "a"))   # obstructed: torn tail
            if f in "ft":
                ops.append(("trunc", "a"))
            ops.append(("recover", "a"))
            if f != "s":
                ops.append(("req", "a", i, "n"))
            else:
                ops.append(("rec", "a", i))
        ops.append(("claim", "a", t, i, 15 + i, 0, 5 + i, "n")); t += 1
        ops.append(("cand", g, 1 + i % 4, [i, 2, 3], 8, 9, "none", 0))
        ops.append(("settle", "a", g, c, "n")); g += 1
        ops.append(("retry", "a", c)); c += 1
        ops.append(("grant", "a", i))          # settled (any kind): no further work grant, live ...
        ops.append(("recover", "a"))
        ops.append(("grant", "a", i))          # ... and after recovery
        ops.append(("adm", "a", i))
    return render_case(store, ops)


def ceiling_case(store, ln, maxb=MAXB):
    """one lifecycle whose settlement result has `ln` bytes under a `maxb` budget (the 1 MiB ceiling and its neighbours),
    then stop + recover + retry: live admission and the recovery decoder must agree on the boundary (oracle only: a
    1 MiB payload is not run through the Gallina BLAKE3 of the model)"""
    ops = [("new", 7, 11, 12, 13, 14, 15, maxb, 1, 16, 17), ("auth", 0, 99, [(11, 14, 99)]),
           ("req", "a", 0, "n"), ("claim", "a", 0, 0, 15, 0, 5, "n"),
           ("cand", 0, 1, [(i * 7 + 3) & 255 for i in range(ln)], 8, 9, "none", 0),
           ("settle", "a", 0, 0, "n"), ("retry", "a", 0), ("recover", "a"), ("retry", "a", 0), ("adm", "a", 0),
           ("recover", "a"), ("grant", "a", 0)]
    return render_case(store, ops)


ABSTRACT = ["req0", "req0-flushfault", "req0-acklost", "claim0", "claim0-acklost", "settle0", "settle0-unknown", "settle0-flushfault",
            "retry0", "recover", "trunc", "req1"]


def expand_abstract(store, seq):
    """Exhaustive small universe: a sequence of abstract actions on one system is expanded into concrete
    operations; pool indices come from the python shadow (no result is taken from it)."""
    sim = Sim()
    ops = []

    def emit(o):
        ops.append(o); sim.apply(o)
    reg = [(0xb, 0xe, 0x63)]
    emit(("new", 7, 0xb, 0xc, 0xd, 0xe, 0xf, 0x40, 1, 0x10, 0x11))
    emit(("new", 8, 0xb, 0xc, 0xd, 0xe, 0xf, 0x40, 1, 0x10, 0x11))
    emit(("auth", 0, 0x63, reg))
    last = lambda pool: max([i for i, x in enumerate(pool) if x is not None], default=0)
    for a in seq:
        if a.startswith("req0"):
            emit(("req", "a", 0, {"req0": "n", "req0-flushfault": "f", "req0-acklost": "s"}[a]))
        elif a == "req1":
            emit(("req", "a", 1, "n"))
        elif a.startswith("claim0"):
            emit(("rec", "a", 0))
            emit(("claim", "a", last(sim.tokens), 0, 0xf, 0, 5, "s" if a.endswith("acklost") else "n"))
        elif a.startswith("settle0"):
            emit(("grant", "a", 0))
            g = last(sim.grants)
            emit(("cand", g, 4 if a.endswith("unknown") else 1 + len(ops) % 3, [1, 2, 3], 8, 9, "none", 0))
            emit(("settle", "a", g, max(len(sim.cands) - 1, 0), "f" if a.endswith("flushfault") else "n"))
            emit(("grant", "a", 0))   # a settled request must not yield another work grant
        elif a == "retry0":
            emit(("retry", "a", max(len(sim.cands) - 1, 0)))
        elif a == "recover":
            emit(("recover", "a"))
        elif a == "trunc":
            emit(("trunc", "a"))
    emit(("adm", "a", 0))
    emit(("grant", "a", 0))
    emit(("recover", "a"))
    emit(("grant", "a", 0))
    return render_case(store, ops)


def exhaustive(store, maxlen):
    import itertools
    out = []
    for n in range(1, maxlen + 1):
        for seq in itertools.product(ABSTRACT, repeat=n):
            out.append(expand_abstract(store, seq))
    return out


def impl_only(tag, cases, bins, parts=None):
    """Runs only the implementation-side oracle (no model) on many cases, in parallel processes."""
    import concurrent.futures
    parts = parts or min(vf.NCPU, max(1, len(cases) // 50))
    chunks = [cases[i::parts] for i in range(parts)]

    def one(i):
        path = vf.write_cases(f"{tag}-{i}", chunks[i])
        rc, out = vf.run_bin(bins["c17"], path, timeout=1500)
        if rc:
            raise vf.Broken(f"harness c17 exited {rc}: {out[-500:]}")
        res = [split_impl(l) for l in out.splitlines() if l.startswith("res=")]
        if len(res) != len(chunks[i]):
            raise vf.Broken(f"harness c17 printed {len(res)} lines for {len(chunks[i])} cases")
        return res
    with concurrent.futures.ThreadPoolExecutor(max_workers=parts) as ex:
        got = list(ex.map(one, range(parts)))
    bad, checks = [], 0
    for i, part in enumerate(got):
        for j, (_, o, c) in enumerate(part):
            checks += c
            if o != "ok":
                bad.append((chunks[i][j], o))
    return bad, checks


# ----------------------------------------------------------------------------- running both sides

def osig(o):
    """stable signature of a failing oracle verdict: the name of its first finding"""
    return "oracle:" + re.sub(r"\[.\]|:.*", "", o.split(":", 1)[1].split(",")[0]) if ":" in o else "oracle"


def split_impl(line):
    m = re.match(r"^(res=.* final=\S+) oracle=(\S+) checks=(\d+)$", line)
    if not m:
        return line, "FAIL:unparsable-harness-line", 0
    return m.group(1), m.group(2), int(m.group(3))


def both(tag, cases, bins):
    path = vf.write_cases(tag, cases)
    rc, out = vf.run_bin(bins["c17"], path, timeout=1500)
    if rc:
        raise vf.Broken(f"harness c17 exited {rc}: {out[-800:]}")
    lines = [l for l in out.splitlines() if l.startswith("res=")]
    impl, oracle, checks = [], [], []
    for l in lines:
        a, o, c = split_impl(l)
        impl.append(a); oracle.append(o); checks.append(c)
    vals = vf.coq_eval(tag, PRE, [to_term(c) for c in cases], shards=min(vf.NCPU, max(1, len(cases))), timeout=1500)
    model = [render_model(v) for v in vals]
    return impl, model, oracle, checks


def first_diff(a, b):
    pa, pb = a.split("|"), b.split("|")
    for i, (x, y) in enumerate(zip(pa, pb)):
        if x != y:
            return f"op#{i}\n impl : {x[:600]}\n model: {y[:600]}"
    return f"lengths {len(pa)} vs {len(pb)}"


def run(tier, seed, replay=None):
    r = vf.Run(PROP, tier, seed, "proof")
    r.assumptions = [
        "Coq 8.16.1 kernel (coqc; vm_compute for the non-vacuity Examples and for executing the model); no axioms",
        "model = coq/Model/ExtAct.v; commit digests are abstracted to the ordinal of the commit marker in its store; WAL framing, "
        "payload decoding and the adapter layer are outside the model (exercised by the tie only)",
        "the model is executed with a Gallina BLAKE3 (Model/ExtAct.v, module B3, primitive 63-bit integers) so that every digest "
        "(request id, attempt id, idempotency key, leaf, 256 node levels, root) is compared bit for bit with the implementation",
    ]
    r.cov["trusted_base"] = ["coqc 8.16.1 kernel + vm_compute (incl. primitive Uint63 for the executable BLAKE3 instance)",
                             "python generator/renderer props/c17.py", "harness c17.rs (abstraction: coordinator/store -> canonical line, "
                             "commit digest -> ordinal)", "blake3 crate (implementation side)"]
    r.proof_phase(THEOREMS)
    if replay:
        d = json.load(open(replay))
        cases = [d["replay"]["case"]] if "case" in d.get("replay", {}) else []
    else:
        cases = vf.load_corpus(PROP)
        cases += [happy_path("mem", 4), happy_path("fs", 2), happy_path("mem", 3, "afs"), happy_path("fs", 4, "afst")]
        if tier == "thorough":
            cases += exhaustive("mem", 2)   # every sequence of <= 2 abstract actions also goes through the model
        n = 28 if tier == "quick" else 300
        n = int(os.environ.get("VERIF_C17_CASES", n))   # experiments with planted bugs only
        for i in range(n):
            cases.append(gen_case(r.rng, tier, fault_rate=0.25 if i % 4 == 1 else 0.1))
    if tier == "thorough" and not replay:
        rc, out = vf.sh(["coqchk", "-silent", "-o", "-Q", vf.COQ, "Echo", "Echo.Props.C17"], timeout=1500)
        ax = sorted({l.strip() for l in out.split("* Axioms:")[-1].split("* Constants")[0].splitlines() if l.strip() and "<none>" not in l})
        r.phase("P1b_coqchk", rc=rc, axioms_in_closure=ax)
        r.cov["coqchk_axioms_in_vo_closure"] = ax   # stdlib Uint63 specification axioms (B3 instance only); theorems: closed
        if rc:
            r.is_broken("coqchk", out[-1500:])
    try:
        bins = vf.cargo_build(["c17"])
        r.phase("P3_build", ok=True)
    except vf.Broken as e:
        r.is_broken("harness-build", e)
        return r.finish()
    try:
        impl, model, oracle, checks = both("c17", cases, bins)
    except vf.Broken as e:
        r.is_broken("correspondence-run", e)
        return r.finish()
    bad = vf.diff_lines(r, cases, impl, model)
    # exhaustive small universe on the implementation-side oracle alone (all sequences of abstract actions)
    sweep_n = sweep_checks = 0
    if not replay:
        try:
            sweep = exhaustive("mem", 2 if tier == "quick" else 4) + exhaustive("fs", 1 if tier == "quick" else 2)
            # boundary of the settlement budget: exactly at, just below and just above the ceiling and a small budget
            sweep += [ceiling_case(st, ln, mb) for st in ("mem", "fs") for ln, mb in
                      [(MAXB, MAXB), (MAXB - 1, MAXB), (MAXB + 1, MAXB), (64, 64), (65, 64), (63, 64)]]
            sweep_n = len(sweep)
            sbad, sweep_checks = impl_only("c17sweep", sweep, bins)
            for c, o in sbad[:5]:
                r.violation(osig(o), f"implementation oracle failed in the exhaustive sweep: {o}", {"case": c, "oracle": o})
        except vf.Broken as e:
            r.is_broken("sweep-run", e)
    r.cov["exhaustive_sweep_cases_impl_oracle"] = sweep_n
    r.cov["exhaustive_sweep_rule"] = ("all sequences of length <= 2 (quick) / 4 (thorough) over 12 abstract actions "
                                      f"{ABSTRACT} on the in-memory store, and <= 1 / 2 on the filesystem store, oracle only")
    for i, o in enumerate(oracle):
        if o != "ok":
            r.violation(osig(o), f"implementation oracle failed: {o}", {"case": cases[i], "oracle": o})
    for i in bad[:1]:
        store, ops = parse_case(cases[i])

        def still(cand):
            c = render_case(store, cand)
            a, b, _, _ = both("c17shrink", [c], bins)
            return a != b
        small = vf.shrink_list(ops, still, max_rounds=int(os.environ.get("VERIF_C17_SHRINK_ROUNDS", "14"))) if len(ops) <= 60 else ops
        c = render_case(store, small)
        a, b, o, _ = both("c17shrink", [c], bins)
        r.is_broken("correspondence", f"model and implementation differ on: {c}\n {first_diff(a[0], b[0])}")
        if o[0] != "ok":
            r.violation(osig(o[0]), f"oracle fails on shrunk disagreement: {o[0]}", {"case": c, "oracle": o[0]})
    if (r.broken and not r.violations) and not replay:
        # P6: a proof / correspondence obligation broke and no oracle failed: search harder on the implementation
        extra = [gen_case(r.rng, "thorough", store=("fs" if k % 8 == 0 else "mem"), fault_rate=0.2) for k in range(640)]
        try:
            sbad, _ = impl_only("c17search", extra, bins)
            for c, o in sbad[:3]:
                r.violation(osig(o), f"oracle failed during search: {o}", {"case": c, "oracle": o})
        except vf.Broken as e:
            r.is_broken("search-run", e)
        r.phase("P6_search", cases=len(extra))
    # evidence
    hist, opk, faults, stores = {}, {}, {"n": 0, "a": 0, "f": 0, "s": 0, "t": 0}, {}
    nontriv = 0
    for c, l in zip(cases, impl):
        store, ops = parse_case(c)
        stores[store] = stores.get(store, 0) + 1
        for o in ops:
            opk[o[0]] = opk.get(o[0], 0) + 1
            if o[0] in ("req", "claim", "settle"):
                faults[o[-1]] += 1
        res = l.split(" final=")[0][4:].split("|")
        errs = 0
        for x in res:
            cls = x.split("@")[0]
            key = cls if cls.startswith("err:") or cls == "skip" else cls.split(":")[0]
            hist[key] = hist.get(key, 0) + 1
            errs += key.startswith("err:")
        ncommit = max([int(x.split("@")[1].split(",")[2]) for x in res if "@" in x] or [0])
        if ncommit >= 3 and errs >= 1:
            nontriv += 1
    r.cov["evaluations"] = len(cases)
    r.cov["distinct_nontrivial"] = nontriv
    r.cov["rule"] = ("one case = one random interleaving of new/mut/auth/request/claim/candidate/settle/retry/reconstruct/recover/"
                     "truncate operations over 1-4 request ids and two independent stores, with store faults (append, flush, "
                     "after-sync) and invalid arguments; non-trivial = at least 3 committed transactions and at least one rejected "
                     "operation; every operation is compared (result class, digests, index dump, root) with the Coq model and is "
                     "followed by the implementation-side oracle (recover(store) == live, grants backed by the log, lifecycle "
                     "prefix, crash points inside the transaction)")
    r.cov["operations"] = sum(opk.values())
    r.cov["op_kind_histogram"] = dict(sorted(opk.items()))
    r.cov["result_class_histogram"] = dict(sorted(hist.items()))
    r.cov["fault_histogram"] = faults
    r.cov["store_histogram"] = stores
    r.cov["oracle_checks_on_impl"] = sum(checks) + sweep_checks
    r.cov["traces_validated_against_impl"] = len(cases) - len(bad)
    r.cov["samples"] = [c[:400] for c in cases[:3]]
    r.phase("P4_correspondence", cases=len(cases), differing=len(bad))
    r.phase("P5_oracle", failing=sum(1 for o in oracle if o != "ok"))
    return r.finish()

MANIFEST = {
    "category": "proof",
    "text": ("Coq theorems (no axioms) over an executable model of ExternalActionCoordinatorV1 (every guard of request/claim/"
             "settlement/retry/reconstruction in code order, append_transaction against a store with an append/flush/after-sync/"
             "torn-tail fault oracle, observe_external_actions + recover with the frontier check, the 256-level sparse Merkle "
             "index generic in depth), proved by induction over ARBITRARY operation sequences (valid and invalid arguments, "
             "faults, crashes, truncations): the committed lifecycle of every request id is a prefix of requested/claimed/"
             "settled; at most one claim grant per id and all grants for an id agree; a settlement is logged only for the exact "
             "claimed attempt within the declared bounds; every authority returned is backed by a committed record (append-only "
             "log); faults yield no grant and no index change; recover(store) equals the live coordinator whenever it is usable "
             "and the committed log is always recoverable to the live index plus at most the one ack-lost transaction; retries "
             "return the retained settlement and append nothing; the incrementally maintained Merkle root equals the root rebuilt "
             "from the entries.  Tie: the model is executed with a Gallina BLAKE3 and compared bit for bit (ids, attempt ids, "
             "roots, index dump, typed error) with the real coordinator over the in-memory and filesystem WAL stores on random "
             "interleavings over two stores; after every operation the harness re-recovers from the store, checks grants against "
             "the log, the lifecycle prefix, one-claim, crash points at every frame and torn byte offsets of the transaction just "
             "written, and resumes like a restarted host after a torn tail."),
    "note": ("Trusted: Coq kernel + vm_compute (primitive Uint63 only in the executable BLAKE3 instance, not in any theorem); "
             "python generator/renderer props/c17.py; harness c17.rs (abstraction coordinator/store -> canonical line; a commit "
             "digest is represented by the ordinal of its commit marker in its store); blake3 crate on the implementation side. "
             "Modelled rather than verified: external_action.rs as Gallina functions; WAL framing, LSN/previous-digest chain, "
             "payload decode direction, writer epochs and the adapter layer (external_action_adapter.rs, "
             "validated_workspace_patch.rs) are outside the model; the adapter layer is not exercised.  Found and fixed while "
             "building: FilesystemWalStore::read_snapshot dropped the torn-tail flag (repo commit d38671b); the oracle keeps the "
             "signature oracle:acknowledged-step-lost-after-torn-tail as a regression guard."),
}
