"""C18 — materialized output is independent of emission order."""
import os, json, itertools
import vf

PROP = "C18"
THEOREMS = ["finalize_order_free", "commutative_rekey", "noncommutative_witness", "duplicate_rejected",
            "duplicate_always_reported", "distinct_never_rejected", "digest_channel_order_free"]
POLICIES = ["log", "single", "sum", "max", "min", "bitor", "bitand", "first", "last", "concat"]
COQ_POL = {"log": "PLog", "single": "PStrictSingle", "sum": "PReduce Sum", "max": "PReduce Max",
           "min": "PReduce Min", "bitor": "PReduce BitOr", "bitand": "PReduce BitAnd",
           "first": "PReduce First", "last": "PReduce Last", "concat": "PReduce Concat"}
PRE = ("From Coq Require Import List NArith.\nFrom Echo Require Import Base.Bytes Model.Bus.\n"
       "Import ListNotations.\nOpen Scope N_scope.\n")


EDGE_PAYLOADS = [[], [0], [0, 0], [0xff], [0xf0, 0x0f], [0x0f, 0xf0], [0xff] * 9, [0] * 8, [1], [1, 0], [0, 1],
                 [0xff] * 8, [0x80] + [0] * 7, [0] * 7 + [0x80], [0xaa, 0x55, 0xaa], [0x55, 0xaa]]


def gen_reducer_case(rng, tier):
    """one Reduce channel, 3-6 emissions, payloads from a pool of edge cases (zeros that absorb AND, all-ones that absorb OR,
    unequal lengths, values that wrap the u64 sum, equal prefixes for max/min)"""
    op = rng.choice(POLICIES[2:])
    chan = rng.choice([1, rng.getrandbits(256)])
    n = rng.randint(3, 6 if tier == "quick" else 7)
    ems, seen = [], set()
    while len(ems) < n:
        k = (chan, rng.choice([0, 1, 2, rng.getrandbits(256)]), rng.choice([0, 1, 2]), rng.choice([0, 1]))
        if k in seen:
            continue
        seen.add(k)
        ems.append((k, list(rng.choice(EDGE_PAYLOADS))))
    return render_case([(chan, op)], ems, "all", rng.getrandbits(32))


def gen_case(rng, tier, dup=False, big=False):
    if not dup and not big and rng.random() < 0.35:
        return gen_reducer_case(rng, tier)
    nch = rng.randint(1, 4)
    pool = [rng.getrandbits(256) for _ in range(2)] + [rng.randint(0, 3), (1 << 256) - 1, 1 << 255]
    chans = rng.sample(pool, nch)
    pols = [(c, rng.choice(POLICIES)) for c in chans if rng.random() < 0.85]
    scopes = [rng.getrandbits(256), 0, 1, (1 << 256) - 1, 1 << 8]
    # scopes sharing a long prefix and differing late
    base = rng.getrandbits(256)
    scopes += [base, base ^ 1, base ^ (1 << 8)]
    nmax = 7 if tier == "thorough" else 6
    n = rng.randint(0, nmax) if not big else rng.randint(8, 40)
    ems, seen = [], set()
    tries = 0
    while len(ems) < n and tries < 1000:
        tries += 1
        k = (rng.choice(chans), rng.choice(scopes), rng.choice([0, 1, 2, 0xffffffff]), rng.choice([0, 0, 1, 0xffffffff]))
        if k in seen:
            continue
        seen.add(k)
        ln = rng.choice([0, 1, 1, 2, 3, 7, 8, 9, 12])
        style = rng.random()
        if style < 0.2:
            data = [0xff] * ln
        elif style < 0.3:
            data = [0] * ln
        else:
            data = [rng.randint(0, 255) for _ in range(ln)]
        ems.append((k, data))
    if dup and ems:
        for _ in range(rng.randint(1, 2)):
            k, _d = rng.choice(ems)
            same = rng.random() < 0.5
            data = _d if same else [rng.randint(0, 255) for _ in range(rng.randint(0, 4))]
            ems.insert(rng.randint(0, len(ems)), (k, data))
    perms = "all" if len(ems) <= nmax else ("60" if tier == "quick" else "400")
    return render_case(pols, ems, perms, rng.getrandbits(32))


def render_case(pols, ems, perms, seed):
    p = ";".join(f"{vf.hex32(c)}:{pl}" for c, pl in pols) or "-"
    e = ";".join(f"{vf.hex32(k[0])}:{vf.hex32(k[1])}:{k[2]}:{k[3]}:{vf.hexb(d)}" for k, d in ems) or "-"
    return f"pol={p} em={e} perms={perms} seed={seed}"


def parse_case(line):
    m = dict(t.split("=", 1) for t in line.split())
    pols = [] if m["pol"] == "-" else [(int(a, 16), b) for a, b in (x.split(":") for x in m["pol"].split(";"))]
    ems = []
    if m["em"] != "-":
        for it in m["em"].split(";"):
            c, s, r, sub, d = it.split(":")
            data = [] if d == "-" else list(bytes.fromhex(d))
            ems.append(((int(c, 16), int(s, 16), int(r), int(sub)), data))
    return pols, ems, m.get("perms", "0"), int(m.get("seed", "1"))


def to_term(line):
    pols, ems, _, _ = parse_case(line)
    es = ";".join(f"(({vf.coq_hexN('%x' % k[0])},({vf.coq_hexN('%x' % k[1])},({k[2]},{k[3]}))),{vf.coq_bytes(d)})" for k, d in ems)
    ps = ";".join(f"({vf.coq_hexN('%x' % c)},{COQ_POL[p]})" for c, p in pols)
    return (f"let es : list (ckey * bytes) := [{es}] in let ps : policies := [{ps}] in let r := run_tick ps es in "
            f"(to_channels r, to_errors r, to_digest_preimage r, to_frames r, emit_all_results es)")


def render_model(vals):
    pre = [vf.hexb(v[2]) for v in vals]
    digs = vf.vfhash(pre)
    out = []
    for v, dg in zip(vals, digs):
        ch = ";".join(f"{vf.hex32(c)}:{vf.hexb(d)}" for c, d in v[0]) or "-"
        er = ";".join(f"{vf.hex32(c)}:{n}" for c, n in v[1]) or "-"
        res = "".join("o" if r == "EmitOk" else "d" for r in v[4])
        out.append(f"ch={ch} err={er} dig={dg} frames={vf.hexb(v[3])} res={res}")
    return out


def both(tag, cases, bins):
    path = vf.write_cases(tag, cases)
    rc, out = vf.run_bin(bins["c18"], path)
    if rc:
        raise vf.Broken(f"harness c18 exited {rc}: {out[-800:]}")
    impl_full = [l for l in out.splitlines() if l.startswith("ch=")]
    impl = [l.split(" oracle=")[0] for l in impl_full]
    oracle = [l.split(" oracle=")[1].split()[0] if " oracle=" in l else "FAIL:no-oracle" for l in impl_full]
    tried = [int(l.rsplit("perms=", 1)[1]) if "perms=" in l else 0 for l in impl_full]
    vals = vf.coq_eval(tag, PRE, [to_term(c) for c in cases])
    model = render_model(vals)
    return impl, model, oracle, tried


def run(tier, seed, replay=None):
    r = vf.Run(PROP, tier, seed, "proof")
    r.assumptions = [
        "Coq 8.16.1 kernel (coqc, vm_compute for the non-vacuity Example); no axioms (Print Assumptions: closed)",
        "model = coq/Model/Bus.v (bus as one sorted map under (channel, scope, rule, subkey)); tie = python generator + "
        "harness/src/bin/c18.rs + vm_compute evaluation of the model on the same cases, digest preimage hashed with the blake3 crate",
        "payloads >= 2^32 bytes (Log length prefix truncation) and ScopedEmitter/engine plumbing are outside the model",
    ]
    r.cov["trusted_base"] = ["coqc 8.16.1 kernel + vm_compute", "python generator/renderer props/c18.py",
                             "harness c18.rs (abstraction: FinalizeReport -> canonical line)", "blake3 crate"]
    ok = r.proof_phase(THEOREMS)
    r.tables_phase("Bus")
    cases = []
    if replay:
        d = json.load(open(replay))
        cases = [d["replay"]["case"]] if "case" in d.get("replay", {}) else []
    else:
        cases = vf.load_corpus(PROP)
        n = 160 if tier == "quick" else 3000
        for i in range(n):
            cases.append(gen_case(r.rng, tier, dup=(i % 7 == 3), big=(i % 10 == 9)))
    try:
        bins = vf.cargo_build(["c18", "vfhash"])
        r.phase("P3_build", ok=True)
    except vf.Broken as e:
        r.is_broken("harness-build", e)
        return r.finish()
    try:
        impl, model, oracle, tried = both("c18", cases, bins)
    except vf.Broken as e:
        r.is_broken("correspondence-run", e)
        return r.finish()
    bad = vf.diff_lines(r, cases, impl, model)
    for i, o in enumerate(oracle):
        if o != "ok":
            r.violation("oracle:" + o.split(":")[1].split(",")[0].split("[")[0] if ":" in o else "oracle",
                        f"implementation oracle failed: {o}", {"case": cases[i], "oracle": o, "impl": impl[i]})
    for i in bad[:3]:
        # shrink the emission list while model and implementation still disagree
        pols, ems, perms, sd = parse_case(cases[i])
        def still(cand):
            c = render_case(pols, cand, "0", sd)
            a, b, _, _ = both("c18shrink", [c], bins)
            return a != b
        small = vf.shrink_list(ems, still) if len(ems) <= 12 else ems
        c = render_case(pols, small, "all" if len(small) <= 6 else "50", sd)
        a, b, o, _ = both("c18shrink", [c], bins)
        r.is_broken("correspondence", f"model and implementation differ on: {c}\n impl : {a[0]}\n model: {b[0]}")
        if o[0] != "ok":
            r.violation("oracle:" + o[0], "oracle fails on shrunk disagreement", {"case": c, "oracle": o[0]})
    if (r.broken and not r.violations) and not replay:
        # P6 search: larger random budget on the implementation's own oracle
        extra = [gen_case(r.rng, "thorough", dup=(i % 5 == 0), big=(i % 4 == 0)) for i in range(2500)]
        path = vf.write_cases("c18search", extra)
        rc, out = vf.run_bin(bins["c18"], path)
        for c, l in zip(extra, [l for l in out.splitlines() if l.startswith("ch=")]):
            if " oracle=ok" not in l:
                r.violation("oracle:search", "oracle failed during search", {"case": c, "impl": l})
                break
        r.phase("P6_search", cases=len(extra))
    nontriv = {c for c in cases if len(parse_case(c)[1]) >= 2}
    r.cov["evaluations"] = len(cases)
    r.cov["distinct_nontrivial"] = len(nontriv)
    r.cov["rule"] = ("random emission sets (1-4 channels, 10 policies, keys with shared long prefixes, payload lengths 0-12 "
                     "unequal) run through harness and Coq model; non-trivial = >=2 emissions; every case is also re-run by "
                     "the harness under all (<=6/7 emissions) or sampled permutations, re-keying and duplicate stripping")
    r.cov["permutation_runs_on_impl"] = sum(tried)
    r.cov["traces_validated_against_impl"] = len(cases) - len(bad)
    sizes = {}
    for c in cases:
        k = len(parse_case(c)[1]); sizes[k] = sizes.get(k, 0) + 1
    r.cov["emission_count_histogram"] = dict(sorted(sizes.items()))
    r.cov["cases_with_duplicates"] = sum(1 for l in impl if "d" in l.rsplit("res=", 1)[1])
    r.cov["samples"] = cases[:3]
    r.phase("P4_correspondence", cases=len(cases), differing=len(bad))
    r.phase("P5_oracle", failing=sum(1 for o in oracle if o != "ok"))
    return r.finish()

MANIFEST = {
    "category": "proof",
    "text": ("Coq theorems (no axioms) over an executable model of the materialization bus, all eight reducers, finalize policies, "
             "emissions-digest preimage and frame encoding: the whole tick output is invariant under every permutation of a "
             "duplicate-free emission set; commutative reducers are permutation-invariant on their value sequence and the "
             "classification is exact; duplicates are rejected in every order. The model is tied to /repo by running it (vm_compute) "
             "and the real MaterializationBus on the same generated emission sets and comparing bytes, conflicts, digest "
             "(model preimage hashed with blake3) and frames; the harness additionally checks the property itself on the "
             "implementation under all permutations (<=6/7 emissions), re-keying and duplicate stripping."),
    "note": ("Trusted: Coq kernel + vm_compute; python generator/renderer; harness c18.rs; blake3 crate. Modelled rather than verified: "
             "bus.rs/reduce_op.rs/emit_key.rs/frame.rs (v1)/compute_emissions_digest as Gallina functions; ScopedEmitter, ports, "
             "frame_v2 and payloads >= 4 GiB are outside the model."),
}
