"""C03 — admission is the canonical greedy independent set with exact blocking witnesses."""
import json, itertools
import vf

PROP = "C03"
THEOREMS = ["reserve_is_greedy", "greedy_decision_spec", "rejected_reserves_nothing", "accepted_set_independent",
            "conflict_symmetric", "blocker_predicate_is_conflict", "receipt_is_exact", "receipt_decisions_are_greedy",
            "receipt_blockers_shape", "legacy_agrees_when_masks_sound", "legacy_diverges_refuted",
            "radix_drain_sorted", "drain_is_sorted_permutation", "cmp_thin_is_key_order"]
PRE = ("From Coq Require Import List NArith.\nFrom Echo Require Import Model.Sched.\n"
       "Import ListNotations.\nOpen Scope N_scope.\n"
       "Definition dflt : footprint := {| n_read := []; n_write := []; e_read := []; e_write := []; a_read := []; "
       "a_write := []; b_in := []; b_out := []; factor_mask := 0 |}.\n"
       "Definition run (fps : list footprint) (cs : list (N * N * N)) :=\n"
       "  let order := drain_handles cs in\n"
       "  let l := map (fun h => nth (N.to_nat h) fps dflt) order in\n"
       "  (order, receipt l, run_legacy l).\n"
       "(* batches above the threshold: drain_thin = small_sort by theorem drain_is_sorted_permutation (Props/C03.v);\n"
       "   evaluating 20 insertion-sort passes over 320-bit keys in vm_compute is too slow, so the sorted order is computed\n"
       "   with the comparison sort the theorem proves equal. *)\n"
       "Definition run_big (fps : list footprint) (cs : list (N * N * N)) :=\n"
       "  let order := map t_handle (small_sort (enqueue_all cs)) in\n"
       "  let l := map (fun h => nth (N.to_nat h) fps dflt) order in\n"
       "  (order, receipt l, run_legacy l).\n"
       "(* small batches: additionally execute the radix model itself *)\n"
       "Definition run_radix (cs : list (N * N * N)) := map t_handle (radix_sort (enqueue_all cs)).\n")

SETS = ["nr", "nw", "er", "ew", "ar", "aw", "bi", "bo"]


def fp_str(fp):
    sets = ["+".join(f"{w}.{k}" for w, k in fp[s]) or "-" for s in SETS]
    return "/".join(sets) + "/" + str(fp["mask"])


def case_line(cands):
    return "c=" + (";".join(f"{vf.hex32(sc)}:{cr}:{fp_str(fp)}" for sc, cr, fp in cands) or "-")


def parse_case(line):
    body = line.split("c=", 1)[1].split()[0]
    out = []
    if body == "-":
        return out
    for it in body.split(";"):
        sc, cr, f = it.split(":")
        parts = f.split("/")
        fp = {}
        for name, s in zip(SETS, parts[:8]):
            fp[name] = [] if s == "-" else [tuple(int(x) for x in k.split(".")) for k in s.split("+")]
        fp["mask"] = int(parts[8])
        out.append((int(sc, 16), int(cr), fp))
    return out


def empty_fp(mask=0xffffffffffffffff):
    d = {s: [] for s in SETS}
    d["mask"] = mask
    return d


def universe_fp(code):
    """code in [0, 6561): per instance (node, edge, att in none/read/write; port none/in/out)."""
    fp = empty_fp()
    for w in (1, 2):
        for cls, (r, wr) in enumerate([("nr", "nw"), ("er", "ew"), ("ar", "aw")]):
            v = code % 3; code //= 3
            key = (w, 7) if cls < 2 else (w, 28)   # attachment key 28 = node 7, alpha plane
            if v == 1: fp[r].append(key)
            if v == 2: fp[wr].append(key)
        v = code % 3; code //= 3
        if v == 1: fp["bi"].append((w, 5))
        if v == 2: fp["bo"].append((w, 5))
    return fp


def gen_random(rng, tier):
    n = rng.choice([0, 1, 2, 3, 3, 4, 5, 6, 8, 12, 20, 40])
    nk = rng.choice([2, 3, 6])
    masks = rng.choice(["sound", "sound", "random", "zero"])
    base = rng.getrandbits(256)
    cands = []
    for i in range(n):
        style = rng.random()
        if style < 0.3:
            sc = rng.randint(0, 6)
        elif style < 0.6:
            sc = base ^ (rng.getrandbits(16) << (16 * rng.randint(0, 3)))     # long shared prefix
        elif style < 0.7 and cands:
            sc = rng.choice(cands)[0]                                         # same key again (last wins) / same scope
        else:
            sc = rng.getrandbits(256)
        cr = rng.choice([0, 1, 2, 3, 0xffffffff])
        fp = empty_fp()
        for _ in range(rng.choice([0, 1, 1, 2, 3])):
            s = rng.choice(SETS)
            w = rng.randint(1, 2)
            k = rng.randint(0, nk)
            if s in ("ar", "aw"):
                k = k * 4 + rng.randint(0, 3)
            fp[s].append((w, k))
        fp["mask"] = {"sound": 0xffffffffffffffff, "random": rng.getrandbits(3), "zero": 0}[masks]
        cands.append((sc, cr, fp))
    return case_line(cands)


def to_term(line, radix=False):
    cands = parse_case(line)
    def kl(l):
        return "[" + ";".join(f"({w},{k})" for w, k in l) + "]"
    fps = ";".join("{| n_read := %s; n_write := %s; e_read := %s; e_write := %s; a_read := %s; a_write := %s; "
                   "b_in := %s; b_out := %s; factor_mask := %d |}" % tuple([kl(fp[s]) for s in SETS] + [fp["mask"]])
                   for _, _, fp in cands)
    cs = ";".join(f"({vf.coq_hexN('%x' % sc)},{cr},{i})" for i, (sc, cr, _) in enumerate(cands))
    if len(cands) > 1024:
        return f"run_big [{fps}] [{cs}]"
    if radix:
        return f"(run [{fps}] [{cs}], run_radix [{cs}])"
    return f"run [{fps}] [{cs}]"


def render_model(v):
    radix = None
    if len(v) == 4:      # Coq prints ((a, b, c), d) as (a, b, c, d)
        v, radix = v[:3], v[3]
    order, rc, legacy = v
    if radix is not None and list(radix) != list(order):
        return "MODEL-RADIX-DISAGREES-WITH-MODEL-SMALL-SORT"
    o = ",".join(str(h) for h in order)
    if isinstance(rc, tuple) and rc[0] == "app" and rc[1] == "Some":
        ent = rc[2][0]
        dec = "".join("1" if e[0] == "true" else "0" for e in ent)
        blk = ",".join(("+".join(str(x) for x in e[1]) or "-") for e in ent)
    else:
        dec, blk = "CORRUPT", "CORRUPT"
    leg = "".join("1" if b == "true" else "0" for b in legacy)
    return f"order={o} dec={dec} blk={blk} legacy={leg}"


def run_impl(bins, tag, cases):
    path = vf.write_cases(tag, cases)
    rc, out = vf.run_bin(bins["c03"], path, timeout=1500)
    if rc:
        raise vf.Broken(f"harness c03 exited {rc}: {out[-800:]}")
    return [l for l in out.splitlines() if l.startswith("order=")]


def run(tier, seed, replay=None):
    r = vf.Run(PROP, tier, seed, "proof")
    r.assumptions = [
        "Coq 8.16.1 kernel; no axioms (Print Assumptions: closed under the global context)",
        "model = coq/Model/Sched.v: has_conflict/mark_all/reserve, footprints_conflict, Footprint::independent, "
        "LegacyScheduler::reserve, reserve_for_receipt, PendingTx::enqueue/drain, bucket16, cmp_thin; one counting-sort pass is "
        "modelled as a stable sort by the pass digit (histogram/prefix-sum/u32-wrapping mechanics are exercised by the "
        "tie on batches above the 1024 threshold, not modelled); GenSet generations are constant per transaction (plain sets)",
        "tie: hooks verif_hooks::scheduler_drain_and_reserve and Engine::verif_enqueue_raw/verif_reserve_only (feature echo_verif) "
        "feed raw (scope hash, rule id, footprint) candidates; legacy rule hashes are chosen order-consistent with compact ids",
    ]
    r.cov["trusted_base"] = ["coqc 8.16.1 kernel + vm_compute", "props/c03.py generator/renderer",
                             "harness c03.rs (key encoding, handle recovery) and its independent reference greedy"]
    r.proof_phase(THEOREMS)
    r.tables_phase("Sched")
    if replay:
        d = json.load(open(replay))
        small = [d["replay"]["case"]] if "case" in d.get("replay", {}) else []
        big = []
    else:
        small = vf.load_corpus(PROP)
        npairs, ntriples, nrand = (1500, 300, 400) if tier == "quick" else (40000, 8000, 6000)
        for _ in range(npairs):
            a, b = r.rng.randrange(6561), r.rng.randrange(6561)
            small.append(case_line([(1, 0, universe_fp(a)), (2, 0, universe_fp(b))]))
        for _ in range(ntriples):
            cs = [(i + 1, 0, universe_fp(r.rng.randrange(6561))) for i in range(3)]
            r.rng.shuffle(cs)
            small.append(case_line(cs))
        for _ in range(nrand):
            small.append(gen_random(r.rng, tier))
        sizes = [1023, 1024, 1025, 1500, 4000, 5000] if tier == "quick" else \
                [0, 1, 2, 1000, 1023, 1024, 1025, 1026, 1100, 2048, 3000, 4000, 4500, 5000] * 3
        big = [f"gen={n}:{r.rng.getrandbits(40)}:{st}" for n in sizes for st in ("random", "prefix", "samescope")]
        dumps = [f"gen={n}:{r.rng.getrandbits(40)}:{st} dump=1" for n, st in
                 ([(1025, "prefix"), (1030, "random")] if tier == "quick" else
                  [(1024, "prefix"), (1025, "prefix"), (1025, "samescope"), (1100, "random"), (1300, "prefix")])]
    try:
        bins = vf.cargo_build(["c03"])
    except vf.Broken as e:
        r.is_broken("harness-build", e)
        return r.finish()
    try:
        impl_full = run_impl(bins, "c03", small)
        if not replay:
            big_out = run_impl(bins, "c03big", big)
            dump_out = run_impl(bins, "c03dump", dumps)
        else:
            big_out, dump_out, dumps = [], [], []
    except vf.Broken as e:
        r.is_broken("correspondence-run", e)
        return r.finish()
    # expanded large batches join the model run
    model_cases = list(small)
    impl_lines = [l.split(" oracle=")[0] for l in impl_full]
    oracles = [l.split(" oracle=")[1].split()[0] for l in impl_full]
    for l in dump_out:
        head, exp = l.split(" expand=", 1)
        model_cases.append(exp)
        impl_lines.append(head.split(" oracle=")[0])
        oracles.append(head.split(" oracle=")[1].split()[0])
    try:
        vals = vf.coq_eval("c03", PRE, [to_term(c, radix=(i % 5 == 0 and c.count(";") <= 12)) for i, c in enumerate(model_cases)], timeout=1500)
        model = [render_model(v) for v in vals]
    except vf.Broken as e:
        r.is_broken("model-eval", e)
        model = impl_lines
    bad = vf.diff_lines(r, model_cases, impl_lines, model)
    for i in bad[:3]:
        cands = parse_case(model_cases[i])
        def still(cs):
            c = case_line(cs)
            a = run_impl(bins, "c03shrink", [c])[0].split(" oracle=")[0]
            b = render_model(vf.coq_eval("c03shrink", PRE, [to_term(c)])[0])
            return a != b
        small_c = vf.shrink_list(cands, still) if len(cands) <= 40 else cands
        c = case_line(small_c)
        a = run_impl(bins, "c03shrink", [c])[0]
        b = render_model(vf.coq_eval("c03shrink", PRE, [to_term(c)])[0])
        r.is_broken("correspondence", f"model and implementation differ on: {c[:1500]}\n impl : {a[:600]}\n model: {b[:600]}")
        if " oracle=ok" not in a:
            r.violation("oracle:" + a.split(" oracle=")[1].split()[0], "oracle fails on shrunk disagreement", {"case": c, "impl": a})
    for c, o in zip(model_cases, oracles):
        if o != "ok":
            sig = "oracle:" + o.split(":", 1)[1].split(",")[0]
            r.violation(sig, f"implementation-side oracle failed: {o}", {"case": c[:20000], "oracle": o})
    for c, l in zip(big, big_out):
        if " oracle=ok" not in l:
            o = l.split(" oracle=")[1].split()[0]
            r.violation("oracle:" + o.split(":", 1)[1].split(",")[0], f"large batch oracle failed: {o}", {"case": c, "impl": l})
    if r.broken and not r.violations and not replay:
        extra = [gen_random(r.rng, "thorough") for _ in range(6000)] + \
                [case_line([(1, 0, universe_fp(a)), (2, 0, universe_fp(b))]) for a, b in
                 ((r.rng.randrange(6561), r.rng.randrange(6561)) for _ in range(30000))]
        for c, l in zip(extra, run_impl(bins, "c03search", extra)):
            if " oracle=ok" not in l:
                o = l.split(" oracle=")[1].split()[0]
                r.violation("oracle:" + o.split(":", 1)[1].split(",")[0], "oracle failed during search", {"case": c, "impl": l})
                break
        r.phase("P6_search", cases=len(extra))
    r.cov["evaluations"] = len(model_cases) + len(big)
    r.cov["distinct_nontrivial"] = len({c for c in model_cases if c.count(";") >= 1})
    r.cov["rule"] = ("sampled ordered pairs/triples over the 6561-footprint universe {2 instances x node/edge/attachment none|read|write "
                     "x port none|in|out}, random candidate sets (0-40, duplicate keys, shared 30-byte prefixes, sound/random/zero masks) "
                     "through model and implementation; large batches 1023..5000 in three key styles through the implementation with an "
                     "independent reference (sort + greedy + exact blockers), two expanded >1024 batches also through the model; "
                     "non-trivial = at least two candidates")
    r.cov["traces_validated_against_impl"] = len(model_cases) - len(bad)
    r.cov["large_batches_impl_only"] = len(big)
    r.cov["rejected_candidates_seen"] = sum(l.split("dec=")[1].split()[0].count("0") for l in impl_lines if "dec=" in l)
    r.cov["samples"] = [small[0][:400], small[-1][:400]] + big[:2] if small else big[:2]
    r.phase("P4_correspondence", cases=len(model_cases), differing=len(bad))
    r.phase("P5_oracle", failing=sum(1 for o in oracles if o != "ok"))
    return r.finish()


MANIFEST = {
    "category": "proof",
    "text": ("Coq theorems (no axioms): the check-then-mark reservation over read/write sets equals the declarative greedy selection over "
             "the pairwise conflict predicate (write/write, write/read either way per node/edge/attachment, any shared port, keys instance-scoped); "
             "a rejected candidate reserves nothing; the accepted set is pairwise independent; the receipt's blocker lists are exactly the "
             "earlier accepted conflicting entries and the 'rejected without blocker' corruption branch is unreachable; the engine's separate "
             "blocker predicate is the same predicate; the legacy scheduler agrees iff masks are sound (witness for unsound masks); the 20-pass "
             "stable LSD radix sort equals the comparison sort for every batch size (digits of the 320-bit key, stability by induction over "
             "passes, uniqueness of the sorted permutation). Tied to /repo by hooks feeding raw keys/footprints into the real scheduler and "
             "engine receipt path and comparing drain order, decisions, blockers and legacy decisions with the model, plus an independent "
             "reference in the harness; batches on both sides of the 1024 threshold."),
    "note": ("Trusted: Coq kernel + vm_compute; generator/renderer; harness key encoding; hooks (feature echo_verif) that bypass matching. "
             "Modelled rather than verified: scheduler.rs reserve/has_conflict/mark_all/PendingTx, footprint.rs independent, engine_impl.rs "
             "reserve_for_receipt/footprints_conflict as Gallina functions; one counting-sort pass is modelled as a stable sort by digit "
             "(histogram/prefix sums/u32 wrapping counters are only exercised). Telemetry and GenSet generation bumps are outside the model."),
}
