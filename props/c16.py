"""C16 — observation is read-only and bound to its coordinate."""
import os, json, re, time
import vf

PROP = "C16"
THEOREMS = ["observe_bound_to_worldline", "observe_historical_stable", "observe_matches_replay",
            "observe_unavailable", "observe_unavailable_never_reads", "observe_unknown_worldline",
            "frame_projection_matrix_exact", "recorded_truth_needs_a_commit", "frontier_reads_last_commit",
            "truth_payload_is_recorded_outputs", "optic_reading_is_bridged_observation", "optic_unavailable_is_obstruction"]

PRE = r"""From Coq Require Import List NArith String.
From Echo Require Import Base.Bytes Model.Observe.
Import ListNotations.
Open Scope N_scope.
(* instance used for execution: state = its own root, patch = the next root; replay is not executed here *)
Definition E (g r c : N) (o : list (N * bytes)) : entry N := Build_entry N r g r c o.
Definition WL (gr gc : N) (h : list (entry N)) (s : option (N * live)) (cps : list N) : wline N N := Build_wline N N gr gr gc h s cps.
Definition optN (o : option N) : list N := match o with Some n => [n] | None => [] end.
Definition rs_out (r : resolved) : list (list N) :=
  [[rs_tick r]; optN (rs_cgt r); optN (rs_oagt r); [rs_root r]; [rs_commit r]].
Definition pref_out (p : pref) : list N := [pr_wl p; pr_tick p; pr_commit p].
Definition plan_out (p : oplan) : list N :=
  match p with OBuiltin BHead => [0;0] | OBuiltin BSnapshot => [0;1] | OBuiltin BTruth => [0;2] | OBuiltin BQuery => [0;3]
             | OAuthored a => [1; ap_id a] end.
Definition wit_out (w : witness) : list N :=
  match w with WCommit r => 0 :: pref_out r | WEmpty a b c => [1; a; b; c] end.
Definition po_out (p : posture) : list N :=
  match p with PoWorldline => [0] | PoHistorical s => [1; s] | PoAtAnchor s => [2; s]
             | PoDisjoint s a b => [3; s] ++ pref_out a ++ pref_out b
             | PoReval s a b c d => [4; s] ++ pref_out a ++ pref_out b ++ [c; d] end.
Definition bp_out (b : bposture) : list N :=
  match b with BpUnbounded => [0] | BpBounded a b c d => [1; a; b; c; d] end.
Definition pl_out (p : payload) : N * list (list N) * list (N * bytes) :=
  match p with
  | PlHead t g r c => (0, [[t]; optN g; [r]; [c]], [])
  | PlSnapshot t g r c => (1, [[t]; optN g; [r]; [c]], [])
  | PlTruth chs => (2, [], chs)
  end.
Definition fcode (f : frame) : N := match f with FCommitBoundary => 0 | FRecordedTruth => 1 | FQueryView => 2 end.
Definition kcode (k : pkind) : N := match k with KHead => 0 | KSnapshot => 1 | KTruth => 2 | KQuery => 3 end.
Definition err_out (e : oerr) : list N :=
  match e with
  | EInvalidWorldline => [0] | EInvalidTick t => [1; t] | EUnsupportedFrameProjection f k => [2; fcode f; kcode k]
  | EUnsupportedQuery q => [3; q] | EUnsupportedObserverPlan => [4] | EUnsupportedObserverInstance => [5]
  | EUnsupportedRights => [6] | EBudgetExceeded a b c d => [7; a; b; c; d] | EObservationUnavailable => [8]
  end.
Definition art_out (tag : N) (a : artifact) (pre : bytes) :=
  (tag, rs_out (a_resolved a) ++ [plan_out (a_plan a); wit_out (a_witness a); po_out (a_posture a); bp_out (a_budget a)],
   pl_out (a_payload a), pre).
Definition nopl : N * list (list N) * list (N * bytes) := (9, [], []).
Definition out (x : result) :=
  match x with
  | Reading a => art_out 1 a (artifact_preimage a)
  | Obstruction e => (2, [err_out e], nopl, [])
  | QueryDelegated rs po => (3, rs_out rs ++ [po_out po], nopl, [])
  end.
Definition okcode (k : okind) : N :=
  match k with OMissingWitness => 0 | OCapabilityDenied => 1 | OBudgetExceeded => 2 | OUnsupportedAperture => 3
             | OUnsupportedProjectionLaw => 4 | OAttachmentDescentRequired => 5 | OAttachmentDescentDenied => 6
             | OLiveTailRequiresReduction => 7 | OConflictingFrontier => 8 end.
Definition oout (x : optic_result) :=
  match x with
  | OReading a => art_out 4 a []
  | OObstructed k => (5, [[okcode k]], nopl, [])
  end.
Definition RQ (wl : N) (a : at_) (f : frame) (p : proj) (pl : oplan) (i : option (N * N * N)) (b : budget) (r : rights) : request :=
  Build_request wl a f p pl i b r.
Definition AP (s : N) : aplan :=
  let rep x := (x mod 256) * 0x0101010101010101010101010101010101010101010101010101010101010101 in
  Build_aplan (rep s) (rep (s + 1)) (rep (s + 9)) (rep (s + 2)) (rep (s + 3)) (rep (s + 4)).
"""

REP = int("01" * 32, 16)
U64 = (1 << 64) - 1
OKINDS = ["MissingWitness", "CapabilityDenied", "BudgetExceeded", "UnsupportedAperture", "UnsupportedProjectionLaw",
          "AttachmentDescentRequired", "AttachmentDescentDenied", "LiveTailRequiresReduction", "ConflictingFrontier"]


def wl_id(n):
    return ((n + 1) % 256) * REP


def H(n):
    return "0x%x" % n


# ------------------------------------------------------------------------------------------------ generation

def gen_prog(rng):
    out = []
    for _ in range(rng.randint(1, 3)):
        k = rng.random()
        if k < 0.5:
            out += [1, rng.randint(0, 5), rng.randint(0, 3)]
        elif k < 0.7:
            n = rng.randint(0, 4)
            out += [2, rng.randint(0, 5), n] + [rng.randint(0, 255) for _ in range(n)]
        elif k < 0.9:
            out += [4, rng.randint(0, 5), rng.randint(0, 5)]
        else:
            out += [5, rng.randint(0, 5), rng.randint(0, 5)]
    return "".join("%02x" % b for b in out)


def gen_intents(rng, nwl):
    its = []
    for w in range(nwl):
        if rng.random() < 0.85:
            for _ in range(rng.choice([1, 1, 1, 1, 2])):
                its.append(f"{w}.{gen_prog(rng)}")
    return ",".join(its) or "-"


def observe_req(wl, at, frame, proj, plan=None, inst="-", budget="u", rights="k"):
    if plan is None:
        plan = {("c", "h"): "bh", ("c", "s"): "bs", ("r", "t"): "bt", ("q", "q"): "bq"}.get((frame, proj[0]), "bh")
    return f"o:{wl}:{at}:{frame}:{proj}:{plan}:{inst}:{budget}:{rights}"


def gen_reqs(rng, nlines, maxlen, tier, qids):
    """Structured request set: every frame x projection kind, frontier and tick coordinates up to and beyond the
    history, unknown worldlines, mismatched plans / instances / rights, budgets around the payload size, optics."""
    wls = list(range(nlines)) + [rng.choice([40, 77, 254])]
    ticks = ["f"] + [f"t{t}" for t in range(0, maxlen + 2)] + [rng.choice(["t1000", f"t{U64}", f"t{1 << 63}"])]
    projs = ["h", "s", "t*", "t-", "t" + ",".join(str(c) for c in rng.sample(range(4), rng.randint(1, 3))),
             f"q{rng.choice(qids + [3])}." + "".join("%02x" % rng.randint(0, 255) for _ in range(rng.randint(0, 3)))]
    reqs = []
    # the full validity matrix on one coordinate
    w0 = rng.choice(wls[:-1])
    a0 = rng.choice(ticks[:3])
    for fr in "crq":
        for pj in ["h", "s", "t*", projs[5]]:
            reqs.append(observe_req(w0, a0, fr, pj))
    # valid pairs over all coordinates of all worldlines
    n_coord = 10 if tier == "quick" else 24
    for _ in range(n_coord):
        w = rng.choice(wls)
        a = rng.choice(ticks)
        fr, pj = rng.choice([("c", "h"), ("c", "s"), ("r", "t*"), ("r", projs[4]), ("r", "t-"), ("q", projs[5])])
        reqs.append(observe_req(w, a, fr, pj))
    # every tick of one worldline in both metadata projections and recorded truth
    w1 = rng.choice(wls[:-1])
    for a in ticks[:-1]:
        reqs.append(observe_req(w1, a, "c", rng.choice("hs")))
        reqs.append(observe_req(w1, a, "r", rng.choice(["t*", projs[4]])))
    # contract violations
    for _ in range(4):
        w = rng.choice(wls[:-1])
        a = rng.choice(ticks[:4])
        kind = rng.randint(0, 5)
        if kind == 0:
            reqs.append(observe_req(w, a, "c", "h", plan=rng.choice(["bs", "bt", "bq", "a40"])))
        elif kind == 1:
            reqs.append(observe_req(w, a, "c", "s", inst="i%d" % rng.randint(0, 250)))
        elif kind == 2:
            reqs.append(observe_req(w, a, "r", "t*", rights="c%d" % rng.randint(0, 250)))
        elif kind == 3:
            reqs.append(observe_req(w, a, "q", projs[5], plan=rng.choice(["bh", "a40", "a41", "a99", "bq"])))
        elif kind == 4:
            reqs.append(observe_req(w, a, "q", projs[5], plan="bq", inst="i7", rights="c9"))
        else:
            reqs.append(observe_req(w, a, "r", "t*", plan="a40", inst="i1"))
    # budgets around the real payload sizes
    for _ in range(5):
        w = rng.choice(wls[:-1])
        a = rng.choice(ticks[:4])
        fr, pj = rng.choice([("c", "h"), ("c", "s"), ("r", "t*"), ("r", projs[4])])
        maxp = rng.choice([0, 1, 30, 150, 190, 195, 196, 197, 198, 199, 200, 201, 202, 210, 1000, U64])
        maxw = rng.choice([0, 1, 1, 2, U64])
        reqs.append(observe_req(w, a, fr, pj, budget=f"b{maxp}.{maxw}"))
    # optics
    for _ in range(7 if tier == "quick" else 14):
        w = rng.choice(wls)
        k = rng.random()
        focus = f"w{w}" if k < 0.8 else rng.choice(["a", "s", f"w{rng.choice(wls)}"])
        if rng.random() < 0.9:
            sub = rng.choice(["f", "f"] + [f"t{t}" for t in range(maxlen + 2)] +
                             [f"p{rng.choice(wls[:-1])}.{rng.randint(0, maxlen + 1)}"])
            coord = f"w{w}.{sub}"
        else:
            coord = "x"
        shape = rng.choice(["h", "h", "h", "s", "s", "s", "t", "q", f"b{rng.randint(0, 9)}.{rng.choice([0, 10, 300])}", "a"])
        mb = rng.choice(["-", "0", "1", "127", "128", "150", "196", "200", "256", "256", "1000", "4096", "4096", str(U64)])
        mt = rng.choice(["-", "0", "1", "1", "2", "8"])
        ma = rng.choice(["-", "0", "1"])
        reqs.append(f"p:{focus}:{coord}:{shape}:{mb}:{mt}:{ma}:{rng.choice('be')}")
    return reqs


def gen_case(rng, tier, cid):
    nwl = rng.randint(1, 3)
    qs = rng.choice([[], [(7, 40)], [(7, 40), (8, 41)]])
    steps = ["R"] if rng.random() < 0.5 else []
    nlines, maxlen = nwl, 0
    nsteps = rng.randint(4, 8 if tier == "quick" else 11)
    lens = [0] * nwl
    for i in range(nsteps):
        k = rng.random()
        if k < 0.38:
            steps.append(f"T:{gen_intents(rng, nlines)}")
            lens = [x + 1 for x in lens]     # upper bound (a worldline without intents does not commit)
        elif k < 0.68:
            steps.append(f"O:{gen_intents(rng, nlines)}:{rng.randint(1, 1 << 30)}")
            lens = [x + 1 for x in lens]
        elif k < 0.78:
            steps.append(f"I:{gen_intents(rng, nlines)}")
        elif k < 0.92 and nlines < 5 and max(lens) > 0:
            src = rng.randrange(nlines)
            steps.append(f"F:{src}:{rng.randint(0, max(lens[src] - 1, 0))}")
            nlines += 1
            lens.append(lens[src])
        elif k < 0.985:
            steps.append(f"C:{rng.randrange(nlines)}")
        else:
            steps.append(f"T:-")
        if rng.random() < 0.45:
            steps.append("R")
    if steps[-1] != "R":
        steps.append("R")
    maxlen = min(max(lens), 6)
    reqs = gen_reqs(rng, nlines, maxlen, tier, [q for q, _ in qs])
    q = ",".join(f"{a}.{b}" for a, b in qs) or "-"
    return f"id={cid} wls={nwl} q={q} steps={'|'.join(steps)} reqs={';'.join(reqs)}"


def exhaustive_case(cid, nwl, steps):
    """Thorough tier: the whole request grid on a fixed small world."""
    reqs = []
    for w in list(range(nwl + 1)) + [99]:
        for a in ["f", "t0", "t1", "t2", "t3", "t4"]:
            for fr in "crq":
                for pj in ["h", "s", "t*", "t1,3", "q7.01", "q9."]:
                    reqs.append(observe_req(w, a, fr, pj))
    return f"id={cid} wls={nwl} q=7.40 steps={steps} reqs={';'.join(reqs)}"


# ------------------------------------------------------------------------------------------------ model side

def parse_case(line):
    m = dict(t.split("=", 1) for t in line.split())
    return m


def parse_pref(s):
    w, t, c = s.split(".")
    return f"(Build_pref {H(wl_id(int(w)))} {t} {H(int(c, 16))})"


def world_term(facts):
    """`W gt=.. q=.. ch=.. wl=..` -> (Coq term of the world, channel ids)"""
    m = {}
    wls = []
    for tok in facts.split():
        k, v = tok.split("=", 1)
        if k == "wl":
            wls.append(v)
        else:
            m[k] = v
    chans = [int(c, 16) for c in m["ch"].split(",")]
    lines = []
    for v in wls:
        idx, groot, gcommit, strand, ents, cps = v.split(":")
        es = []
        if ents != "-":
            for e in ents.split("/"):
                g, r, c, outs = e.split(",")
                ol = []
                if outs != "-":
                    for o in outs.split("+"):
                        ci, d = o.split(".")
                        data = [] if d == "-" else list(bytes.fromhex(d))
                        ol.append(f"({H(chans[int(ci)])},{vf.coq_bytes(data)})")
                es.append(f"E {g} {H(int(r, 16))} {H(int(c, 16))} [{';'.join(ol)}]")
        if strand == "-":
            st = "None"
        else:
            f = strand.split("~")
            sid = H(int(f[0], 16))
            if f[1] == "A":
                lv = "LAtAnchor"
            elif f[1] == "U":
                lv = "LUnavailable"
            elif f[1] == "D":
                lv = f"(LDisjoint {parse_pref(f[2])} {parse_pref(f[3])})"
            else:
                lv = f"(LReval {parse_pref(f[2])} {parse_pref(f[3])} {f[4]} {H(int(f[5], 16))})"
            st = f"(Some ({sid}, {lv}))"
        cpl = "" if cps == "-" else cps.replace(",", ";")
        lines.append(f"({H(wl_id(int(idx)))}, WL {H(int(groot, 16))} {H(int(gcommit, 16))} [{';'.join(es)}] {st} [{cpl}])")
    qs = []
    if m["q"] != "-":
        for q in m["q"].split(","):
            a, b = q.split(".")
            qs.append(f"({a}, AP {b})")
    return f"(Build_world N N [{';'.join(lines)}] {m['gt']} [{';'.join(qs)}])", chans


def req_term(text, chans):
    f = text.split(":")
    if f[0] == "o":
        at = "AFrontier" if f[2] == "f" else f"(ATick {f[2][1:]})"
        fr = {"c": "FCommitBoundary", "r": "FRecordedTruth", "q": "FQueryView"}[f[3]]
        p = f[4]
        if p == "h":
            pj = "PHead"
        elif p == "s":
            pj = "PSnapshot"
        elif p[0] == "t":
            if p == "t*":
                pj = "(PTruth None)"
            elif p == "t-":
                pj = "(PTruth (Some []))"
            else:
                pj = "(PTruth (Some [%s]))" % ";".join(H(chans[int(c)]) for c in p[1:].split(","))
        else:
            q, v = p[1:].split(".")
            pj = f"(PQuery {q} {vf.coq_bytes(list(bytes.fromhex(v)))})"
        pl = {"bh": "(OBuiltin BHead)", "bs": "(OBuiltin BSnapshot)", "bt": "(OBuiltin BTruth)", "bq": "(OBuiltin BQuery)"}.get(f[5])
        if pl is None:
            pl = f"(OAuthored (AP {f[5][1:]}))"
        inst = "None" if f[6] == "-" else "(Some (1,2,3))"
        if f[7] == "u":
            bd = "BUnbounded"
        else:
            a, b = f[7][1:].split(".")
            bd = f"(BBounded {a} {b})"
        rt = "RPublic" if f[8] == "k" else f"(RScoped {f[8][1:]})"
        return f"out (observe W (RQ {H(wl_id(int(f[1])))} {at} {fr} {pj} {pl} {inst} {bd} {rt}))"
    # optic
    fo = f[1]
    focus = f"(FoWorldline {H(wl_id(int(fo[1:])))})" if fo[0] == "w" else ("FoAttachment" if fo == "a" else "FoOther")
    if f[2] == "x":
        coord = "CoOther"
    else:
        parts = f[2].split(".")
        cid = H(wl_id(int(parts[0][1:])))
        if parts[1] == "f":
            a = "OcFrontier"
        elif parts[1][0] == "t":
            a = f"(OcTick {parts[1][1:]})"
        else:
            a = f"(OcProvenance (Build_pref {H(wl_id(int(parts[1][1:])))} {parts[2]} 0))"
        coord = f"(CoWorldline {cid} {a})"
    s = f[3]
    if s[0] == "b":
        a, b = s[1:].split(".")
        shape = f"(ShByteRange {a} {b})"
    else:
        shape = {"h": "ShHead", "s": "ShSnapshot", "t": "ShTruth", "q": "ShQueryBytes", "a": "ShAttachment"}[s]
    o = lambda x: "None" if x == "-" else f"(Some {x})"
    return (f"oout (observe_optic W (Build_optic_request {focus} {coord} {shape} {o(f[4])} {o(f[5])} {o(f[6])} "
            f"{'DExplicit' if f[7] == 'e' else 'DBoundaryOnly'}))")


def widx(n):
    return str(n // REP - 1)


def opt_s(l):
    return str(l[0]) if l else "-"


def pref_s(l):
    return f"{widx(l[0])}.{l[1]}.{vf.hex32(l[2])}"


def plan_s(l):
    return ["bh", "bs", "bt", "bq"][l[1]] if l[0] == 0 else f"a{l[1] // REP}"


def wit_s(l):
    return "C~" + pref_s(l[1:]) if l[0] == 0 else f"E~{widx(l[1])}.{vf.hex32(l[2])}.{vf.hex32(l[3])}"


def po_s(l):
    if l[0] == 0:
        return "W"
    sid = vf.hex32(l[1])
    if l[0] == 1:
        return "H~" + sid
    if l[0] == 2:
        return "A~" + sid
    if l[0] == 3:
        return f"D~{sid}~{pref_s(l[2:5])}~{pref_s(l[5:8])}"
    return f"V~{sid}~{pref_s(l[2:5])}~{pref_s(l[5:8])}~{l[8]}~{vf.hex32(l[9])}"


def bp_s(l):
    return "u" if l[0] == 0 else "b" + ".".join(str(x) for x in l[1:])


def pl_s(p, chans):
    kind, meta, chs = p
    if kind in (0, 1):
        return f"{'HS'[kind]}~{meta[0][0]}~{opt_s(meta[1])}~{vf.hex32(meta[2][0])}~{vf.hex32(meta[3][0])}"
    return "T~" + "+".join(f"{chans.index(c)}.{vf.hexb(d)}" for c, d in chs)


def rs_s(m):
    return f"tick={m[0][0]} cgt={opt_s(m[1])} oagt={opt_s(m[2])} root={vf.hex32(m[3][0])} commit={vf.hex32(m[4][0])}"


def err_s(l):
    k = l[0]
    if k == 0: return "InvalidWorldline"
    if k == 1: return f"InvalidTick:{l[1]}"
    if k == 2: return f"UnsupportedFrameProjection:{'crq'[l[1]]}{'hstq'[l[2]]}"
    if k == 3: return f"UnsupportedQuery:{l[1]}"
    if k == 4: return "UnsupportedObserverPlan"
    if k == 5: return "UnsupportedObserverInstance"
    if k == 6: return "UnsupportedRights"
    if k == 7: return "BudgetExceeded:" + ".".join(str(x) for x in l[1:])
    return "ObservationUnavailable"


def render(vals, chans):
    """model values of one round -> canonical lines (hash filled in later)"""
    lines, pres = [], []
    for v in vals:
        tag, meta, pl, pre = v
        if tag == 1:
            lines.append(f"R {rs_s(meta)} plan={plan_s(meta[5])} wit={wit_s(meta[6])} po={po_s(meta[7])} "
                         f"bp={bp_s(meta[8])} pl={pl_s(pl, chans)} hash=@{len(pres)}")
            pres.append(vf.hexb(pre))
        elif tag == 2:
            lines.append("E " + err_s(meta[0]))
        elif tag == 3:
            lines.append(f"Q {rs_s(meta)} po={po_s(meta[5])}")
        elif tag == 4:
            lines.append(f"OR plan={plan_s(meta[5])} wit={wit_s(meta[6])} po={po_s(meta[7])} bp={bp_s(meta[8])} pl={pl_s(pl, chans)}")
        else:
            lines.append("OE " + OKINDS[meta[0][0]])
    return lines, pres


def run_impl(tag, cases, bins):
    path = vf.write_cases(tag, cases)
    rc, out = vf.run_bin(bins["c16"], path, timeout=1500)
    if rc:
        raise vf.Broken(f"harness c16 exited {rc}: {out[-800:]}")
    res, cur = [], None
    for ln in out.splitlines():
        if ln.startswith("case "):
            cur = {"rounds": [], "oracle": "FAIL:no-end-line", "reads": 0, "notes": "-"}
        elif cur is None:
            continue
        elif ln.startswith("W "):
            cur["rounds"].append({"facts": ln[2:], "lines": []})
        elif ln.startswith("r "):
            cur["rounds"][-1]["lines"].append(ln.split(" ", 2)[2].split(" | ")[0].rstrip())
        elif ln.startswith("end "):
            m = dict(t.split("=", 1) for t in ln.split()[1:])
            cur["oracle"], cur["reads"], cur["notes"] = m.get("oracle", "FAIL:?"), int(m.get("reads", 0)), m.get("notes", "-")
            res.append(cur)
            cur = None
    if len(res) != len(cases):
        raise vf.Broken(f"harness c16 produced {len(res)} results for {len(cases)} cases: {out[-600:]}")
    return res


def run_model(tag, cases, impl):
    """one Coq term per read round; returns model lines per case per round"""
    terms, index = [], []
    for ci, (c, r) in enumerate(zip(cases, impl)):
        reqs = parse_case(c).get("reqs", "").split(";")
        for ri, rd in enumerate(r["rounds"]):
            wt, chans = world_term(rd["facts"])
            rts = [req_term(q, chans) for q in reqs if q]
            # observe and observe_optic results share one tuple type
            terms.append(f"let W := {wt} in [{';'.join(rts)}]")
            index.append((ci, ri, chans))
    vals = vf.coq_eval(tag, PRE, terms, timeout=1500)
    out = [[None] * len(r["rounds"]) for r in impl]
    allpre, where = [], []
    for (ci, ri, chans), v in zip(index, vals):
        lines, pres = render(v, chans)
        out[ci][ri] = lines
        for k, p in enumerate(pres):
            where.append((ci, ri, k))
            allpre.append(p)
    digs = vf.vfhash(allpre) if allpre else []
    dmap = {w: d for w, d in zip(where, digs)}
    for ci in range(len(out)):
        for ri in range(len(out[ci])):
            out[ci][ri] = [re.sub(r"hash=@(\d+)", lambda m: "hash=" + dmap[(ci, ri, int(m.group(1)))], l) for l in out[ci][ri]]
    return out


def history_lengths(facts):
    out = {}
    for tok in facts.split():
        if tok.startswith("wl="):
            idx, _g, _c, _s, ents, _cps = tok[3:].split(":")
            out[int(idx)] = 0 if ents == "-" else len(ents.split("/"))
    return out


def coord_class(q, lens):
    """where the requested coordinate lies relative to the recorded history at this round"""
    f = q.split(":")
    if f[0] == "o":
        w, a = int(f[1]), f[2]
    else:
        if f[2] == "x":
            return "optic:non-worldline"
        parts = f[2].split(".")
        w = int(parts[0][1:])
        a = "f" if parts[1] == "f" else ("t" + (parts[1][1:] if parts[1][0] == "t" else parts[2]))
    if w not in lens:
        return "unknown-worldline"
    if a == "f":
        return "frontier-empty" if lens[w] == 0 else "frontier"
    t = int(a[1:])
    if t >= lens[w]:
        return "tick-future" if t > lens[w] else "tick-first-unavailable"
    return "tick-last" if t == lens[w] - 1 else "tick-historical"


def shape_class(q):
    f = q.split(":")
    if f[0] == "o":
        extra = ("" if f[5] in ("bh", "bs", "bt", "bq") else "+authored") + ("" if f[6] == "-" else "+instance") + \
                ("" if f[7] == "u" else "+bounded") + ("" if f[8] == "k" else "+scoped")
        return f"observe:{f[3]}/{f[4][0]}{extra}"
    return f"optic:{f[1][0]}/{f[3][0]}"


def shrink_oracle(case, oracle, bins):
    """delta-debug steps and requests of a case whose implementation oracle fails (same first signature)"""
    m = parse_case(case)
    sig = oracle[5:].split(",")[0]
    def fails(steps, reqs):
        if not steps or not reqs or "R" not in steps:
            return False
        c = f"id={m['id']} wls={m['wls']} q={m['q']} steps={'|'.join(steps)} reqs={';'.join(reqs)}"
        try:
            res = run_impl("c16shrink", [c], bins)
        except vf.Broken:
            return False
        return sig in res[0]["oracle"]
    steps, reqs = m["steps"].split("|"), m["reqs"].split(";")
    try:
        single = next((q for q in reqs[:120] if fails(steps, [q])), None)
        reqs = [single] if single else vf.shrink_list(reqs, lambda x: fails(steps, x), max_rounds=80)
        steps = vf.shrink_list(steps, lambda x: fails(x, reqs), max_rounds=40)
    except Exception:
        pass
    return f"id={m['id']} wls={m['wls']} q={m['q']} steps={'|'.join(steps)} reqs={';'.join(reqs)}"


def classify(line):
    return line.split(" ", 1)[0] + (":" + line.split(" ")[1].split(":")[0] if line[0] in "EO" and line[1] in " E" else "")


def run(tier, seed, replay=None):
    r = vf.Run(PROP, tier, seed, "proof")
    r.assumptions = [
        "Coq 8.16.1 kernel (coqc; vm_compute only in the non-vacuity Examples); no axioms",
        "model = coq/Model/Observe.v: observe / observe_optic as pure functions of (recorded provenance per worldline, genesis "
        "snapshot, strand registration, global tick, installed query observer ids); the live frontier is derived from the recorded "
        "history (the harness checks that invariant on the implementation)",
        "Strand::live_basis_report (frontier posture of a strand child) is an INPUT of the model; contract query observers are "
        "modelled up to validation + resolved coordinate (payload/identity: oracle only); optic ReadIdentity / witness-basis "
        "derivation: oracle only; read-only-ness is not a theorem (vacuous in a functional model): it is checked by fingerprints "
        "of runtime / provenance / engine around every read, including the RefCell bus and the Cell scan counter",
        "recorded outputs are injected through ProvenanceService::checkpoint_for/restore + append_local_commit because no rule can "
        "reach the materialization bus through the engine plumbing",
    ]
    r.cov["trusted_base"] = ["coqc 8.16.1 kernel + vm_compute", "python generator/renderer props/c16.py",
                             "harness c16.rs (abstraction: provenance entries -> model world; artifact -> canonical line)",
                             "blake3 crate (artifact preimage hashed by vfhash)"]
    r.proof_phase(THEOREMS)
    if tier == "thorough":
        try:
            t1 = time.time()
            rc, out = vf.sh(["coqchk", "-o", "-silent", "-Q", vf.COQ, "Echo", "Echo.Props.C16"], timeout=1500)
            r.phase("P1b_coqchk", ok=(rc == 0), seconds=round(time.time() - t1, 1), tail=out[-300:])
            if rc:
                r.is_broken("coqchk", out[-1500:])
        except Exception as e:
            r.is_broken("coqchk", repr(e))
    if replay:
        d = json.load(open(replay))
        cases = [d["replay"]["case"]] if "case" in d.get("replay", {}) else []
    else:
        cases = vf.load_corpus(PROP)
        n = 24 if tier == "quick" else 120
        n = int(os.environ.get("VERIF_C16_CASES", n))      # smaller budgets for mutation experiments only
        for i in range(n):
            cases.append(gen_case(r.rng, tier, 1000 + i))
        if tier == "thorough":
            cases.append(exhaustive_case(9001, 2, "R|O:0.010101,1.010201:3|R|O:0.010301:4|F:0:0|T:0.010400,2.010500|R|O:1.010000,2.020103aabbcc:9|R"))
            cases.append(exhaustive_case(9002, 1, "R|T:0.010100|T:0.010200|F:0:1|R|T:1.010300|O:0.010300:7|R"))
    try:
        bins = vf.cargo_build(["c16", "vfhash"])
        r.phase("P3_build", ok=True)
    except vf.Broken as e:
        r.is_broken("harness-build", e)
        return r.finish()
    try:
        impl = run_impl("c16", cases, bins)
        model = run_model("c16", cases, impl)
    except (vf.Broken, ValueError, KeyError, IndexError) as e:
        r.is_broken("correspondence-run", repr(e))
        return r.finish()
    differing, total_lines, kinds, coords, shapes = 0, 0, {}, {}, {}
    shrunk = 0
    for ci, (c, im, mo) in enumerate(zip(cases, impl, model)):
        reqs = [q for q in parse_case(c).get("reqs", "").split(";") if q]
        if im["oracle"] != "ok":
            small = c
            if shrunk < 3 and not replay:
                shrunk += 1
                small = shrink_oracle(c, im["oracle"], bins)
            for sig in im["oracle"][5:].split(","):
                r.violation("oracle:" + sig.split("[")[0], f"implementation oracle failed: {sig}",
                            {"case": small, "oracle": im["oracle"], "original_case": c})
        for rd in im["rounds"]:
            lens = history_lengths(rd["facts"])
            for q in reqs:
                k = coord_class(q, lens)
                coords[k] = coords.get(k, 0) + 1
                sh = shape_class(q)
                shapes[sh] = shapes.get(sh, 0) + 1
        reported = False
        for ri, rd in enumerate(im["rounds"]):
            for qi, (a, b) in enumerate(zip(rd["lines"], mo[ri])):
                total_lines += 1
                k = a.split(" ")[0] + (":" + a.split(" ")[1].split(":")[0] if a[:2] in ("E ", "OE") else "")
                kinds[k] = kinds.get(k, 0) + 1
                if a != b:
                    differing += 1
                    if not reported:
                        reported = True
                        # minimal reproducer: same steps, the one differing request
                        m = parse_case(c)
                        small = f"id={m['id']} wls={m['wls']} q={m['q']} steps={m['steps']} reqs={reqs[qi]}"
                        r.is_broken("correspondence",
                                    f"model and implementation differ (round {ri}, request {reqs[qi]}):\n impl : {a}\n model: {b}\n case: {small}")
            if len(rd["lines"]) != len(mo[ri]):
                r.is_broken("correspondence", f"line counts differ in case {ci} round {ri}")
    reads = sum(im["reads"] for im in impl)
    r.cov["evaluations"] = total_lines
    r.cov["distinct_nontrivial"] = sum(v for k, v in kinds.items() if k in ("R", "Q", "OR"))
    r.cov["rule"] = ("one evaluation = one request served on the real runtime at one read round and by the Coq model on the dumped "
                     "provenance; non-trivial = the request produced a reading (R/Q/OR) rather than an obstruction; every request is "
                     "served twice with fingerprints of runtime/provenance/engine around the first read")
    r.cov["result_kind_histogram"] = dict(sorted(kinds.items()))
    r.cov["reads_on_impl_with_fingerprints"] = reads
    r.cov["read_rounds"] = sum(len(im["rounds"]) for im in impl)
    r.cov["coordinate_class_histogram"] = dict(sorted(coords.items()))
    r.cov["request_shape_histogram"] = dict(sorted(shapes.items()))
    r.cov["cases"] = len(cases)
    r.cov["step_histogram"] = {}
    for c in cases:
        for s in parse_case(c).get("steps", "").split("|"):
            r.cov["step_histogram"][s[:1]] = r.cov["step_histogram"].get(s[:1], 0) + 1
    r.cov["harness_notes"] = sorted({n.split(":")[0] for im in impl for n in im["notes"].split(",") if n != "-"})
    r.cov["traces_validated_against_impl"] = total_lines - differing
    r.cov["tick_numbering_note"] = ("`Tick t` names committed append t (state after commit t = replay cursor t+1); frontier reads in "
                                    "the CommitBoundary/QueryView frames report resolved tick = number of commits (documented)")
    r.cov["samples"] = [c[:600] for c in cases[:2]]
    r.phase("P4_correspondence", lines=total_lines, differing=differing)
    r.phase("P5_oracle", failing=sum(1 for im in impl if im["oracle"] != "ok"))
    if r.broken and not r.violations and not replay:
        extra = [gen_case(r.rng, "thorough", 50000 + i) for i in range(300)]
        try:
            ex = run_impl("c16search", extra, bins)
            for c, im in zip(extra, ex):
                if im["oracle"] != "ok":
                    r.violation("oracle:" + im["oracle"][5:].split(",")[0], "oracle failed during search", {"case": c, "oracle": im["oracle"]})
                    break
        except vf.Broken as e:
            r.is_broken("search-run", e)
        r.phase("P6_search", cases=len(extra))
    return r.finish()

MANIFEST = {
    "category": "proof",
    "text": ("Coq theorems (no axioms) over an executable model of ObservationService::observe / observe_optic as a pure function of the "
             "recorded provenance (per worldline: entries with commit cycle, state root, commit id, recorded outputs; genesis snapshot; "
             "strand registration; checkpoints), the global tick and the installed query observers: a reading depends only on the named "
             "worldline's record (other worldlines, live state and later global ticks cannot influence it beyond the documented freshness "
             "field); a historical read `Tick t` is unchanged by any later commits/forks; it equals the projection of the state obtained by "
             "checked replay at that coordinate; ticks beyond history, unknown worldlines and recorded truth of an uncommitted worldline are "
             "typed obstructions and never readings; the frame/projection validity matrix is exactly the four pairs; frontier readings show "
             "the last recorded commit; truth payloads are the filtered recorded outputs in recorded order; optic readings are exactly the "
             "bridged commit-boundary observation and optics on unavailable ticks are obstructed. Tie: real multi-worldline histories "
             "(WorldlineRuntime + SchedulerCoordinator::super_tick + fork_strand + checkpoints, recorded outputs re-recorded through the public "
             "provenance API) are read with every request shape at several read rounds, before and after further commits and forks; model and "
             "implementation must agree on obstruction kind, resolved coordinate, envelope, payload and on the artifact hash (the model emits "
             "the domain-separated canonical-CBOR preimage, hashed with real blake3). Oracles on the implementation alone: canonical "
             "fingerprints of runtime, provenance and engine (including the RefCell materialization bus and the Cell scan counter) are equal "
             "around every read; a repeated request gives an identical artifact; every reading equals the projection of "
             "ProvenanceService::replay_worldline_state_at at its coordinate and is unchanged at later rounds modulo the freshness field; the "
             "artifact hash is the hash of its parts; unavailable history never yields a reading."),
    "note": ("Trusted: Coq kernel + vm_compute; python generator/renderer; harness c16.rs (abstraction provenance -> model world); blake3 "
             "crate. Read-only-ness is NOT a theorem (vacuous for a Gallina function): it is the fingerprint oracle. Modelled rather than "
             "verified: observation.rs validation/resolve/posture/witness/budget/hash-input shape and the canonical CBOR encoder as Gallina "
             "functions; the live frontier is derived from the recorded history (the harness checks that invariant). Inputs of the model, not "
             "modelled: Strand::live_basis_report classification, graph state/patch application (Section variables). Oracle only: contract "
             "query observer payload / query identity / retained evidence (model stops at validation + resolved coordinate), optic "
             "ReadIdentity and witness-basis contents. Outside: warp-wasm kernel boundary (thin adapter over the same service; the ABI DTO "
             "conversion is exercised through ObservationArtifact::to_abi), neighborhood/settlement observation, retained reading cache. "
             "Tick numbering follows the documented convention (`Tick t` = state after commit t; frontier resolved tick = number of commits)."),
}
