"""C13 — decoders and byte-level entry points are total.

Proof part: panic/alloc/depth-aware Gallina model of echo-wasm-abi canonical.rs::decode_value (coq/Model/CborPA.v).
Tie part:   every input runs in an isolated child of harness/src/bin/c13.rs (counting allocator, bounded stack,
            wall timeout); abi-cbor results are additionally compared with the model evaluated by vm_compute
            (class, error kind, decoded value, peak-allocation meter); all other decoders are exploration
            (oracle only: outcome must be value|error and peak <= C*len + C0).
"""
import os, json, struct, collections, time
import vf

PROP = "C13"
THEOREMS = ["dec_terminates", "dec_panic_only_capacity", "dec_no_panic", "dec_alloc_linear", "dec_depth_bounded",
            "dec_no_panic_any_guarded", "dec_alloc_linear_any_guarded", "dec_depth_bounded_any_guarded",
            "guard_transparent", "guard_only_removes",
            "dec_no_panic_refuted", "dec_alloc_linear_refuted", "dec_depth_bounded_refuted", "repo_cfg_known",
            "wsc_read_no_panic", "wsc_read_exact"]
PRE = ("From Coq Require Import List NArith ZArith.\nFrom Echo Require Import Base.Bytes Model.CborPA Model.WscReadPA.\n"
       "Import ListNotations.\nOpen Scope N_scope.\n")

CAP = 256 << 20          # child allocation cap (bytes above the baseline at call time)
STACK = 8 << 20          # child worker stack
ORACLE_C, ORACLE_C0 = 512, 64 << 10   # serde_value's BTreeMap node costs ~720 B per 3-byte CBOR map: ~300 B/byte is the honest DTO constant
TIMEOUT_MS = 30000     # CPU budget per input (a healthy decoder needs < 2 s CPU for 1 MiB in the debug profile, unloaded)
MODEL_MAX = 600          # inputs up to this many bytes are also run through the Coq model
ERR_SLACK = 512          # error-message strings are not charged by the model
NAN = 0x7ff8000000000000

# ----------------------------------------------------------------------------- CBOR building blocks

def head(major, n, width=None):
    """CBOR head; width None = minimal, else forced 0/1/2/4/8 argument bytes."""
    if width is None:
        width = 0 if n < 24 else 1 if n < 256 else 2 if n < 65536 else 4 if n < (1 << 32) else 8
    if width == 0:
        return bytes([(major << 5) | (n & 31)])
    info = {1: 24, 2: 25, 4: 26, 8: 27}[width]
    return bytes([(major << 5) | info]) + (n & ((1 << (8 * width)) - 1)).to_bytes(width, "big")


GOOD_FLOATS = [bytes.fromhex(h) for h in
               ["f93e00", "f9fe00", "f97c00", "f9fc00", "f97e00", "f90001", "f903ff", "f97bff", "f93555",
                "fa3f800001", "fa7f7fffff", "fa00000001", "fa47800000", "fa33000000", "fa477fe100",
                "fb3ff0000000000001", "fb7fefffffffffffff", "fb0000000000000001", "fb47efffffe0000001",
                "fb3fb999999999999a", "fbc010666666666666"]]
BAD_FLOATS = [bytes.fromhex(h) for h in
              ["f93c00", "f90000", "f98000", "f9c000", "f97e01", "f9fe00", "f97c01", "f97bff", "fa3fc00000", "fa7f800000",
               "fa7fc00000", "fa00000000", "fa3f800000", "fa4f000000", "fa7e800000", "fa7f000000", "fa38800000", "fa33800000",
               "fb3ff8000000000000", "fb7ff0000000000000", "fb7ff8000000000000", "fb7ff0000000000001",
               "fb3ff0000000000000", "fb47e0000000000000", "fbc7e0000000000000", "fb47e0000000000001", "fb47f0000000000000",
               "fb36a0000000000000", "fb3690000000000000", "fb3810000000000000", "fb380fffffffffffff", "fb47efffffe0000000",
               "fb8000000000000000", "fb4340000000000000", "fb4330000000000001", "fb7fe0000000000000"]]
UTF8 = [b"", b"a", "é".encode(), "€".encode(), "😀".encode(), b"\xc2", b"\xc0\x80", b"\xe0\x80\x80", b"\xed\xa0\x80",
        b"\xed\x9f\xbf", b"\xf4\x8f\xbf\xbf", b"\xf4\x90\x80\x80", b"\xf0\x8f\xbf\xbf", b"\xf0\x90\x80\x80", b"\xff",
        b"\xe2\x82", b"a\x80", b"\xf5\x80\x80\x80", b"\xee\x80\x80", b"\xef\xbf\xbf", b"\xe1\x80\xc0", b"\xf1\x80\x80\x80",
        b"\xf3\xbf\xbf\xbf", b"\xdf\xbf", b"\xc2\x7f"]
BIG = [0, 1, 23, 24, 255, 256, 65535, 65536, (1 << 32) - 1, 1 << 32, (1 << 40) - 1, 1 << 56, 1 << 57, (1 << 58) - 1,
       1 << 58, 1 << 59, (1 << 63) - 1, 1 << 63, (1 << 64) - 1, 1 << 20, 65537, 1 << 26, (1 << 26) + 1]


def gen_tree(rng, depth=0, maxdepth=4):
    """Random value tree encoded canonically for the ABI decoder; returns (bytes, head_offsets)."""
    k = rng.random()
    if depth >= maxdepth:
        k *= 0.6
    if k < 0.14:
        return head(0, rng.choice([0, 1, 23, 24, 255, 256, 65535, 65536, (1 << 32) - 1, 1 << 32, (1 << 64) - 1,
                                   rng.getrandbits(rng.choice([3, 8, 16, 32, 64]))])), [0]
    if k < 0.24:
        return head(1, rng.choice([0, 23, 24, 255, 256, (1 << 63) - 1, rng.getrandbits(rng.choice([4, 16, 40, 63]))])), [0]
    if k < 0.34:
        n = rng.choice([0, 1, 2, 5, 23, 24, 30])
        return head(2, n) + bytes(rng.getrandbits(8) for _ in range(n)), [0]
    if k < 0.46:
        s = b"".join(rng.choice(UTF8[:5] + [b"abc", b"key", b"kind", b"value"]) for _ in range(rng.randint(0, 4)))
        return head(3, len(s)) + s, [0]
    if k < 0.52:
        return rng.choice(GOOD_FLOATS), [0]
    if k < 0.60:
        return bytes([rng.choice([0xf4, 0xf5, 0xf6])]), [0]
    if k < 0.80:
        n = rng.choice([0, 1, 2, 3, 5, 24]) if depth < 2 else rng.randint(0, 3)
        out, offs = bytearray(head(4, n)), [0]
        for _ in range(n):
            b, o = gen_tree(rng, depth + 1, maxdepth)
            offs += [len(out) + x for x in o]
            out += b
        return bytes(out), offs
    n = rng.choice([0, 1, 2, 3, 4]) if depth < 2 else rng.randint(0, 2)
    ents = {}
    for _ in range(n):
        kb, ko = gen_tree(rng, depth + 1, min(maxdepth, depth + 2))
        vb, vo = gen_tree(rng, depth + 1, maxdepth)
        ents[kb] = (ko, vb, vo)
    out, offs = bytearray(head(5, len(ents))), [0]
    for kb in sorted(ents):
        ko, vb, vo = ents[kb]
        offs += [len(out) + x for x in ko]
        out += kb
        offs += [len(out) + x for x in vo]
        out += vb
    return bytes(out), offs


def mutate(rng, b, offs=None):
    b = bytearray(b)
    k = rng.random()
    if offs and k < 0.35 and b:
        # rewrite the head at a head position: same major, hostile argument / width / info
        o = rng.choice(offs)
        major = b[o] >> 5
        info = b[o] & 31
        old = 1 + {24: 1, 25: 2, 26: 4, 27: 8}.get(info, 0)
        m2 = major if rng.random() < 0.7 else rng.choice([2, 3, 4, 5])
        if rng.random() < 0.75:
            n = rng.choice(BIG)
            new = head(m2, n, rng.choice([None, None, 1, 2, 4, 8]) if n >= 24 else rng.choice([None, 1, 2, 4, 8]))
        else:
            new = bytes([(m2 << 5) | rng.choice([28, 29, 30, 31, 24, 25, 26, 27])])
        b[o:o + old] = new
    elif k < 0.5 and b:
        del b[rng.randrange(len(b)):]                       # truncated tail
    elif k < 0.62 and b:
        i = rng.randrange(len(b)); b[i] ^= 1 << rng.randrange(8)
    elif k < 0.72 and b:
        i = rng.randrange(len(b)); b[i] = rng.choice([0, 0x1f, 0x3f, 0x5f, 0x7f, 0x9f, 0xbf, 0xdf, 0xff, 0x80, 0xc0, rng.getrandbits(8)])
    elif k < 0.80:
        i = rng.randint(0, len(b)); b[i:i] = bytes(rng.getrandbits(8) for _ in range(rng.randint(1, 3)))
    elif k < 0.88 and len(b) > 1:
        i = rng.randrange(len(b)); j = min(len(b), i + rng.randint(1, 4)); del b[i:j]
    elif k < 0.94 and len(b) > 1:
        i = rng.randrange(len(b)); j = min(len(b), i + rng.randint(1, 8)); b[i:i] = b[i:j]
    else:
        b += bytes(rng.getrandbits(8) for _ in range(rng.randint(1, 4)))
    return bytes(b)


def adversarial_cbor():
    """Huge declared lengths at every head position kind, in every width, top-level and nested."""
    out = []
    for major in (2, 3, 4, 5):
        for n in BIG:
            for w in (None, 8):
                h = head(major, n, w)
                out += [h, b"\x81" + h, b"\xa1" + h, b"\xa1\x00" + h, b"\x82\x00" + h, h + b"\x00" * 3,
                        b"\x98\x19" + h, b"\x81\x81\x81" + h]
    for i in range(256):
        out.append(bytes([i]))
        out.append(bytes([i, 0]))
        out.append(bytes([i]) + b"\xff" * 8)
    return out


def deep_specs(full=True):
    """Deep nesting (impl only, compact spec form)."""
    out = []
    pats = (("81", "f6"), ("a100", "f6"), ("9f", "ff"), ("a1", "00"), ("d8", "00"), ("c1", "00"),
            ("9a00010000", "f6"), ("bb0000000000000001", "00"), ("5f", "ff"), ("7f", "ff"), ("8181a100", "f6"))
    for pat, tail in (pats if full else pats[:4]):
        for n in ((128, 129, 1000, 20000, 1048575) if full else (129, 2000, 1048575)):
            cnt = n // (len(pat) // 2) if n > 1000 else n
            out.append(f"{pat}*{cnt}+{tail}")
            if n >= 100000 and full:
                out.append(f"{pat}*{cnt}")
    return out


def eint(op, payload, lie=None):
    ln = len(payload) if lie is None else lie
    return b"EINT" + (op & 0xffffffff).to_bytes(4, "little") + (ln & 0xffffffff).to_bytes(4, "little") + payload


EINT_FAMILY = {"abi-env-intent": "any", "abi-env-control": "control", "abi-env-import": "import",
               "wasm-dispatch": "import", "wasm-control": "control"}


def eint_spec(op, inner_spec, inner_len):
    return (b"EINT" + op.to_bytes(4, "little") + inner_len.to_bytes(4, "little")).hex() + "+" + inner_spec


def expand_spec(sp):
    """bytes of a small input spec (no random parts), else None"""
    out = bytearray()
    for part in sp.split("+"):
        if part.startswith("r"):
            return None
        if "*" in part:
            h, c = part.split("*"); out += bytes.fromhex(h) * int(c)
        elif part != "-":
            out += bytes.fromhex(part)
    return bytes(out)


def LAYERED(dec):
    return dec.startswith("abi-dto-") or dec in ("abi-env-control", "abi-env-import", "wasm-observe", "wasm-control", "wasm-dispatch")


def payload_spec(dec, sp):
    """Input spec of the CBOR payload embedded in a layered decoder's input (None if there is none)."""
    if dec in EINT_FAMILY:
        first = sp.split("+", 1)
        if len(first[0]) < 24 or "*" in first[0] or first[0].startswith("r"):
            return None
        rest = first[0][24:]
        parts = ([rest] if rest else []) + first[1:]
        return "+".join(parts) if parts else "-"
    return sp


def spec_len(sp):
    n = 0
    for part in sp.split("+"):
        if part.startswith("r"):
            n += int(part.split("x")[1])
        elif "*" in part:
            h, c = part.split("*"); n += len(h) // 2 * int(c)
        elif part != "-":
            n += len(part) // 2
    return n


# ----------------------------------------------------------------------------- model side (abi-cbor only)

def model_term(b):
    return f"observe cfg_repo {vf.coq_bytes(list(b))}"


def render_tokens(flat):
    out, i = [], 0
    while i < len(flat):
        tag, z = flat[i]
        if tag in (2, 3):
            ln = z
            val = flat[i + 1][1]
            out.append(f"{tag}:{ln}:" + (val.to_bytes(ln, "big").hex() if ln else "-"))
            i += 2
            continue
        if tag == 8:
            out.append("8:nan" if z == NAN else "8:%016x" % z)
        elif tag == 1:
            out.append(f"0:{-1 - z}")
        else:
            out.append(f"{tag}:{z}")
        i += 1
    return ",".join(out)


def parse_obs(v):
    cls, flat, peak, dmax, idx = v
    if isinstance(cls, tuple):           # ("app", "OError", [e])
        kind, arg = cls[1], cls[2][0]
    else:
        kind, arg = cls, None
    return kind, arg, flat, peak, dmax, idx


def compare(impl, obs):
    """None when the implementation line agrees with the model observation, else a description."""
    kind, arg, flat, peak, dmax, _ = obs
    m = dict(t.split("=", 1) for t in impl.split() if "=" in t)
    cls, detail, ipeak = m.get("class"), m.get("detail", "-"), int(m.get("peak", "0"))
    if cls == "STACK":
        return None if dmax >= 1000 else f"impl STACK but model depth {dmax}"
    if kind == "OFuel":
        return "model ran out of fuel"
    if kind == "OPanic":
        if cls == "PANIC" and arg == "PCapacity" and detail.startswith("capacity_overflow"):
            return None
        return f"model Panic {arg} vs impl {cls} {detail}"
    if peak > CAP:
        return None if cls == "OOM" else f"model peak {peak} > cap but impl {cls}"
    if kind == "OValue":
        if cls != "value":
            return f"model value vs impl {cls} {detail}"
        if m.get("val", "") != render_tokens(flat):
            return f"values differ: impl {m.get('val', '')[:200]} model {render_tokens(flat)[:200]}"
        if ipeak != peak:
            return f"peak differs on value: impl {ipeak} model {peak}"
        return None
    if kind == "OError":
        if cls != "error" or detail != arg:
            return f"model error {arg} vs impl {cls} {detail}"
        if not (peak <= ipeak <= peak + ERR_SLACK):
            return f"peak differs on error: impl {ipeak} model {peak}"
        return None
    return f"unexpected model class {kind}"


# ----------------------------------------------------------------------------- WSC section reader (second modelled piece)

def gen_wsc_read(rng, n):
    out = []
    lens = [0, 1, 8, 15, 16, 17, 63, 64, 65, 128, 200]
    def pool(ln):
        return [0, 1, 2, 4, 7, 8, 9, 15, 16, 17, 32, 63, 64, max(ln - 1, 0), ln, ln + 1, ln // 16, ln // 64, ln // 16 + 1,
                (1 << 32) - 1, 1 << 32, (1 << 32) + 8, (1 << 60), (1 << 60) + 1, (1 << 58), (1 << 63), (1 << 63) - 8, (1 << 64) - 1,
                (1 << 64) - 8, (1 << 64) - 16, (1 << 64) - ln, ((1 << 64) - 1) // 16, ((1 << 64) - 1) // 16 + 1, ((1 << 64) - 1) // 64 + 1]
    for ln in lens:
        ps = [v & ((1 << 64) - 1) for v in pool(ln)]
        for off in ps[:20]:
            for cnt in (0, 1, 2, ln // 16, ln // 64, ps[rng.randrange(len(ps))]):
                out.append((off, cnt & ((1 << 64) - 1), ln))
    while len(out) < n:
        ln = rng.choice(lens)
        ps = [v & ((1 << 64) - 1) for v in pool(ln)]
        out.append((rng.choice(ps), rng.choice(ps), ln))
    return [("wsc-read", struct.pack("<QQ", o, c) + bytes(rng.getrandbits(8) for _ in range(ln))) for o, c, ln in out[:n]]


def wsc_model_term(val):
    f = dict(t.split(":", 1) for t in val.split(",")[:4])
    base, ln, off, cnt = int(f["base"]), int(f["len"]), int(f["off"]), int(f["cnt"])
    u = "(2 ^ 64 - 1)"
    return (f"(read_bytes_pa {u} {ln} {off} {cnt}, read_slice_pa {u} {ln} {base} {off} {cnt} 16 8, "
            f"read_slice_pa {u} {ln} {base} {off} {cnt} 64 1)")


def wsc_render(v):
    def one(r):
        if r == "RErrOob":
            return "oob"
        if r == "RErrCast":
            return "cast"
        if isinstance(r, tuple) and r[1] == "ROk":
            a, z = r[2]
            return f"ok:{a}:{z - a}"
        return "PANIC"
    return f"bytes:{one(v[0])},range:{one(v[1])},node:{one(v[2])}"


# ----------------------------------------------------------------------------- case generation

def hexs(b):
    return b.hex() if b else "-"


def gen_abi_small(rng, n, adv_cap=None):
    """Inputs <= MODEL_MAX for the model-tied decoder: (kind, bytes)."""
    out = []
    adv = adversarial_cbor()
    if adv_cap and len(adv) > adv_cap:
        adv = rng.sample(adv, adv_cap)      # quick tier: a seeded sample; thorough runs the whole set
    for b in adv:
        out.append(("adversarial", b))
    for f in GOOD_FLOATS + BAD_FLOATS:
        out += [("float", f), ("float", b"\x81" + f), ("float", f[:-1])]
    for s in UTF8:
        out += [("utf8", head(3, len(s)) + s), ("utf8", head(2, len(s)) + s), ("utf8", b"\xa1" + head(3, len(s)) + s + b"\x00")]
    for d in (1, 2, 5, 50, 127, 128, 129, 130, 200, 290):
        for pat, tail in ((b"\x81", b"\xf6"), (b"\xa1\x00", b"\xf6"), (b"\xa1", b"\x00"), (b"\x82\x00", b"\x00")):
            out.append(("nest", pat * (d if len(pat) == 1 else d) + tail))
    # maps: order, duplicates, nested keys (key copies)
    for ks in ([1, 2, 3], [3, 2, 1], [1, 1], [1, 2, 2], [24, 1], [1, 24], [255, 256]):
        out.append(("mapkeys", head(5, len(ks)) + b"".join(head(0, k) + b"\x00" for k in ks)))
    out.append(("mapkeys", bytes.fromhex("a2a10102 00 a10103 00".replace(" ", ""))))
    out.append(("mapkeys", bytes.fromhex("a2 6161 00 4161 00".replace(" ", ""))))
    out.append(("mapkeys", bytes.fromhex("a2 4161 00 6161 00".replace(" ", ""))))
    while len(out) < n:
        r = rng.random()
        if r < 0.12:
            out.append(("random", bytes(rng.getrandbits(8) for _ in range(rng.choice([0, 1, 2, 3, 4, 8, 9, 16, 33, 100])))))
        elif r < 0.3:
            b, _ = gen_tree(rng)
            out.append(("valid", b))
        else:
            b, offs = gen_tree(rng)
            for _ in range(rng.choice([1, 1, 1, 2, 3])):
                b = mutate(rng, b, offs); offs = None
            out.append(("mutated", b))
    return [(k, b) for k, b in out if len(b) <= MODEL_MAX]


def gen_generic(rng, dec, seeds, n, cborish, ops=None):
    """(kind, spec) for exploration decoders: random, seed mutations, CBOR adversarial, big."""
    out = []
    fam = EINT_FAMILY.get(dec)
    if fam and ops:
        op = {"control": ops["control_op"], "import": ops["import_op"], "any": 77}[fam]
        adv = adversarial_cbor()
        for b in adv[::max(1, len(adv) // 150)]:
            out.append(("eint-adversarial", hexs(eint(op, b))))
        for _ in range(n // 4):
            b, offs = gen_tree(rng)
            if rng.random() < 0.6:
                b = mutate(rng, b, offs)
            r = rng.random()
            lie = None if r < 0.8 else rng.choice([0, len(b) + 1, max(0, len(b) - 1), 0xffffffff, 0x7fffffff])
            o2 = op if rng.random() < 0.85 else rng.choice([0, 1, 0xffffffff, ops["control_op"], ops["import_op"]])
            out.append(("eint-cbor", hexs(eint(o2, b, lie))))
    for s in seeds:
        out.append(("seed", hexs(s)))
        for cut in sorted({0, 1, len(s) // 2, max(0, len(s) - 1)}):
            out.append(("truncated", hexs(s[:cut])))
    if cborish:
        adv = adversarial_cbor()
        step = max(1, len(adv) * 3 // max(1, n))
        for b in adv[::step]:
            out.append(("adversarial", hexs(b)))
    i = 0
    while len(out) < n:
        r = rng.random()
        if seeds and r < 0.7:
            s = rng.choice(seeds)
            b = s
            for _ in range(rng.choice([1, 1, 2, 3, 5])):
                b = mutate(rng, b)
            out.append(("mutated", hexs(b)))
        elif seeds and r < 0.8:
            # lying little-endian counts/offsets/lengths: overwrite an aligned u32/u64 field
            s = bytearray(rng.choice(seeds))
            if len(s) >= 8:
                w = rng.choice([4, 8])
                o = rng.randrange(0, len(s) - w + 1)
                if rng.random() < 0.7:
                    o -= o % 4
                v = rng.choice([0, 1, 0xffffffff, 0xfffffffe, 0x7fffffff, 0x80000000, (1 << 64) - 1, (1 << 63) - 1, 1 << 63,
                                len(s), len(s) + 1, len(s) - 1, 1 << 32, (1 << 56), rng.getrandbits(64)])
                s[o:o + w] = (v & ((1 << (8 * w)) - 1)).to_bytes(w, "little")
            out.append(("lying-field", hexs(bytes(s))))
        elif cborish and r < 0.9:
            b, offs = gen_tree(rng)
            if rng.random() < 0.7:
                b = mutate(rng, b, offs)
            out.append(("cbor", hexs(b)))
        else:
            ln = rng.choice([0, 1, 2, 3, 7, 8, 12, 16, 31, 32, 33, 64, 128, 129, 200, 1000])
            out.append(("random", hexs(bytes(rng.getrandbits(8) for _ in range(ln)))))
        i += 1
    return out


def big_specs(rng, dec, seeds, cborish, tier, ops=None):
    out = []
    fam = EINT_FAMILY.get(dec)
    if fam and ops:
        op = {"control": ops["control_op"], "import": ops["import_op"], "any": 77}[fam]
        for sp in deep_specs(False):
            out.append(("eint-deep", eint_spec(op, sp, spec_len(sp))))
    for ln in (4096, 65536, 1 << 20):
        out.append(("big-random", f"r{rng.getrandbits(32)}x{ln}"))
        out.append(("big-ff", f"ff*{ln}"))
        out.append(("big-00", f"00*{ln}"))
    for s in seeds[:3 if tier == "quick" else 12]:
        out.append(("seed+big-tail", f"{hexs(s)}+r{rng.getrandbits(32)}x{1 << 20}"))
        if len(s) > 4:
            out.append(("seed-prefix+big-tail", f"{hexs(s[:len(s) // 2])}+ff*{1 << 20}"))
    if cborish:
        # wide and flat: many tiny containers (allocation per container dominates)
        for n in (1000, 100000):
            out.append(("wide", head(4, n).hex() + f"+a10000*{n}"))
            out.append(("wide", head(4, n).hex() + f"+8100*{n}"))
        for sp in deep_specs(dec in ("abi-cbor", "edict", "scene-delta") or tier == "thorough"):
            out.append(("deep", sp))
        for m in ("5b", "7b", "9b", "bb", "5a", "7a", "9a", "ba"):
            out.append(("big-declared", f"{m}{'00' * (8 if m[1] == 'b' else 4)}"[:2] + ("0000000000100000" if m[1] == "b" else "00100000") + f"+00*{1 << 20}"))
    return out


# ----------------------------------------------------------------------------- run

def coq_eval_batched(tag, terms, k=40):
    """vm_compute has a fixed ~0.1 s cost per Eval: evaluate k terms per Eval as one Gallina list."""
    if not terms:
        return []
    groups = [terms[i:i + k] for i in range(0, len(terms), k)]
    vals = vf.coq_eval(tag, PRE, ["[" + "; ".join(g) + "]" for g in groups], shards=min(vf.NCPU, max(1, len(groups))))
    out = []
    for g, v in zip(groups, vals):
        if len(v) != len(g):
            raise vf.Broken(f"batched model evaluation returned {len(v)} values for {len(g)} terms")
        out += v
    return out


def harness_run(bins, tag, lines, extra=()):
    path = vf.write_cases(tag, lines)
    rc, out = vf.run_bin(bins["c13"], path, timeout=2400,
                         args=["--cap", str(CAP), "--stack", str(STACK), "--c", str(ORACLE_C), "--c0", str(ORACLE_C0),
                               "--timeout-ms", str(TIMEOUT_MS)] + list(extra))
    if rc:
        raise vf.Broken(f"harness c13 exited {rc}: {out[-800:]}")
    res = [l for l in out.splitlines() if l.startswith("dec=")]
    if len(res) != len(lines):
        raise vf.Broken(f"harness c13 produced {len(res)} lines for {len(lines)} cases")
    return res


def field(line, key, default=""):
    for t in line.split():
        if t.startswith(key + "="):
            return t[len(key) + 1:]
    return default


def run(tier, seed, replay=None):
    r = vf.Run(PROP, tier, seed, "proof")
    r.assumptions = [
        "Coq 8.16.1 kernel (coqc; vm_compute for refutation witnesses and the non-vacuity Examples); no axioms",
        "model = coq/Model/CborPA.v: echo-wasm-abi canonical.rs::decode_value with every panicking step, every allocation and the "
        "recursion depth explicit; tied by running the model (vm_compute) and the real decoder (isolated child, counting allocator) "
        "on the same inputs and comparing class, error kind, decoded value and peak bytes",
        "stack exhaustion and allocator abort are runtime effects: the theorems bound the model's depth/allocation meters, the tie "
        "checks exit status and measured peak of the real process (debug profile, 8 MiB stack, 256 MiB cap)",
        "all decoders other than abi-cbor (serde/ciborium DTOs, minicbor scene codec, WAL/WSC readers, warp-wasm boundary) are "
        "exploration only: isolated-child oracle, no model",
    ]
    r.cov["trusted_base"] = ["coqc 8.16.1 kernel + vm_compute", "python generator/comparator props/c13.py",
                             "harness c13.rs (counting GlobalAlloc, child re-exec, stderr classification)", "rustc debug profile"]
    t0 = time.time()
    r.proof_phase(THEOREMS)
    t1 = time.time()
    try:
        bins = vf.cargo_build(["c13"])
        r.phase("P3_build", ok=True)
    except vf.Broken as e:
        r.is_broken("harness-build", e)
        return r.finish()
    try:
        guarded = vf.coq_eval("c13cfg", PRE, ["is_guarded cfg_repo"])[0] == "true"
    except vf.Broken as e:
        r.is_broken("model-eval", e)
        return r.finish()
    r.cov["repo_model"] = "cfg_guarded" if guarded else "cfg_unguarded"

    rc, out = vf.sh([bins["c13"], "--list"], timeout=60)
    decoders = [l.strip() for l in out.splitlines() if l.strip()]
    rc, out = vf.sh([bins["c13"], "--seeds", str(seed)], timeout=300)
    seeds = collections.defaultdict(list)
    ops = None
    for l in out.splitlines():
        if l.startswith("meta "):
            ops = {k: int(v) for k, v in (t.split("=", 1) for t in l.split()[1:])}
        if l.startswith("seed "):
            m = dict(t.split("=", 1) for t in l.split()[1:])
            seeds[m["dec"]].append(bytes.fromhex(m["hex"]) if m["hex"] != "-" else b"")
    r.cov["decoders"] = decoders
    r.cov["seed_counts"] = {d: len(seeds[d]) for d in decoders}

    cases, kinds = [], []      # case lines, generator kind
    if replay:
        d = json.load(open(replay))
        if "case" in d.get("replay", {}):
            cases, kinds = [d["replay"]["case"]], ["replay"]
    else:
        for ln in vf.load_corpus(PROP):
            cases.append(ln); kinds.append("corpus")
        # model evaluation costs ~0.08 CPU-s per case: quick keeps ~1500 abi-cbor + <= 700 wsc-read model cases
        n_small = 1500 if tier == "quick" else 30000
        for k, b in gen_abi_small(r.rng, n_small, 500 if tier == "quick" else None):
            cases.append(f"dec=abi-cbor in={hexs(b)}"); kinds.append(k)
        if tier == "thorough":
            # exhaustive small universe: every input of at most two bytes, model vs implementation
            for x in range(256):
                for y in range(256):
                    cases.append(f"dec=abi-cbor in={bytes([x, y]).hex()}"); kinds.append("exhaustive-2")
        if "wsc-read" in decoders:
            for k, b in gen_wsc_read(r.rng, 500 if tier == "quick" else 12000):
                cases.append(f"dec=wsc-read in={hexs(b)}"); kinds.append(k)
        n_gen = 1200 if tier == "quick" else 8000
        for dname in decoders:
            cborish = dname.startswith(("abi-", "edict", "scene", "wasm"))
            if dname != "abi-cbor":
                for k, sp in gen_generic(r.rng, dname, seeds[dname], n_gen, cborish, ops):
                    cases.append(f"dec={dname} in={sp}"); kinds.append(k)
            for k, sp in big_specs(r.rng, dname, seeds[dname], cborish, tier, ops):
                cases.append(f"dec={dname} in={sp}"); kinds.append(k)
    t2 = time.time()
    try:
        impl = harness_run(bins, "c13", cases)
    except (vf.Broken, Exception) as e:
        r.is_broken("harness-run", e)
        return r.finish()
    t3 = time.time()

    # ---- P4: model vs implementation on abi-cbor (small inputs, given in plain hex)
    tied, tied_bytes = [], []
    for i, c in enumerate(cases):
        sp = field(c, "in")
        if field(c, "dec") == "abi-cbor" and spec_len(sp) <= MODEL_MAX:
            b = expand_spec(sp)
            if b is not None:
                tied.append(i); tied_bytes.append(b)
    differing = []
    try:
        obs = coq_eval_batched("c13", [model_term(b) for b in tied_bytes])
        mclass = collections.Counter()
        dhist = collections.Counter()
        for i, v in zip(tied, obs):
            o = parse_obs(v)
            mclass[o[0] + (":" + str(o[1]) if o[1] else "")] += 1
            dhist[min(o[4], 300) // 50 * 50] += 1
            d = compare(impl[i], o)
            if d:
                differing.append((i, d))
        r.cov["model_outcome_histogram"] = dict(sorted(mclass.items()))
        r.cov["model_depth_histogram"] = {f"{k}-{k + 49}": v for k, v in sorted(dhist.items())}
    except vf.Broken as e:
        r.is_broken("model-eval", e)
    # ---- P4b: WSC section reader vs Model/WscReadPA.v (base alignment reported by the harness)
    wtied = [i for i, l in enumerate(impl) if field(l, "dec") == "wsc-read" and field(l, "class") == "value"
             and field(l, "val").startswith("base:")]
    if tier == "quick" and len(wtied) > 700:
        wtied = sorted(r.rng.sample(wtied, 700))
    wdiff = 0
    for i, l in enumerate(impl):
        if field(l, "dec") == "wsc-read" and field(l, "class") not in ("value", "error"):
            differing.append((i, f"wsc-read: impl {field(l, 'class')} {field(l, 'detail')[:80]}; the model (wsc_read_no_panic) has no panic"))
    try:
        wobs = coq_eval_batched("c13wsc", [wsc_model_term(field(impl[i], "val")) for i in wtied], 100)
        whist = collections.Counter()
        for i, v in zip(wtied, wobs):
            got = ",".join(field(impl[i], "val").split(",")[4:])
            exp = wsc_render(v)
            whist[",".join(":".join(x.split(":")[:2]) for x in exp.split(","))] += 1
            if got != exp:
                wdiff += 1
                differing.append((i, f"wsc-read: impl {got} model {exp}"))
        r.cov["wsc_read_outcome_histogram"] = dict(sorted(whist.items()))
    except vf.Broken as e:
        r.is_broken("model-eval", e)
    for i, d in differing[:3]:
        r.is_broken("correspondence", f"model and implementation differ on: {cases[i]}\n impl : {impl[i][:300]}\n diff : {d}")
    r.phase("P4_correspondence", cases=len(tied) + len(wtied), differing=len(differing), abi_cbor=len(tied), wsc_read=len(wtied))
    r.cov["traces_validated_against_impl"] = len(tied) + len(wtied) - len(differing)

    # ---- P5: oracle on every decoder
    per = collections.defaultdict(collections.Counter)
    failing = 0
    worst = collections.defaultdict(lambda: (0.0, ""))
    fails = []
    for i, l in enumerate(impl):
        dname, cls, orc = field(l, "dec"), field(l, "class"), field(l, "oracle")
        per[dname][cls] += 1
        ln, pk = int(field(l, "len", "0")), int(field(l, "peak", "0"))
        ratio = pk / (ln + 1024.0)
        if ratio > worst[dname][0]:
            worst[dname] = (ratio, f"peak={pk} len={ln}")
        if orc != "ok":
            failing += 1
            fails.append(i)
    # Root-cause attribution: a decoder layered on decode_value (decode_cbor<T>, EINT control/import envelopes,
    # the warp-wasm boundary) that fails on an input whose embedded CBOR payload ALONE makes abi-cbor fail is
    # reported under abi-cbor's signature; anything else keeps its own <decoder>:<kind> signature.
    root = {}
    layered = [i for i in fails if LAYERED(field(impl[i], "dec"))]
    if layered:
        pay = {}
        for i in layered:
            sp = payload_spec(field(cases[i], "dec"), field(cases[i], "in"))
            if sp is not None:
                pay.setdefault(sp, []).append(i)
        try:
            rl = harness_run(bins, "c13root", [f"dec=abi-cbor in={sp}" for sp in pay])
            for sp, l in zip(pay, rl):
                if field(l, "oracle") != "ok":
                    for i in pay[sp]:
                        root[i] = field(l, "oracle").split(":", 1)[1]
        except vf.Broken as e:
            r.is_broken("harness-run", e)
    r.cov["failures_attributed_to_abi_cbor"] = len(root)
    for i in fails:
        l = impl[i]
        dname, cls, orc = field(l, "dec"), field(l, "class"), field(l, "oracle")
        ln, pk = int(field(l, "len", "0")), int(field(l, "peak", "0"))
        sig = root.get(i) or (orc.split(":", 1)[1] if ":" in orc else orc)
        via = f" (root cause abi-cbor, reached through {dname})" if i in root else ""
        r.violation(sig, f"{dname}: {cls} {field(l, 'detail')} on a {ln}-byte input (peak {pk}){via}",
                    {"case": cases[i], "impl": l[:400], "generator": kinds[i]})
    r.phase("P5_oracle", failing=failing)
    r.cov["evaluations"] = len(cases)
    r.cov["distinct_nontrivial"] = len({c for c, l in zip(cases, impl) if int(field(l, "len", "0")) >= 2})
    r.cov["rule"] = ("one evaluation = one (decoder, input) pair executed in an isolated child; non-trivial = distinct pairs with an "
                     "input of >= 2 bytes; abi-cbor inputs <= %d bytes are also evaluated on the Coq model and compared" % MODEL_MAX)
    r.cov["outcomes_per_decoder"] = {d: dict(c) for d, c in sorted(per.items())}
    r.cov["worst_peak_ratio_per_decoder"] = {d: v[1] for d, v in sorted(worst.items())}
    r.cov["generator_histogram"] = dict(collections.Counter(kinds))
    r.cov["oracle_bound"] = f"class in (value,error) and peak <= {ORACLE_C}*len + {ORACLE_C0}"
    r.cov["samples"] = [c[:300] for c in cases[:2] + cases[len(cases) // 2:len(cases) // 2 + 1]]
    r.cov["wall_breakdown_s"] = {"proof": round(t1 - t0, 1), "build+seeds+generate": round(t2 - t1, 1),
                                 "harness": round(t3 - t2, 1), "model+compare": round(time.time() - t3, 1)}
    return r.finish()


# F6 (abi-cbor:capacity-overflow / huge-alloc / deep-nesting) and abi-elog:huge-alloc are fixed in /repo (65efcf1, 8fdadfb);
# Model/CborPA.v: cfg_repo := cfg_guarded.  The oracle signatures stay armed.
MANIFEST = {
    "category": "proof",
    "text": ("Coq theorems (no axioms) over a panic-, allocation- and depth-aware executable model of the ABI canonical CBOR decoder "
             "(echo-wasm-abi canonical.rs::decode_value: every slice index, usize addition and Vec::with_capacity is a checked step "
             "that can yield Panic; live heap bytes and recursion depth are meters): for EVERY byte string the decoder terminates, "
             "never reaches an index/arithmetic/capacity panic, never holds more than 66 heap bytes per input byte and never recurses "
             "deeper than the nesting limit + 1; the element-budget/depth guard neither rejects nor adds any accepted value "
             "(guard_transparent, guard_only_removes); the decoder before the guard (/repo < 65efcf1) is refuted on all three counts by concrete witnesses that are replayed on every run. A second "
             "small model proves the WSC section reader (read_bytes/read_slice) panic-free and exact for every offset/count. Both models "
             "are tied to /repo by running them (vm_compute) and the real code on the same inputs: class, error kind, decoded value and the "
             "measured peak heap bytes (counting allocator) must agree. Every other decoder / reader / host entry point (55 entry points: "
             "serde DTOs, EINT envelopes, codec.rs Reader, ELOG, Edict, retained ingress, 16 WAL payload records, WAL segment recovery, "
             "WSC file/validator/store envelope, scene codec, materialization frames, warp-wasm dispatch/observe/control) is exercised "
             "with random, mutated-valid, lying-length and 1 MiB deep-nesting inputs, each in an isolated child process with a counting "
             "allocator, bounded stack and CPU budget; the oracle requires value|typed error and peak <= 512*len + 64 KiB."),
    "note": ("Proof level holds for the modelled code only (decode_value, wsc/read.rs range checks). Stack exhaustion and allocator abort "
             "are runtime effects: the theorems bound the model's depth/allocation meters, the tie checks exit status and measured peak of "
             "the real process (debug profile, 8 MiB stack, 256 MiB cap, 30 s CPU per input). All other decoders, including everything "
             "built on serde/ciborium/minicbor, are exploration (isolated-child oracle), not proof. Error-message strings (< 512 B) are "
             "not charged by the model. Trusted: Coq kernel + vm_compute, python generator/comparator, harness c13.rs (GlobalAlloc "
             "counter, child re-exec, stderr classification)."),
}
