"""C09 — a scheduler pass is all-or-nothing and strictly ordered."""
import os, json, itertools
import vf

PROP = "C09"
THEOREMS = ["pass_frame", "pass_atomic", "pass_fault_evidence_exact", "pass_success_shape", "pass_canonical_order",
            "rejection_is_receipt", "quarantine_local", "recovery_restores_runnable", "recovery_clears_runtime_fault",
            "runtime_wf_preserved",
            "correlation_rollback_exact"]
PRE = ("From Coq Require Import List NArith.\nFrom Echo Require Import Base.FinMap Model.Pass.\n"
       "Import ListNotations.\nOpen Scope N_scope.\n")
ERR = {1: "engine", 2: "frontier-overflow", 3: "global-overflow", 4: "provenance", 5: "unknown-head",
       6: "unknown-worldline", 7: "corr-mismatch", 8: "runtime-fault-active", 9: "gen-overflow", 10: "panic"}
# harness behaviour byte -> class of the model's table engine
BEH_CLASS = {0: 0, 1: 0, 2: 2, 3: 3, 4: 3, 5: 3}
KINDS = [2, 3, 4, 5, "cm", "pv"]          # failure kinds injected by the structured generator


def sh(n):
    return "%x" % n


def short(n):
    return ("%064x" % n)[:12]


# ----------------------------------------------------------------------------- cases

def render_case(worlds, heads, ops):
    hs = ";".join(f"{sh(w)}.{sh(h)}.{pol}" + (".p" if paused else "") for (w, h, pol, paused) in heads)
    return f"worlds={';'.join(sh(w) for w in worlds)} heads={hs} ops={','.join(ops)}"


def parse_case(line):
    m = dict(t.split("=", 1) for t in line.split())
    worlds = [int(x, 16) for x in m["worlds"].split(";")]
    heads = []
    for it in m["heads"].split(";"):
        f = it.split(".")
        heads.append((int(f[0], 16), int(f[1], 16), f[2], len(f) > 3 and f[3] == "p"))
    ops = [o for o in m.get("ops", "").split(",") if o and o != "-"]
    return worlds, heads, ops


ID_POOL = [1, 2, 3, 0xff, 0x100, (1 << 255), (1 << 256) - 1, (1 << 64), 7 << 200]


def gen_config(rng, nw=None, per=None):
    nw = nw or rng.choice([1, 1, 2, 2, 3])
    worlds = rng.sample(ID_POOL, nw)
    heads = []
    for w in worlds:
        n = per or rng.choice([1, 1, 2, 2, 3, 4])
        for h in rng.sample(ID_POOL + [5, 9, 0xabc], n):
            pol = rng.choice(["a", "a", "a", "a", "b1", "b2", "b0"])
            heads.append((w, h, pol, rng.random() < 0.04))
    rng.shuffle(heads)
    rng.shuffle(worlds)
    return worlds, heads


def canon_index(heads):
    """head indices in canonical (worldline, head) order"""
    return sorted(range(len(heads)), key=lambda i: (heads[i][0], heads[i][1]))


class Script:
    """Builds an op list while making sure one head never holds two different failing classes."""
    def __init__(self, rng, heads):
        self.rng, self.heads, self.ops = rng, heads, []
        self.tag = 0
        self.poison = {}          # head index -> failing beh already pending there
        self.ticket = 100
        self.faults = 0

    def fresh(self):
        self.tag = (self.tag + 1) % 250
        return self.tag

    def ok(self, h, ticketed=False, conflict=False, ticket=None):
        beh = 1 if conflict else 0
        if ticketed:
            self.ticket += 1
            self.ops.append(f"t{h}.{beh}.{self.fresh()}.{ticket if ticket is not None else self.ticket}")
        else:
            self.ops.append(f"i{h}.{beh}.{self.fresh()}")

    def fail(self, h, beh):
        cls = BEH_CLASS[beh]
        if h in self.poison and BEH_CLASS[self.poison[h]] != cls:
            beh = self.poison[h]
        self.poison.setdefault(h, beh)
        self.ops.append(f"i{h}.{beh}.{self.fresh()}")

    def passes(self, n=1):
        self.ops += ["p"] * n


def gen_structured(rng, worlds, heads, pos, kind, when, total=3, recover=True):
    """failure of `kind` at canonical position `pos`, in pass number `when` of `total`, then recovery and more passes"""
    s = Script(rng, heads)
    order = canon_index(heads)
    victim = order[pos % len(order)]
    for j in range(total):
        for h in range(len(heads)):
            for _ in range(rng.choice([1, 1, 2])):
                s.ok(h, ticketed=rng.random() < 0.3, conflict=rng.random() < 0.25)
        if j == when:
            if kind in (2, 3, 4, 5):
                s.fail(victim, kind)
            elif kind == "cm":
                # two staged submissions sharing one ticket digest: the second correlation is refused
                other = order[(pos - 1) % len(order)] if len(order) > 1 else victim
                s.ok(other, ticketed=True, ticket=77)
                s.ok(victim, ticketed=True, ticket=77)
            elif kind == "pv":
                if j == 0:
                    s.ok(victim)
                    s.passes()
                s.ops.append("x")
                s.ok(victim)
        s.passes()
    if recover:
        if rng.random() < 0.6:
            s.ops.append(f"e{victim}.0")
        s.ops.append("r1")
        for h in range(len(heads)):
            if rng.random() < 0.6:
                s.ok(h)
        s.passes(rng.choice([1, 2]))
        if rng.random() < 0.4:
            s.ops += ["r2", "r1", "r9"]
            s.passes()
    return render_case(worlds, heads, s.ops)


def gen_random(rng, tier):
    worlds, heads = gen_config(rng)
    s = Script(rng, heads)
    if rng.random() < 0.04:
        s.ops.append(f"g{rng.randrange(len(heads))}")       # crafted history: global tick = u64::MAX
    n = rng.randint(4, 14 if tier == "quick" else 24)
    for _ in range(n):
        x = rng.random()
        h = rng.randrange(len(heads))
        if x < 0.35:
            s.ok(h, ticketed=rng.random() < 0.3, conflict=rng.random() < 0.3,
                 ticket=(rng.choice([5, 6]) if rng.random() < 0.15 else None))
        elif x < 0.45:
            s.fail(h, rng.choice([2, 3, 4, 5]))
        elif x < 0.75:
            s.passes()
        elif x < 0.85:
            s.ops.append(f"r{rng.randint(1, 4)}")
        elif x < 0.93:
            s.ops.append(f"e{h}.{rng.randint(0, 1)}")
        elif x < 0.95:
            s.ops.append("x")
        else:
            # retry of something already offered (duplicate ingress)
            prev = [o for o in s.ops if o[0] in "it"]
            if prev:
                s.ops.append(rng.choice(prev))
    s.passes()
    return render_case(worlds, heads, s.ops)


def gen_cases(rng, tier):
    cases = []
    if tier == "quick":
        # every position x every kind on a sample of shapes; failure on first/middle/last pass
        for _ in range(6):
            worlds, heads = gen_config(rng)
            n = len(heads)
            for pos in range(n):
                kind = KINDS[(pos + len(cases)) % len(KINDS)]
                cases.append(gen_structured(rng, worlds, heads, pos, kind, rng.randrange(3)))
        for kind in KINDS:
            for when in range(3):
                worlds, heads = gen_config(rng, nw=2, per=2)
                for pos in range(4):
                    cases.append(gen_structured(rng, worlds, heads, pos, kind, when))
        cases += [gen_random(rng, tier) for _ in range(60)]
    else:
        for nw in (1, 2, 3):
            for per in (1, 2, 3, 4):
                for kind in KINDS:
                    for when in range(3):
                        worlds, heads = gen_config(rng, nw=nw, per=per)
                        for pos in range(len(heads)):
                            cases.append(gen_structured(rng, worlds, heads, pos, kind, when))
        cases += [gen_random(rng, tier) for _ in range(1200)]
    return cases


# ----------------------------------------------------------------------------- model side

class Ranks:
    """Order-preserving renaming of 256-bit ids to small numbers for the model run.  The model only compares ids
    (BTreeMap order = numeric order of the big-endian value), so evaluating it on ranks and printing the original
    ids back is exact; it keeps vm_compute, parsing and printing of 77-digit numerals out of the loop."""
    def __init__(self, worlds, heads, ids):
        self.w = {v: i + 1 for i, v in enumerate(sorted(set(worlds) | {h[0] for h in heads}))}
        self.h = {v: i + 1 for i, v in enumerate(sorted({h[1] for h in heads}))}
        self.i = {v: i + 1 for i, v in enumerate(sorted(set(ids)))}
        self.wi = {v: k for k, v in self.w.items()}
        self.hi = {v: k for k, v in self.h.items()}
        self.ii = {v: k for k, v in self.i.items()}

    def hk(self, w, h):
        return f"({self.w[w]},{self.h[h]})"


def to_term(line, ids):
    """ids: {(head index, beh, tag): ingress id as int} taken from the harness (`IngressEnvelope::ingress_id`)"""
    worlds, heads, ops = parse_case(line)
    rk = Ranks(worlds, heads, ids.values())
    tbl = {}
    terms = []
    for o in ops:
        c, f = o[0], o[1:].split(".")
        if c in "it":
            h, beh, tag = int(f[0]), int(f[1]), int(f[2])
            i = rk.i[ids[(h, beh, tag)]]
            tbl[i] = BEH_CLASS[beh]
            k = rk.hk(heads[h][0], heads[h][1])
            if c == "i":
                terms.append(f"OpIngest {k} {i}")
            else:
                terms.append(f"OpTicketed {k} {i} {int(f[3])}")
        elif c == "p":
            terms.append("OpPass")
        elif c == "r":
            terms.append(f"OpResolve {int(f[0])} {int(f[0])}")
        elif c == "e":
            h = int(f[0])
            terms.append(f"OpElig {rk.hk(heads[h][0], heads[h][1])} {'true' if f[1] == '1' else 'false'}")
        elif c == "x":
            terms.append("OpSwapProv")
        elif c == "g":
            h = int(f[0])
            i = rk.i[ids[(h, 0, 255)]]
            tbl[i] = 0
            terms.append(f"OpJumpGlobal {rk.hk(heads[h][0], heads[h][1])} {i}")
    t = ";".join(f"({i},{c})" for i, c in sorted(tbl.items()))
    ws = ";".join(str(rk.w[w]) for w in worlds)
    hs = ";".join(f"({rk.hk(w, h)},({'PAll' if pol == 'a' else 'PBudget ' + pol[1:]},{'true' if paused else 'false'}))"
                  for (w, h, pol, paused) in heads)
    return f"run_case [{t}] [{ws}] [{hs}] [{';'.join(terms)}]", rk


def head_str(k):
    return f"{sh(k[0])}.{sh(k[1])}"


def render_dump(v, rk):
    g, fronts, heads, faults, rtf, cors, ps, rq = v
    fronts = [(rk.wi[w], t, pl, [rk.ii[i] for i in st], [(rk.hi[h], rk.ii[i]) for (h, i) in cm]) for (w, t, pl, st, cm) in fronts]
    heads = [(rk.wi[kw], rk.hi[kh], [rk.ii[i] for i in pend], a, pa, fa) for (kw, kh, pend, a, pa, fa) in heads]
    faults = [(gen, (sc[0], (rk.wi[sc[1][0]], rk.hi[sc[1][1]])) if sc[0] == 0 else sc, st, ca) for (gen, sc, st, ca) in faults]
    cors = [(rk.wi[cw], rk.hi[ch], rk.ii[ci], ta, gt) for (cw, ch, ci, ta, gt) in cors]
    rq = [(rk.wi[w], rk.hi[h]) for (w, h) in rq]
    out = f"g={g}"
    for (w, tick, plen, state, comm) in fronts:
        ev = sorted({short(i) for i in state})
        cm = [f"{sh(h)}/{short(i)}" for (h, i) in comm]
        pl = str(plen[1]) if plen[0] == 1 else "x"
        out += f";W{sh(w)}={tick}:{pl}:{'+'.join(ev) or '-'}:{'+'.join(cm) or '-'}"
    for (kw, kh, pend, adm, paused, faulted) in heads:      # leftmost pairs print flattened
        k = (kw, kh)
        out += (f";H{head_str(k)}={'+'.join(short(i) for i in pend) or '-'}:{'a' if adm == 'true' else 'd'}"
                f"{'p' if paused == 'true' else ''}{'f' if faulted == 'true' else ''}")
    fl = []
    for (gen, scope, status, cause) in faults:
        sc = "h" + head_str(scope[1]) if scope[0] == 0 else "rt"
        st = "A" if status[0] == 0 else "R" + sh(status[1])
        fl.append(f"{gen}.{sc}.{st}.{ERR[cause]}")
    out += f";F={'+'.join(fl) or '-'}{'!' if rtf == 1 else ''}"
    cs = sorted((f"{head_str((cw, ch))}/{short(ci)}", f"@{ta}/{gt}") for (cw, ch, ci, ta, gt) in cors)
    out += f";C={'+'.join(a + b for a, b in cs) or '-'}"
    out += f";ps={ps}"
    out += f";rq={'+'.join(head_str(k) for k in rq) or '-'}"
    return out


def render_model(val, rk):
    toks = []
    steps, last = val
    for (kind, a, b, recs, vs) in steps:
        v = vs[0] if vs else None
        if kind == 0:
            toks.append({0: "A", 1: "D", 2: "E:unknown-head"}[a])
        elif kind == 1:
            first = {0: "A", 1: "D", 2: "E:unknown-head"}[a]
            second = {9: "-", 0: "S", 1: "D", 5: "R", 4: "T", 3: "U", 2: "E:unknown-head"}[b]
            toks.append(first + second)
        elif kind == 2:
            if a == 0:
                rs = "+".join(f"{head_str((rk.wi[r[0]], rk.hi[r[1]]))}={r[2]}@{r[3]}/{r[4]}" for r in recs) or "-"
                toks.append(f"P:ok:{rs}[{render_dump(v, rk)}]")
            else:
                toks.append(f"P:{ERR[a]}[{render_dump(v, rk)}]")
        elif kind == 3:
            toks.append({0: "R:ok", 1: "R:unknown", 2: "R:already"}[a])
        elif kind == 4:
            toks.append("E" if a == 0 else "e")
        elif kind == 5:
            toks.append("X")
        elif kind == 6:
            toks.append("G:ok" if a == 0 else "G:unknown-worldline")
    toks.append(f"END[{render_dump(last, rk)}]")
    return "|".join(toks)


def parse_ids(line):
    seg = line.split(" ", 1)[0]
    assert seg.startswith("ids=")
    ids = {}
    if seg != "ids=-":
        for it in seg[4:].split(";"):
            k, v = it.split(":")
            h, b, t = k.split(".")
            ids[(int(h), int(b), int(t))] = int(v, 16)
    return ids


VIEW_PRE = PRE + ("Definition stepv (s : step) := (st_head s, st_count s, st_tick_after s, st_gtick s).\n"
                  "Definition outv (o : oout) := let '(k, a, b, recs) := o in (k, a, b, map stepv recs).\n"
                  "Definition is_pass (o : oout) : bool := let '(k, _, _, _) := o in k =? 2.\n"
                  "(* the state is printed after every pass and at the end only (printing dominates the run time) *)\n"
                  "Definition run_view tbl ws hs ops :=\n"
                  "  let res := run_ops tstate (table_commit tbl) (fun id => [id]) (rt_init [] ws hs) ops in\n"
                  "  (map (fun os => (outv (fst os), if is_pass (fst os) then [view (snd os)] else [])) res,\n"
                  "   view (last (map snd res) (rt_init [] ws hs))).\n")


def both(tag, cases, bins):
    # the harness is run on chunks in parallel (each case is independent)
    import concurrent.futures
    nch = min(8, max(1, len(cases) // 40))
    chunks = [cases[i::nch] for i in range(nch)]
    def one(i):
        rc, out = vf.run_bin(bins["c09"], vf.write_cases(f"{tag}-{i}", chunks[i]), timeout=1500)
        if rc:
            raise vf.Broken(f"harness c09 exited {rc}: {out[-800:]}")
        ls = [l for l in out.splitlines() if l.startswith("ids=")]
        if len(ls) != len(chunks[i]):
            raise vf.Broken(f"harness c09 printed {len(ls)} lines for {len(chunks[i])} cases: {out[-600:]}")
        return ls
    with concurrent.futures.ThreadPoolExecutor(max_workers=nch) as ex:
        parts = list(ex.map(one, range(nch)))
    lines = [None] * len(cases)
    for i, part in enumerate(parts):
        for j, l in enumerate(part):
            lines[i + j * nch] = l
    if len(lines) != len(cases):
        raise vf.Broken(f"harness c09 printed {len(lines)} lines for {len(cases)} cases: {out[-600:]}")
    impl, oracle, stats, terms, rks = [], [], [], [], []
    for c, l in zip(cases, lines):
        body = l.split(" out=", 1)[1]
        impl.append(body.split(" fp=")[0])
        oracle.append(body.split(" oracle=")[1].split()[0] if " oracle=" in body else "FAIL:no-oracle")
        stats.append(dict(kv.split(":") for kv in body.rsplit(" stats=", 1)[1].split(",")) if " stats=" in body and "stats=-" not in body else {})
        t, rk = to_term(c, parse_ids(l))
        terms.append("run_view" + t[len("run_case"):])
        rks.append(rk)
    vals = vf.coq_eval(tag, VIEW_PRE, terms)
    model = [render_model(v, rk) for v, rk in zip(vals, rks)]
    return impl, model, oracle, stats


def run(tier, seed, replay=None):
    r = vf.Run(PROP, tier, seed, "proof")
    r.assumptions = [
        "Coq 8.16.1 kernel (coqc, vm_compute for the non-vacuity Examples); no axioms (Print Assumptions: closed)",
        "model = coq/Model/Pass.v: runtime record, canonical runnable order, partial checkpoint/restore, provenance length "
        "checkpoint, receipt-correlation rollback log, fault scoping/quarantine/recovery; the engine is an abstract "
        "commit function that may leave any state behind on failure",
        "PARTIAL: RuntimeCommitStateGuard (engine-side swap/restore on error and on unwind) is code, not model: it is "
        "exercised through fingerprint equality by the harness on every failing pass",
        "hash-derived identities (submission id, ticketed-ingress id, run id, fault id) are kept as preimages; ingress ids "
        "are read from IngressEnvelope::ingress_id (content addressing is C08's subject)",
        "GlobalTickOverflow IS produced through the public API (op g: restore_causal_runtime_history from a provenance "
        "service holding one real commit whose commit_global_tick was rewritten to u64::MAX). FrontierTickOverflow and a "
        "missing warp instance (EngineError::UnknownWarp) are modelled and proved but cannot be produced through the public "
        "API (frontier ticks come from history lengths, WorldlineState constructors validate the root instance): theorem "
        "only, plus the repository's own unit tests",
    ]
    r.cov["trusted_base"] = ["coqc 8.16.1 kernel + vm_compute", "python generator/renderer props/c09.py",
                             "harness c09.rs (abstraction: runtime/provenance/engine -> canonical dump and fingerprint)"]
    r.proof_phase(THEOREMS)
    if tier == "thorough" and not replay:
        import time, subprocess
        t1 = time.time()
        try:
            rc, out = vf.sh(["coqchk", "-o", "-silent", "-Q", vf.COQ, "Echo", "Echo.Props.C09"], timeout=1500)
            r.phase("P1b_coqchk", ok=(rc == 0), seconds=round(time.time() - t1, 1), tail=out[-300:])
            if rc:
                r.is_broken("coqchk", out[-1500:])
        except subprocess.TimeoutExpired as e:
            r.is_broken("coqchk", repr(e))
    if replay:
        d = json.load(open(replay))
        cases = [d["replay"]["case"]] if "case" in d.get("replay", {}) else []
    else:
        cases = vf.load_corpus(PROP) + gen_cases(r.rng, tier)
    try:
        bins = vf.cargo_build(["c09"])
        r.phase("P3_build", ok=True)
    except vf.Broken as e:
        r.is_broken("harness-build", e)
        return r.finish()
    try:
        impl, model, oracle, stats = both("c09", cases, bins)
    except vf.Broken as e:
        r.is_broken("correspondence-run", e)
        return r.finish()
    bad = vf.diff_lines(r, cases, impl, model)

    def sig_of(o):
        return "oracle:" + o.split(":", 1)[1].split(",")[0]

    def shrink_ops(case, still, rounds=80):
        worlds, heads, ops = parse_case(case)
        small = vf.shrink_list(ops, lambda cand: still(render_case(worlds, heads, cand)), max_rounds=rounds) if len(ops) <= 80 else ops
        return render_case(worlds, heads, small)

    seen = set()
    for i, o in enumerate(oracle):
        if o != "ok" and sig_of(o) not in seen:
            seen.add(sig_of(o))
            want = sig_of(o)
            def still(c):
                # the oracle needs the implementation only: no model run while shrinking
                rc, out = vf.run_bin(bins["c09"], vf.write_cases("c09shrink", [c]))
                ls = [l for l in out.splitlines() if l.startswith("ids=")]
                oo = ls[0].split(" oracle=")[1].split()[0] if ls and " oracle=" in ls[0] else "ok"
                return oo != "ok" and sig_of(oo) == want
            small = shrink_ops(cases[i], still)
            r.violation(want, f"implementation oracle failed: {o}", {"case": small, "oracle": o, "original": cases[i]})
    for i in bad[:1]:
        def still(c):
            a, b, _, _ = both("c09shrink", [c], bins)
            return a != b
        small = shrink_ops(cases[i], still, rounds=12)
        a, b, o, _ = both("c09shrink", [small], bins)
        r.is_broken("correspondence", f"model and implementation differ on: {small}\n impl : {a[0]}\n model: {b[0]}")
        if o[0] != "ok":
            r.violation(sig_of(o[0]), "oracle fails on shrunk disagreement", {"case": small, "oracle": o[0]})
    if (r.broken and not r.violations) and not replay:
        # P6 search: larger budget on the implementation's own oracle
        extra = gen_cases(r.rng, "thorough")[: 1500]
        path = vf.write_cases("c09search", extra)
        rc, out = vf.run_bin(bins["c09"], path)
        for c, l in zip(extra, [l for l in out.splitlines() if l.startswith("ids=")]):
            if " oracle=ok" not in l:
                o = l.split(" oracle=")[1].split()[0]
                r.violation(sig_of(o), "oracle failed during search", {"case": c, "oracle": o})
                break
        r.phase("P6_search", cases=len(extra))
    tot = lambda k: sum(int(s.get(k, 0)) for s in stats)
    r.cov["evaluations"] = len(cases)
    r.cov["distinct_nontrivial"] = len({c for c, s in zip(cases, stats) if int(s.get("failed", 0)) >= 1 and int(s.get("commits", 0)) >= 1})
    r.cov["rule"] = ("scripted runs of the real WorldlineRuntime/ProvenanceService/Engine (1-3 worldlines x 1-4 heads, inbox "
                     "budgets, ticketed submissions) through the public API and of the Coq model on the same script; "
                     "non-trivial = at least one failing pass AND at least one committed head in the same run; every pass is "
                     "fingerprinted before/after through public accessors by the harness; after every failing pass the harness also "
                     "runs probe passes (no head / each head dormant) on a pre-pass copy and on the recovered post-failure "
                     "runtime and requires identical results and fingerprints (hidden index / engine state)")
    r.cov["passes_on_impl"] = tot("passes")
    r.cov["failed_passes_on_impl"] = tot("failed")
    r.cov["head_commits_on_impl"] = tot("commits")
    r.cov["rejected_candidates_on_impl"] = tot("rejected")
    r.cov["hidden_state_probe_passes_on_impl"] = 2 * tot("probes")
    kinds = {}
    for l in impl:
        for t in l.split("|"):
            if t.startswith("P:"):
                k = t[2:].split("[")[0].split(":")[0]
                kinds[k] = kinds.get(k, 0) + 1
    r.cov["pass_outcome_histogram"] = dict(sorted(kinds.items()))
    shapes = {}
    for c in cases:
        w, h, _ = parse_case(c)
        k = f"{len(w)}w{len(h)}h"; shapes[k] = shapes.get(k, 0) + 1
    r.cov["shape_histogram"] = dict(sorted(shapes.items()))
    r.cov["traces_validated_against_impl"] = len(cases) - len(bad)
    r.cov["samples"] = cases[:3]
    r.phase("P4_correspondence", cases=len(cases), differing=len(bad))
    r.phase("P5_oracle", failing=sum(1 for o in oracle if o != "ok"))
    return r.finish()

MANIFEST = {
    "category": "proof",
    "text": ("Coq theorems (no axioms) over an executable model of SchedulerCoordinator::super_tick and its runtime: canonical "
             "runnable order, the partial pre-pass checkpoint (touched heads/frontiers, provenance lengths), restore, the "
             "receipt-correlation rollback log, fault scoping, quarantine and trusted recovery. Proved for EVERY engine "
             "(abstract commit that may leave garbage behind on failure): a pass that fails or unwinds at any head position, "
             "for any failure kind (also after provenance append / tick advance / half-written correlations), returns exactly "
             "the pre-pass runtime and provenance plus one correctly scoped fault (pass_frame, pass_atomic, "
             "pass_fault_evidence_exact, correlation_rollback_exact); a successful pass commits exactly the runnable heads with "
             "work in strictly ascending (worldline, head) order, +1 worldline tick per committed head, global tick +1 "
             "(pass_success_shape, pass_canonical_order); Ok commits with rejected candidates never fault (rejection_is_receipt); "
             "a faulted head is skipped and untouched until recovery without blocking others (quarantine_local, "
             "recovery_restores_runnable, recovery_clears_runtime_fault); well-formedness is an API invariant "
             "(runtime_wf_preserved). Tie: the real WorldlineRuntime/ProvenanceService/Engine are driven through the public API "
             "on generated scripts (1-3 worldlines x 1-4 heads, budgets, ticketed submissions; failure injected at every "
             "canonical position, kinds: typed engine error, executor panic, footprint violation, unauthorized instance op, "
             "correlation refusal, provenance tick gap, global tick overflow via crafted history; on first/middle/last pass; followed by recovery and further passes) "
             "and compared with the model line by line; independently the harness fingerprints runtime + provenance + engine "
             "through public accessors before/after every pass and checks all-or-nothing, order, tick arithmetic, receipts, "
             "quarantine and recovery on the implementation alone."),
    "note": ("Trusted: Coq kernel + vm_compute; python generator/renderer; harness c09.rs (dump and fingerprint functions). "
             "PARTIAL: the engine's RuntimeCommitStateGuard (swap/restore on error and on unwind via Drop) is code, not model - "
             "covered only by fingerprint equality; hash-derived ids are kept as preimages; the model run uses an "
             "order-preserving renaming of 256-bit ids. GlobalTickOverflow is reached through restore_causal_runtime_history with "
             "a crafted commit stamp; FrontierTickOverflow and a missing warp instance are modelled and proved but not "
             "producible through the public API (theorem + repository unit tests only)."),
}
