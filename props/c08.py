"""C08 — ingress is content-addressed, idempotent and order-free."""
import os, json, itertools
import vf

PROP = "C08"
THEOREMS = ['id_function_of_content', 'id_preimage_inj_per_domain', 'ingress_id_binds_content',
            'id_cross_domain_alias_refuted', 'ingest_order_free', 'ingest_order_free_ids',
            'ingest_target_spelling_refuted', 'ingest_retry_duplicate', 'admit_canonical', 'admit_arrival_order_free',
            'admit_partitioned_canonical', 'commit_dedupe_noop', 'registered_runtime_wf', 'pass_order_free',
            'at_most_once', 'retry_after_commit_duplicate', 'retry_while_pending_duplicate']

PRE = r"""From Coq Require Import List NArith.
From Echo Require Import Base.FinMap Base.Bytes Model.Inbox.
Import ListNotations.
Open Scope N_scope.
Definition tview (t : target) : N * N * bytes * N :=
  match t with TDefault wl => (0, wl, [], 0) | TNamed wl nm => (1, wl, nm, 0) | TExact wl hd => (2, wl, [], hd) end.
Definition bview (b : list (N * envelope)) : list (N * (N * N * bytes * N)) :=
  map (fun ie => (fst ie, tview (e_target (snd ie)))) b.
Definition dview (d : disposition) : N * hkey * N :=
  match d with
  | DAccepted h i => (0, h, i) | DDuplicate h i => (1, h, i) | DRejected h => (2, h, 0)
  | DMissingDefault => (3, (0, 0), 0) | DMissingInbox => (4, (0, 0), 0) | DUnknownHead => (5, (0, 0), 0)
  end.
Definition oview (o : out) : N * hkey * N * list (hkey * list N) :=
  match o with
  | OSubmit d => (dview d, [])
  | OPass bs => (6, (0, 0), 0, map (fun hb => (fst hb, map fst (snd hb))) bs)
  | OUnit true => (7, (0, 0), 0, [])
  | OUnit false => (8, (0, 0), 0, [])
  end.
Definition rview (r : reg_result) : N :=
  match r with RegOk => 0 | RegUnknownWorldline => 1 | RegDuplicateHead => 2 | RegDuplicateDefault => 3 | RegDuplicateInbox => 4 end.
Definition reg_all (worlds : list N) (hs : list (hkey * policy * option bytes * bool)) : runtime * list N :=
  fold_left (fun st h => let '(k, p, nm, d) := h in
                         let '(rt', r) := register_head (fst st) k p nm d in (rt', snd st ++ [rview r]))
            hs (rt_empty worlds, []).
Definition rt_case (tbl : list (bytes * N)) (worlds : list N) (hs : list (hkey * policy * option bytes * bool)) (ops : list op) :=
  let '(rt0, regs) := reg_all worlds hs in
  let '(rt1, outs) := run (table_hash tbl) rt0 ops in
  (regs, map oview outs,
   map (fun hs => (fst hs, bview (ib_pending (hs_inbox (snd hs))))) (rt_heads rt1),
   map fst (rt_committed rt1)).
Definition iview (o : ib_out) : N * list (N * (N * N * bytes * N)) :=
  match o with
  | IoSubmit Accepted => (0, []) | IoSubmit Duplicate => (1, []) | IoSubmit Rejected => (2, [])
  | IoAdmit b => (3, bview b) | IoUnit => (4, [])
  end.
Definition ib_case (tbl : list (bytes * N)) (p : policy) (ops : list ib_op) :=
  let '(ib1, outs) := ib_run (table_hash tbl) (inbox_new p) ops in
  (map iview outs, bview (ib_pending ib1)).
"""

M256 = (1 << 256) - 1


def hx(n):
    return "%x" % n


# --------------------------------------------------------------------------- case <-> text

def pol_str(p):
    if p[0] == "all":
        return "all"
    if p[0] == "kf":
        return ".".join(["kf"] + [hx(k) for k in p[1]])
    return "b.%d" % p[1]


def pol_parse(s):
    f = s.split(".")
    if f[0] == "all":
        return ("all",)
    if f[0] == "kf":
        return ("kf", [int(k, 16) for k in f[1:]])
    return ("b", int(f[1]))


def tgt_str(t):
    if t[0] == "d":
        return "d." + hx(t[1])
    if t[0] == "n":
        return "n.%s.%s" % (hx(t[1]), vf.hexb(t[2]))
    return "x.%s.%s" % (hx(t[1]), hx(t[2]))


def tgt_parse(s):
    f = s.split(".")
    if f[0] == "d":
        return ("d", int(f[1], 16))
    if f[0] == "n":
        return ("n", int(f[1], 16), [] if f[2] == "-" else list(bytes.fromhex(f[2])))
    return ("x", int(f[1], 16), int(f[2], 16))


def par_str(p):
    return ".".join([str(p[0])] + [hx(x) for x in p[1:]])


def par_parse(s):
    f = s.split(".")
    return tuple([int(f[0])] + [int(x, 16) for x in f[1:]])


def op_str(o):
    if o[0] == "s":
        return "s%d" % o[1]
    if o[0] == "p":
        return "p"
    if o[0] == "e":
        return "e%d.%d" % (o[1], o[2])
    return "q%d.%s" % (o[1], pol_str(o[2]))


def op_parse(t):
    if t == "p":
        return ("p",)
    if t[0] == "s":
        return ("s", int(t[1:]))
    h, r = t[1:].split(".", 1)
    if t[0] == "e":
        return ("e", int(h), int(r))
    return ("q", int(h), pol_parse(r))


def render_case(c):
    worlds = ";".join(hx(w) for w in c["worlds"]) or "-"
    heads = ";".join("%s:%s:%s:%d:%s" % (hx(h[0]), hx(h[1]), vf.hexb(h[2]) if h[2] is not None else "-", 1 if h[3] else 0,
                                          pol_str(h[4])) for h in c["heads"]) or "-"
    intents = ";".join("%s:%s:%s:%s" % (hx(i[0]), vf.hexb(i[1]), "+".join(par_str(p) for p in i[2]) or "-", tgt_str(i[3]))
                       for i in c["intents"]) or "-"
    ops = ",".join(op_str(o) for o in c["ops"]) or "-"
    tk = " tk=%d" % c["tk"] if c["mode"] == "restart" else ""
    return "mode=%s%s worlds=%s heads=%s intents=%s ops=%s perms=%s seed=%d" % (
        c["mode"], tk, worlds, heads, intents, ops, c["perms"], c["seed"])


def parse_case(line):
    m = dict(t.split("=", 1) for t in line.split())
    it = lambda s: [] if s in ("-", "") else s.split(";")
    heads = []
    for h in it(m["heads"]):
        f = h.split(":")
        heads.append((int(f[0], 16), int(f[1], 16), None if f[2] == "-" else list(bytes.fromhex(f[2])), f[3] == "1", pol_parse(f[4])))
    intents = []
    for i in it(m["intents"]):
        f = i.split(":")
        intents.append((int(f[0], 16), [] if f[1] == "-" else list(bytes.fromhex(f[1])),
                        [] if f[2] == "-" else [par_parse(p) for p in f[2].split("+")], tgt_parse(f[3])))
    ops = [] if m["ops"] == "-" else [op_parse(t) for t in m["ops"].split(",")]
    return {"mode": m["mode"], "worlds": [int(w, 16) for w in it(m["worlds"])], "heads": heads, "intents": intents,
            "ops": ops, "perms": m.get("perms", "0"), "seed": int(m.get("seed", "1")), "tk": int(m.get("tk", "1"))}


# --------------------------------------------------------------------------- case -> Gallina

def cN(n):
    return vf.coq_hexN(hx(n))


def c_pol(p):
    if p[0] == "all":
        return "AcceptAll"
    if p[0] == "kf":
        return "(KindFilter [%s])" % ";".join(cN(k) for k in p[1])
    return "(Budgeted %d)" % p[1]


def c_tgt(t):
    if t[0] == "d":
        return "(TDefault %s)" % cN(t[1])
    if t[0] == "n":
        return "(TNamed %s %s)" % (cN(t[1]), vf.coq_bytes(t[2]))
    return "(TExact %s %s)" % (cN(t[1]), cN(t[2]))


def c_par(p):
    return "(%s,(%s,(%s,(%s,(%s,(%s,(%s,%s)))))))" % (("true" if p[0] else "false",) + tuple(cN(x) for x in p[1:]))


def c_env(i):
    return "(mk_envelope %s %s %s [%s])" % (c_tgt(i[3]), cN(i[0]), vf.coq_bytes(i[1]), ";".join(c_par(p) for p in i[2]))


def preimage_term(c):
    return "[%s]" % ";".join("env_preimage %s" % c_env(i) for i in c["intents"])


def run_term(c, ids):
    # the hash table maps the model's own preimages to the real BLAKE3 digests computed from them
    tbl = "(combine (map env_preimage [%s]) [%s])" % (";".join("e%d" % k for k in range(len(c["intents"]))),
                                                      ";".join(cN(i) for i in ids))
    envs = " ".join("let e%d := %s in" % (k, c_env(i)) for k, i in enumerate(c["intents"]))
    if c["mode"] == "ib":
        ops = []
        for o in c["ops"]:
            if o[0] == "s":
                ops.append("IbSubmit e%d" % o[1])
            elif o[0] == "p":
                ops.append("IbAdmit")
            elif o[0] == "q":
                ops.append("IbSetPolicy %s" % c_pol(o[2]))
        return "%s ib_case %s %s [%s]" % (envs, tbl, c_pol(c["heads"][0][4]), ";".join(ops))
    heads = ";".join("((%s,%s),%s,%s,%s)" % (cN(h[0]), cN(h[1]), c_pol(h[4]),
                                             "None" if h[2] is None else "(Some %s)" % vf.coq_bytes(h[2]),
                                             "true" if h[3] else "false") for h in c["heads"])
    ops = []
    for o in c["ops"]:
        if o[0] == "s":
            ops.append("Submit e%d" % o[1])
        elif o[0] == "p":
            ops.append("Pass")
        elif o[0] == "e":
            h = c["heads"][o[1]]
            ops.append("SetElig (%s,%s) %s" % (cN(h[0]), cN(h[1]), "true" if o[2] else "false"))
        elif o[0] == "q":
            h = c["heads"][o[1]]
            ops.append("SetPolicy (%s,%s) %s" % (cN(h[0]), cN(h[1]), c_pol(o[2])))
    return "%s rt_case %s [%s] [%s] [%s]" % (envs, tbl, ";".join(cN(w) for w in c["worlds"]), heads, ";".join(ops))


# --------------------------------------------------------------------------- model value -> canonical line

def head_s(h):
    return "%s.%s" % (hx(h[0]), hx(h[1]))


def tview_s(t):
    tag, wl, nm, hd = t
    if tag == 0:
        return "d." + hx(wl)
    if tag == 1:
        return "n.%s.%s" % (hx(wl), vf.hexb(nm))
    return "x.%s.%s" % (hx(wl), hx(hd))


def bview_s(b):
    return "+".join("%s@%s" % (hx(i), tview_s(t)) for i, t in b)


def render_model(c, ids, val):
    idline = ",".join(hx(i) for i in ids) or "-"
    if c["mode"] == "ib":
        outs, pend = val
        toks = []
        for tag, b in outs:
            toks.append({0: "A", 1: "D", 2: "R", 4: "U1"}.get(tag) if tag != 3 else "P[%s]" % bview_s(b))
        h = c["heads"][0]
        p = "-" if not pend else "%s=%s" % (head_s((h[0], h[1])), bview_s(pend))
        return "ids=%s reg=o outs=%s pend=%s comm=-" % (idline, "|".join(toks) or "-", p)
    regs, outs, heads, comm = val
    reg = "".join("owhdi"[r] for r in regs) or "-"
    toks = []
    for o in outs:
        tag, h, i, bs = o
        if tag == 0:
            toks.append("A:%s:%s" % (head_s(h), hx(i)))
        elif tag == 1:
            toks.append("D:%s:%s" % (head_s(h), hx(i)))
        elif tag == 2:
            toks.append("R:%s" % head_s(h))
        elif tag in (3, 4, 5):
            toks.append({3: "MD", 4: "MI", 5: "UH"}[tag])
        elif tag == 6:
            toks.append("P[%s]" % ";".join("%s=%s" % (head_s(t[:2]), "+".join(hx(x) for x in t[2])) for t in bs))
        else:
            toks.append("U1" if tag == 7 else "U0")
    pend = ";".join("%s=%s" % (head_s(t[:2]), bview_s(t[2])) for t in heads if t[2]) or "-"
    byh = {}
    for k in comm:
        wl, hd, i = k
        byh.setdefault((wl, hd), []).append(i)
    cm = ";".join("%s=%s" % (head_s(h), "+".join(hx(i) for i in sorted(v))) for h, v in sorted(byh.items())) or "-"
    return "ids=%s reg=%s outs=%s pend=%s comm=%s" % (idline, reg, "|".join(toks) or "-", pend, cm)


# --------------------------------------------------------------------------- generators

NAMES = [list(b"orders"), list(b"a"), list(b"ab"), list(b"\xc3\xa9")]


def gen_parent(rng, worlds):
    return (rng.choice([0, 0, 0, 1]), rng.choice(worlds + [7]), rng.choice([0, 1, 2, (1 << 64) - 1]),
            rng.choice([0, 1, 5, (1 << 64) - 1]), rng.choice([0, 1, rng.getrandbits(256)]), rng.choice([0, 2, M256]),
            rng.choice([0, 3]), rng.choice([0, 4, rng.getrandbits(256)]))


def gen_pol(rng, kinds, n):
    r = rng.random()
    if r < 0.4:
        return ("all",)
    if r < 0.65:
        return ("kf", sorted(rng.sample(kinds, rng.randint(0, len(kinds)))))
    return ("b", rng.choice(list(range(0, n + 2)) + [1, 2, (1 << 32) - 1]))


def gen_rt(rng, tier, nmax=6):
    wpool = [1, 2, M256, rng.getrandbits(256), 1 << 255]
    worlds = rng.sample(wpool, rng.randint(1, 2))
    kinds = [0x11, rng.getrandbits(256), M256, 0]
    kinds = rng.sample(kinds, 3)
    n = rng.randint(1, nmax)
    hpool = [0xa, 0xb, rng.getrandbits(256), M256, 0]
    heads = []
    for _ in range(rng.randint(1, 4)):
        wl = rng.choice(worlds) if rng.random() < 0.93 else 9
        hd = rng.choice(hpool)
        nm = rng.choice(NAMES) if rng.random() < 0.5 else None
        heads.append((wl, hd, nm, rng.random() < 0.5, gen_pol(rng, kinds, n)))
    ppool = [gen_parent(rng, worlds) for _ in range(3)]

    def gen_target():
        r = rng.random()
        h = rng.choice(heads)
        if r < 0.3:
            return ("d", rng.choice(worlds) if rng.random() < 0.8 else h[0])
        if r < 0.55:
            return ("n", h[0], h[2] if (h[2] is not None and rng.random() < 0.85) else rng.choice(NAMES))
        if r < 0.95:
            return ("x", h[0], h[1])
        return ("x", rng.choice(worlds), 0x77)

    contents = []
    for _ in range(n):
        ln = rng.choice([0, 1, 1, 2, 3, 8, 12])
        b = [rng.randint(0, 255) for _ in range(ln)]
        if b and rng.random() < 0.5:
            b[0] |= 1
        ps = []
        if rng.random() < 0.25:
            ps = [rng.choice(ppool) for _ in range(rng.randint(1, 4))]
        contents.append((rng.choice(kinds), b, ps))
    intents = []
    for k, b, ps in contents:
        intents.append((k, b, ps, gen_target()))
        if rng.random() < 0.3:    # the same content again: other spelling / other head / re-cited parents
            ps2 = list(ps)
            rng.shuffle(ps2)
            if ps2 and rng.random() < 0.5:
                ps2.append(ps2[0])
            intents.append((k, b, ps2, gen_target()))
    # submissions with retries, passes and eligibility changes interleaved
    subs = []
    for i in range(len(intents)):
        subs += [i] * rng.choice([1, 1, 1, 2, 3])
    rng.shuffle(subs)
    ops = [("s", i) for i in subs]
    for _ in range(rng.randint(1, 3)):
        ops.insert(rng.randint(0, len(ops)), ("p",))
    if rng.random() < 0.3:
        h = rng.randrange(len(heads))
        ops.insert(rng.randint(0, len(ops)), ("e", h, 0))
        if rng.random() < 0.7:
            ops.insert(rng.randint(0, len(ops)), ("e", h, 1))
    # policy changes between passes (echo_verif hook verif_set_head_inbox_policy), with envelopes pending
    if rng.random() < 0.45:
        for _ in range(rng.choice([1, 1, 2, 3])):
            ops.insert(rng.randint(0, len(ops)), ("q", rng.randrange(len(heads)), gen_pol(rng, kinds, n)))
    ops += [("p",)] * rng.choice([0, 1, 2])
    return {"mode": "rt", "worlds": worlds, "heads": heads, "intents": intents, "ops": ops,
            "perms": "all" if tier == "thorough" or rng.random() < 0.5 else "12", "seed": rng.getrandbits(32)}


def gen_ib(rng, tier, nmax=6):
    kinds = rng.sample([0x11, rng.getrandbits(256), M256, 0], 3)
    n = rng.randint(1, nmax)
    intents = []
    ppool = [gen_parent(rng, [1, 2]) for _ in range(3)]
    for _ in range(n):
        b = [rng.randint(0, 255) for _ in range(rng.choice([0, 1, 2, 5]))]
        ps = [rng.choice(ppool) for _ in range(rng.randint(1, 3))] if rng.random() < 0.25 else []
        intents.append((rng.choice(kinds), b, ps, rng.choice([("d", 1), ("x", 1, 0xa), ("n", 1, list(b"a"))])))
        if rng.random() < 0.25:
            intents.append(intents[-1][:3] + (rng.choice([("d", 1), ("x", 1, 0xa)]),))
    subs = []
    for i in range(len(intents)):
        subs += [i] * rng.choice([1, 1, 2])
    rng.shuffle(subs)
    ops = [("s", i) for i in subs]
    for _ in range(rng.randint(1, 3)):
        ops.insert(rng.randint(0, len(ops)), ("p",))
    for _ in range(rng.choice([0, 1, 1, 2])):
        ops.insert(rng.randint(0, len(ops)), ("q", 0, gen_pol(rng, kinds, n)))
    ops.append(("p",))
    return {"mode": "ib", "worlds": [1], "heads": [(1, 0xa, None, True, gen_pol(rng, kinds, n))], "intents": intents,
            "ops": ops, "perms": "all", "seed": rng.getrandbits(32)}


def gen_swap(rng, rt):
    """policy swapped for another kind filter while envelopes are pending: every (old, new) relation - subset, superset,
    equal size with a dropped kind, larger with a dropped kind, disjoint - must evict exactly the envelopes the new filter rejects"""
    kinds = [0x11, 0x12, rng.getrandbits(256), M256]
    old = sorted(rng.sample(kinds, rng.randint(1, 3)))
    new = sorted(rng.sample(kinds, rng.randint(0, 4)))
    intents = []
    for _ in range(rng.randint(2, 5)):
        k = rng.choice(old) if rng.random() < 0.85 else rng.choice(kinds)
        intents.append((k, [rng.randint(0, 255) for _ in range(rng.choice([1, 2, 3]))], [], ("d", 1) if not rt else ("x", 1, 0xa)))
    ops = [("s", i) for i in range(len(intents))]
    rng.shuffle(ops)
    if rng.random() < 0.3:
        ops.insert(rng.randint(0, len(ops)), ("p",))
    ops.append(("q", 0, ("kf", new)))
    if rng.random() < 0.5:      # retries after the swap, and a second swap back
        ops += [("s", rng.randrange(len(intents))) for _ in range(rng.randint(1, 2))]
        if rng.random() < 0.5:
            ops.append(("q", 0, ("kf", old)))
    ops.append(("p",))
    return {"mode": "rt" if rt else "ib", "worlds": [1], "heads": [(1, 0xa, list(b"a") if rt else None, True, ("kf", old))],
            "intents": intents, "ops": ops, "perms": "12" if rt else "all", "seed": rng.getrandbits(32)}


def gen_exhaustive(rng, n, npass, pol):
    """all interleavings of `npass` passes with n submissions of n distinct intents (one head),
    the harness adds every arrival order inside each window."""
    kinds = [0x11, 0x12]
    intents = [(kinds[i % 2], [rng.randint(0, 255) for _ in range(rng.choice([1, 2, 3]))], [], ("d", 1)) for i in range(n)]
    out = []
    for pos in itertools.combinations_with_replacement(range(n + 1), npass):
        ops = []
        k = 0
        for i in range(n + 1):
            while k < npass and pos[k] == i:
                ops.append(("p",)); k += 1
            if i < n:
                ops.append(("s", i))
        ops.append(("p",))
        out.append({"mode": "rt", "worlds": [1], "heads": [(1, 0xa, list(b"a"), True, pol)], "intents": intents, "ops": ops,
                    "perms": "all", "seed": rng.getrandbits(32)})
    return out


# --------------------------------------------------------------------------- running both sides

def run_impl(tag, lines, bins):
    path = vf.write_cases(tag, lines)
    rc, out = vf.run_bin(bins["c08"], path, timeout=1500)
    if rc:
        raise vf.Broken(f"harness c08 exited {rc}: {out[-1200:]}")
    full = [l for l in out.splitlines() if l.startswith("ids=")]
    if len(full) != len(lines):
        raise vf.Broken(f"harness c08 printed {len(full)} lines for {len(lines)} cases: {out[-800:]}")
    impl = [l.split(" oracle=")[0] for l in full]
    meta = []
    for l in full:
        m = dict(t.split("=", 1) for t in l.split(" oracle=")[1].replace("FAIL:", "FAIL~").split() if "=" in t) if " oracle=" in l else {}
        orc = l.split(" oracle=")[1].split()[0] if " oracle=" in l else "FAIL:no-oracle"
        meta.append({"oracle": orc, "variants": int(m.get("variants", 0)), "f11": int(m.get("f11", 0)),
                     "commits": int(m.get("commits", 0))})
    return impl, meta


def py_preimage(i):
    """python mirror of Model/Inbox.v id_preimage, used only to obtain the digests in the same coqc round;
    run_model checks it byte-for-byte against the model's own env_preimage (a mismatch breaks the check)"""
    k, b, ps, _ = i
    ps = sorted(set(ps))
    be = lambda n, w: list(n.to_bytes(w, "big"))
    le = lambda n, w: list(n.to_bytes(w, "little"))
    if not ps:
        return list(b"ingress:") + be(k, 32) + list(b)
    out = list(b"ingress:causal:v2\0") + be(k, 32) + le(len(b), 8) + list(b) + le(len(ps), 8)
    for p in ps:
        out += list(b"contract-inverse-target\0" if p[0] else b"tick-receipt\0")
        out += be(p[1], 32) + le(p[2], 8) + le(p[3], 8) + be(p[4], 32) + be(p[5], 32) + be(p[6], 32) + be(p[7], 32)
    return out


def run_model(tag, cases):
    pres = [[py_preimage(i) for i in c["intents"]] for c in cases]
    flat = [vf.hexb(p) for ps in pres for p in ps]
    digs = vf.vfhash(flat) if flat else []
    k = 0
    terms, allids = [], []
    for c, ps in zip(cases, pres):
        ids = [int(digs[k + j], 16) for j in range(len(ps))]
        k += len(ps)
        terms.append("(%s, %s)" % (preimage_term(c), run_term(c, ids)))
        allids.append(ids)
    sh = 4 if len(cases) <= 400 else 8
    vals = vf.coq_eval(tag + "run", PRE, terms, shards=sh)
    out = []
    for c, ids, ps, v in zip(cases, allids, pres, vals):
        mp = [list(x) for x in v[0]]
        if mp != ps:
            raise vf.Broken("model preimage differs from the hashed preimage on " + render_case(c))
        out.append(render_model(c, ids, v[1]))
    return out


def both(tag, cases, bins):
    lines = [render_case(c) for c in cases]
    impl, meta = run_impl(tag, lines, bins)
    model = run_model(tag, cases)
    return lines, impl, model, meta


def shrink_case(c, still, rounds=60):
    """drop ops while `still(case)` holds"""
    cur = dict(c)
    cur["ops"] = vf.shrink_list(cur["ops"], lambda ops: still(dict(cur, ops=ops)), max_rounds=rounds)
    return cur


def sigs_of(orc):
    """"FAIL:a,b,c" -> ["a","b","c"] (harness flags are already stable names)"""
    return [] if orc == "ok" else orc.split(":", 1)[1].split(",")


def gen_restart(rng, tier, tk):
    c = gen_rt(rng, tier, 5)
    # every head registration valid, no eligibility games: restart is about committed_ingress
    c["mode"] = "restart"
    c["tk"] = tk
    c["ops"] = [o for o in c["ops"] if o[0] in ("s", "p")]
    c["perms"] = "6"
    return c


ALIAS_CASE = ("mode=ib worlds=1 heads=1:a:-:1:all intents="
              "63617573616c3a76320000000000000000000000000000000000000000000000:"
              + "00" * 18 + "0100000000000000" + "7469636b2d7265636569707400" + "00" * 176 + ":-:d.1;"
              "0:-:0.0.0.0.0.0.0.0:d.1 ops=s0,s1,p perms=all seed=1")


def run(tier, seed, replay=None):
    r = vf.Run(PROP, tier, seed, "proof")
    r.assumptions = [
        "Coq 8.16.1 kernel (coqc, vm_compute for Examples / refuted witnesses); no axioms (Print Assumptions: closed); BLAKE3 is a "
        "section variable H, never axiomatised; binding theorems conclude `... \\/ Collision H`",
        "model = coq/Model/Inbox.v (envelope, compute_ingress_id preimages, HeadInbox ingest/admit/admit_partitioned/set_policy, "
        "register_writer_head routing, resolve_target, WorldlineRuntime::ingest, super_tick admit/commit loop, committed_ingress, "
        "commit_with_state dedupe); tie = python generator + harness/src/bin/c08.rs on the real WorldlineRuntime + "
        "SchedulerCoordinator::super_tick + vm_compute of the model with a hash table of real BLAKE3 digests of the model's preimages",
        "not modelled: engine rule execution, provenance, receipt correlation, ticketed ingress, restore_* (exercised only, "
        "mode=restart), fault/rollback paths (C09), WAL recovery (C10); admit_partitioned is modelled and proved about but is "
        "pub(crate) and not exercised; runtime-level policy changes between passes go through the echo_verif hook "
        "WorldlineRuntime::verif_set_head_inbox_policy (HeadInbox::set_policy on a registered head) and are tied to the model's SetPolicy",
    ]
    r.cov["trusted_base"] = ["coqc 8.16.1 kernel + vm_compute", "python generator/renderer props/c08.py",
                             "harness c08.rs (abstraction: dispositions/pending/batches -> canonical line; pending read through "
                             "HeadInbox::clone + admit; committed_ingress probed by exact-head re-submission on a clone)",
                             "blake3 crate (vfhash)"]
    import time
    t0 = time.time()
    r.proof_phase(THEOREMS)
    tim = {"proof_s": round(time.time() - t0, 1)}
    if tier == "thorough" and not replay:
        try:
            t1 = time.time()
            rc, out = vf.sh(["coqchk", "-o", "-silent", "-Q", vf.COQ, "Echo", "Echo.Props.C08"], timeout=1500)
            r.phase("P1b_coqchk", ok=(rc == 0), seconds=round(time.time() - t1, 1), tail=out[-300:])
            if rc:
                r.is_broken("coqchk", out[-1500:])
        except Exception as e:
            r.is_broken("coqchk", repr(e))
    rcases = []
    if replay:
        d = json.load(open(replay))
        lines = [d["replay"]["case"]] if "case" in d.get("replay", {}) else []
        allc = [parse_case(l) for l in lines]
        cases = [c for c in allc if c["mode"] != "restart"]
        rcases = [c for c in allc if c["mode"] == "restart"]
    else:
        allc = [parse_case(l) for l in vf.load_corpus(PROP)]
        cases = [c for c in allc if c["mode"] != "restart"]
        rcases = [c for c in allc if c["mode"] == "restart"]
        nrt, nib, nrs = (60, 30, 12) if tier == "quick" else (900, 350, 160)
        for i in range(nrt):
            cases.append(gen_rt(r.rng, tier))
        for i in range(nib):
            cases.append(gen_ib(r.rng, tier))
        for i in range(24 if tier == "quick" else 400):
            cases.append(gen_swap(r.rng, i % 3 == 0))
        for i in range(nrs):
            rcases.append(gen_restart(r.rng, tier, 1 if i % 4 else 0))
        pols = [("all",), ("b", 0), ("b", 1), ("b", 2), ("kf", [0x11])]
        if tier == "quick":
            for pol in pols:
                cases += gen_exhaustive(r.rng, 3, 1, pol)
            cases += gen_exhaustive(r.rng, 4, 2, ("b", 2))
        else:
            for pol in pols + [("b", 3), ("b", 6)]:
                for n, k in [(3, 2), (4, 2), (5, 1), (6, 1)]:
                    cases += gen_exhaustive(r.rng, n, k, pol)
    try:
        tb = time.time()
        bins = vf.cargo_build(["c08", "vfhash"])
        tim["build_s_incl_shared_target_lock_wait"] = round(time.time() - tb, 1)
        r.phase("P3_build", ok=True)
    except vf.Broken as e:
        r.is_broken("harness-build", e)
        return r.finish()
    try:
        lines, impl, model, meta = both("c08", cases, bins) if cases else ([], [], [], [])
        rlines = [render_case(c) for c in rcases]
        rimpl, rmeta = run_impl("c08restart", rlines, bins) if rcases else ([], [])
    except vf.Broken as e:
        r.is_broken("correspondence-run", e)
        return r.finish()
    tim["impl_and_model_s"] = round(time.time() - tb - tim["build_s_incl_shared_target_lock_wait"], 1)
    r.cov["timings"] = tim
    bad = vf.diff_lines(r, lines, impl, model)
    # implementation-side oracle: one violation per stable signature, on a shrunk case
    first = {}
    for c, m in list(zip(cases, meta)) + list(zip(rcases, rmeta)):
        for sg in sigs_of(m["oracle"]):
            first.setdefault(sg, c)
    for sg, c in list(first.items())[:6]:
        def still(cand):
            _, mm = run_impl("c08shrink", [render_case(cand)], bins)
            return sg in sigs_of(mm[0]["oracle"])
        known = any(k.get("signature") == "oracle:" + sg for k in vf.known_findings(PROP))
        small = shrink_case(c, still) if not (replay or known) else c
        l = render_case(small)
        _, mm = run_impl("c08shrink", [l], bins)
        r.violation("oracle:" + sg, f"implementation oracle failed: {mm[0]['oracle']}", {"case": l, "oracle": mm[0]["oracle"]})
    for n, i in enumerate(bad[:3]):
        c = cases[i]
        def differs(cand):
            _, a, b, _ = both("c08shrink", [cand], bins)
            return a != b
        # each step costs a coqc run: shrink only the first disagreement, and only when no oracle violation already
        # gives a concrete failing input
        small = shrink_case(c, differs, 12) if not (replay or n or r.violations) else c
        l, a, b, mm = both("c08shrink", [small], bins)
        r.is_broken("correspondence", f"model and implementation differ on: {l[0]}\n impl : {a[0]}\n model: {b[0]}")
        for sg in sigs_of(mm[0]["oracle"]):
            r.violation("oracle:" + sg, "oracle fails on shrunk disagreement", {"case": l[0], "oracle": mm[0]["oracle"]})
    if (r.broken and not r.violations) and not replay:
        extra = [gen_rt(r.rng, "thorough", 7) for _ in range(600)] + [gen_ib(r.rng, "thorough", 7) for _ in range(200)] + \
                [gen_restart(r.rng, "thorough", 1) for _ in range(100)]
        el = [render_case(c) for c in extra]
        try:
            _, em = run_impl("c08search", el, bins)
            for l, m in zip(el, em):
                if m["oracle"] != "ok":
                    r.violation("oracle:" + sigs_of(m["oracle"])[0], "oracle failed during search", {"case": l, "oracle": m["oracle"]})
                    break
        except vf.Broken as e:
            r.is_broken("search-run", e)
        r.phase("P6_search", cases=len(extra))
    nontriv = {l for l, c in zip(lines, cases) if len(c["intents"]) >= 2 and any(o[0] == "p" for o in c["ops"])}
    r.cov["evaluations"] = len(cases) + len(rcases)
    r.cov["distinct_nontrivial"] = len(nontriv)
    r.cov["rule"] = ("scripted cases (runtime mode: 1-2 worldlines, 1-4 heads incl. invalid registrations, default/named/exact "
                     "routing incl. unresolvable targets, accept-all / kind-filter / budget 0..n+1 policies, causal parents, "
                     "respelled duplicates, retries, passes, eligibility and policy changes interleaved; inbox mode: bare HeadInbox with "
                     "policy changes between admits; exhaustive pass placements) run through harness and Coq model; non-trivial "
                     "= >=2 intents and >=1 pass; every case is re-run by the harness under all (product of window factorials "
                     "<=720) or sampled arrival orders, retry insertions and equivalent target spellings; restart cases "
                     "(restore_* APIs, ticketed and plain ingress) are oracle-only")
    r.cov["variant_runs_on_impl"] = sum(m["variants"] for m in meta) + sum(m["variants"] for m in rmeta)
    r.cov["commits_observed"] = sum(m["commits"] for m in meta)
    r.cov["restart_cases"] = {"ticketed": sum(1 for c in rcases if c["tk"]), "plain_ingest": sum(1 for c in rcases if not c["tk"]),
                              "commits_observed": sum(m["commits"] for m in rmeta)}
    r.cov["f11_cases_retained_envelope_order_dependent"] = sum(1 for m in meta if m["f11"])
    r.cov["f11_note"] = ("cases where the retained envelope (pending / witnessed-submission target spelling) depends on arrival "
                         "order while commits, receipts, state roots, pending ids and committed sets do not (DESIGN F11: "
                         "observable only in retained envelope material, never in commits)")
    # the cross-domain alias witness of id_cross_domain_alias_refuted, replayed on the real code
    for l, il in zip(lines, impl):
        if l == ALIAS_CASE:
            ids = il.split()[0].split("=", 1)[1].split(",")
            r.cov["cross_domain_alias_ids_equal_on_impl"] = (len(ids) == 2 and ids[0] == ids[1])
    r.cov["traces_validated_against_impl"] = len(cases) - len(bad)
    hist = {}
    for c in cases + rcases:
        k = "%s:%d" % (c["mode"], len(c["intents"]))
        hist[k] = hist.get(k, 0) + 1
    r.cov["intent_count_histogram"] = dict(sorted(hist.items()))
    disp = {}
    for l in impl:
        for t in l.split(" outs=")[1].split(" pend=")[0].split("|"):
            k = t.split(":")[0].split("[")[0]
            disp[k] = disp.get(k, 0) + 1
    r.cov["disposition_histogram"] = dict(sorted(disp.items()))
    pols = {}
    for c in cases:
        for h in c["heads"]:
            pols[h[4][0]] = pols.get(h[4][0], 0) + 1
    r.cov["policy_histogram"] = pols
    r.cov["samples"] = lines[:2] + rlines[:1]
    r.phase("P4_correspondence", cases=len(cases), differing=len(bad))
    r.phase("P5_oracle", failing=sum(1 for m in meta + rmeta if m["oracle"] != "ok"), restart_cases=len(rcases))
    return r.finish()


MANIFEST = {
    "category": "proof",
    "text": ("Coq theorems (no axioms; BLAKE3 is a section variable, binding results conclude `... or Collision H`) over an "
             "executable model of IngressEnvelope / compute_ingress_id (parentless and causal:v2 preimages), HeadInbox "
             "(ingest with first-wins entries, admit, admit_partitioned, set_policy eviction, all three policies), writer-head "
             "registration and target resolution (default / named / exact), WorldlineRuntime::ingest, the admit/commit loop of "
             "SchedulerCoordinator::super_tick with committed_ingress and commit_with_state's batch dedupe: the id is a function "
             "of kind, bytes and the SET of cited parents and is uniquely decodable per domain; any two submission sequences with "
             "the same set of envelopes (any order, any retries) leave the same inbox and the same runtime state, hence the same "
             "admitted batches (canonical ascending prefix of length min(budget, pending)) and commits for every continuation; "
             "for every op sequence no (head, ingress id) is committed twice and a retry while pending or after commit is a "
             "Duplicate that changes nothing. The model is tied to /repo by running it (vm_compute, hash table of real BLAKE3 "
             "digests of the model's own preimages) and the real WorldlineRuntime + SchedulerCoordinator::super_tick / bare "
             "HeadInbox on the same generated scripts and comparing ingress ids, registration results, dispositions, admitted batch "
             "order per pass, pending ids with retained target spelling and committed sets; the harness additionally checks the "
             "property itself on the implementation: equal StepRecords, tick receipts, patch digests, commit hashes and state roots "
             "under all (<=720) or sampled arrival orders per window, retry insertions and equivalent target spellings, exhaustive "
             "pass placements for small sets, no (head, id) committed twice, committed_ingress probed by re-submission, and "
             "retries after a restore_* restart (ticketed path) are duplicates."),
    "note": ("Trusted: Coq kernel + vm_compute; python generator/renderer (incl. a python mirror of the preimage that is checked "
             "byte-for-byte against the model's on every case); harness c08.rs; blake3 crate. Modelled rather than verified: "
             "head_inbox.rs, the ingress slice of coordinator.rs, committed_ingress, commit_with_state dedupe as Gallina functions. "
             "Not modelled (exercised only): engine rule execution, provenance, receipt correlation, ticketed ingress, restore_* "
             "(WAL recovery is C10, rollback is C09). admit_partitioned is pub(crate): modelled and proved about, not exercised. Policy "
             "changes of a registered head between passes (pending envelopes, budgets 0..n+1, kind filters) use the echo_verif hook "
             "WorldlineRuntime::verif_set_head_inbox_policy and are compared with the model's runtime-level SetPolicy; bare HeadInbox "
             "values are exercised as well. Refuted and documented: the id is not injective across the two domains "
             "for hand-made kinds (id_cross_domain_alias_refuted, replayed: equal real ids); the id does not cover the routing "
             "target and first-wins keeps an order-dependent retained envelope (ingest_target_spelling_refuted, DESIGN F11) - "
             "observable only in retained envelope material, never in commits/receipts/state roots (measured on every run). Known "
             "finding: restore_* forgets commits made through plain (unticketed) WorldlineRuntime::ingest."),
}
