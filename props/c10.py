"""C10 — what was acknowledged survives any crash; what was not is invisible.

Also hosts the machinery shared with C11 (props/c11.py imports this module): evaluating the Gallina
model coq/Model/Wal.v on the real segment bytes the harness produced.

BLAKE3 is a section variable in the model.  For execution it is instantiated with `tbl_hash tbl`, a
finite table holding the real blake3 value (computed by the `vfhash` binary = blake3 crate) of exactly
the preimages the model asks for (`Wal.queries`, iterated to a fixpoint); every other preimage gets an
out-of-band value.  A missing or wrong table entry can only make the model *disagree* with the
implementation (a visible correspondence failure), never agree by accident.
"""
import os, json, concurrent.futures
import vf

PROP = "C10"
THEOREMS = ["read_prefix", "frame_codec_roundtrip", "commit_codec_roundtrip", "recover_committed_log", "recover_prefix",
            "ack_durable_partial", "recover_idempotent"]

PRE = ("From Coq Require Import List NArith.\nFrom Echo Require Import Base.Bytes Model.Wal.\n"
       "Import ListNotations.\nOpen Scope N_scope.\n")
ERR_NAMES = {1: "store.digest", 2: "store.unknown_kind", 3: "decode.eof", 4: "decode.enum", 5: "decode.trailing",
             6: "decode.embedded", 7: "store.segment_mismatch", 8: "val.payload_digest", 9: "val.header_checksum",
             10: "val.frame_checksum", 11: "val.empty", 12: "val.txid", 13: "val.epoch", 14: "val.local_index",
             15: "val.lsn", 16: "val.first_lsn", 17: "val.last_lsn", 18: "val.count", 19: "val.root",
             20: "val.commit_digest"}


# --------------------------------------------------------------------------- model evaluation support
def hexbytes(b, chunk=1024):
    """Gallina term for a byte string: hex numerals of <= 1 KiB each (Coq's list notation parses
    quadratically, and its numeral parser overflows the stack on very long literals)"""
    b = bytes(b)
    parts = ["(bytes_of_hex %d 0x%s)" % (len(b[i:i + chunk]), b[i:i + chunk].hex()) for i in range(0, len(b), chunk)]
    if not parts:
        return "(@nil N)"
    return "(" + " ++ ".join(parts) + ")"


def fnv64(s):
    h = 0xcbf29ce484222325
    for b in s.encode():
        h ^= b
        h = (h * 0x100000001b3) & 0xFFFFFFFFFFFFFFFF
    return h


class HashTable:
    def __init__(self):
        self.d = {}          # preimage bytes -> digest int

    def add_missing(self, preimages):
        new = sorted({bytes(p) for p in preimages} - set(self.d))
        if new:
            hx = vf.vfhash([p.hex() for p in new])
            for p, h in zip(new, hx):
                self.d[p] = int(h, 16)
        return len(new)

    def term(self):
        buckets = {}
        for p, d in self.d.items():
            buckets.setdefault(len(p), []).append((p, d))    # Wal.fp = length
        items = []
        for k in sorted(buckets):
            es = ";".join("(%s,%d)" % (hexbytes(p), d) for p, d in sorted(buckets[k]))
            items.append("(%d,[%s])" % (k, es))
        return "[" + ";".join(items) + "]"


def build_table(tag, byte_strings, tbl=None, rounds=6):
    """Fills `tbl` with the real blake3 of every preimage `Wal.queries` asks for on the given inputs.
    `tbl.per_input[i]` = the preimages input i needs (for per-input sub-tables)."""
    tbl = tbl or HashTable()
    byte_strings = [bytes(b) for b in byte_strings]
    per = [set() for _ in byte_strings]
    for rnd in range(rounds):
        pre = PRE + "Definition tbl : list (N * list (bytes * N)) := %s.\n" % tbl.term()
        terms = ["queries (tbl_hash tbl) %s" % hexbytes(b) for b in byte_strings]
        vals = vf.coq_eval(f"{tag}-q{rnd}", pre, terms, shards=min(vf.NCPU, max(1, len(terms) // 3)), timeout=1700)
        for i, v in enumerate(vals):
            per[i].update(bytes(q) for q in v)
        qs = [bytes(q) for v in vals for q in v]
        if tbl.add_missing(qs) == 0:
            tbl.per_input = per
            return tbl
    raise vf.Broken("hash table for the WAL model did not reach a fixpoint")


def sub_table(tbl, preimages):
    t = HashTable()
    t.d = {p: tbl.d[p] for p in preimages if p in tbl.d}
    return t


def render_summary(s):
    """model summary -> (harness notation `ok/<n>/<tail>/<fnv>` | `err/<class>`, tx list string)"""
    (flag, code, lsn, txs) = s
    if flag == 1:
        return "err/" + ERR_NAMES.get(code, "unknown%d" % code), ""
    txl = ";".join("%064x:%064x:%d:%d:%d" % tuple(t) for t in txs)
    tail = {0: "C", 1: "N"}.get(code, "A%d" % lsn)
    return "ok/%d/%s/%016x" % (len(txs), tail, fnv64(txl)), txl


def expand_runs(runs):
    out = []
    for run in runs:                  # Coq prints ((a,b,c,d),n) as the flat tuple (a,b,c,d,n)
        *s, n = run
        out.extend([render_summary(tuple(s))[0]] * n)
    return out


def parse_rle(text):
    """`0-3=a,4-4=b` -> ['a','a','a','a','b']"""
    out = []
    if text in ("-", ""):
        return out
    for item in text.split(","):
        rng, val = item.split("=", 1)
        a, b = rng.split("-")
        out.extend([val] * (int(b) - int(a) + 1))
    return out


def kvline(line):
    return dict(t.split("=", 1) for t in line.split() if "=" in t)


def run_harness(binpath, tag, cases, shards=None, timeout=1500):
    """Runs the harness on the cases, sharded over processes; returns one output line per case."""
    if not cases:
        return []
    shards = shards or min(vf.NCPU, len(cases))
    chunks = [cases[i::shards] for i in range(shards)]

    def one(i):
        if not chunks[i]:
            return []
        path = vf.write_cases(f"{tag}-{i}", chunks[i])
        rc, out = vf.run_bin(binpath, path, timeout=timeout)
        lines = [l for l in out.splitlines() if l.startswith("case=")]
        if rc or len(lines) != len(chunks[i]):
            raise vf.Broken(f"harness exited {rc} with {len(lines)}/{len(chunks[i])} lines: {out[-600:]}")
        return lines
    with concurrent.futures.ThreadPoolExecutor(max_workers=shards) as ex:
        parts = list(ex.map(one, range(shards)))
    res = [None] * len(cases)
    for i, part in enumerate(parts):
        for j, l in enumerate(part):
            res[i + j * shards] = l
    return res


def oracle_failures(line):
    """-> list of (signature, detail) from `oracle=FAIL:sig[detail],sig2[detail2]`"""
    if " oracle=" not in line:
        return [("wal:no-oracle-verdict", line[:200])]
    o = line.rsplit(" oracle=", 1)[1].strip()
    if o == "ok":
        return []
    out = []
    body = o[5:] if o.startswith("FAIL:") else o
    depth, cur = 0, ""
    for ch in body:
        if ch == "[":
            depth += 1
        elif ch == "]":
            depth -= 1
        if ch == "," and depth == 0:
            out.append(cur); cur = ""
        else:
            cur += ch
    if cur:
        out.append(cur)
    return [(x.split("[", 1)[0], x) for x in out]


def model_on_variants(tag, seg_table_pairs, variant_terms):
    """seg_table_pairs: list of (seg bytes, HashTable); variant_terms: gallina terms using `seg<i>` / `tbl<i>`
    -> values.  Definitions go to the preamble (once per shard); a table shared by several segments is
    defined once."""
    pre = PRE
    names = {}
    for i, (seg, tbl) in enumerate(seg_table_pairs):
        if id(tbl) not in names:
            names[id(tbl)] = "tbl%d" % i
            pre += "Definition tbl%d : list (N * list (bytes * N)) := %s.\n" % (i, tbl.term())
        else:
            pre += "Definition tbl%d := %s.\n" % (i, names[id(tbl)])
        pre += "Definition seg%d : bytes := Eval vm_compute in %s.\n" % (i, hexbytes(seg))
    return vf.coq_eval(tag, pre, variant_terms, shards=min(vf.NCPU, max(1, len(variant_terms) // 4)), timeout=1700)


def prefix_model(tag, segs, ks_list):
    """Model result (harness notation) of recovering seg[:k] for every k in ks, per segment.  One evaluation
    batch per segment (its own small table), batches run concurrently."""
    tbl = build_table(tag, segs)
    out = [dict() for _ in segs]

    def one(i):
        ks = ks_list[i]
        if not ks:
            return
        sub = sub_table(tbl, tbl.per_input[i])
        step = max(8, min(300, -(-len(ks) // 4)))
        chunks = [ks[c:c + step] for c in range(0, len(ks), step)]
        terms = [f"rle (map (fun k => summarize (recover_segment (tbl_hash tbl0) 1 (firstn (N.to_nat k) seg0))) [{';'.join(map(str, ch))}])"
                 for ch in chunks]
        vals = model_on_variants(f"{tag}-pref{i}", [(segs[i], sub)], terms)
        for ch, v in zip(chunks, vals):
            flat = expand_runs(v)
            if len(flat) != len(ch):
                raise vf.Broken("model prefix evaluation returned a wrong number of results")
            for k, s in zip(ch, flat):
                out[i][k] = s
    with concurrent.futures.ThreadPoolExecutor(max_workers=4) as ex:
        list(ex.map(one, range(len(segs))))
    return out, tbl


# --------------------------------------------------------------------------- C10 cases
CORPUS_NOTE = "corpus/C10: minimal reproducers of the findings and boundary workloads"


def gen_cases(rng, tier):
    cases = []
    n_store = 3 if tier == "quick" else 14
    for i in range(n_store):
        ntx = rng.randint(1, 3 if tier == "quick" else 5)
        shape = ",".join(str(rng.choice([1, 1, 2, 3])) for _ in range(ntx))
        pay = ",".join(str(rng.choice([0, 1, 3, 8, 40, 200])) for _ in range(rng.randint(1, 3)))
        reopen = ""
        if ntx >= 2 and rng.random() < 0.5:
            reopen = " reopen=%d" % rng.randint(1, ntx - 1)
        fs = "all" if tier == "thorough" else "near"
        cases.append(f"mode=store seed={rng.getrandbits(32)} shape={shape} pay={pay} fs={fs}{reopen}")
    for i in range(1 if tier == "quick" else 4):
        ntx = rng.randint(2, 4)
        shape = ",".join(str(rng.choice([1, 2, 3])) for _ in range(ntx))
        cases.append(f"mode=rewrite seed={rng.getrandbits(32)} shape={shape} pay={rng.choice([2, 9, 60])} cut={rng.choice([1, 20, 60, 300])}")
    stride = 197 if tier == "quick" else 1
    cont = "bound" if tier == "quick" else "bound"
    fixed = ["s0,g0,t", "s0,s1,g0,g1,t", "s0,g0,t,R,s1,g1,t", "s0,Fa,s1,s2,Ff,g0,t,g0,t,Fc,s3",
             "s0,g0,t,K30,s1,g1,t,K1,s2", "s0,s1,R,g0,t,Fc,g1,t"]
    if tier == "quick":
        fixed = fixed[:5]
    for ops in fixed:
        cases.append(f"mode=host ops={ops} stride={stride} cont={cont} near={0 if tier == 'quick' else 1}")
    for i in range(1 if tier == "quick" else 10):
        cases.append(f"mode=host ops={gen_ops(rng, 3 if tier == 'quick' else 5)} stride={stride if tier == 'quick' else 7} cont={cont} near={0 if tier == 'quick' else 1}")
    return cases


def gen_ops(rng, nsub):
    """A mostly sensible submit/stage/tick workload with restarts, faults and kills sprinkled in."""
    ops, pending, staged = [], [], []
    nxt = 0
    for _ in range(rng.randint(3, 3 + 2 * nsub)):
        r = rng.random()
        if r < 0.4 and nxt < nsub:
            ops.append(f"s{nxt}"); pending.append(nxt); nxt += 1
        elif r < 0.6 and pending:
            i = pending.pop(0); ops.append(f"g{i}"); staged.append(i)
        elif r < 0.8 and staged:
            ops.append("t"); staged.clear()
        elif r < 0.86:
            ops.append("R")
        elif r < 0.93 and nxt < nsub:
            ops.append(rng.choice(["Fa", "Ff", "Fc"])); ops.append(f"s{nxt}"); nxt += 1
        elif ops and ops[-1][0] in "st":
            ops.append("K%d" % rng.choice([1, 33, 300, 2000]))
    if staged:
        ops.append("t")
    return ",".join(ops) or "s0"


def table_tie():
    """P2: the table-shaped parts of the model regenerated from the source of /repo and compared:
    WalRecordKind code -> label, the hash domain strings, the segment record magic."""
    import re
    src = open(os.path.join(vf.REPO, "crates/warp-core/src/causal_wal.rs")).read()
    body = src[src.index("impl WalRecordKind {"):]
    labels = dict(re.findall(r'Self::(\w+)\s*=>\s*(?:\{\s*)?"(\w+)"', body[body.index("pub const fn label"):body.index("pub const fn required_authority")]))
    codes = dict(re.findall(r"Self::(\w+)\s*=>\s*(\d+),", body[body.index("pub const fn stable_code"):body.index("fn from_code")]))
    want = {int(c): labels[k] for k, c in codes.items()}
    consts = dict(re.findall(r'const (WAL_\w+): &\[u8(?:; \d+)?\] =\s*b"([^"]*)";', src))
    names = [("dom_frame", "WAL_FRAME_DOMAIN"), ("dom_payload", "WAL_PAYLOAD_DOMAIN"), ("dom_root", "WAL_RECORDS_ROOT_DOMAIN"),
             ("dom_commit", "WAL_COMMIT_DOMAIN"), ("dom_hdr", "WAL_HEADER_CHECKSUM_DOMAIN"), ("dom_fchk", "WAL_FRAME_CHECKSUM_DOMAIN"),
             ("dom_disk", "WAL_DISK_RECORD_DOMAIN"), ("magic", "WAL_SEGMENT_RECORD_MAGIC")]
    terms = ["map kind_label [%s]" % ";".join(str(c) for c in sorted(want))] + [n for n, _ in names]
    vals = vf.coq_eval("c10-tables", PRE, terms, shards=1)
    bad = []
    for c, v in zip(sorted(want), vals[0]):
        if bytes(v).decode() != want[c]:
            bad.append(f"kind_label {c}: model={bytes(v).decode()!r} source={want[c]!r}")
    if len(want) != 31:
        bad.append(f"WalRecordKind has {len(want)} codes in the source, the model has 31")
    for (n, cname), v in zip(names, vals[1:]):
        raw = consts.get(cname)
        if raw is None:
            bad.append(f"constant {cname} not found in the source"); continue
        exp = raw.replace("\\0", "\0").encode()
        if bytes(v) != exp:
            bad.append(f"{n}: model={bytes(v)!r} source={exp!r}")
    return len(want) + len(names), bad


def sample_ks(n, ends, tier):
    """byte lengths at which the MODEL is evaluated (the implementation is evaluated at every length)"""
    if tier == "thorough" or n <= 2000:
        return list(range(n + 1))
    ks = set(range(0, n + 1, 197)) | {0, 1, n}
    for e in ends:
        for d in (-1, 0, 1, 17, 49):     # around the record end; after the next header; inside the next payload
            if 0 <= e + d <= n:
                ks.add(e + d)
    return sorted(ks)


def run(tier, seed, replay=None):
    r = vf.Run(PROP, tier, seed, "proof")
    r.assumptions = [
        "Coq 8.16.1 kernel (coqc, vm_compute); no axioms; the hash is a section variable (theorems hold for every hash function)",
        "model = coq/Model/Wal.v (disk records, frame/commit codecs and integrity, recovery, truncation rewrite, writer); "
        "tie = vm_compute of the model on the real segment bytes with blake3 supplied as a finite table of real digests",
        "crash model: byte prefix of the active segment + the writer-epoch ledger version that can coexist with it "
        "(ledger/manifest are atomically replaced files: old or new); fsync/rename/directory durability of the OS are assumed",
        "the trusted host (submission/tick payload semantics, provenance replay, contract packages) is exercised by the "
        "implementation-side oracle on the real TrustedRuntimeHost, not modelled",
    ]
    r.cov["trusted_base"] = ["coqc 8.16.1 kernel + vm_compute", "props/c10.py (generator, table-of-real-digests instantiation of H, renderer)",
                             "harness c10.rs (workloads, crash-state construction, abstraction of host state to Obs)", "blake3 crate"]
    r.proof_phase(THEOREMS)
    if replay:
        d = json.load(open(replay))
        cases = [d["replay"]["case"]] if "case" in d.get("replay", {}) else []
    else:
        cases = vf.load_corpus(PROP) + gen_cases(r.rng, tier)
    try:
        bins = vf.cargo_build(["c10", "vfhash"])
        r.phase("P3_build", ok=True)
    except vf.Broken as e:
        r.is_broken("harness-build", e)
        return r.finish()
    try:
        lines = run_harness(bins["c10"], "c10", cases)
    except (vf.Broken, Exception) as e:
        r.is_broken("harness-run", e)
        return r.finish()
    # P2: table-shaped parts of the model against the source
    try:
        ntab, bad = table_tie()
        r.phase("P2_tables", compared=ntab, differing=len(bad))
        for b in bad[:3]:
            r.is_broken("tables", b)
    except (vf.Broken, Exception) as e:
        r.is_broken("tables", repr(e))
    # P5: implementation-side oracle
    nfail = 0
    for c, l in zip(cases, lines):
        for sig, detail in oracle_failures(l):
            nfail += 1
            r.violation(sig, f"{detail} on case `{c}`", {"case": c, "oracle": detail})
    r.phase("P5_oracle", failing=nfail, cases=len(cases))
    # P4: model vs implementation on the real bytes
    checked = differing = 0
    try:
        seg_cases = [(c, kvline(l)) for c, l in zip(cases, lines) if " seg=" in l and " pref=" in l]
        segs = [bytes.fromhex(m["seg"]) if m["seg"] != "-" else b"" for _, m in seg_cases]
        endss = [[int(x.split(":")[0]) for x in m["ends"].split(",")] if m.get("ends", "-") != "-" else [] for _, m in seg_cases]
        ks_list = [sample_ks(len(s), e, tier) for s, e in zip(segs, endss)]
        if tier == "quick":
            # the model is evaluated on the small (store-level) segments at every length and on the two
            # smallest host segments at the sampled lengths; the implementation side covers every length
            # of every segment
            order = sorted(range(len(segs)), key=lambda i: len(segs[i]))
            keep = set(order[:6])
            ks_list = [ks if i in keep else [] for i, ks in enumerate(ks_list)]
        sel = [i for i, ks in enumerate(ks_list) if ks]
        sub_model, tbl = prefix_model("c10", [segs[i] for i in sel], [ks_list[i] for i in sel]) if sel else ([], HashTable())
        model = [dict() for _ in segs]
        for i, mm in zip(sel, sub_model):
            model[i] = mm
        r.cov["model_evaluated_on_segments"] = [len(segs[i]) for i in sel]
        for (c, m), seg, ks, mod in zip(seg_cases, segs, ks_list, model):
            impl = parse_rle(m["pref"])
            for k in ks:
                checked += 1
                if impl[k] != mod[k]:
                    differing += 1
                    if differing <= 3:
                        r.is_broken("correspondence", f"recover(seg[:{k}]) impl={impl[k]} model={mod[k]} on `{c}`")
        # the truncation rewrite, byte for byte, and the states of a kill during it
        rw = [(c, kvline(l)) for c, l in zip(cases, lines) if l.split()[1] == "mode=rewrite" and " repaired=" in l]
        if rw:
            d = rewrite_model(rw)
            checked += d[0]; differing += d[1]
            for msg in d[2][:3]:
                r.is_broken("correspondence", msg)
    except (vf.Broken, Exception) as e:
        r.is_broken("correspondence-run", repr(e))
    r.phase("P4_correspondence", evaluations=checked, differing=differing)
    # evidence
    hosts = [kvline(l) for l in lines if " reopened=" in l]
    stores = [kvline(l) for l in lines if " fschecked=" in l]
    r.cov["evaluations"] = checked
    r.cov["crash_points_recovered_from_bytes"] = sum(int(m["len"]) + 1 for m in hosts + stores)
    r.cov["store_reopen_recover_continue_runs"] = sum(int(m["fschecked"]) for m in stores)
    r.cov["host_reopens_after_crash"] = sum(int(m["reopened"]) for m in hosts)
    r.cov["host_continuations_compared"] = sum(int(m["continued"]) for m in hosts)
    r.cov["distinct_nontrivial"] = len({m["seg"] for m in hosts + stores if m["seg"] != "-"})
    r.cov["rule"] = ("a case = one generated workload (store-level transactions built by the real builders, or submit/stage/tick/"
                     "restart/fault/kill sequences on the real TrustedRuntimeHost); non-trivial = distinct non-empty segment; "
                     "every byte length of every segment is recovered by recover_wal_segment_bytes; the filesystem store / host are "
                     "reopened on truncated copies (all lengths in thorough, boundaries +-2 and a stride in quick) with every "
                     "coexisting ledger version, twice (idempotence), and continued")
    r.cov["segment_lengths"] = sorted(int(m["len"]) for m in hosts + stores)
    r.cov["host_op_logs"] = [m.get("log", "") for m in hosts][:12]
    r.cov["traces_validated_against_impl"] = checked - differing
    r.cov["samples"] = cases[:4]
    return r.finish()


def rewrite_model(rw):
    """model `repair` = the real rewrite output byte for byte; recoveries of the kill states agree."""
    checked = differing = 0
    msgs = []
    segs = []
    for _, m in rw:
        segs.append(bytes.fromhex(m["cutseg"]) if m["cutseg"] != "-" else b"")
        segs.append(bytes.fromhex(m["repaired"]) if m["repaired"] != "-" else b"")
    tbl = build_table("c10rw", segs)
    pairs = [(s, tbl) for s in segs]
    terms = []
    for i, (c, m) in enumerate(rw):
        # what the interrupted repair left on disk: a prefix of the file it was writing (the segment is unlinked
        # first - the code as it is now), or the old segment (an atomic replace)
        stops = [int(x) for x in m["stops"].split(",")]
        ondisk = m["ondisk"].split(",")
        parts = []
        for c0, od in zip(stops, ondisk):
            if od == "prefix":
                parts.append(f"summarize (recover_store (tbl_hash tbl{2*i+1}) (firstn (N.to_nat {c0}) seg{2*i+1}))")
            elif od == "old":
                parts.append(f"summarize (recover_store (tbl_hash tbl{2*i}) seg{2*i})")
            else:
                parts.append("(1, 0, 0, [])")
        terms.append("[" + ";".join(parts) + "]")
        terms.append(f"bytes_eqb (repair (tbl_hash tbl{2*i}) seg{2*i}) seg{2*i+1}")
    vals = model_on_variants("c10rw-e", pairs, terms)
    for i, (c, m) in enumerate(rw):
        kills = m["kills"].split(";")
        mod = [render_summary(tuple(s))[0] for s in vals[2 * i]]
        checked += len(kills)
        if mod != kills:
            differing += 1
            msgs.append(f"states after an interrupted repair differ on `{c}`: impl={kills} model={mod}")
        checked += 1
        if vals[2 * i + 1] != "true":
            differing += 1
            msgs.append(f"model repair differs from the real truncation rewrite output on `{c}`")
    return checked, differing, msgs


MANIFEST = {
    "category": "proof",
    "text": ("Coq theorems (no axioms, the hash function universally quantified) over an executable byte-level model of the "
             "causal WAL (disk records, frame/commit codecs and integrity checks, recovery, truncation repair): reading / "
             "recovering EVERY byte-length prefix of a valid log returns exactly the transactions whose commit marker lies "
             "wholly inside the prefix, nothing of an incomplete transaction, tail Clean iff on a transaction boundary; every "
             "transaction whose commit marker was synced before a crash point is recovered. The model is tied to /repo by "
             "running it (vm_compute, blake3 supplied as a table of real digests) on the real segment bytes written by the real "
             "FilesystemWalStore / TrustedRuntimeHost and comparing recovery results at every (thorough) / sampled (quick) "
             "prefix. The harness additionally checks the property itself on the implementation: every byte prefix is "
             "recovered from bytes, truncated copies with every coexisting writer-epoch ledger are reopened by the store and "
             "by a fresh host (acknowledged submissions, outcomes, receipts, state root, frontier), recovered twice "
             "(idempotence), continued and retried (de-duplication), with injected store faults, kills inside an operation, "
             "restarts, and the repair interrupted at chosen bytes (RLIMIT_FSIZE). Two defects found this way were fixed in /repo "
             "(e1d337c: a writer epoch following a commit-less epoch wrote an LSN hole that made the acknowledged log "
             "unrecoverable; 5e38e24: the repair rewrite unlinked the segment before re-appending it); their reproducers stay "
             "in corpus/C10 with the oracle signatures armed."),
    "note": ("Trusted: Coq kernel + vm_compute; props/c10.py (generator, table-of-real-digests instantiation of the hash, "
             "renderer); harness c10.rs; blake3 crate. Modelled rather than verified: causal_wal.rs disk-record layer, frame/"
             "commit codecs, validate_* and recover_* functions, rewrite_segment_records as Gallina functions. Partial: "
             "ack_durable is proved for the append path only (synced commit markers survive every later crash point) and "
             "recover_idempotent for the store repair; host rollback after store faults, the writer-epoch ledger and "
             "continuation equivalence are exercised by the tie, not proved; OS fsync/rename/"
             "directory durability is assumed (crash = byte prefix of the segment + old-or-new ledger); host payload "
             "semantics, contract packages and provenance replay are not modelled. Idle scheduler passes advance an "
             "in-memory global tick that is not durable: following the repo's own recovery tests, continuation runs are "
             "compared modulo global-tick stamps."),
}
