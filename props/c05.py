"""C05 — history is hash-chained and tamper-evident."""
import os, json, re
import vf

PROP = "C05"
THEOREMS = ["commit_preimage_inj", "patch_preimage_inj", "commit_binds", "patch_binds", "append_gapfree", "append_only",
            "coordinator_chain_linked", "replay_anchored", "replay_single_field_tamper", "replay_structural_tamper",
            "replay_tip_anchored", "unlinked_replay_any_tamper_refuted", "linked_tip_binds_partial", "replay_truncation",
            "checkpoint_validated", "diagnostics_unbound_refuted", "replay_unlinked_entry_rejected",
            "genesis_entry_with_parents_accepted_refuted"]

# the model of the code as it is has the coordinate / parent-link check of advance_replay_state switched on
LC = "true"

PRE = r"""
From Coq Require Import List NArith Bool.
From Echo Require Import Base.Bytes Model.Chain.
Import ListNotations.
Open Scope N_scope.

Definition AK (e : bool) (w l : N) (b : bool) : akey :=
  {| ak_edge := e; ak_warp := w; ak_local := l; ak_plane := if b then Beta else Alpha |}.
Definition PT (gt pol rp plan dec rew warp : N) (ops : list op) (ins outs : list slot) (dig : N) : patch :=
  {| p_gtick := gt; p_policy := pol; p_rule_pack := rp; p_plan := plan; p_decision := dec; p_rewrites := rew;
     p_warp := warp; p_ops := ops; p_in := ins; p_out := outs; p_digest := dig |}.
Definition PR (w t c : N) : pref := {| pr_wl := w; pr_tick := t; pr_commit := c |}.
Definition RE (rule sh w l code : N) : rentry :=
  {| re_rule := rule; re_scope_hash := sh; re_warp := w; re_local := l; re_code := code |}.
Definition RC (tx : N) (es : list rentry) (bl : list (list N)) : receipt :=
  {| r_tx := tx; r_entries := es; r_blocked := bl |}.
Definition EN (wl tick gt : N) (head : option (N * N)) (parents : list pref) (kind root pdig commit : N)
  (p : option patch) (rc : option receipt) (atoms : N) : entry :=
  {| e_wl := wl; e_tick := tick; e_gtick := gt; e_head := head; e_parents := parents; e_kind := kind; e_root := root;
     e_pdig := pdig; e_commit := commit; e_patch := p; e_receipt := rc; e_outputs := []; e_atoms := atoms |}.


Definition cbody_of (e : entry) (p : patch) : cbody :=
  {| cb_parents := parent_ids e; cb_root := e_root e; cb_pdig := e_pdig e; cb_policy := p_policy p |}.
(* Coq prints big numbers very slowly, so byte strings are reported as (length, 6-byte big-endian chunks) *)
Fixpoint chunks (fuel : nat) (l : bytes) : list N :=
  match fuel with
  | O => []
  | S f => match l with
           | [] => []
           | _ => fold_left (fun a b => a * 256 + b) (firstn 6 l) 0 :: chunks f (skipn 6 l)
           end
  end.
Definition out_bytes (l : bytes) : N * list N := (lenN l, chunks (length l) l).
(* the three preimages of a real entry: patch (as replay rebuilds it), commit, receipt *)
Definition preimages (e : entry) : list (N * list N) :=
  match e_patch e with
  | Some p => [out_bytes (patch_preimage (replay_body p)); out_bytes (commit_preimage (cbody_of e p));
               match e_receipt e with Some r => out_bytes (receipt_preimage (r_entries r)) | None => (0, []) end]
  | None => []
  end.
(* (preimage, recorded digest) rows: the hash function the model is run with is the table of the REAL entries'
   preimages (each row is checked against blake3 by the plug-in first); any other preimage maps to 2^256, a value no
   32-byte field can hold, which is how blake3 behaves unless it collides *)
Definition rows_of (e : entry) : list (bytes * N) :=
  match e_patch e with
  | Some p => [(patch_preimage (replay_body p), p_digest p); (commit_preimage (cbody_of e p), e_commit e)]
              ++ match e_receipt e with Some r => [(receipt_preimage (r_entries r), p_decision p)] | None => [] end
  | None => []
  end.
Fixpoint bytes_eqb (a b : bytes) : bool :=
  match a, b with
  | [], [] => true
  | x :: r, y :: s => if x =? y then bytes_eqb r s else false
  | _, _ => false
  end.
Fixpoint tab_find (k : bytes) (tab : list (bytes * N)) : option N :=
  match tab with [] => None | (a, d) :: r => if bytes_eqb a k then Some d else tab_find k r end.
Definition Htab (tab : list (bytes * N)) (x : bytes) : N :=
  match tab_find x tab with Some d => d | None => two256 end.

(* state = (graph id, number of patches applied); apply and root are the tables measured on the implementation *)
Definition MSt := (N * N)%type.
Definition mk_apply (chain : list (option N)) (s : MSt) (ops : list op) : option MSt :=
  match nth_error chain (N.to_nat (snd s)) with Some (Some sid) => Some (sid, snd s + 1) | _ => None end.
Fixpoint root_find (k : N) (tab : list (N * N)) : N :=
  match tab with [] => 0 | (a, d) :: r => if a =? k then d else root_find k r end.
Definition mk_root (roots : list (N * N)) (s : MSt) : N := root_find (fst s) roots.

Definition enc_rerr (e : rerr) : list N :=
  match e with
  | EHistoryUnavailable t => [1; t] | EMissingPatch t => [2; t] | EApply t => [3; t] | EStateRoot t => [4; t]
  | ECommitHash t => [5; t] | EPatchDigest t => [6; t] | ETickOverflow t => [7; t] | EReceiptTx t => [8; t]
  | EReceiptDigest t => [9; t] | ECheckpointRoot t => [10; t] | EBaseWarp => [11; 0] | EBaseBoundary => [12; 0]
  | EEntryWorldline t => [13; t] | EEntryTick t => [14; t] | EParentLink t => [15; t] | ECheckpointMeta t => [16; t]
  end.
Definition enc_res (r : rerr + rstate MSt) : list N :=
  match r with
  | inl e => 0 :: enc_rerr e
  | inr w => [1; fst (rs_state w); rs_tick MSt w] ++ map a_commit (rs_hist w)
  end.
Definition enc_herr (e : herr) : N :=
  match e with
  | HWorldlineNotFound => 1 | HTickGap => 2 | HNonCanonicalParents => 3 | HMissingParentRef => 4
  | HParentCommitHashMismatch => 5 | HMissingHeadKey => 6 | HHeadWorldlineMismatch => 7 | HMissingPatch => 8
  | HReceiptTx => 9 | HReceiptDigest => 10 | HInvalidKind => 11 | HUnavailable => 12 | HRootWarp => 13
  | HInitialBoundary => 14 | HCpStateRoot => 15 | HCpMeta => 16
  end.

(* one altered history: seek (fresh cursor, no checkpoint) to each target, and the transport path
   (append every entry into a fresh store holding the other worldlines, then replay to the end) *)
Definition eval_alt (lc : bool) (tab : list (bytes * N)) (wl u0 bnd : N) (others : store) (hist : list entry)
  (chain : list (option N)) (roots : list (N * N)) (targets : list N) : list (list N) * list N :=
  let H := Htab tab in
  let ap := mk_apply chain in
  let rt := mk_root roots in
  let h := {| h_u0 := u0; h_boundary := bnd; h_entries := hist |} in
  (map (fun t => enc_res (replay_at H MSt ap rt lc wl h (0, 0) u0 t)) targets,
   let st0 : store := (wl, {| h_u0 := u0; h_boundary := bnd; h_entries := [] |}) :: others in
   (fix go (es : list entry) (k : N) (st : store) : list N :=
      match es with
      | [] => match find_wl wl st with
              | Some hh => 1 :: enc_res (replay_at H MSt ap rt lc wl hh (0, 0) u0 (lenN (h_entries hh)))
              | None => [9]
              end
      | e :: r => match append_local H st e with
                  | inl x => [0; enc_herr x; k]
                  | inr st' => go r (k + 1) st'
                  end
      end) hist 0 st0).
"""

# ------------------------------------------------------------------------------------------------ generator

def _prog(ops):
    return "".join("%02x" % b for b in ops)


def gen_case(rng, tier, idx):
    """programs for the interpreter rule of the harness: 01 k ty = node, 02 k n data = set attachment, 03 k = clear,
    04 a b = edge, 05 a b = delete edge, 06 k = delete node"""
    style = idx % 7
    nmax = 5 if tier == "quick" else 8
    n = rng.randint(3, nmax)
    wls = 2 if style in (3, 4, 6) else 1
    heads = 2 if style in (5, 6) else 1     # two writer heads per worldline: two commits on one worldline in one SuperTick
    ticks = []
    def att(k):
        ln = rng.choice([1, 2, 3, 5, 8])
        return [2, k, ln] + [rng.randint(0, 255) for _ in range(ln)]
    if style == 0:      # absolute writes on one node: swapped / duplicated entries still apply
        ticks.append([[1, 1, rng.randint(0, 9)]])
        for _ in range(n - 1):
            ticks.append([att(1)])
    elif style == 1:    # create / delete / recreate
        k = rng.randint(0, 7)
        seq = [[1, k, 3], att(k), [6, k], [1, k, 4], att(k), [3, k], [1, k, 3], [6, k]]
        for i in range(n):
            ticks.append([seq[i % len(seq)]])
    else:               # random mix, sometimes two intents in one tick (receipts with several / rejected entries)
        for i in range(n):
            intents = []
            for _ in range(rng.choice([1, 1, 1, 2])):
                ops = []
                for _ in range(rng.randint(1, 3)):
                    c = rng.random()
                    a, b = rng.randint(0, 3), rng.randint(0, 3)
                    if c < 0.35: ops += [1, a, rng.randint(0, 5)]
                    elif c < 0.6: ops += att(a)
                    elif c < 0.7: ops += [3, a]
                    elif c < 0.85: ops += [4, a, b]
                    elif c < 0.92: ops += [5, a, b]
                    else: ops += [6, a]
                intents.append(ops)
            ticks.append(intents)
    toks = []
    split = rng.randint(1, max(1, n - 1))
    for i, intents in enumerate(ticks):
        parts = []
        for j, ops in enumerate(intents):
            if heads == 2:
                # both heads get work in most passes (the second commit of the pass must chain to the first)
                parts.append("0." + _prog(ops))
                if rng.random() < 0.8:
                    parts.append("0h1." + _prog(att(rng.randint(0, 3)) if rng.random() < 0.6 else [1, rng.randint(0, 3), rng.randint(0, 5)]))
                if wls == 2 and rng.random() < 0.7:
                    parts.append(rng.choice(["1.", "1h1."]) + _prog(att(rng.randint(0, 3))))
                continue
            parts.append("0." + _prog(ops))
            if wls == 2:
                # the second worldline shares a prefix (same programs => same commit ids), then diverges
                ops2 = ops if (i < split or style == 4 and i % 2 == 0) else (att(1) if rng.random() < 0.5 else [1, rng.randint(0, 3), 7])
                parts.append("1." + _prog(ops2))
        toks.append(",".join(parts) if parts else "-")
    cpset = {rng.randint(0, n), rng.randint(1, n)}
    if style == 1 and n >= 3:
        cpset.add(3)        # create / attach / delete: the graph of tick 3 is the genesis graph again
    cps = ",".join(str(t) for t in sorted(cpset))
    return f"wls={wls} prog={'/'.join(toks)} cps={cps}" + (f" heads={heads}" if heads > 1 else "")


# ------------------------------------------------------------------------------------------------ parsing

def parse_entry(txt):
    m = dict(t.split("=", 1) for t in txt.split())
    e = {"wl": int(m["wl"], 16), "tick": int(m["tick"]), "gtick": int(m["gtick"]), "kind": int(m["kind"]),
         "root": int(m["root"], 16), "pdig": int(m["pdig"], 16), "commit": int(m["commit"], 16), "atoms": int(m["atoms"])}
    e["head"] = None if m["head"] == "-" else tuple(int(x, 16) for x in m["head"].split("."))
    e["parents"] = [] if m["parents"] == "-" else [(int(a, 16), int(b), int(c, 16)) for a, b, c in
                                                   (p.split(".") for p in m["parents"].split(","))]
    if m["patch"] == "-":
        e["patch"] = None
    else:
        f = m["patch"].split("|")
        e["patch"] = {"gtick": int(f[0]), "policy": int(f[1]), "rulepack": int(f[2], 16), "plan": int(f[3], 16),
                      "decision": int(f[4], 16), "rewrites": int(f[5], 16), "warp": int(f[6], 16), "digest": int(f[7], 16),
                      "ops": [] if f[8] == "-" else f[8].split(";"), "ins": [] if f[9] == "-" else f[9].split(";"),
                      "outs": [] if f[10] == "-" else f[10].split(";")}
    if m["receipt"] == "-":
        e["receipt"] = None
    else:
        tx, ents, bl = m["receipt"].split("|")
        ents = [] if ents == "-" else [x.split(".") for x in ents.split(";")]
        bls = [] if not ents else [([] if b == "-" else [int(y) for y in b.split(".")]) for b in bl.split(";")]
        e["receipt"] = {"tx": int(tx), "entries": [(int(a, 16), int(b, 16), int(c, 16), int(d, 16), int(k)) for a, b, c, d, k in ents],
                        "blocked": bls}
    return e


class Ids:
    """names every 32-byte value once (global Definitions of the per-case preamble) so terms stay small"""
    def __init__(self):
        self.m = {}
    def __call__(self, n):
        if n < 1 << 40:
            return str(n)
        if n not in self.m:
            self.m[n] = "h%d" % len(self.m)
        return self.m[n]
    def defs(self):
        return "".join(f"Definition {v} : N := 0x{k:x}.\n" for k, v in self.m.items())


def t_akey(s, I):
    kind, w, l = s.split("/")
    return f"(AK {'true' if kind[0] == 'e' else 'false'} {I(int(w, 16))} {I(int(l, 16))} {'true' if kind[1] == 'b' else 'false'})"


def t_val(s, I):
    if s == "N":
        return "None"
    f = s.split("/")
    if f[0] == "A":
        data = [] if f[2] == "-" else list(bytes.fromhex(f[2]))
        return f"(Some (VAtom {I(int(f[1], 16))} {vf.coq_bytes(data)}))"
    return f"(Some (VDescend {I(int(f[1], 16))}))"


def t_op(s, I):
    f = s.split(":")
    h = lambda x: I(int(x, 16))
    k = f[0]
    if k == "UN": return f"UpsertNode {h(f[1])} {h(f[2])} {h(f[3])}"
    if k == "DN": return f"DeleteNode {h(f[1])} {h(f[2])}"
    if k == "UE": return f"UpsertEdge {h(f[1])} {h(f[2])} {h(f[3])} {h(f[4])} {h(f[5])}"
    if k == "DE": return f"DeleteEdge {h(f[1])} {h(f[2])} {h(f[3])}"
    if k == "SA": return f"SetAttachment {t_akey(f[1], I)} {t_val(f[2], I)}"
    if k == "DW": return f"DeleteWarpInstance {h(f[1])}"
    if k == "UW": return f"UpsertWarpInstance {h(f[1])} {h(f[2])} {'None' if f[3] == 'N' else '(Some ' + t_akey(f[3], I) + ')'}"
    if k == "OP":
        init = "PRequireExisting" if f[4] == "R" else f"(PEmpty {h(f[4].split('/')[1])})"
        return f"OpenPortal {t_akey(f[1], I)} {h(f[2])} {h(f[3])} {init}"
    raise ValueError(s)


def t_slot(s, I):
    f = s.split(":")
    if f[0] == "N": return f"SNode {I(int(f[1], 16))} {I(int(f[2], 16))}"
    if f[0] == "E": return f"SEdge {I(int(f[1], 16))} {I(int(f[2], 16))}"
    if f[0] == "A": return f"SAtt {t_akey(f[1], I)}"
    return f"SPort {I(int(f[1], 16))} {f[2]}"


def t_entry(e, I):
    head = "None" if e["head"] is None else f"(Some ({I(e['head'][0])}, {I(e['head'][1])}))"
    par = "[" + ";".join(f"PR {I(a)} {b} {I(c)}" for a, b, c in e["parents"]) + "]"
    p = e["patch"]
    if p is None:
        pt = "None"
    else:
        pt = (f"(Some (PT {p['gtick']} {p['policy']} {I(p['rulepack'])} {I(p['plan'])} {I(p['decision'])} {I(p['rewrites'])} "
              f"{I(p['warp'])} [{';'.join(t_op(o, I) for o in p['ops'])}] [{';'.join(t_slot(o, I) for o in p['ins'])}] "
              f"[{';'.join(t_slot(o, I) for o in p['outs'])}] {I(p['digest'])}))")
    r = e["receipt"]
    if r is None:
        rc = "None"
    else:
        ents = ";".join(f"RE {I(a)} {I(b)} {I(c)} {I(d)} {k}" for a, b, c, d, k in r["entries"])
        bl = ";".join("[" + ";".join(str(x) for x in b) + "]" for b in r["blocked"])
        rc = f"(Some (RC {r['tx']} [{ents}] [{bl}]))"
    return (f"(EN {I(e['wl'])} {e['tick']} {e['gtick']} {head} {par} {e['kind']} {I(e['root'])} {I(e['pdig'])} "
            f"{I(e['commit'])} {pt} {rc} {e['atoms']})")


def unpack(v):
    """inverse of the model's out_bytes: (length, 6-byte big-endian chunks)"""
    ln, ch = v
    if ln == 0:
        return None
    out = b""
    rest = ln
    for c in ch:
        k = min(6, rest)
        out += c.to_bytes(k, "big")
        rest -= k
    return out


SEEK = {1: "EHist", 2: "EHist", 3: "EApply", 4: "ERoot", 5: "ECommit", 6: "EPDig", 8: "ERcpt", 9: "ERcpt", 10: "ECpRoot"}
SVC = {1: "EHist", 2: "EMissingPatch", 3: "EApply", 4: "ERoot", 5: "ECommit", 6: "EPDig", 7: "EOverflow", 8: "ERcptTx",
       9: "ERcptDig", 10: "ECpRoot"}
HERR = {1: "HWorldlineNotFound", 2: "HTickGap", 3: "HNonCanonicalParents", 4: "HMissingParentRef",
        5: "HParentCommitHashMismatch", 6: "HMissingHeadKey", 7: "HHeadWorldlineMismatch", 8: "HMissingPatch",
        9: "HReceiptTx", 10: "HReceiptDigest", 11: "HInvalidKind"}


def render_res(v, roots, target, path):
    if v[0] == 1:
        sid, tick, chain = v[1], v[2], v[3:]
        return "ok:%d:%s:%d:%s" % (sid, ("%064x" % roots.get(sid, 0))[:8], tick,
                                   ".".join(("%064x" % c)[:8] for c in chain) if chain else "-")
    code, t = v[1], v[2]
    if path == "seek":
        if code in (7, 13, 14, 15):
            return f"EHist@{target}"
        if code == 11: return "EBaseWarp"
        if code == 12: return "EBaseBnd"
        return f"{SEEK[code]}@{t}"
    if code in (13, 14, 15):
        return "EHistOther"
    if code == 11: return "EBaseWarp"
    if code == 12: return "EBaseBnd"
    return f"{SVC[code]}@{t}"


def parse_shadow(s):
    chain, roots = [], {}
    toks = s.split(",")
    for i, t in enumerate(toks):
        if t in ("F", "N"):
            if i > 0:
                chain.append(None)
            break
        sid, root = t.split(":")
        roots[int(sid)] = int(root, 16)
        if i > 0:
            chain.append(int(sid))
    return chain, roots


def case_terms(cid, lines, budget, rng):
    """builds the model terms of one case: (phase A term, [(alteration record, term)])"""
    ents = {}      # (w, tick) -> parsed entry
    sline = {}
    alts = []
    for ln in lines:
        if ln.startswith("E "):
            w = int(re.search(r" w=(\d+) ", ln).group(1))
            e = parse_entry(ln.split(" ", 3)[3])
            ents[(w, e["tick"])] = e
        elif ln.startswith("S "):
            m = dict(t.split("=", 1) for t in ln.split()[1:])
            sline[int(m["w"])] = m
        elif ln.startswith("M "):
            m = dict(t.split("=", 1) for t in ln.split()[1:])
            alts.append(m)
    ws = sorted({w for w, _ in ents})
    I = Ids()
    base = {w: [t_entry(ents[(w, t)], I) for t in sorted(t for ww, t in ents if ww == w)] for w in ws}
    return ents, sline, alts, ws, I, base


def targets_of(m, n_orig):
    spec = [] if m["spec"] == "-" else m["spec"].split(",")
    ln = len(spec)
    if m["class"] == "truncation":
        return list(range(0, n_orig + 1))
    # just past the first altered position, and the end of the altered history (the harness checks every target
    # of a structural edit on the implementation; the model is evaluated on these two)
    if ln == 0:
        return []
    i = next((k for k, tok in enumerate(spec) if tok != f"b{k}"), ln)
    t = [min(i + 1, ln), ln]
    t = [x for x in t if x >= 1] or [ln]
    return [t[0]] if len(t) == 2 and t[0] == t[1] else t


def correspondence(r, cases, by_case, tier):
    import concurrent.futures
    jobs, meta_by_case = [], {}
    model_budget = 60 if tier == "quick" else 300     # alterations per case evaluated on the model
    layout_checked = 0
    for i, c in enumerate(cases):
        lines = by_case.get(i, [])
        try:
            ents, sline, alts, ws, I, base = case_terms(i, lines, model_budget, r.rng)
        except Exception as e:   # noqa
            r.is_broken("harness-output-parse", f"{c}: {e!r}")
            continue
        if not ents or (ws[0], 0) not in ents or ents[(ws[0], 0)]["patch"] is None or any((w, 0) not in ents for w in ws):
            continue
        # alterations evaluated on the model: every structural edit, at least one of each class, the rest sampled
        chosen, seen, rest, structural = [], set(), [], []
        for m in alts:
            if m["class"] not in seen:
                seen.add(m["class"]); chosen.append(m)
            elif "m" not in m["spec"].split(","):
                structural.append(m)
            else:
                rest.append(m)
        r.rng.shuffle(rest); r.rng.shuffle(structural)
        chosen += structural[:model_budget // 3]
        chosen += rest[:max(0, model_budget - len(chosen))]
        allnames = ";".join(f"b{w}_{t}" for w in ws for t in range(len(base[w])))
        terms = [f"map preimages [{allnames}]"]
        meta = []
        for m in chosen:
            w = int(m["w"])
            n_orig = int(sline[w]["n"])
            other = [x for x in ws if x != w]
            spec = [] if m["spec"] == "-" else m["spec"].split(",")
            me = t_entry(parse_entry(m["e"].replace("~", " ")), I) if m["e"] != "-" else None
            hist = []
            for tok in spec:
                if tok == "m": hist.append(me)
                elif tok[0] == "b": hist.append(f"b{w}_{tok[1:]}")
                else: hist.append(f"b{other[0]}_{tok[1:]}")
            chain, roots = parse_shadow(m["shadow"])
            tg = targets_of(m, n_orig)
            chain_t = "[" + ";".join("None" if x is None else f"Some {x}" for x in chain) + "]"
            roots_t = "[" + ";".join(f"({k},{I(v)})" for k, v in roots.items()) + "]"
            others_t = "[" + ";".join(f"(wl{o}, Build_whist u0 bnd [{';'.join(f'b{o}_{t}' for t in range(len(base[o])))}])" for o in other) + "]"
            terms.append(f"eval_alt {LC} tab wl{w} u0 bnd {others_t} [{';'.join(hist)}] {chain_t} {roots_t} "
                         f"[{';'.join(str(t) for t in tg)}]")
            meta.append((m, tg, roots))
        u0 = ents[(ws[0], 0)]["patch"]["warp"]
        bnd = int(sline[ws[0]]["shadow"].split(",")[0].split(":")[1], 16)
        u0n, bndn = I(u0), I(bnd)
        wln = {w: I(ents[(w, 0)]["wl"]) for w in ws}
        defs = I.defs()
        defs += f"Definition u0 : N := {u0n}.\nDefinition bnd : N := {bndn}.\n"
        defs += "".join(f"Definition wl{w} : N := {wln[w]}.\n" for w in ws)
        defs += "".join(f"Definition b{w}_{t} : entry := {x}.\n" for w in ws for t, x in enumerate(base[w]))
        defs += f"Definition tab : list (bytes * N) := Eval vm_compute in (flat_map rows_of [{allnames}]).\n"
        jobs.append((i, ws, ents, defs, terms, meta))
    shards = 2 if tier == "quick" else 4
    def one(job):
        i, ws, ents, defs, terms, meta = job
        try:
            return vf.coq_eval(f"c05_{i}", PRE + defs, terms, shards=min(shards, max(1, len(terms) // 8)), timeout=2400)
        except vf.Broken as e:
            return e
    with concurrent.futures.ThreadPoolExecutor(max_workers=max(1, vf.NCPU // shards)) as ex:
        results = list(ex.map(one, jobs))
    differing = validated = nmodel = 0
    samples = []
    for (i, ws, ents, defs, terms, meta), vals in zip(jobs, results):
        if isinstance(vals, Exception):
            r.is_broken("model-evaluation", f"case {cases[i]}: {vals}")
            continue
        pre, res = vals[0], vals[1:]
        # phase A: blake3 of the model's preimages = the implementation's digests (pins the byte layouts)
        keys = [(w, t) for w in ws for t in sorted(tt for ww, tt in ents if ww == w)]
        hexes, want = [], []
        for (w, t), trip in zip(keys, pre):
            e = ents[(w, t)]
            if e["patch"] is None or len(trip) != 3:
                continue
            hexes += [unpack(trip[0]).hex(), unpack(trip[1]).hex()]
            want += [("patch_digest", w, t, e["patch"]["digest"]), ("commit_id", w, t, e["commit"])]
            if trip[2][0] != 0:
                hexes.append(unpack(trip[2]).hex())
                want.append(("receipt_digest", w, t, e["patch"]["decision"]))
        got = vf.vfhash(hexes) if hexes else []
        for g, (what, w, t, d) in zip(got, want):
            layout_checked += 1
            if int(g, 16) != d:
                differing += 1
                r.is_broken("correspondence:layout", f"case {cases[i]}: blake3(model {what} preimage) of entry w={w} t={t} is {g}, "
                            f"the implementation recorded {d:064x}")
        # phase B: predicted outcome of every alteration
        for (m, tg, roots), (sres, svc) in zip(meta, res):
            nmodel += 1
            seek_impl = dict(x.split("=", 1) for x in m["seek"].split(",") if "=" in x) if m["seek"] != "-" else {}
            ok = True
            for t, enc in zip(tg, sres):
                mine = render_res(enc, roots, t, "seek")
                if seek_impl.get(str(t)) != mine:
                    ok = False
                    r.is_broken("correspondence:seek", f"case {cases[i]} alteration {m['alt']} target {t}: implementation "
                                f"{seek_impl.get(str(t))}, model {mine}")
            if svc[0] == 0:
                mine = f"A{HERR.get(svc[1], '?')}@{svc[2]}"
            elif svc[0] == 1:
                ln = len([] if m["spec"] == "-" else m["spec"].split(","))
                mine = render_res(svc[1:], roots, ln, "svc")
            else:
                mine = "?"
            if m["svc"] != mine:
                ok = False
                r.is_broken("correspondence:append+replay_at", f"case {cases[i]} alteration {m['alt']}: implementation "
                            f"{m['svc']}, model {mine}")
            if ok:
                validated += 1
            else:
                differing += 1
            if len(samples) < 3 and m["class"] in ("entry-duplication", "atom-payload-byte", "parent-commit"):
                samples.append(f"{cases[i]} :: {m['alt']} seek={m['seek']} svc={m['svc']}")
    r.phase("P4_correspondence", cases=len(jobs), alterations_on_model=nmodel, differing=differing, layout_digests=layout_checked)
    return layout_checked, validated, samples


def run(tier, seed, replay=None):
    r = vf.Run(PROP, tier, seed, "proof")
    r.assumptions = [
        "Coq 8.16.1 kernel (coqc; vm_compute only in the non-vacuity Example); no axioms (Print Assumptions: closed)",
        "the hash is a universally quantified parameter H : bytes -> N; binding conclusions are `... \\/ Collision H`; the graph "
        "state, patch application and state root are parameters too (replay_single_field_tamper: `... \\/ RootCollision root`)",
        "model = coq/Model/Chain.v; tie = generated multi-worldline histories through SchedulerCoordinator::super_tick, "
        "harness/src/bin/c05.rs (every single-field alteration of every retained field at every position + structural "
        "edits, through PlaybackCursor::seek_to over a tampering ProvenanceStore view, append_local_commit + "
        "ProvenanceService::replay_worldline_state_at, validate_btr, add_checkpoint, import_suffix) and vm_compute "
        "evaluation of the model on the same material with H = the table of the real entries' preimages (each row "
        "checked against blake3) and any other preimage mapped outside the 32-byte range (blake3 assumed collision "
        "free on the generated preimages)",
        "apply / root of the model run are the tables measured on the implementation (C04 / C06 are about them)",
    ]
    r.cov["trusted_base"] = ["coqc 8.16.1 kernel + vm_compute", "python generator/renderer props/c05.py",
                             "harness c05.rs (abstraction: reachable-graph dump, entry serialisation, tampering store view)",
                             "blake3 crate (vfhash)"]
    r.proof_phase(THEOREMS)
    if replay:
        d = json.load(open(replay))
        cases = [d["replay"]["case"]] if "case" in d.get("replay", {}) else []
    else:
        cases = vf.load_corpus(PROP)
        n = 8 if tier == "quick" else 28
        cases += [gen_case(r.rng, tier, i) for i in range(n)]
    cases = [f"id={i} {c}" + (" tier=thorough" if tier == "thorough" else "") for i, c in enumerate(cases)]
    try:
        bins = vf.cargo_build(["c05", "vfhash"])
        r.phase("P3_build", ok=True)
    except vf.Broken as e:
        r.is_broken("harness-build", e)
        return r.finish()
    path = vf.write_cases("c05", cases)
    rc, out = vf.run_bin(bins["c05"], path, timeout=2400)
    if rc:
        r.is_broken("harness-run", f"c05 exited {rc}: {out[-1500:]}")
        return r.finish()
    by_case = {}
    for ln in out.splitlines():
        m = re.match(r"[ESMVCR] id=(\d+) ", ln)
        if m:
            by_case.setdefault(int(m.group(1)), []).append(ln)
    # ---------------------------------------------------------------- P5 oracle (implementation only)
    n_alt = n_rej = n_same = 0
    classes, infos = {}, {}
    failing = 0
    for i, c in enumerate(cases):
        rl = [l for l in by_case.get(i, []) if l.startswith("R ")]
        if not rl:
            r.is_broken("harness-output", f"no result line for case {c}")
            continue
        m = dict(t.split("=", 1) for t in rl[0].split()[1:])
        n_alt += int(m["alts"]); n_rej += int(m["rejected"]); n_same += int(m["accepted_same"])
        for tok in ([] if m["classes"] == "-" else m["classes"].split(",")):
            k, a, b, cc = tok.rsplit(":", 3)
            cur = classes.get(k, [0, 0, 0]); classes[k] = [cur[0] + int(a), cur[1] + int(b), cur[2] + int(cc)]
        for tok in ([] if m["info"] == "-" else m["info"].split(",")):
            k, a = tok.rsplit(":", 1)
            infos[k] = infos.get(k, 0) + int(a)
        if m["oracle"] != "ok":
            failing += 1
            vlines = [l for l in by_case.get(i, []) if l.startswith("V ")][:6]
            for sig in m["oracle"][5:].split(","):
                r.violation(sig, f"implementation accepted altered history material: {sig}",
                            {"case": c.split(" ", 1)[1].replace(" tier=thorough", ""), "oracle": sig, "examples": vlines})
    r.phase("P5_oracle", failing=failing, alterations=n_alt)
    layout_checked, validated, samples = correspondence(r, cases, by_case, tier)
    r.cov["evaluations"] = n_alt
    r.cov["distinct_nontrivial"] = n_alt
    r.cov["rule"] = ("one evaluation = one altered history (one retained field of one entry changed, or one structural edit) fed to "
                     "the real verifiers (seek_to at the altered position and at the end, step-wise advance, append+replay_at, "
                     "validate_btr; plus checkpoint / BTR-header / suffix-bundle field alterations per case); all are non-trivial "
                     "(the altered material differs from the original)")
    r.cov["histories"] = len(cases)
    r.cov["alterations_rejected_with_typed_error"] = n_rej
    r.cov["alterations_accepted_with_identical_core_result"] = n_same
    r.cov["alteration_classes (count, rejected, accepted-identical)"] = dict(sorted(classes.items()))
    r.cov["retained_fields_not_bound_by_commit_id_v2 (information; documented in merkle-commit.md)"] = dict(sorted(infos.items()))
    r.cov["layout_digests_checked_against_blake3"] = layout_checked
    r.cov["traces_validated_against_impl"] = validated
    r.cov["samples"] = samples or [c for c in cases[:3]]
    if (r.broken and not r.violations) and not replay:
        r.phase("P6_search", note="the oracle already ran every alteration on every generated history; nothing failed")
    return r.finish()


MANIFEST = {
    "category": "proof",
    "text": ("Coq theorems (no axioms; the hash H, the graph state, patch application and the state root are universally quantified "
             "parameters, conclusions are `... \\/ Collision H`) over an executable model of the provenance chain: byte-exact "
             "commit-id / patch-digest / receipt-digest preimages (injective: commit_preimage_inj, patch_preimage_inj, hence "
             "commit_binds, patch_binds), append validation (append_gapfree, append_only, coordinator_chain_linked), and replay "
             "verification including the coordinate / parent-link check: replay_single_field_tamper (any alteration of one "
             "retained field of one entry at any position is rejected or yields the original core result), "
             "replay_structural_tamper (swap / duplication / removal / repetition / as-is transplant: whatever still verifies "
             "is a prefix of the original), replay_unlinked_entry_rejected (an entry whose parents do not name the previously "
             "replayed commit - e.g. a re-labelled neighbour - is rejected by full and by incremental runs), replay_anchored and replay_tip_anchored (one trusted tip commit id pins every "
             "committed field of the chain), replay_truncation, checkpoint_validated; unlinked_replay_any_tamper_refuted shows "
             "what fails without the link check (the defect fixed in 90bd2fa); genesis_entry_with_parents_accepted_refuted records "
             "that tick 0 accepts an entry with parents (outside the quantifier, DESIGN 9.3). The model is tied to /repo by generating real "
             "multi-worldline histories through SchedulerCoordinator::super_tick and feeding EVERY single-field alteration of "
             "every retained entry field at every position (each hash, tick, worldline, parent, head, kind, patch header field, "
             "op field, atom payload byte, slot, receipt entry, output) plus swap / duplication / removal / truncation / "
             "cross-worldline transplant, checkpoint, BTR and suffix-bundle field alterations to the real verifiers "
             "(PlaybackCursor::seek_to over a tampering ProvenanceStore, append_local_commit + replay_worldline_state_at, "
             "validate_btr, add_checkpoint, import_suffix): oracle = typed error or exactly the original core result (reachable "
             "graph, state root, commit-id chain, tick); correspondence = blake3 of the model's preimages equals the "
             "implementation's digests, and the model's predicted outcome (error kind and tick / result) of each alteration "
             "equals the implementation's."),
    "note": ("Trusted: Coq kernel + vm_compute; python generator/renderer; harness c05.rs (reachable-graph dump, entry serialisation, "
             "tampering store view); blake3 crate; blake3 assumed collision free on the generated preimages when the model is run "
             "with the table of real preimages as H. Modelled rather than verified: snapshot.rs compute_commit_hash_v2, "
             "tick_patch.rs compute_patch_digest_v2/encode_*/WarpTickPatchV1::new canonicalisation, receipt.rs "
             "compute_tick_receipt_digest, provenance_store.rs append/replay/restore/validate_checkpoint (chain-relevant part) as "
             "Gallina functions; apply/root are abstract (C04/C06). Exercised on the implementation only (oracle, no model): "
             "validate_btr, add_checkpoint metadata validation, at-rest checkpoint alterations, import_suffix/bundle digests, "
             "step-wise cursor advance. Fields documented as outside commit id v2 (plan/rewrites digests, recorded outputs, "
             "atom writes, head key, global ticks, event kind, parent coordinates, receipt blocker lists, BTR counter/auth tag) "
             "are reported in evidence as unbound, not as violations (diagnostics_unbound_refuted)."),
}
