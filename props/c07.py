"""C07 — replay is path-independent."""
import os, json, hashlib
import vf

PROP = "C07"
THEOREMS = ["seek_path_independent", "seek_path_independent_foreign_cps", "replay_prefix", "fork_faithful", "fork_seek_faithful",
            "checkpoint_sound", "checkpoint_sound_state", "restore_base_nearest", "restore_base_checked", "append_preserves", "live_run_replays",
            "failed_seek_keeps_cursor"]

TAMPERS = ["root", "commit", "pdig", "pfield", "pcalc", "nopatch", "empty", "applyfail", "rcpttx", "rcptdig", "tickgap", "noparent"]
# tampers that hit the coordinate / parent-link / checkpoint-metadata checks of /repo 90bd2fa
LINK_TAMPERS = ["commit", "pdig", "tickgap", "noparent"]
TCODE = {k: i + 1 for i, k in enumerate(TAMPERS)}

PRE = r"""
From Coq Require Import List NArith Bool.
From Echo Require Import Base.FinMap Model.Seek.
Import ListNotations.
Open Scope N_scope.

(* Results are packed into base-10^6 numbers (one per row) because Coq's printer is slow on big nested terms. *)
Definition pack (l : list N) : N := fold_left (fun acc x => acc * 1000000 + x) l 1.

Definition s_run_op := run_op slotmap spatch sapply sroot scommit sp_field sp_calc sp_policy sp_decision.

Definition enc_serr (e : serr) : list N :=
  match e with
  | SPinned t p => [1; t; p] | SHistoryUnavailable t => [2; t; 0] | SApply t => [3; t; 0]
  | SStateRoot t => [4; t; 0] | SCommitHash t => [5; t; 0] | SPatchDigest t => [6; t; 0]
  | SReceipt t => [7; t; 0] | SCheckpointRoot t => [8; t; 0] | SBaseWarp => [9; 0; 0] | SBaseBoundary => [10; 0; 0]
  end.
Definition enc_herr (e : herr) : list N :=
  match e with
  | HUnavailable t => [1; t; 0] | HRootWarp => [2; 0; 0] | HInitialBoundary => [3; 0; 0]
  | HStateRoot t => [4; t; 0] | HMeta t f => [5; t; f] | HExists => [6; 0; 0]
  end.
Definition enc_out (o : outcome) : list N :=
  match o with
  | RSeek None => [0; 0; 0; 0] | RSeek (Some e) => 1 :: enc_serr e
  | RStep (inl e) => 1 :: enc_serr e
  | RStep (inr NoOp) => [2; 0; 0; 0] | RStep (inr Advanced) => [3; 0; 0; 0]
  | RStep (inr Seeked) => [4; 0; 0; 0] | RStep (inr ReachedFrontier) => [5; 0; 0; 0]
  | RUnit => [6; 0; 0; 0]
  | RCp None => [0; 0; 0; 0] | RCp (Some e) => 7 :: enc_herr e
  end.
Definition enc_mode (m : mode) : list N :=
  match m with
  | Paused => [0; 0; 0] | Play => [1; 0; 0] | StepForward => [2; 0; 0] | StepBack => [3; 0; 0]
  | SeekMode t b => [4; t; if b then 1 else 0]
  end.

Fixpoint sm_eqb (a b : slotmap) : bool :=
  match a, b with
  | [], [] => true
  | (k1, v1) :: r1, (k2, v2) :: r2 => (k1 =? k2) && (v1 =? v2) && sm_eqb r1 r2
  | _, _ => false
  end.
Fixpoint index_of (s : slotmap) (l : list slotmap) (i : N) : option N :=
  match l with [] => None | x :: r => if sm_eqb s x then Some i else index_of s r (i + 1) end.
Fixpoint pos_of (c : N) (l : list N) (i : N) : N :=
  match l with [] => 999 | x :: r => if c =? x then i else pos_of c r (i + 1) end.

(* a raw row: fields before the graph id, the graph, fields after *)
Definition raw := (list N * slotmap * list N)%type.
Definition ws_fields (commits : list N) (w : s_wstate) : list N :=
  [lenN (ws_hist w); match ws_last w with None => 0 | Some a => pos_of (a_commit a) commits 1 end; ws_mat w].

(* graph id: live tick index, or 500000 + index into the list of graphs that are no live state *)
Definition add_unk (lives : list slotmap) (s : slotmap) (u : list slotmap) : list slotmap :=
  match index_of s lives 0 with
  | Some _ => u
  | None => if existsb (sm_eqb s) u then u else u ++ [s]
  end.
Definition code_of (lives unks : list slotmap) (s : slotmap) : N :=
  match index_of s lives 0 with
  | Some i => i
  | None => match index_of s unks 0 with Some j => 500000 + j | None => 999998 end
  end.
Definition finish (lives : list slotmap) (rows : list raw) : list N * list slotmap :=
  let unks := fold_left (fun u r => add_unk lives (snd (fst r)) u) rows [] in
  (map (fun r => pack (fst (fst r) ++ [code_of lives unks (snd (fst r))] ++ snd r)) rows, unks).

Definition is_err (o : outcome) : bool :=
  match o with RSeek (Some _) => true | RStep (inl _) => true | _ => false end.

(* the harness validates new checkpoints against the real (untampered) store h0, while the cursor reads the
   tampered view h; on a tampered store it stops at the first failing seek/step *)
Definition run_op_t (h0 h : list s_entry) (b : s_wstate) (sc : s_store * s_cursor) (o : op slotmap) :=
  match o with
  | OCheckpointHere _ | OAddCp _ _ _ _ =>
      let '((st', c'), out) := s_run_op b (with_entries slotmap spatch (fst sc) h0, snd sc) o in
      ((with_entries slotmap spatch st' h, c'), out)
  | _ => s_run_op b sc o
  end.

Fixpoint trace (commits : list N) (h0 h : list s_entry) (stop : bool) (b : s_wstate)
  (sc : s_store * s_cursor) (ops : list (op slotmap)) : list raw :=
  match ops with
  | [] => []
  | o :: r => let '(sc', out) := run_op_t h0 h b sc o in
              let c := snd sc' in
              (enc_out out ++ [c_tick c], ws_state (c_ws c), ws_fields commits (c_ws c) ++ enc_mode (c_mode c))
              :: (if stop && is_err out then [] else trace commits h0 h stop b sc' r)
  end.

Definition lives_of (init : slotmap) (ps : list (spatch * N)) : list s_entry * list slotmap :=
  match s_live_run init 0 None ps with Some (es, ss) => (es, init :: ss) | None => ([], [init]) end.

Definition mk_entry0 (tk : N) (p : option spatch) (r pd c : N) (ps : list N) (rc : option (N * N)) (o : N) : s_entry :=
  {| e_tick := tk; e_patch := p; e_root := r; e_pdig := pd; e_commit := c; e_parents := ps; e_receipt := rc; e_out := o |}.
Definition mk_patch (w : list (N * option N)) (f c pol d : N) : spatch :=
  {| sp_writes := w; sp_field := f; sp_calc := c; sp_policy := pol; sp_decision := d |}.
Definition map_patch (f : spatch -> spatch) (e : s_entry) : s_entry :=
  mk_entry0 (e_tick e) (match e_patch e with Some p => Some (f p) | None => None end)
           (e_root e) (e_pdig e) (e_commit e) (e_parents e) (e_receipt e) (e_out e).

(* the harness's TamperStore edits, on the model entry *)
Definition tamper_entry (kind tick xk xv missing : N) (e : s_entry) : s_entry :=
  let pol := match e_patch e with Some p => sp_policy p | None => 0 end in
  let mk_entry := mk_entry0 (e_tick e) in
  match kind with
  | 1 => mk_entry (e_patch e) (e_root e + 1) (e_pdig e) (e_commit e) (e_parents e) (e_receipt e) (e_out e)
  | 2 => mk_entry (e_patch e) (e_root e) (e_pdig e) (e_commit e + 1) (e_parents e) (e_receipt e) (e_out e)
  | 3 => mk_entry (e_patch e) (e_root e) (e_pdig e + 1) (scommit (e_root e) (e_parents e) (e_pdig e + 1) pol)
                  (e_parents e) (e_receipt e) (e_out e)
  | 4 => map_patch (fun p => mk_patch (sp_writes p) (sp_field p + 1) (sp_calc p) (sp_policy p) (sp_decision p)) e
  | 5 => map_patch (fun p => mk_patch (sp_writes p) (sp_field p) (sp_calc p + 1) (sp_policy p) (sp_decision p)) e
  | 6 => mk_entry None (e_root e) (e_pdig e) (e_commit e) (e_parents e) (e_receipt e) (e_out e)
  | 7 => map_patch (fun p => mk_patch [] (sp_field p) (sp_calc p) (sp_policy p) (sp_decision p)) e
  | 8 => map_patch (fun p => mk_patch [(xk, Some xv); (missing, None)] (sp_field p) (sp_calc p) (sp_policy p)
                                      (sp_decision p)) e
  | 9 => mk_entry (e_patch e) (e_root e) (e_pdig e) (e_commit e) (e_parents e)
                  (match e_receipt e with Some (_, d) => Some (tick + 2, d) | None => None end) (e_out e)
  | 10 => mk_entry (e_patch e) (e_root e) (e_pdig e) (e_commit e) (e_parents e)
                   (match e_receipt e with Some (tx, d) => Some (tx, d + 1) | None => None end) (e_out e)
  | 11 => mk_entry0 (e_tick e + 1) (e_patch e) (e_root e) (e_pdig e) (e_commit e) (e_parents e) (e_receipt e) (e_out e)
  | 12 => mk_entry (e_patch e) (e_root e) (e_pdig e) (e_commit e) [] (e_receipt e) (e_out e)
  | _ => e
  end.
Fixpoint tamper (kind pos xk xv missing : N) (i : N) (h : list s_entry) : list s_entry :=
  match h with
  | [] => []
  | e :: r => (if (i =? pos) && negb (kind =? 0) then tamper_entry kind i xk xv missing e else e)
              :: tamper kind pos xk xv missing (i + 1) r
  end.

Definition mk_store (boundary : N) (h : list s_entry) (cps : cpmap slotmap) : s_store :=
  {| st_u0 := 1; st_boundary := boundary; st_entries := h; st_cps := cps |}.

(* replayed state of tick t on the untampered history: what a real checkpoint of tick t holds *)
Definition cp_state (h : list s_entry) (b : s_wstate) (t : N) : s_wstate := fst (s_replay h b t).

(* add checkpoints through add_checkpoint (validation must accept); result rows per checkpoint *)
Fixpoint place (st : s_store) (cpst : list s_wstate) (ts : list N) : s_store * list N :=
  match ts with
  | [] => (st, [])
  | t :: r =>
      match nthN cpst t with
      | None => place st cpst r
      | Some w =>
          match s_add_checkpoint st t (sroot (ws_state w)) w with
          | inl e => let '(st', l) := place st cpst r in (st', pack (7 :: enc_herr e) :: l)
          | inr st1 => let '(st', l) := place st1 cpst r in (st', pack [0; 0; 0; 0] :: l)
          end
      end
  end.

Definition Nseq (n : N) : list N := map N.of_nat (seq 0 (N.to_nat n)).
Definition cp_states (h0 : list s_entry) (b : s_wstate) (n : N) : list s_wstate := map (cp_state h0 b) (Nseq (n + 1)).

(* exhaustive sweep: every checkpoint subset (mask), start tick, target tick; a fresh Reader cursor pinned at n is
   positioned at `start` on the untampered store, then seeks `target` on the tampered view *)
Definition sweep (lives : list slotmap) (commits : list N) (b : s_wstate) (boundary : N)
  (h0 h : list s_entry) (n : N) (masks : list N) :=
  let cpst := cp_states h0 b n in
  finish lives (flat_map (fun mask =>
    let ts := filter (fun t => N.testbit mask t) (Nseq (n + 1)) in
    let '(st0, cpres) := place (mk_store boundary h0 []) cpst ts in
    let st := mk_store boundary h (st_cps st0) in
    let rej := if forallb (fun r => r =? pack [0; 0; 0; 0]) cpres then 0 else 1 in
    flat_map (fun start =>
      let '(sc1, outs1) := s_run_ops b (st0, new_cursor slotmap Reader b n) [OSeek slotmap start] in
      map (fun target =>
        let '(sc, outs) := s_run_ops b (st, snd sc1) [OSeek slotmap target] in
        let c := snd sc in
        (flat_map enc_out (outs1 ++ outs) ++ [c_tick c], ws_state (c_ws c), ws_fields commits (c_ws c) ++ [rej]))
      (Nseq (n + 1))) (Nseq (n + 1)))
  masks).

(* forks at every tick k = 0..n: one row per (k, t): fork result, fork length, replay_at on the fork *)
Definition forks (lives : list slotmap) (commits : list N) (b : s_wstate) (st : s_store) (n : N) :=
  finish lives (flat_map (fun k =>
    match s_fork st k with
    | inl e => [(7 :: enc_herr e ++ [0; 0], [], [])]
    | inr st' =>
        map (fun t => match s_replay_at st' b t with
                      | inl _ => ([0; 0; 0; 0; st_len slotmap spatch st'; 1], [], [])
                      | inr w => ([0; 0; 0; 0; st_len slotmap spatch st'; 0], ws_state w, [])
                      end) (Nseq (n + 2))
    end) (Nseq (n + 1))).
"""


# --------------------------------------------------------------------------------------------- generator

def gen_prog(rng, nwl, nticks, nonce0=0, names=None):
    """Programs for the interpreter rule; a python-side sketch of each worldline keeps the ops mostly effective."""
    NK = 8
    nodes = [set() for _ in range(nwl)]
    edges = [set() for _ in range(nwl)]
    atts = [set() for _ in range(nwl)]
    nonce = [nonce0]
    ticks = []
    names = names or list(range(nwl))

    def nop():
        nonce[0] += 1
        return [0, nonce[0] % 256]

    def random_ops(w, used, allow_root):
        ops = []
        for _ in range(rng.randint(1, 3)):
            free = [k for k in range(NK) if k not in used]
            if not free:
                break
            c = rng.random()
            ex = [k for k in free if k in nodes[w]]
            if allow_root and (c < 0.35 or not ex):
                k = rng.choice(free); used.add(k)
                ops += [1, k, rng.randint(0, 3)]; nodes[w].add(k)
            elif c < 0.55 and ex:
                k = rng.choice(ex); used.add(k)
                data = [rng.randint(0, 255) for _ in range(rng.choice([0, 1, 2, 5]))]
                ops += [2, k, len(data)] + data; atts[w].add(k)
            elif c < 0.62 and [k for k in ex if k in atts[w]]:
                k = rng.choice([k for k in ex if k in atts[w]]); used.add(k)
                ops += [3, k]; atts[w].discard(k)
            elif c < 0.8 and len(ex) >= 2:
                a, b = rng.sample(ex, 2); used.update((a, b))
                ops += [4, a, b]; edges[w].add((a, b))
            elif c < 0.88 and [e for e in edges[w] if e[0] in free and e[1] in free]:
                a, b = rng.choice(sorted(e for e in edges[w] if e[0] in free and e[1] in free)); used.update((a, b))
                ops += [5, a, b]; edges[w].discard((a, b))
            elif allow_root and ex and c < 0.97:
                k = rng.choice(ex)
                # deleting touches every neighbour: only when nothing else was used this tick
                if len(used) == 0:
                    used.update(range(NK))
                    ops += [6, k]; nodes[w].discard(k); atts[w].discard(k)
                    for e in [e for e in edges[w] if k in e]:
                        edges[w].discard(e)
        return ops

    for t in range(nticks):
        intents = []
        for w in range(nwl):
            if nwl > 1 and rng.random() < 0.3:
                continue  # this worldline does not step in this pass
            used = set()
            # first intent: unique root attachment (the state root changes on every tick) + ops
            salt = rng.randint(0, 254)
            body = nop() + [2, 255, 2, t % 256, salt] + random_ops(w, used, True)
            intents.append((w, body))
            r = rng.random()
            if r < 0.3:
                extra = random_ops(w, used, False)
                if extra:
                    intents.append((w, nop() + extra))
            elif r < 0.4:
                # deliberately conflicting second intent (rejected by the scheduler, recorded in the receipt)
                # (whichever of the two the canonical order admits, the root attachment is unique to this tick)
                intents.append((w, nop() + [2, 255, 2, t % 256, salt + 1]))
        if not intents:
            intents.append((0, nop() + [2, 255, 2, t % 256, 1]))
        ticks.append(",".join(f"{names[w]}.{bytes(b).hex()}" for w, b in intents))
    return "/".join(ticks)


def gen_ops(rng, n, k):
    ops = []
    for _ in range(k):
        c = rng.random()
        hi = n + 2
        if c < 0.45:
            ops.append(f"s{rng.randint(0, hi)}")
        elif c < 0.62:
            ops.append("x")
        elif c < 0.8:
            m = rng.choice(["P", "L", "F", "B", "S"])
            ops.append("m" + (m if m != "S" else f"S{rng.randint(0, hi)}{rng.choice('pq')}"))
        elif c < 0.86:
            ops.append(f"p{rng.randint(0, hi)}")
        elif c < 0.89:
            ops.append("r" + rng.choice("RW"))
        elif c < 0.95:
            ops.append("c")
        else:
            t = rng.randint(0, hi)
            ops.append(f"a{t}.{t if rng.random() < 0.5 else rng.randint(0, n)}")
    return ",".join(ops)


def gen_cps(rng, n):
    # insertion order is random: add_checkpoint has to keep the vector tick-sorted
    ts = rng.sample(range(0, n + 1), rng.randint(0, min(4, n + 1)))
    return ",".join(f"{t}{rng.choice('LRC')}" for t in ts) or "-"


def gen_tamper(rng, n, p=0.5):
    if n == 0 or rng.random() > p:
        return "-"
    return f"{rng.choice(TAMPERS)}@{rng.randint(0, n - 1)}"


def gen_link_scen(rng, w, n):
    """op sequences aimed at the coordinate / parent-link / checkpoint-metadata checks (/repo 90bd2fa): a tampered
    commit id under a checkpoint one tick later, a dropped parent ref, an entry served with the wrong tick"""
    k = rng.randint(0, n - 1)
    t = rng.choice(LINK_TAMPERS)
    src = rng.choice("LRC")
    if t in ("commit", "pdig"):
        cps = f"{k + 1}{src}" + (f",{rng.randint(0, k)}{rng.choice('LRC')}" if rng.random() < 0.5 else "")
        ops = f"s{k + 1},s{k},s{k + 1},s{n},s0,mS{k + 1}q,x"
    else:
        cps = gen_cps(rng, n)
        ops = f"s{k},s{k + 1},s{n},s0,s{min(n, k + 2)},c,s{k + 1}"
    return f"O:{w}:R:{n}:{cps}:{t}@{k}:{ops}"


def gen_case(rng, idx, kind, tier):
    """kind: 'short' (exhaustive sweeps) or 'long' (random op sequences, forks)."""
    nwl = 2 if rng.random() < 0.4 else 1
    if kind == "short":
        nticks = rng.randint(1, 6 if nwl == 1 else 7)
    else:
        nticks = rng.randint(7, 14)
    prog = gen_prog(rng, nwl, nticks)
    # scenarios are filled in per worldline with an upper bound n = nticks (the harness clamps / errors identically)
    scen = []
    for w in range(nwl):
        n = nticks
        if kind == "short":
            scen.append(f"S:{w}:-")
            if tier == "thorough" and idx % 10 == 0 and n <= 4:
                # exhaustive: every tamper kind at every position
                for kind in TAMPERS:
                    for pos in range(n):
                        scen.append(f"S:{w}:{kind}@{pos}")
            else:
                # sweeps over 6-7 ticks cost 6k-16k triples each: one tampered sweep there in the quick tier;
                # the first tampered sweep always targets the link / checkpoint-metadata checks
                scen.append(f"S:{w}:{rng.choice(LINK_TAMPERS)}@{rng.randint(0, n - 1)}")
                for _ in range((0 if n >= 6 else 1) if tier == "quick" else (1 if n >= 6 else 4)):
                    scen.append(f"S:{w}:{gen_tamper(rng, n, 1.0)}")
            scen.append(f"F:{w}:{gen_cps(rng, n)}")
            scen.append(f"O:{w}:R:{n}:{gen_cps(rng, n)}:{gen_tamper(rng, n)}:{gen_ops(rng, n, 8)}")
            scen.append(gen_link_scen(rng, w, n))
            scen.append(f"D:{w}:{rng.randint(0, n)}:{gen_cps(rng, n)}:{gen_prog(rng, 2, rng.randint(1, 4), 128, [0, 9])}")
        else:
            for _ in range(3):
                role = "W" if rng.random() < 0.1 else "R"
                pin = rng.choice([n, n, n + 3, rng.randint(0, n)])
                scen.append(f"O:{w}:{role}:{pin}:{gen_cps(rng, n)}:{gen_tamper(rng, n, 0.4)}:{gen_ops(rng, n, rng.randint(6, 16))}")
            scen.append(gen_link_scen(rng, w, n))
            scen.append(f"F:{w}:{gen_cps(rng, n)}")
            scen.append(f"D:{w}:{rng.randint(0, n)}:{gen_cps(rng, n)}:{gen_prog(rng, 2, rng.randint(1, 5), 128, [0, 9])}")
        if idx % 10 == 0:
            scen.append("G:0")
    # recorded channel outputs per worldline tick (bit i mod 16); most cases have an emitting tick followed by a silent one
    outs = 0
    if rng.random() < 0.7:
        outs = rng.getrandbits(16)
        a = rng.randint(0, max(0, min(nticks, 15) - 2))
        outs = (outs | (1 << a)) & ~(1 << (a + 1))
    return f"id={idx} wls={nwl} outs={outs:x} prog={prog} scen={'|'.join(scen)}"


def parse_case(line):
    m = dict(t.split("=", 1) for t in line.split())
    return m


# --------------------------------------------------------------------------------------------- model terms

class Facts:
    """Per-worldline facts printed by the harness: live dumps per tick and the tamper constants."""
    def __init__(self, text):
        parts = text.split("^")
        self.n = int(parts[0].split("=")[1])
        dumps = parts[1:2 + self.n]
        self.dumps = [dict(kv.split("=") for kv in d.split(",")) if d != "-" else {} for d in dumps]
        self.roots = parts[2 + self.n].split(",")
        tk, tv = parts[3 + self.n].split("=")
        self.tamper_key, self.tamper_val = tk, tv
        keys = sorted({k for d in self.dumps for k in d} | {tk, "zz-missing"})
        vals = sorted({v for d in self.dumps for v in d.values()} | {tv})
        self.kid = {k: i + 1 for i, k in enumerate(keys)}
        self.vid = {v: i + 1 for i, v in enumerate(vals)}
        self.kname = {i: k for k, i in self.kid.items()}
        self.vname = {i: v for v, i in self.vid.items()}

    def slotmap(self, d):
        return "[" + ";".join(f"({self.kid[k]},{self.vid[v]})" for k, v in sorted(d.items(), key=lambda kv: self.kid[kv[0]])) + "]"

    def writes(self, a, b):
        ws = []
        for k in sorted(set(a) | set(b), key=lambda k: self.kid[k]):
            if k in b and a.get(k) != b[k]:
                ws.append(f"({self.kid[k]},Some {self.vid[b[k]]})")
            elif k in a and k not in b:
                ws.append(f"({self.kid[k]},None)")
        return "[" + ";".join(ws) + "]"

    def header(self, outs=0):
        ps = []
        for t in range(self.n):
            out = t + 1 if (outs >> (t % 16)) & 1 else 0     # recorded outputs of entry t: label t+1, 0 = silent
            ps.append(f"(mk_patch {self.writes(self.dumps[t], self.dumps[t + 1])} {1000 + t} {1000 + t} 0 {2000 + t}, {out})")
        return (f"let init : slotmap := {self.slotmap(self.dumps[0])} in "
                f"let ps : list (spatch * N) := [{';'.join(ps)}] in "
                f"let '(h0, lives) := lives_of init ps in "
                f"let commits := map (fun e : s_entry => e_commit e) h0 in "
                f"let b := s_base init 1 in let boundary := sroot init in "
                f"let xk := {self.kid[self.tamper_key]} in let xv := {self.vid[self.tamper_val]} in "
                f"let missing := {self.kid['zz-missing']} in ")

    def render_unknown(self, sm):
        """slot map (list of (kid, vid)) -> the harness's canonical dump string"""
        d = sorted((self.kname[k], self.vname[v]) for k, v in sm)
        return ",".join(f"{k}={v}" for k, v in d) or "-"


def tamper_term(t):
    if t == "-":
        return "h0"
    k, p = t.split("@")
    return f"(tamper {TCODE[k]} {p} xk xv missing 0 h0)"


def cps_ticks(cps, n):
    out = []
    for it in ([] if cps == "-" else cps.split(",")):
        t = int(it[:-1])
        out.append(t)
    return out


def op_term(o, n):
    k, rest = o[0], o[1:]
    if k == "s":
        return f"OSeek slotmap {rest}"
    if k == "x":
        return "OStep slotmap"
    if k == "m":
        md = {"P": "Paused", "L": "Play", "F": "StepForward", "B": "StepBack"}
        if rest[0] == "S":
            return f"OSetMode slotmap (SeekMode {rest[1:-1]} {'true' if rest[-1] == 'p' else 'false'})"
        return f"OSetMode slotmap {md[rest[0]]}"
    if k == "p":
        return f"OSetPin slotmap {rest}"
    if k == "r":
        return f"OSetRole slotmap {'Writer' if rest == 'W' else 'Reader'}"
    if k == "c":
        return "OCheckpointHere slotmap"
    if k == "a":
        t, src = rest.split(".")
        src = min(int(src), n)
        return f"(let w := cp_state h0 b {src} in OAddCp slotmap {t} (sroot (ws_state w)) w)"
    raise ValueError(o)


def sweep_masks(s, n, tier):
    """checkpoint subsets evaluated by the MODEL (the harness oracle always runs all 2^(n+1) of them)"""
    total = 1 << (n + 1)
    cap = 32 if tier == "quick" else 64
    if total <= cap:
        return list(range(total))
    import random
    rnd = random.Random(hash_str(s) + n)
    ms = {0, total - 1} | {1 << t for t in range(n + 1)} | {(total - 1) ^ (1 << t) for t in range(n + 1)}
    while len(ms) < cap:
        ms.add(rnd.randrange(total))
    return sorted(ms)


def hash_str(s):
    return int(hashlib.sha1(s.encode()).hexdigest()[:8], 16)


TIER = ["quick"]


def scen_term(s, fx):
    f = s.split(":")
    n = fx.n
    if f[0] == "O":
        role = "Writer" if f[2] == "W" else "Reader"
        ts = [t for t in cps_ticks(f[4], n)]
        ok_ts = [t for t in ts if t <= n]
        ops = "[" + ";".join(op_term(o, n) for o in f[6].split(",")) + "]"
        stop = "false"
        return (f"(let '(st0, cpres) := place (mk_store boundary h0 []) (cp_states h0 b {n}) [{';'.join(map(str, ok_ts))}] in "
                f"let h := {tamper_term(f[5])} in let st := mk_store boundary h (st_cps st0) in "
                f"(1, cpres, finish lives (trace commits h0 h {stop} b (st, new_cursor slotmap {role} b {f[3]}) {ops})))")
    if f[0] == "S":
        if n > 6:
            return "(9, 0)"
        ms = ";".join(map(str, sweep_masks(s, n, TIER[0])))
        return f"(2, sweep lives commits b boundary h0 {tamper_term(f[2])} {n} [{ms}])"
    if f[0] == "F":
        ok_ts = [t for t in cps_ticks(f[2], n) if t <= n]
        return (f"(let '(st0, cpres) := place (mk_store boundary h0 []) (cp_states h0 b {n}) [{';'.join(map(str, ok_ts))}] in "
                f"(3, cpres, forks lives commits b st0 {n}))")
    raise ValueError(s)


# --------------------------------------------------------------------------------------------- rendering

SERR = {1: "EPin", 2: "EHist", 3: "EApply", 4: "ERoot", 5: "ECommit", 6: "EPDig", 7: "ERcpt", 8: "ECpRoot"}


def unpack(n):
    out = []
    while n > 1:
        n, d = divmod(n, 1000000)
        out.append(d)
    return out[::-1]


def r_serr(e):
    k, t, p = e
    if k == 1:
        return f"EPin@{t}@{p}"
    if k == 9:
        return "EBaseWarp"
    if k == 10:
        return "EBaseBnd"
    return f"{SERR[k]}@{t}"


def r_herr(e):
    k, t, fld = e
    return {1: f"HUnavail@{t}", 2: "HRootWarp", 3: "HInitBnd", 4: f"HRoot@{t}", 5: f"HMeta@{t}@{fld}", 6: "HExists"}[k]


def r_out(o):
    k, e = o[0], o[1:4]
    if k == 0:
        return "ok"
    if k == 1:
        return r_serr(e)
    if k == 7:
        return r_herr(e)
    return {2: "N", 3: "A", 4: "S", 5: "F", 6: "u"}[k]


def r_mode(m):
    k, t, b = m
    return {0: "P", 1: "L", 2: "F", 3: "B"}.get(k) or f"S{t}{'p' if b else 'q'}"


class Unk:
    """graphs that are no live state: rendered to the harness dump and fingerprinted with real blake3 afterwards"""
    def __init__(self):
        self.pending = []

    def sid(self, fx, code, unks):
        if code < 500000:
            return str(code)
        if code - 500000 >= len(unks):
            return "u?"
        self.pending.append(fx.render_unknown(unks[code - 500000]))
        return "u{" + str(len(self.pending) - 1) + "}"


def r_cps(cps, cpres, n):
    it = iter(cpres)
    cp = []
    for t in cps_ticks(cps, n):
        if t > n:
            cp.append("skip")
        else:
            x = next(it, None)
            cp.append("?" if x is None else r_out(unpack(x)))
    return "cp:" + (",".join(cp) or "-")


def render_scen(s, val, fx, unk):
    f = s.split(":")
    if f[0] == "O":
        _, cpres, (rows, unks) = val
        out = [r_cps(f[4], cpres, fx.n)]
        for row in rows:
            d = unpack(row)
            tick, code, hl, ll, mat = d[4:9]
            out.append(f"{r_out(d[0:4])}/t{tick},s{unk.sid(fx, code, unks)},h{hl},l{'x' if ll == 999 else ll},o{mat},m{r_mode(d[9:12])}")
        return ";".join(out)
    if f[0] == "S":
        if val[0] == 9:
            return "toolong"
        rows, unks = val[1]
        out = []
        for row in rows:
            d = unpack(row)
            tick, code, hl, ll, mat, rej = d[8:14]
            out.append(f"{r_out(d[0:4])},{r_out(d[4:8])},{tick},{unk.sid(fx, code, unks)},{hl},{'x' if ll == 999 else ll},{mat}" + ("!cp" if rej else ""))
        return ";".join(out)
    if f[0] == "F":
        _, cpres, (rows, unks) = val
        out = [r_cps(f[2], cpres, fx.n)]
        n = fx.n
        i = 0
        k = 0
        rows = [unpack(x) for x in rows]
        while i < len(rows):
            d = rows[i]
            if d[0] != 0:
                out.append(f"k{k}:{r_herr(d[1:4])}")
                i += 1
            else:
                grp = rows[i:i + n + 2]
                line = ["E" if g[5] else unk.sid(fx, g[6], unks) for g in grp]
                out.append(f"k{k}:ok:{d[4]}:{','.join(line)}")
                i += n + 2
            k += 1
        return ";".join(out)
    return "?"


def impl_scen_line(s, text):
    """harness scenario output -> (comparable line, {fp: dump})"""
    f = s.split(":")
    if f[0] == "O":
        body, unk = text.rsplit("~", 1)
        return body, unk
    if f[0] == "S":
        if text == "toolong":
            return text, "-"
        body, unk, _n = text.rsplit("~", 2)
        return body, unk
    return text, "-"


def both(tag, cases, bins, r=None):
    path = vf.write_cases(tag, cases)
    rc, out = vf.run_bin(bins["c07"], path, timeout=3000)
    if rc:
        raise vf.Broken(f"harness c07 exited {rc}: {out[-800:]}")
    lines = [l for l in out.splitlines() if l.startswith("id=")]
    if len(lines) != len(cases):
        raise vf.Broken(f"harness printed {len(lines)} lines for {len(cases)} cases: {out[-500:]}")
    impl, oracle, terms, metas = [], [], [], []
    for c, l in zip(cases, lines):
        m = parse_case(c)
        lm = dict(t.split("=", 1) for t in l.split())
        oracle.append(lm.get("oracle", "FAIL:no-oracle"))
        scens = [s for s in m["scen"].split("|") if s and s != "-"]
        if lm["facts"] == "-":
            impl.append(None); terms.append(None); metas.append(None)
            continue
        fxs = [Facts(t) for t in lm["facts"].split("|")]
        outs = lm["out"].split("|") if lm["out"] != "-" else []
        impl.append((scens, outs, lm.get("notes", "-")))
        per_w = {}
        for i, s in enumerate(scens):
            w = int(s.split(":")[1])
            per_w.setdefault(w, []).append(i)
        tl = []
        for w, idxs in sorted(per_w.items()):
            if w >= len(fxs):
                continue
            fx = fxs[w]
            idxs = [i for i in idxs if scens[i][0] not in "DG"]
            if not idxs:
                continue
            body = ", ".join(scen_term(scens[i], fx) for i in idxs)
            tl.append((w, idxs, fx.header(int(m.get("outs", "0"), 16)) + "(0, " + body + ")"))
        terms.append(tl)
        metas.append(fxs)
    flat = [t for tl in terms if tl for (_, _, t) in tl]
    vals = []
    if flat:
        try:
            vals = vf.coq_eval(tag, PRE, flat, shards=min(vf.NCPU, max(1, len(flat))), timeout=3000)
        except vf.Broken as e:
            # a coqc child killed by the environment (memory pressure on a loaded machine) is retried once, less parallel
            if "model evaluation failed" not in str(e) or "Error" in str(e):
                raise
            vals = vf.coq_eval(tag + "retry", PRE, flat, shards=min(4, max(1, len(flat))), timeout=6000)
    vi = iter(vals)
    results = []      # per case: list of (scenario, impl_line, model_line)
    for c, im, tl, fxs in zip(cases, impl, terms, metas):
        if im is None:
            results.append(None)
            continue
        scens, outs, notes = im
        model = {}
        unk = Unk()
        for (w, idxs, _t) in tl:
            v = next(vi)
            v = list(v)[1:]
            for j, i in enumerate(idxs):
                model[i] = render_scen(scens[i], v[j], fxs[w], unk)
        # fingerprint unknown graphs with the real blake3
        if unk.pending:
            hs = vf.vfhash([d.encode().hex() for d in unk.pending])
            for i in model:
                for j, h in enumerate(hs):
                    model[i] = model[i].replace("u{" + str(j) + "}", "u" + h[:16])
        rows = []
        for i, s in enumerate(scens):
            il, iunk = impl_scen_line(s, outs[i]) if i < len(outs) else ("<missing>", "-")
            full = il.count(";") + 1
            if s[0] == "S" and il not in ("toolong", "<missing>"):
                w = int(s.split(":")[1])
                n = fxs[w].n
                per = (n + 1) * (n + 1)
                irows = il.split(";")
                if len(irows) == per * (1 << (n + 1)):
                    il = ";".join(x for m_ in sweep_masks(s, n, TIER[0]) for x in irows[m_ * per:(m_ + 1) * per])
            rows.append((s, il, il if s[0] in "DG" else model.get(i, "<no-model>"), full))
        results.append(rows)
    return results, oracle, lines


def oracle_of(case, bins, tag="c07shrink"):
    path = vf.write_cases(tag, [case])
    rc, out = vf.run_bin(bins["c07"], path, timeout=600)
    for l in out.splitlines():
        if l.startswith("id="):
            return dict(t.split("=", 1) for t in l.split()).get("oracle", "FAIL:no-oracle")
    return "FAIL:no-output"


def shrink_case(case, orc, bins):
    """keep the failing scenario only, then drop ops and trailing ticks while the harness oracle still fails"""
    import re
    m = parse_case(case)
    scens = [x for x in m["scen"].split("|") if x]
    mm = re.search(r"scen(\d+):", orc)
    def mk(prog, scen):
        return f"id={m['id']} wls={m['wls']} outs={m.get('outs', '0')} prog={prog} scen={scen}"
    try:
        prog = m["prog"]
        if mm and int(mm.group(1)) < len(scens):
            one = scens[int(mm.group(1))]
            if oracle_of(mk(prog, one), bins) != "ok":
                scens = [one]
        scen = "|".join(scens)
        if len(scens) == 1 and scens[0].startswith("O:"):
            f = scens[0].split(":")
            ops = f[6].split(",")
            small = vf.shrink_list(ops, lambda cand: bool(cand) and oracle_of(mk(prog, ":".join(f[:6] + [",".join(cand)])), bins) != "ok")
            scen = ":".join(f[:6] + [",".join(small)])
        ticks = prog.split("/")
        while len(ticks) > 1 and oracle_of(mk("/".join(ticks[:-1]), scen), bins) != "ok":
            ticks = ticks[:-1]
        out = mk("/".join(ticks), scen)
        return out if oracle_of(out, bins) != "ok" else case
    except Exception:
        return case


def first_diff(a, b):
    xa, xb = a.split(";"), b.split(";")
    for i, (p, q) in enumerate(zip(xa, xb)):
        if p != q:
            return i, p, q
    return min(len(xa), len(xb)), "<len %d>" % len(xa), "<len %d>" % len(xb)


def sweep_triple(i, n):
    per = (n + 1) * (n + 1)
    return i // per, (i % per) // (n + 1), i % (n + 1)


def run(tier, seed, replay=None):
    r = vf.Run(PROP, tier, seed, "proof")
    TIER[0] = tier
    r.assumptions = [
        "Coq 8.16.1 kernel (coqc, vm_compute for the Examples); no axioms (Print Assumptions: closed)",
        "model = coq/Model/Seek.v, parametric in state/patch/apply/root/commit hash (nothing assumed about them); executed on "
        "a slot-map instance whose per-tick writes are the diffs of the LIVE graph dumps recorded by the harness",
        "the cursor is constructed from the same canonical U0 base object that is passed to seek_to/step",
        "patch application itself (C04), the commit-hash chain (C05) and root injectivity (C06) are other properties' subjects",
    ]
    r.cov["trusted_base"] = ["coqc 8.16.1 kernel + vm_compute", "python generator/renderer props/c07.py",
                             "harness c07.rs (abstraction: WorldlineState -> sorted key=value dump + metadata string; "
                             "TamperStore wrapper implementing ProvenanceStore)", "blake3 crate"]
    ok = r.proof_phase(THEOREMS)
    if replay:
        d = json.load(open(replay))
        cases = [d["replay"]["case"]] if "case" in d.get("replay", {}) else []
    else:
        cases = vf.load_corpus(PROP)
        ns, nl = (10, 40) if tier == "quick" else (40, 300)
        scale = float(os.environ.get("VERIF_C07_SCALE", "1"))   # builder experiments only
        ns, nl = max(1, int(ns * scale)), max(1, int(nl * scale))
        base = len(cases)
        for i in range(ns):
            cases.append(gen_case(r.rng, base + i, "short", tier))
        for i in range(nl):
            cases.append(gen_case(r.rng, base + ns + i, "long", tier))
    try:
        bins = vf.cargo_build(["c07", "vfhash"])
        r.phase("P3_build", ok=True)
    except vf.Broken as e:
        r.is_broken("harness-build", e)
        return r.finish()
    # batches under a wall-clock budget: on a loaded machine fewer generated cases are run (never fewer than the
    # corpus and one generated batch); evidence records how many were evaluated
    import time, subprocess
    budget = float(os.environ.get("VERIF_C07_WALL", "150" if tier == "quick" else "1100"))
    bsz = 12 if tier == "quick" else 40
    ncorp = len(vf.load_corpus(PROP)) if not replay else len(cases)
    batches = [cases[:ncorp]] + [cases[i:i + bsz] for i in range(ncorp, len(cases), bsz)]
    batches = [b for b in batches if b]
    results, oracle, lines, done = [], [], [], []
    t_start = time.time()
    for bi, batch in enumerate(batches):
        if bi >= 2 and time.time() - t_start > budget:
            break
        try:
            res_b, orc_b, lines_b = both("c07", batch, bins)
        except vf.Broken as e:
            r.is_broken("correspondence-run", e)
            return r.finish()
        except subprocess.TimeoutExpired as e:
            r.is_broken("correspondence-run", f"timeout: {str(e)[:200]}")
            return r.finish()
        results += res_b; oracle += orc_b; lines += lines_b; done += batch
    r.cov["cases_generated"] = len(cases)
    r.cov["cases_evaluated_within_wall_budget"] = len(done)
    cases = done
    nscen = ndiff = nsweep = ntriples = nforks = nops = ntriples_impl = 0
    kinds = {}
    probes = {}
    notes = 0
    nshrunk = 0
    for c, rows, orc, ln in zip(cases, results, oracle, lines):
        if orc != "ok":
            sig = orc.split("FAIL:", 1)[-1].split(",")[0]
            # stable signature: drop positions
            import re
            stable = re.sub(r"\d+", "#", sig.split(":", 1)[-1] if sig.startswith("scen") else sig)
            small = shrink_case(c, orc, bins) if nshrunk < 2 and not replay else c
            nshrunk += 1
            r.violation("oracle:" + stable, f"implementation oracle failed: {orc[:600]}",
                        {"case": small, "oracle": orc, "original_case": c if small != c else None})
        if "notes=-" not in ln:
            notes += 1
        if rows is None:
            continue
        for s, il, ml, full in rows:
            nscen += 1
            k = s[0]
            kinds[k] = kinds.get(k, 0) + 1
            if k == "S":
                nsweep += 1; ntriples += il.count(";") + 1; ntriples_impl += full
            elif k == "F":
                nforks += il.count(";")
            elif k == "D":
                nforks += 1
            elif k == "G":
                probes[il] = probes.get(il, 0) + 1
            else:
                nops += il.count(";")
            if il != ml:
                ndiff += 1
                if ndiff <= 3:
                    i, p, q = first_diff(il, ml)
                    r.is_broken("correspondence", f"model and implementation differ on scenario {s} (element {i}): impl={p} model={q}\ncase: {c[:1500]}")
    if r.broken and not r.violations and not replay:
        # P6: a proof / correspondence obligation broke and no oracle failed: search harder on the implementation alone
        extra = [gen_case(r.rng, 100000 + i, "short" if i % 6 == 0 else "long", "quick") for i in range(240)]
        try:
            path = vf.write_cases("c07search", extra)
            rc, out = vf.run_bin(bins["c07"], path, timeout=3000)
            found = 0
            for c, l in zip(extra, [l for l in out.splitlines() if l.startswith("id=")]):
                o = dict(t.split("=", 1) for t in l.split()).get("oracle", "ok")
                if o != "ok":
                    r.violation("oracle:search", f"oracle failed during search: {o[:400]}", {"case": c, "oracle": o})
                    found += 1
                    break
            r.phase("P6_search", cases=len(extra), found=found)
        except Exception as e:
            r.phase("P6_search", error=str(e)[:200])
    r.cov["evaluations"] = nscen
    r.cov["distinct_nontrivial"] = ntriples_impl + nops + nforks
    r.cov["rule"] = ("histories produced by WorldlineRuntime + SchedulerCoordinator::super_tick on generated intents (1-2 worldlines); "
                     "non-trivial = individual cursor operations / (checkpoint subset, start, target) triples / fork replays, each "
                     "compared with the model AND with the live recording")
    r.cov["scenario_kinds"] = kinds
    r.cov["sweeps"] = nsweep
    r.cov["sweep_triples_compared_with_model"] = ntriples
    r.cov["sweep_triples_on_impl_with_oracle"] = ntriples_impl
    r.cov["cursor_ops"] = nops
    r.cov["fork_points"] = nforks
    import re as _re
    errs, tampers, lens = {}, {}, {}
    for c, rows in zip(cases, results):
        for w in _re.findall(r":(\w+)@\d+:", c) + _re.findall(r"S:\d:(\w+)@\d+", c):
            if w in TCODE:
                tampers[w] = tampers.get(w, 0) + 1
        lens[c.split("prog=")[1].split()[0].count("/") + 1] = lens.get(c.split("prog=")[1].split()[0].count("/") + 1, 0) + 1
        for _s, il, _ml, _f in rows or []:
            for tok in _re.findall(r"\b([EH][A-Za-z]+)@", il):
                errs[tok] = errs.get(tok, 0) + 1
    r.cov["global_ticks_histogram"] = dict(sorted(lens.items()))
    r.cov["tamper_kinds_injected"] = dict(sorted(tampers.items()))
    r.cov["error_kinds_observed_and_predicted"] = dict(sorted(errs.items()))
    r.cov["histories"] = len(cases)
    # informational: forged tick-0 checkpoint with an extra unreachable node (same state root); never a failure
    r.cov["adversarial_checkpoint_probe"] = probes
    r.cov["histories_with_scheduler_notes"] = notes
    r.cov["traces_validated_against_impl"] = nscen - ndiff
    r.cov["samples"] = [c[:400] for c in cases[:3]]
    r.phase("P4_correspondence", cases=len(cases), scenarios=nscen, differing=ndiff)
    r.phase("P5_oracle", failing=sum(1 for o in oracle if o != "ok"))
    return r.finish()


MANIFEST = {
    "category": "proof",
    "text": ("Coq theorems (no axioms) over an executable model of PlaybackCursor::seek_to/step, replay_worldline_state_at, "
             "restore_replay_base (target+1 checkpoint lookup, root and replay-metadata checks of the checkpoint), advance_replay_state "
             "(per-tick coordinate, parent link, apply/root/commit/digest/receipt verification, replay metadata), add_checkpoint validation, LocalProvenanceStore::fork and the live recording of "
             "entries, parametric in the state, patch application, state root and hashes: after ANY sequence of seeks/steps/mode, "
             "pin and role changes, checkpoints taken from the cursor (and, up to a state-root collision, checkpoints of arbitrary "
             "content accepted by add_checkpoint) the cursor holds exactly the state replayed from U0 for its tick, failed "
             "operations included; replay depends on the entry prefix only; restore picks the nearest checkpoint; forks (entries "
             "and copied checkpoints) replay like their source; a history recorded by a live run verifies and replays to the live "
             "states. Tied to /repo by driving a real WorldlineRuntime through SchedulerCoordinator::super_tick on generated "
             "intents (1-2 worldlines), recording the live state per tick, and running real cursors, checkpoints (from live, "
             "replayed and cursor states, any insertion order), ProvenanceService/LocalProvenanceStore forks at every tick and "
             "fork_strand with diverging child/parent: every (checkpoint subset, start, target) triple for histories <= 6 ticks, "
             "random op sequences on longer ones; every reached state (graph dump, root, tick history, last snapshot, "
             "materialization incl. recorded channel outputs on emitting/silent ticks, tx counter via checkpoint acceptance) is "
             "compared with the live recording AND with a fresh direct replay of ticks 0..t (oracle, all subsets) and every outcome (Ok / error kind+tick, cursor tick, "
             "state identity incl. partial states after injected verification failures) with the model (all checkpoint subsets "
             "up to 32/64 per sweep, a fixed sample containing the empty, full, singleton and co-singleton subsets beyond)."),
    "note": ("Trusted: Coq kernel + vm_compute; python generator/renderer; harness c07.rs (state dump abstraction, TamperStore "
             "read wrapper implementing ProvenanceStore to inject verification failures); blake3 crate. Modelled rather than "
             "verified: the seek/replay/checkpoint/fork control logic as Gallina functions; patch application, state root and "
             "commit hash are parameters (C04/C06/C05); the cursor is assumed to be built from the same canonical U0 object that "
             "is passed to seek_to; the entry worldline-id check (one modelled store = one worldline), debug_assert in finalize_replay_metadata and committed_ingress/materialization-error checkpoint "
             "fields are not modelled; rules of the engine cannot emit, so recorded outputs are attached to the real entries when they "
             "are re-appended (append_local_commit) into a second ProvenanceService. Restore-vs-advance decisions are observable only through injected failures; on untampered "
             "histories the tie is by outcome. A rejected seek leaves the cursor on its previous tick and state, for every store incl. tampered ones "
             "(failed_seek_keeps_cursor; restored by /repo fix 7e0a2d4, before it the forward path mutated the state in place). add_checkpoint "
             "compares roots, not graphs: a forged checkpoint with extra unreachable content is accepted (probe in evidence; C06)."),
}
