"""C11 — the log rejects corruption instead of reinterpreting it.

Shares the model (coq/Model/Wal.v), the harness (c11 = c10.rs) and the model-evaluation machinery with
C10 (props/c10.py).  Cases: bit flips and aligned zeroed ranges of real segments, every single-record
structural edit (delete / duplicate / append-copy / adjacent swap / commit-marker exchange / transplant
from another log) at the bytes, filesystem-store, store-writer and host layers, edited frame / commit
vectors through recover_from_frames_and_commits, ledger and manifest tampering.
"""
import json
import vf
import c10 as W

PROP = "C11"
THEOREMS = ["commit_selection_detected", "record_damage", "payload_damage_detected", "digest_damage_rejected",
            "interior_frame_deletion_rejected", "duplicated_frame_rejected"]
ZERO_LENS = [1, 2, 4, 8, 16, 32, 64]


def gen_cases(rng, tier):
    cases = []
    nflip = 2 if tier == "quick" else 6
    for i in range(nflip):
        ntx = rng.randint(1, 3)
        shape = ",".join(str(rng.choice([1, 1, 2])) for _ in range(ntx))
        pay = ",".join(str(rng.choice([0, 2, 7, 30, 90])) for _ in range(2))
        if tier == "thorough":
            bits, zeros = "all", "all"          # exhaustive: every bit, every aligned zeroed range (logs < 4 KiB)
        else:
            bits, zeros = "all", "all"          # the implementation side is cheap; the model side is sampled
        cases.append(f"mode=flip seed={rng.getrandbits(32)} shape={shape} pay={pay} bits={bits} zeros={zeros} fsevery={97 if tier == 'quick' else 13}")
    for i in range(2 if tier == "quick" else 8):
        ntx = rng.randint(2, 4)
        shape = ",".join(str(rng.choice([1, 2, 3])) for _ in range(ntx))
        # half of the logs are written by 2-3 writer epochs (the writer is closed and reopened)
        reopen = ""
        if i % 2 == 0:
            pts = sorted(rng.sample(range(1, ntx), min(ntx - 1, rng.randint(1, 2))))
            reopen = " reopen=" + ",".join(map(str, pts))
        cases.append(f"mode=edit seed={rng.getrandbits(32)} shape={shape} pay={rng.choice([0, 3, 20])} oseed={rng.getrandbits(16)} oshape={rng.choice(['2,1', '1', '1,3'])}{reopen}")
    for i in range(1 if tier == "quick" else 4):
        ntx = rng.randint(2, 4)
        shape = ",".join(str(rng.choice([1, 2, 3])) for _ in range(ntx))
        pts = sorted(rng.sample(range(1, ntx), min(ntx - 1, rng.randint(1, 2))))
        cases.append(f"mode=api seed={rng.getrandbits(32)} shape={shape} pay={rng.choice([0, 3, 20])} reopen={','.join(map(str, pts))}")
    cases.append(f"mode=meta seed={rng.getrandbits(32)} shape=1,2 pay=3 every={29 if tier == 'quick' else 3} reopen=1")
    hosts = (["s0,R,s1,s2,g0,g1,t", "s0,g0,t,R,s1,R,s2"] if tier == "quick"
             else ["s0,s1,s2,g0,g1,t", "s0,g0,t,s1,s2", "s0,s1,g0,t,g1,t,s2", "s0,R,s1,g0,g1,t", "s0,R,s1,R,s2,R,s3", "s0,g0,t,R,s1,g1,t,R,s2"])
    for ops in hosts:
        bits = ",".join(str(rng.randrange(0, 24000)) for _ in range(6 if tier == "quick" else 60))
        cases.append(f"mode=hostedit ops={ops} bits={bits}")
    return cases


# --------------------------------------------------------------------------- replicating the harness edits
def split_records(seg, ends):
    out, o = [], 0
    for e in ends:
        out.append(seg[o:e]); o = e
    return out


def apply_edit(name, recs, orecs):
    """the byte string of harness edit `name` (see edits_of in c10.rs)"""
    op, _, arg = name.partition(":")
    v = list(recs)
    if op.startswith("del"):
        del v[int(arg)]
    elif op.startswith("dup"):
        i = int(arg); v.insert(i, recs[i])
    elif op.startswith("app") and op != "apptx":
        v.append(recs[int(arg)])
    elif op.startswith("swap"):
        i = int(arg); v[i], v[i + 1] = v[i + 1], v[i]
    elif op == "xchgc":
        a, b = (int(x) for x in arg.split(":")); v[a], v[b] = v[b], v[a]
    elif op.startswith("ins"):
        j, i = arg.split("@"); v.insert(min(int(i), len(recs)), orecs[int(j)])
    elif op.startswith("repl"):
        v[int(arg)] = orecs[int(arg)]
    elif op in ("apptx", "pretx"):
        first, kinds = [], None
        for r in orecs:
            first.append(r)
            if r[8] == 2:
                break
        v = v + first if op == "apptx" else first + v
    else:
        raise vf.Broken("unknown edit " + name)
    return b"".join(v)


def run(tier, seed, replay=None):
    r = vf.Run(PROP, tier, seed, "proof")
    r.assumptions = [
        "Coq 8.16.1 kernel (coqc, vm_compute); no axioms; the hash is a section variable: detection theorems conclude "
        "`... \\/ hash event` explicitly, refutations hold for every hash function",
        "model = coq/Model/Wal.v; tie = vm_compute of the model on the real (damaged / edited) segment bytes with blake3 "
        "supplied as a finite table of real digests (props/c10.py)",
        "host-level semantic re-validation (receipt / state-delta / correlation agreement), ledger and manifest codecs are "
        "exercised by the implementation-side oracle, not modelled",
    ]
    r.cov["trusted_base"] = ["coqc 8.16.1 kernel + vm_compute", "props/c10.py + props/c11.py (generator, edit replication, renderer)",
                             "harness c10.rs/c11.rs", "blake3 crate"]
    r.proof_phase(THEOREMS)
    if replay:
        d = json.load(open(replay))
        cases = [d["replay"]["case"]] if "case" in d.get("replay", {}) else []
    else:
        cases = vf.load_corpus(PROP) + gen_cases(r.rng, tier)
    try:
        bins = vf.cargo_build(["c11", "vfhash"])
        r.phase("P3_build", ok=True)
    except vf.Broken as e:
        r.is_broken("harness-build", e)
        return r.finish()
    try:
        lines = W.run_harness(bins["c11"], "c11", cases)
    except (vf.Broken, Exception) as e:
        r.is_broken("harness-run", e)
        return r.finish()
    nfail = 0
    for c, l in zip(cases, lines):
        for sig, detail in W.oracle_failures(l):
            nfail += 1
            r.violation(sig, f"{detail} on case `{c}`", {"case": c, "oracle": detail})
    r.phase("P5_oracle", failing=nfail, cases=len(cases))
    checked = differing = 0
    msgs = []
    try:
        import concurrent.futures
        with concurrent.futures.ThreadPoolExecutor(max_workers=3) as ex:
            futs = [ex.submit(fn, r, tier, cases, lines) for fn in (flip_model, edit_model, api_model)]
            for f in futs:
                a, b, m = f.result()
                checked += a; differing += b; msgs += m
    except (vf.Broken, Exception) as e:
        r.is_broken("correspondence-run", repr(e))
    for m in msgs[:4]:
        r.is_broken("correspondence", m)
    r.phase("P4_correspondence", evaluations=checked, differing=differing)
    kvs = [W.kvline(l) for l in lines]
    r.cov["evaluations"] = checked
    r.cov["impl_bit_flips"] = sum(int(m.get("nbits", 0)) for m in kvs)
    r.cov["impl_zeroed_ranges"] = sum(int(m.get("nzeros", 0)) for m in kvs)
    r.cov["impl_structural_edits"] = sum(len(m["edits"].split(";")) for m in kvs if "edits" in m)
    r.cov["distinct_nontrivial"] = len({m["seg"] for m in kvs if m.get("seg", "-") != "-"})
    r.cov["rule"] = ("a case = one real log (store-level builders or the real host) plus a family of damaged / edited variants; "
                     "non-trivial = distinct non-empty segment; every variant is recovered by the real crate at the bytes layer, "
                     "a sample at the filesystem layer, structural edits also by the store writer and the host; the model is "
                     "evaluated on the same damaged bytes (all structural edits; a sample of the flips in quick, all in thorough)")
    r.cov["traces_validated_against_impl"] = checked - differing
    r.cov["samples"] = cases[:4]
    return r.finish()


def flip_model(r, tier, cases, lines):
    """model recover_segment on the same flipped / zeroed bytes"""
    fl = [(c, W.kvline(l)) for c, l in zip(cases, lines) if l.split()[1] == "mode=flip" and " flips=" in l]
    if not fl:
        return 0, 0, []
    segs = [bytes.fromhex(m["seg"]) for _, m in fl]
    tbl = W.build_table("c11f", segs)
    pairs = [(s, tbl) for s in segs]
    terms, owners = [], []
    for i, ((c, m), seg) in enumerate(zip(fl, segs)):
        nbits = len(seg) * 8
        ends = [int(x.split(":")[0]) for x in m["ends"].split(",")]
        zer = [(o, l) for l in ZERO_LENS for o in range(0, len(seg), l)]
        if tier == "thorough":
            bits = list(range(nbits)); zidx = list(range(len(zer)))
        else:
            # every bit of every record header (magic, kind, length) and of the first digest byte, plus a sample
            bs = set()
            starts = [0] + ends[:-1]
            for s0, e in list(zip(starts, ends))[:2]:
                bs.update(range(s0 * 8, (s0 + 17) * 8))
                bs.update(range((e - 32) * 8, (e - 31) * 8))
            bs.update(r.rng.sample(range(nbits), min(nbits, 120)))
            bits = sorted(b for b in bs if b < nbits)
            zidx = sorted(r.rng.sample(range(len(zer)), min(len(zer), 80)))
        step = 150
        for c0 in range(0, len(bits), step):
            ch = bits[c0:c0 + step]
            terms.append(f"rle (map (fun b => summarize (recover_segment (tbl_hash tbl{i}) 1 (flip_bit seg{i} b))) [{';'.join(map(str, ch))}])")
            owners.append((i, "f", ch))
        for c0 in range(0, len(zidx), step):
            ch = zidx[c0:c0 + step]
            lst = ";".join("(%d,%d)" % zer[z] for z in ch)
            terms.append(f"rle (map (fun z => summarize (recover_segment (tbl_hash tbl{i}) 1 (zero_range seg{i} (fst z) (snd z)))) [{lst}])")
            owners.append((i, "z", ch))
    vals = W.model_on_variants("c11f-e", pairs, terms)
    checked = differing = 0
    msgs = []
    impl_f = [W.parse_rle(m["flips"]) for _, m in fl]
    impl_z = [W.parse_rle(m["zeros"]) for _, m in fl]
    for (i, kind, ch), v in zip(owners, vals):
        flat = W.expand_runs(v)
        impl = impl_f[i] if kind == "f" else impl_z[i]
        for x, s in zip(ch, flat):
            checked += 1
            if impl[x] != s:
                differing += 1
                if len(msgs) < 4:
                    msgs.append(f"{'bit flip' if kind == 'f' else 'zeroed range'} #{x}: impl={impl[x]} model={s} on `{fl[i][0]}`")
    return checked, differing, msgs


def edit_model(r, tier, cases, lines):
    """model recover_segment / recover_store on the same structurally edited bytes"""
    ed = [(c, W.kvline(l)) for c, l in zip(cases, lines) if l.split()[1] == "mode=edit" and " edits=" in l]
    if not ed:
        return 0, 0, []
    if tier == "quick":
        ed = ed[:1]          # the implementation side runs every edit of every case; the model side one case
    variants, meta = [], []
    for c, m in ed:
        seg, oseg = bytes.fromhex(m["seg"]), bytes.fromhex(m["oseg"])
        recs = split_records(seg, [int(x.split(":")[0]) for x in m["ends"].split(",")])
        orecs = split_records(oseg, [int(x.split(":")[0]) for x in m["oends"].split(",")])
        for n, item in enumerate(m["edits"].split(";")):
            name, res = item.split("=", 1)
            # quick: every commit-marker / whole-transaction edit, and a quarter of the frame edits
            key = name.split(":")[0]
            if tier == "quick" and not (key in ("delc", "dupc", "xchgc", "apptx") or n % 13 == 0):
                continue
            variants.append(apply_edit(name, recs, orecs))
            meta.append((c, name, res.split("|")))
    tbl = W.build_table("c11e", variants)
    pairs = [(v, tbl) for v in variants]
    terms = []
    for i in range(len(variants)):
        terms.append(f"(summarize (recover_segment (tbl_hash tbl{i}) 1 seg{i}), summarize (recover_store (tbl_hash tbl{i}) seg{i}))")
    # one shared table: define it once
    pre = W.PRE + "Definition tbl : list (N * list (bytes * N)) := %s.\n" % tbl.term()
    terms = [f"(summarize (recover_segment (tbl_hash tbl) 1 {W.hexbytes(v)}), summarize (recover_store (tbl_hash tbl) {W.hexbytes(v)}))" for v in variants]
    vals = vf.coq_eval("c11e-e", pre, terms, shards=min(vf.NCPU, max(1, len(terms) // 8)), timeout=1700)
    checked = differing = 0
    msgs = []
    for (c, name, res), v in zip(meta, vals):
        # Coq prints ((a,b,c,d),(e,f,g,h)) as (a,b,c,d,(e,f,g,h))
        s1 = W.render_summary(tuple(v[:4]))[0]
        s2 = W.render_summary(tuple(v[4]))[0]
        checked += 2
        if s1 != res[0]:
            differing += 1; msgs.append(f"edit {name} (bytes): impl={res[0]} model={s1} on `{c}`")
        if s2 != res[1]:
            differing += 1; msgs.append(f"edit {name} (store): impl={res[1]} model={s2} on `{c}`")
    return checked, differing, msgs


def api_model(r, tier, cases, lines):
    """model recover_fc on the same edited frame / commit vectors (list edits only)"""
    ap = [(c, W.kvline(l)) for c, l in zip(cases, lines) if l.split()[1] == "mode=api" and " edits=" in l]
    if not ap:
        return 0, 0, []
    if tier == "quick":
        ap = ap[:1]
    segs = [bytes.fromhex(m["seg"]) for _, m in ap]
    tbl = W.build_table("c11a", segs)
    pairs = [(s, tbl) for s in segs]
    terms, meta = [], []
    ops = {"delc": ("id", "remove_nth {i}"), "dupc": ("id", "dup_nth {i}"), "swapcc": ("id", "swap_nth {i}"),
           "delf": ("remove_nth {i}", "id"), "dupf": ("dup_nth {i}", "id"), "swapff": ("swap_nth {i}", "id")}
    for i, (c, m) in enumerate(ap):
        for item in m["edits"].split(";"):
            name, res = item.split("=", 1)
            op, _, arg = name.partition(":")
            if name == "id":
                ef, ec = "id", "id"
            elif op in ops:
                ef, ec = (x.format(i="(N.to_nat %s)" % arg) for x in ops[op])
            else:
                continue
            ef = "(fun l => l)" if ef == "id" else "(%s)" % ef
            ec = "(fun l => l)" if ec == "id" else "(%s)" % ec
            terms.append(f"summarize (recover_fc_edited (tbl_hash tbl{i}) seg{i} {ef} {ec})")
            meta.append((c, name, res))
    # edited vectors can need records roots that the unedited segment never hashes: those surface as VRoot
    # on both sides only if the table has them, so extend the table with one more round on the same terms
    vals = W.model_on_variants("c11a-e", pairs, terms)
    checked = differing = 0
    msgs = []
    for (c, name, res), v in zip(meta, vals):
        s = W.render_summary(tuple(v))[0]
        checked += 1
        if s != res:
            differing += 1; msgs.append(f"api edit {name}: impl={res} model={s} on `{c}`")
    return checked, differing, msgs


MANIFEST = {
    "category": "proof",
    "text": ("Coq theorems (no axioms, hash universally quantified) over the byte-level WAL model shared with C10: damage "
             "confined to one disk record leaves earlier records intact and yields an error, a torn-tail prefix, or the explicit "
             "hash event (the reader's digest check passing on bytes that are not the original record); payload/kind damage "
             "with intact length and digest is rejected or exhibits a collision; digest damage is always rejected; a deleted "
             "interior frame or a duplicated frame breaks LSN continuity; any list of a valid log's own commit markers "
             "(removed, duplicated, reordered) is rejected unless it is a prefix, in which case the recovered history is that "
             "prefix (this was false before /repo commit a96d311 - finding F7, reproduced at every layer incl. "
             "TrustedRuntimeHost::enable_runtime_wal and kept as regression cases with the signatures armed). Tie: the model is run "
             "(vm_compute, real blake3 digests as a table) on the same flipped / zeroed / edited real bytes and compared "
             "with recover_wal_segment_bytes / recover_filesystem_store / recover_from_frames_and_commits; the harness "
             "checks the property itself (typed error or a prefix of the committed history) under every bit flip and aligned "
             "zeroed range, every single-record delete/duplicate/append/swap/exchange/transplant at the bytes, filesystem-"
             "store, store-writer and TrustedRuntimeHost layers, and ledger / manifest tampering."),
    "note": ("Trusted: Coq kernel + vm_compute; props/c10.py + props/c11.py; harness c10.rs (c11 = same source); blake3 crate. "
             "Modelled rather than verified: see C10. Not modelled (exercised by the oracle only): host semantic re-validation "
             "of recovered payloads, writer-epoch ledger and manifest codecs. frame-level edits (delete/duplicate/re-seal) are "
             "checked exhaustively on the implementation and by correspondence, not by a theorem."),
}
