"""C12 — canonical encodings are bijective."""
import os, json, struct, math
import vf

PROP = "C12"
THEOREMS = ["cbor_roundtrip", "cbor_canonical", "cbor_decode_injective", "cbor_depth_129_encodes_but_is_rejected", "cbor_budget_only_removes",
            "cbor_budget_transparent", "cbor_enc_map_order_free", "cbor_noncanonical_rejected", "cbor_decode_normal",
            "cbor_enc_wf", "cbor_reject_trailing", "cbor_reject_tag", "cbor_reject_indefinite", "cbor_reject_nonminimal_head",
            "cbor_reject_f16_nan_payload", "cbor_reject_integral_float", "cbor_reject_wide_float64", "cbor_reject_wide_float32",
            "narrow16_exact", "narrow32_exact", "cbor_decode_never_out_of_fuel",
            "fmt_roundtrip", "fmt_canonical", "fmt_encoding_injective", "fmt_reject_trailing", "record_descriptors_wf",
            "strand_fork_canonical"]
PRE = ("From Coq Require Import List NArith ZArith.\nFrom Echo Require Import Base.Bytes Model.Cbor.\n"
       "Import ListNotations.\nOpen Scope N_scope.\n")

CANON_NAN = 0x7ff8000000000000

# ----------------------------------------------------------------------------- value syntax (shared with harness / Cbor.v show)

def show(v):
    k = v[0]
    if k == "T": return "T"
    if k == "F": return "F"
    if k == "N": return "N"
    if k == "i": return ("i+%x" % v[1]) if v[1] >= 0 else ("i-%x" % -v[1])
    if k == "f": return "f%016x" % v[1]
    if k == "t": return "t[%s]" % bytes(v[1]).hex()
    if k == "b": return "b[%s]" % bytes(v[1]).hex()
    if k == "a": return "a(" + ",".join(show(x) for x in v[1]) + ")"
    if k == "m": return "m(" + ",".join(show(a) + ":" + show(b) for a, b in v[1]) + ")"
    if k == "g": return "g%x(%s)" % (v[1], show(v[2]))
    raise ValueError(k)


class _VP:
    def __init__(s, t): s.t = t; s.i = 0
    def hexrun(s):
        j = s.i
        while s.i < len(s.t) and s.t[s.i] in "0123456789abcdef": s.i += 1
        return s.t[j:s.i]
    def value(s):
        c = s.t[s.i]; s.i += 1
        if c in "TFN": return (c,)
        if c == "i":
            sg = s.t[s.i]; s.i += 1
            n = int(s.hexrun(), 16)
            return ("i", -n if sg == "-" else n)
        if c == "f":
            h = s.t[s.i:s.i + 16]; s.i += 16
            return ("f", int(h, 16))
        if c in "tb":
            s.i += 1
            h = s.hexrun(); s.i += 1
            return (c, list(bytes.fromhex(h)))
        if c == "a":
            s.i += 1; items = []
            if s.t[s.i] != ")":
                while True:
                    items.append(s.value())
                    if s.t[s.i] == ",": s.i += 1
                    else: break
            s.i += 1
            return ("a", items)
        if c == "m":
            s.i += 1; es = []
            if s.t[s.i] != ")":
                while True:
                    k = s.value(); s.i += 1
                    v = s.value(); es.append((k, v))
                    if s.t[s.i] == ",": s.i += 1
                    else: break
            s.i += 1
            return ("m", es)
        if c == "g":
            t = int(s.hexrun(), 16); s.i += 1
            v = s.value(); s.i += 1
            return ("g", t, v)
        raise ValueError("value syntax: %r at %d" % (s.t, s.i))


def parse_value(t):
    p = _VP(t); v = p.value()
    if p.i != len(t): raise ValueError("trailing value text")
    return v


def coq_value(v):
    k = v[0]
    if k == "T": return "VBool true"
    if k == "F": return "VBool false"
    if k == "N": return "VNull"
    if k == "i": return "VInt (%d)%%Z" % v[1]
    if k == "f": return "VFloat 0x%x" % v[1]
    if k == "t": return "VText " + vf.coq_bytes(v[1])
    if k == "b": return "VBytes " + vf.coq_bytes(v[1])
    if k == "a": return "VArray [" + ";".join("(" + coq_value(x) + ")" for x in v[1]) + "]"
    if k == "m": return "VMap [" + ";".join("((%s),(%s))" % (coq_value(a), coq_value(b)) for a, b in v[1]) + "]"
    if k == "g": return "VTag %d (%s)" % (v[1], coq_value(v[2]))
    raise ValueError(k)


def size(v):
    k = v[0]
    if k == "a": return 1 + sum(size(x) for x in v[1])
    if k == "m": return 1 + sum(size(a) + size(b) for a, b in v[1])
    if k == "g": return 1 + size(v[2])
    return 1


def depth(v):
    k = v[0]
    if k == "a": return 1 + max([depth(x) for x in v[1]] + [0])
    if k == "m": return 1 + max([max(depth(a), depth(b)) for a, b in v[1]] + [0])
    if k == "g": return 1 + depth(v[2])
    return 0


def walk(v):
    yield v
    k = v[0]
    if k == "a":
        for x in v[1]: yield from walk(x)
    elif k == "m":
        for a, b in v[1]:
            yield from walk(a); yield from walk(b)
    elif k == "g":
        yield from walk(v[2])

# ----------------------------------------------------------------------------- generator-side float helpers (not trusted)

def f64bits(x): return struct.unpack(">Q", struct.pack(">d", x))[0]
def bits64f(b): return struct.unpack(">d", struct.pack(">Q", b))[0]
def h2d(h): return f64bits(struct.unpack(">e", struct.pack(">H", h))[0])
def s2d(s): return f64bits(struct.unpack(">f", struct.pack(">I", s))[0])


def float_class(b):
    e = (b >> 52) & 0x7ff; m = b & ((1 << 52) - 1)
    if e == 0x7ff: return "nan" if m else "inf"
    x = bits64f(b)
    if x == 0: return "zero"
    big = ""
    if x == math.floor(x):
        if -(2.0 ** 64) <= x < 2.0 ** 64: return "integral"
        big = "big-integral-"            # integral floats outside the CBOR integer range stay floats
    if e == 0: return "f64-subnormal"
    try:
        if f64bits(struct.unpack(">e", struct.pack(">e", x))[0]) == b: return "fits-f16"
    except (OverflowError, struct.error):
        pass
    try:
        if f64bits(struct.unpack(">f", struct.pack(">f", x))[0]) == b: return big + "fits-f32"
    except (OverflowError, struct.error):
        pass
    return big + "needs-f64"


INT_BOUNDS = [0, 1, 10, 23, 24, 25, 255, 256, 65535, 65536, 2 ** 32 - 1, 2 ** 32, 2 ** 53, 2 ** 63 - 1, 2 ** 63, 2 ** 64 - 1,
              -1, -10, -24, -25, -256, -257, -65536, -65537, -2 ** 32, -2 ** 32 - 1, -2 ** 63 + 1, -2 ** 63]
INT_BELOW_I64 = [-2 ** 63 - 1, -2 ** 63 - 2, -2 ** 64, -2 ** 64 + 1, -(2 ** 63) - 2 ** 40]
FLOAT_SPECIAL = [0x0000000000000000, 0x8000000000000000, 0x3ff0000000000000, 0xbff0000000000000, 0x3ff8000000000000,
                 0x3fb999999999999a, 0x7ff0000000000000, 0xfff0000000000000, 0x7ff8000000000000, 0x7ff8000000000001,
                 0xfff8000000000000, 0x7ff0000000000001, 0x7ff4000000000000, 0x0000000000000001, 0x000fffffffffffff,
                 0x0010000000000000, 0x7fefffffffffffff, 0x40effc0000000000, 0x40effc0000000001, 0x3f10000000000000,
                 0x3e70000000000000, 0x3e60000000000000, 0x3e78000000000000, 0x36a0000000000000, 0x3690000000000000,
                 0x380fffffc0000000, 0x3810000000000000, 0x47efffffe0000000, 0x47effffff0000000, 0x3ff0000000000001,
                 0x3ff0000020000000, 0x3ff0040000000000, 0x3ff0020000000000, 0x4340000000000000, 0x433fffffffffffff,
                 0x43e0000000000000, 0xc3e0000000000000, 0x43dfffffffffffff, 0x43efffffffffffff, 0x4330000000000001,
                 0x4059000000000000, 0x40c3880000000000, 0x3fe0000000000000, 0x3fd5555555555555, 0x400921fb54442d18]
FLOAT_OUTSIDE = [0x43f0000000000000, 0x43f0000000000001, 0x4400000000200000, 0x47e0000000000000, 0xc7e0000000000000,
                 0xc3e0000000000001, 0xc3f0000000000000, 0x47d0000000000000, 0x4500000000000000]
FLOAT_HUGE = [0x47e0000000000001, 0x47f0000000000000, 0x7e37e43c8800759c, 0xfe37e43c8800759c, 0x47e8000000000000]
TEXTS = ["", "a", "id", "kind", "héllo", "€", "😀", "\x00", "\x7f", "key", "z" * 23, "y" * 24,
         "\u0080", "߿", "ࠀ", "￿", "\U00010000", "\U0010ffff", "á"]


def gen_int(rng, allow_defect):
    r = rng.random()
    if r < 0.04: return rng.choice(INT_BELOW_I64)
    if r < 0.45: return rng.choice(INT_BOUNDS)
    if r < 0.7: return rng.randint(-300, 300)
    bl = rng.choice([8, 16, 32, 33, 62, 63, 64])
    n = rng.getrandbits(bl)
    if rng.random() < 0.5:
        n = -n - 1
    return n


def gen_float(rng, allow_defect):
    return gen_float1(rng, allow_defect)


def gen_float1(rng, allow_defect):
    r = rng.random()
    if r < 0.04: return rng.choice(FLOAT_OUTSIDE)
    if r < 0.30: return rng.choice(FLOAT_SPECIAL)
    if r < 0.34: return rng.choice(FLOAT_HUGE)
    if r < 0.50: return h2d(rng.getrandbits(16))
    if r < 0.66: return s2d(rng.getrandbits(32))
    if r < 0.72: return s2d(rng.getrandbits(23) | (rng.getrandbits(1) << 31))          # f32 subnormals
    if r < 0.78: return h2d(rng.getrandbits(10) | (rng.getrandbits(1) << 15))          # f16 subnormals
    if r < 0.84: return f64bits(float(rng.randint(-70000, 70000)) + rng.choice([0.0, 0.5, 0.25, 0.125, 2.0 ** -11, 2.0 ** -30]))
    return rng.getrandbits(64)


LONG_TEXTS = ["x" * 255, "w" * 256, "é" * 128]


def gen_text(rng):
    r = rng.random()
    if r < 0.02: return rng.choice(LONG_TEXTS)
    if r < 0.6: return rng.choice(TEXTS)
    return "".join(rng.choice(["a", "b", "0", " ", "é", "€", "😀", "\x00", "߿", "퟿", ""]) for _ in range(rng.randint(0, 30)))


def gen_value(rng, d, allow_defect=True, allow_bad=True, budget=None):
    if budget is None: budget = [120]
    budget[0] -= 1
    r = rng.random()
    if d <= 0 or budget[0] <= 0: r *= 0.7
    if r < 0.22: return ("i", gen_int(rng, allow_defect))
    if r < 0.42:
        return ("f", gen_float(rng, allow_defect))
    if r < 0.52: return ("t", list(gen_text(rng).encode("utf8")))
    if r < 0.60:
        n = rng.choice([0, 1, 2, 5, 23, 24, 32, 255, 256]) if rng.random() < 0.6 else rng.randint(0, 40)
        return ("b", [rng.getrandbits(8) for _ in range(n)])
    if r < 0.70: return (rng.choice("TFN"),)
    if r < 0.84:
        n = rng.choice([0, 1, 2, 3, 5, 23, 24]) if rng.random() < 0.8 else rng.randint(0, 40)
        n = min(n, max(0, budget[0]))
        return ("a", [gen_value(rng, d - 1, allow_defect, allow_bad, budget) for _ in range(n)])
    if r < 0.985 or not allow_bad:
        n = rng.choice([0, 1, 2, 3, 4, 8, 23, 24]) if rng.random() < 0.85 else rng.randint(0, 30)
        n = min(n, max(0, budget[0] // 2))
        es, seen = [], set()
        for j in range(n):
            kr = rng.random()
            if kr < 0.45: k = ("i", gen_int(rng, False) if rng.random() < 0.5 else j)
            elif kr < 0.8: k = ("t", list((gen_text(rng) if rng.random() < 0.5 else "k%d" % j).encode("utf8")))
            elif kr < 0.9: k = ("f", gen_float(rng, False))
            else: k = gen_value(rng, min(d - 1, 1), False, allow_bad, budget)
            budget[0] -= 1
            es.append((k, gen_value(rng, d - 1, allow_defect, allow_bad, budget)))
        if allow_bad and es and rng.random() < 0.06:
            k, _ = rng.choice(es)
            if k[0] == "i" and rng.random() < 0.5 and abs(k[1]) < 2 ** 53:
                k = ("f", f64bits(float(k[1])))                     # numerically equal key spelled as a float
            es.insert(rng.randint(0, len(es)), (k, gen_value(rng, 0, False, False)))
        return ("m", es)
    return ("g", rng.choice([0, 1, 24, 55799, 2 ** 32]), gen_value(rng, d - 1, allow_defect, allow_bad, budget))

# ----------------------------------------------------------------------------- generator-side encoder with sabotage (not trusted)

def head(major, n, width=None):
    """CBOR head; width None = minimal, else forced argument width in bytes (0 = immediate)."""
    if width is None:
        width = 0 if n < 24 else 1 if n < 256 else 2 if n < 65536 else 4 if n < 2 ** 32 else 8
    if width == 0: return bytes([major * 32 + n])
    info = {1: 24, 2: 25, 4: 26, 8: 27}[width]
    return bytes([major * 32 + info]) + (n & (256 ** width - 1)).to_bytes(width, "big")


def enc_float_py(b, rng=None, sab=None):
    cls = float_class(b)
    x = bits64f(b)
    if sab == "float-wider":
        if cls in ("fits-f16",): return (b"\xfa" + struct.pack(">f", x)) if rng.random() < 0.5 else (b"\xfb" + struct.pack(">d", x))
        if cls in ("fits-f32", "big-integral-fits-f32"): return b"\xfb" + struct.pack(">d", x)
        if cls in ("nan", "inf"): return (b"\xfa" + struct.pack(">I", s_nan_inf(b))) if rng.random() < 0.5 else b"\xfb" + b.to_bytes(8, "big")
    if sab == "float-integral" and cls in ("integral", "zero"):
        for fmt, tag in ((">e", b"\xf9"), (">f", b"\xfa"), (">d", b"\xfb")):
            try:
                p = struct.pack(fmt, x)
                if struct.unpack(fmt, p)[0] == x and rng.random() < 0.6: return tag + p
            except (OverflowError, struct.error):
                pass
        return b"\xfb" + struct.pack(">d", x)
    if sab == "nan-payload" and cls == "nan":
        return b"\xf9" + (0x7c00 | rng.randint(1, 0x3ff) | (rng.getrandbits(1) << 15)).to_bytes(2, "big")
    if cls == "nan": return b"\xf9\x7e\x00"
    if cls == "inf": return b"\xf9\x7c\x00" if x > 0 else b"\xf9\xfc\x00"
    if cls in ("zero", "integral"): return enc_int_py(int(x))
    if cls == "fits-f16": return b"\xf9" + struct.pack(">e", x)
    if cls in ("fits-f32", "big-integral-fits-f32"): return b"\xfa" + struct.pack(">f", x)
    return b"\xfb" + struct.pack(">d", x)


def s_nan_inf(b):
    s = (b >> 63) << 31
    return s | 0x7f800000 | ((b >> 29) & 0x7fffff)


def enc_int_py(z, width=None):
    return head(0, z, width) if z >= 0 else head(1, -1 - z, width)


def py_enc(v, rng=None, target=None, sab=None, counter=None):
    """Encodes like the ABI encoder; if `target` is the index (pre-order) of a node, applies sabotage `sab` there."""
    if counter is None: counter = [0]
    me = counter[0]; counter[0] += 1
    hit = (target == me)
    k = v[0]
    pre = b""
    if hit and sab == "tag": pre = head(6, rng.choice([0, 1, 2, 24, 55799]))
    wider = None
    def widen(n):
        mins = 0 if n < 24 else 1 if n < 256 else 2 if n < 65536 else 4 if n < 2 ** 32 else 8
        opts = [w for w in (1, 2, 4, 8) if w > mins]
        return rng.choice(opts) if opts else None
    if k in "TFN": out = {"T": b"\xf5", "F": b"\xf4", "N": b"\xf6"}[k]
    elif k == "i":
        z = v[1]
        w = widen(z if z >= 0 else -1 - z) if (hit and sab == "head-wider") else None
        if hit and sab == "int-as-float" and abs(z) < 2 ** 53:
            out = enc_float_py(f64bits(float(z)), rng, "float-integral")
        else:
            out = enc_int_py(z, w)
    elif k == "f": out = enc_float_py(v[1], rng, sab if hit else None)
    elif k in "tb":
        n = len(v[1]); w = widen(n) if (hit and sab == "head-wider") else None
        if hit and sab == "indefinite": out = bytes([(2 if k == "b" else 3) * 32 + 31]) + head(2 if k == "b" else 3, n) + bytes(v[1]) + b"\xff"
        else: out = head(2 if k == "b" else 3, n, w) + bytes(v[1])
    elif k == "a":
        n = len(v[1]); w = widen(n) if (hit and sab == "head-wider") else None
        body = b"".join(py_enc(x, rng, target, sab, counter) for x in v[1])
        if hit and sab == "indefinite": out = b"\x9f" + body + b"\xff"
        elif hit and sab == "len-off": out = head(4, max(0, n + rng.choice([-1, 1]))) + body
        else: out = head(4, n, w) + body
    elif k == "m":
        ents = [(py_enc(a, rng, target, sab, counter), py_enc(b, rng, target, sab, counter)) for a, b in v[1]]
        ents.sort(key=lambda e: e[0])
        n = len(ents); w = widen(n) if (hit and sab == "head-wider") else None
        if hit and sab == "map-swap" and n >= 2:
            i = rng.randrange(n - 1); ents[i], ents[i + 1] = ents[i + 1], ents[i]
        if hit and sab == "map-dup" and n >= 1:
            i = rng.randrange(n); ents.insert(i, ents[i]); n += 1
        if hit and sab == "map-lenfirst" and n >= 2:
            ents.sort(key=lambda e: (len(e[0]), e[0]))        # RFC 7049 length-first order
        body = b"".join(a + b for a, b in ents)
        if hit and sab == "indefinite": out = b"\xbf" + body + b"\xff"
        else: out = head(5, n, w) + body
    elif k == "g":
        out = head(6, v[1]) + py_enc(v[2], rng, target, sab, counter)
    return pre + out


SABOTAGES = ["head-wider", "float-wider", "float-integral", "int-as-float", "nan-payload", "map-swap", "map-dup",
             "map-lenfirst", "indefinite", "tag", "len-off", "trailing", "truncate"]


def sabotaged(rng, v):
    nodes = list(walk(v))
    want = {"head-wider": "itbam", "float-wider": "f", "float-integral": "f", "int-as-float": "i", "nan-payload": "f",
            "map-swap": "m", "map-dup": "m", "map-lenfirst": "m", "indefinite": "tbam", "tag": "TFNiftbam", "len-off": "a"}
    def applicable(sab):
        if sab in ("trailing", "truncate"): return [0]
        idx = [i for i, n in enumerate(nodes) if n[0] in want[sab]]
        if sab == "float-wider": idx = [i for i in idx if float_class(nodes[i][1]) in ("fits-f16", "fits-f32", "big-integral-fits-f32", "nan", "inf")]
        if sab == "float-integral": idx = [i for i in idx if float_class(nodes[i][1]) in ("integral", "zero")]
        if sab == "nan-payload": idx = [i for i in idx if float_class(nodes[i][1]) == "nan"]
        if sab == "int-as-float": idx = [i for i in idx if abs(nodes[i][1]) < 2 ** 53]
        if sab in ("map-swap", "map-lenfirst"): idx = [i for i in idx if len(nodes[i][1]) >= 2]
        if sab == "map-dup": idx = [i for i in idx if len(nodes[i][1]) >= 1]
        return idx
    order = list(SABOTAGES); rng.shuffle(order)
    for sab in order:
        idx = applicable(sab)
        if not idx: continue
        if sab in ("trailing", "truncate"):
            b = py_enc(v, rng)
            if sab == "trailing": return sab, b + bytes([rng.getrandbits(8) for _ in range(rng.randint(1, 3))])
            return sab, b[:rng.randrange(len(b))] if len(b) > 0 else b
        return sab, py_enc(v, rng, rng.choice(idx), sab)
    return "none", py_enc(v, rng)


def mutate(rng, b):
    b = bytearray(b)
    for _ in range(rng.choice([1, 1, 1, 2, 3])):
        op = rng.random()
        if not b: b.append(rng.getrandbits(8)); continue
        i = rng.randrange(len(b))
        if op < 0.3: b[i] ^= 1 << rng.randrange(8)
        elif op < 0.5: b[i] = rng.choice([0x00, 0x17, 0x18, 0x19, 0x1a, 0x1b, 0x1f, 0x20, 0x38, 0x3b, 0x40, 0x5f, 0x60, 0x7f, 0x80, 0x9f,
                                          0xa0, 0xa1, 0xbf, 0xc0, 0xd8, 0xf4, 0xf5, 0xf6, 0xf7, 0xf8, 0xf9, 0xfa, 0xfb, 0xff, rng.getrandbits(8)])
        elif op < 0.65: b.insert(i, rng.getrandbits(8))
        elif op < 0.8: del b[i]
        elif op < 0.9: del b[i:]
        else: b.append(rng.getrandbits(8))
    return bytes(b)

# ----------------------------------------------------------------------------- model side rendering

def _txt(l): return "".join(chr(c) for c in l)


def model_value_line(val):
    ec, eb, (dc, db), (_nc, nb) = val
    if ec != 0: return "abi enc=E:%d dec=-" % ec
    return "abi enc=%s dec=%s" % (vf.hexb(eb), _txt(db) if dc == 0 else "E:%d" % dc)


def model_bytes_line(val, inp):
    dc, db, (rc, rb) = val
    if dc != 0: return "abi dec=E:%d reenc=-" % dc
    re = ("same" if list(rb) == list(inp) else vf.hexb(rb)) if rc == 0 else "E:%d" % rc
    return "abi dec=%s reenc=%s" % (_txt(db), re)


def term_of(case):
    m = dict(t.split("=", 1) for t in case.split())
    if "v" in m: return "run_value (%s)" % coq_value(parse_value(m["v"]))
    if "b" in m: return "run_bytes %s" % vf.coq_bytes(list(bytes.fromhex(m["b"])) if m["b"] != "-" else [])
    if "exh" in m:
        p = [] if m.get("p", "-") == "-" else list(bytes.fromhex(m["p"]))
        return "exh_codes %s %s%%nat" % (vf.coq_bytes(p), m["exh"])
    if "f16tab" in m: return "widen16_table_fp"
    if "fl" in m:
        xs = ";".join("0x" + h for h in m["fl"].split(","))
        return ("map (fun b => (f64_is_nan b, narrow16 b, narrow32 b, match f64_to_int b with Some z => "
                "(1, (if (z <? 0)%%Z then 1 else 0), Z.to_N (Z.abs z)) | None => (0, 0, 0) end)) [%s]" % xs)
    if "w32" in m:
        return "map widen32 [%s]" % ";".join("0x" + h for h in m["w32"].split(","))
    raise ValueError(case)


def _opt(o, fmt):
    if o == "None": return "-"
    return fmt % o[2][0]


def model_line(case, val):
    m = dict(t.split("=", 1) for t in case.split())
    if "v" in m: return model_value_line(val)
    if "b" in m: return model_bytes_line(val, list(bytes.fromhex(m["b"])) if m["b"] != "-" else [])
    if "exh" in m: return "exh rle=" + ",".join("%dx%d" % (c, n) for c, n in val)
    if "f16tab" in m: return "f16tab fp=%d" % val
    if "fl" in m:
        out = []
        for isnan, n16, n32, (has, neg, mag) in val:
            if isnan == "true": a = b = "nan"
            else: a, b = _opt(n16, "%04x"), _opt(n32, "%08x")
            out.append("%s/%s/%s" % (a, b, "-" if not has else ("-%x" % mag if neg else "+%x" % mag)))
        return "fl " + ",".join(out)
    if "w32" in m: return "w32 " + ",".join("%016x" % x for x in val)
    raise ValueError(case)


def impl_comparable(line):
    """Strip oracle / statistics from a harness line."""
    if line.startswith(("abi ", "rec ", "edict ")): return line.split(" oracle=")[0]
    if line.startswith("exh "): return line.split(" total=")[0]
    if line.startswith("f16tab "): return line.split(" narrow_bad=")[0]
    return line


def oracle_of(line):
    if " oracle=" in line: return line.split(" oracle=")[1].split()[0]
    return "ok"


def signature(o):
    """Stable signature of a failing oracle string."""
    kinds = []
    for part in o[5:].split(","):
        if part.startswith("rec-accepted-noncanonical:"): kinds.append("rec:%s:accepted-noncanonical" % part.split(":", 1)[1])
        elif part.startswith("rec-roundtrip:"): kinds.append("rec:%s:roundtrip" % part.split(":", 1)[1])
        elif part.startswith("edict-"): kinds.append("edict:" + part[6:])
        elif "int-below-i64" in part: kinds.append("abi:int-below-i64-encodes-but-does-not-decode")
        elif "integral-float-outside-int-range" in part: kinds.append("abi:integral-float-outside-int-range-truncated")
        elif "f16-nan-payload" in part: kinds.append("abi:f16-nan-payload-accepted")
        elif part == "rt-reencode-differs": continue
        else: kinds.append("abi:" + part)
    return kinds or ["abi:" + o]

# ----------------------------------------------------------------------------- record codecs: generation-side descriptors (not trusted)
# ("u", w) | ("raw", n) | ("const", bytes) | ("opt", f) | ("bytes", w) | ("vec", w, f) | ("seq", [f..]) | ("enum", {code: f})
_H = ("raw", 32); _U64 = ("u", 8); _U32 = ("u", 4); _U16 = ("u", 2)
_OPTH = ("opt", _H); _B64 = ("bytes", 8); _WHK = ("seq", [_H, _H]); _ADR = ("seq", [_H, _H])
_CTRR = ("seq", [_H, _U64, _U64, _H, _H, _H, _H])
def _codes(n): return ("enum", {c: ("seq", []) for c in range(1, n + 1)})
_BMR = ("enum", {1: ("seq", [_H]), 2: ("seq", [_H, _ADR])})
_BEV = ("enum", {1: ("seq", [_H, _ADR]), 2: ("seq", [_BMR, _U64]), 3: ("seq", [_H]), 4: ("seq", [_H, _H])})
RECORDS = {
    1: ("SubmissionAcceptanceRecord", ("seq", [_H, _H, _OPTH, _H])),
    2: ("WalSubmissionEnvelopeRecord", ("seq", [_H, _H, _U64, _WHK, _B64])),
    3: ("RetainedMaterialRecord", ("seq", [_H, _H, _codes(7), _codes(6)])),
    4: ("ReadingRefRecord", ("seq", [_H, _H, _H, _H, _codes(6)])),
    5: ("CheckpointRecord", ("seq", [_H, _U64, _H, _H, _H, _H, _U16, _H])),
    6: ("CheckpointPublicationRecord", ("seq", [_H, _H])),
    7: ("MaterializationIntentRecord", ("seq", [_H] * 5)),
    8: ("MaterializationObservationRecord", ("seq", [_H] * 3)),
    9: ("StrandDropRecord", ("seq", [_H, _H, _H, _U64, _H, _H, _OPTH])),
    10: ("TopologyBraidEventRecord", ("seq", [_H, _H, _U64, _BEV, _codes(3), _H, _H, _OPTH])),
    11: ("BraidShellRetentionRecord", ("seq", [_H] * 5 + [_codes(4), _H, _H, _OPTH])),
    12: ("SuffixImportRecord", ("seq", [_H] * 7 + [_codes(4), _H, _H, _H])),
    13: ("TickReceiptRecord", ("seq", [("const", b"ETICK002"), _CTRR, _codes(3)])),
    14: ("StrandForkRecord", ("seq", [_H, _H, _H, _U64, _H, _H, _H, ("vec", 8, _WHK), _H, _H, _OPTH])),
    15: ("EintEnvelope", ("seq", [("const", b"EINT"), _U32, ("bytes", 4)])),
}
MODELLED_RECORDS = set(RECORDS)
ORACLE_ONLY_RECORDS = {16: "WalReceiptCorrelationRecord", 17: "IngressEnvelopeRetained(v2,v1-legacy)", 18: "WalRuntimeStateDeltaRecord",
                       19: "MbusFramesV1", 20: "MbusPacketsV2", 21: "EintLog", 22: "IngressEnvelopeValue(constructor->bytes->value)",
                       23: "WalReceiptCorrelationValue(constructor->bytes->value)"}


def _rb(rng, n):
    r = rng.random()
    if r < 0.15: return bytes(n)
    if r < 0.25: return b"\xff" * n
    if r < 0.35: return bytes([rng.getrandbits(8)]) * n
    return bytes(rng.getrandbits(8) for _ in range(n))


def gen_fmt(rng, f, sab=None):
    """Random encoding of descriptor f; `sab` (a mutable list) requests one structural corruption."""
    k = f[0]
    def hit():
        if sab and sab[0] and rng.random() < 0.25:
            sab[0] = False; return True
        return False
    if k == "u":
        v = rng.choice([0, 1, 255, 256, 2 ** (8 * f[1]) - 1, rng.getrandbits(8 * f[1])])
        return (v & (2 ** (8 * f[1]) - 1)).to_bytes(f[1], "little")
    if k == "raw": return _rb(rng, f[1])
    if k == "const":
        if hit():
            b = bytearray(f[1]); b[rng.randrange(len(b))] ^= 1 << rng.randrange(8); return bytes(b)
        return f[1]
    if k == "opt":
        if hit(): return bytes([rng.choice([2, 3, 255])]) + gen_fmt(rng, f[1], sab)
        return b"\x00" if rng.random() < 0.4 else b"\x01" + gen_fmt(rng, f[1], sab)
    if k == "bytes":
        n = rng.choice([0, 1, 2, 7, 32, 100, rng.randint(0, 300)])
        data = _rb(rng, n)
        if hit(): n = max(0, n + rng.choice([-1, 1, 2 ** 32, 2 ** (8 * f[1]) - 1 - n]))
        return (n & (2 ** (8 * f[1]) - 1)).to_bytes(f[1], "little") + data
    if k == "vec":
        n = rng.choice([0, 1, 2, 3, 5])
        items = [gen_fmt(rng, f[2], sab) for _ in range(n)]
        mode = rng.random()
        if mode < 0.5: items.sort()
        elif mode < 0.6 and items: items.append(rng.choice(items))
        cnt = len(items)
        if hit(): cnt = max(0, cnt + rng.choice([-1, 1, 2 ** 40]))
        return (cnt & (2 ** (8 * f[1]) - 1)).to_bytes(f[1], "little") + b"".join(items)
    if k == "seq": return b"".join(gen_fmt(rng, x, sab) for x in f[1])
    if k == "enum":
        if hit(): return bytes([rng.choice([0, max(f[1]) + 1, 255])])
        c = rng.choice(list(f[1]))
        return bytes([c]) + gen_fmt(rng, f[1][c], sab)
    raise ValueError(k)


def _ctrr(rng): return gen_fmt(rng, _CTRR)
def _ctrr_key(b):
    return (b[0:32], int.from_bytes(b[32:40], "little"), int.from_bytes(b[40:48], "little"), b[48:80], b[80:112], b[112:144], b[144:176])


_TICKS = [0, 1, 2, 255, 256, 257, 511, 512, 65535, 65536, 2 ** 32 - 1, 2 ** 32, 2 ** 63, 2 ** 64 - 1]


def _parents17(rng):
    """causal-parent records; a third of the time same kind / same worldline with ticks that order differently as
    little-endian bytes and as numbers (256 < 1 bytewise), or equal ticks with such commit_global_ticks"""
    le = lambda n, w: (n & (2 ** (8 * w) - 1)).to_bytes(w, "little")
    n = rng.choice([0, 0, 1, 2, 3])
    if rng.random() < 0.35:
        base = _ctrr(rng); tag = rng.choice([1, 1, 2]); out = []
        for _ in range(rng.choice([2, 2, 3, 4])):
            t1 = rng.choice(_TICKS + [rng.getrandbits(64)])
            if rng.random() < 0.3 and out:
                t1 = int.from_bytes(out[0][33:41], "little")
            out.append(bytes([tag if rng.random() < 0.85 else 3 - tag]) + base[:32] + le(t1, 8) + le(rng.choice(_TICKS), 8) + base[48:])
        return out
    return [bytes([rng.choice([1, 1, 2])]) + _ctrr(rng) for _ in range(n)]


def gen_irregular(rng, rid):
    le = lambda n, w: (n & (2 ** (8 * w) - 1)).to_bytes(w, "little")
    if rid == 23:
        ps = [p[1:] for p in _parents17(rng)]
        rng.shuffle(ps)
        if ps and rng.random() < 0.15: ps.append(ps[0])
        return _ctrr(rng) + b"".join(ps)
    if rid == 22:
        ps = _parents17(rng)
        rng.shuffle(ps)
        if ps and rng.random() < 0.15: ps.append(ps[0])
        return b"".join(ps)
    if rid == 16:
        parents = [_ctrr(rng) for _ in range(rng.choice([0, 0, 1, 2, 3, 4]))]
        if rng.random() < 0.3 and parents:      # shared prefix so that the tick fields decide the order
            base = parents[0]; parents += [base[:32] + le(rng.getrandbits(64), 8) + base[40:] for _ in range(2)]
        if rng.random() < 0.3 and parents:      # boundary ticks: little-endian byte order and numeric order disagree
            base = parents[0]
            parents = [base[:32] + le(rng.choice(_TICKS), 8) + le(rng.choice(_TICKS), 8) + base[48:] for _ in range(rng.choice([2, 3, 4]))]
        mode = rng.random()
        if mode < 0.6: parents = sorted(set(parents), key=_ctrr_key)
        elif mode < 0.8: parents = sorted(set(parents))      # bytewise order
        elif mode < 0.9 and parents: parents.append(parents[0])
        body = b"ERCOR002" + _ctrr(rng)
        if parents or rng.random() < 0.1: body += le(len(parents), 8) + b"".join(parents)
        return body
    if rid == 17:
        magic = b"EINGR002" if rng.random() < 0.85 else b"EINGR001"
        t = rng.choice([1, 2, 3, 3, 1, 4])
        if t == 1: tgt = b"\x01" + _rb(rng, 32)
        elif t == 2:
            name = rng.choice([b"", b"inbox", "bo\u00eete".encode(), b"\xff\xfe", b"a" * 40])
            tgt = b"\x02" + _rb(rng, 32) + le(len(name), 8) + name
        elif t == 3: tgt = b"\x03" + _rb(rng, 64)
        else: tgt = bytes([t]) + _rb(rng, 32)
        ps = _parents17(rng)
        if magic == b"EINGR001": ps = [b"\x01" + _rb(rng, 32) for _ in range(rng.choice([0, 0, 0, 1]))]
        mode = rng.random()
        if mode < 0.65: ps = sorted(set(ps), key=lambda p: (p[0], _ctrr_key(p[1:])) if len(p) == 177 else (p[0], p[1:]))
        elif mode < 0.8: ps = sorted(set(ps))      # bytewise order: differs from the canonical (numeric tick) order above byte 0
        elif mode < 0.9 and ps: ps.append(ps[0])
        data = _rb(rng, rng.choice([0, 1, 16, 100]))
        pay = bytes([rng.choice([1, 1, 1, 1, 2])]) + _rb(rng, 32) + le(len(data), 8) + data
        return magic + tgt + le(len(ps), 8) + b"".join(ps) + pay
    if rid == 18:
        return b"ERSD0001" + _rb(rng, 32) + bytes([rng.choice([0, 0, 1, 2, 3])]) + le(rng.choice([0, 5, 2 ** 40]), 8) + _rb(rng, rng.choice([0, 5, 60]))
    if rid == 19:
        out = b""
        for _ in range(rng.choice([0, 1, 1, 2, 3])):
            data = _rb(rng, rng.choice([0, 1, 8, 50]))
            res = b"\x00\x00" if rng.random() < 0.8 else _rb(rng, 2)
            out += b"MBUS" + le(rng.choice([1, 1, 1, 2]), 2) + res + le(32 + len(data), 4) + _rb(rng, 32) + data
        return out
    if rid == 20:
        out = b""
        for _ in range(rng.choice([0, 1, 1, 2])):
            ents = b""; n = rng.choice([0, 1, 2, 3])
            for _ in range(n):
                v = _rb(rng, rng.choice([0, 1, 20])); ents += _rb(rng, 64) + le(len(v), 4) + v
            slack = b"" if rng.random() < 0.9 else _rb(rng, 3)
            payload = _rb(rng, 128) + le(rng.getrandbits(64), 8) + _rb(rng, 32) + le(n, 4) + ents + slack
            res = b"\x00\x00" if rng.random() < 0.8 else _rb(rng, 2)
            out += b"MBUS" + le(rng.choice([2, 2, 2, 1]), 2) + res + le(len(payload), 4) + payload
        return out
    if rid == 21:
        out = b"ELOG" + le(rng.choice([1, 1, 1, 2]), 2) + le(rng.choice([0, 0, 0, 1]), 2) + _rb(rng, 32) + (bytes(8) if rng.random() < 0.9 else _rb(rng, 8))
        for _ in range(rng.choice([0, 1, 2, 3])):
            f = _rb(rng, rng.choice([0, 1, 12, 80])); out += le(len(f), 4) + f
        if rng.random() < 0.15: out += _rb(rng, rng.randint(1, 3))
        return out
    raise ValueError(rid)


def gen_record_cases(rng, n_per):
    out = []
    for rid in sorted(RECORDS) + sorted(ORACLE_ONLY_RECORDS):
        for i in range(n_per):
            if rid in RECORDS:
                sab = [i % 3 == 2]
                b = gen_fmt(rng, RECORDS[rid][1], sab)
            else:
                b = gen_irregular(rng, rid)
            m = i % 6
            if m == 3: b = b[:rng.randrange(len(b) + 1)]
            elif m == 4: b = b + _rb(rng, rng.randint(1, 3))
            elif m == 5: b = mutate(rng, b)
            if len(b) > 4000: continue
            out.append("rec=%d b=%s" % (rid, b.hex() or "-"))
    # F8 witness (the theorem's [fork_witness]) and EINT edge cases
    out.append("rec=14 b=" + (bytes(96) + (7).to_bytes(8, "little") + bytes(96) + (2).to_bytes(8, "little") + b"\x01" * 64 + bytes(64) + bytes(64) + b"\x00").hex())
    for op in (0, 1, 0xfffffffd, 0xfffffffe, 0xffffffff):
        out.append("rec=15 b=" + (b"EINT" + op.to_bytes(4, "little") + (3).to_bytes(4, "little") + b"abc").hex())
    out.append("rec=15 b=" + (b"EINT" + bytes(4) + (4).to_bytes(4, "little") + b"abc").hex())
    return out


def strip_floats(v, rng):
    k = v[0]
    if k == "f": return ("i", rng.choice([0, 1, -1, 24, 2 ** 64 - 1, -2 ** 64]))
    if k == "g": return strip_floats(v[2], rng)
    if k == "a": return ("a", [strip_floats(x, rng) for x in v[1]])
    if k == "m": return ("m", [(strip_floats(a, rng), strip_floats(b, rng)) for a, b in v[1]])
    return v

# ----------------------------------------------------------------------------- extracted model driver

def build_driver():
    """Extracts Model/Cbor.v to OCaml (ExtrOcamlBasic only) and builds props/c12_driver.ml against it (cached)."""
    import hashlib, shutil
    src = os.path.join(vf.ROOT, "props", "c12_driver.ml")
    vo = os.path.join(vf.COQ, "Model", "Cbor.vo")
    h = hashlib.sha1(open(src, "rb").read() + open(vo, "rb").read() + open(os.path.join(vf.COQ, "Base", "Bytes.vo"), "rb").read()
                     + open(os.path.join(vf.COQ, "Model", "Fmt.vo"), "rb").read()).hexdigest()[:12]
    d = os.path.join(vf.WORK, "c12-ocaml-" + h)
    exe = os.path.join(d, "driver")
    if os.path.exists(exe):
        return exe
    tmp = d + ".tmp%d" % os.getpid()
    shutil.rmtree(tmp, ignore_errors=True)
    os.makedirs(tmp)
    open(os.path.join(tmp, "Extract.v"), "w").write(
        "From Coq Require Import Extraction ExtrOcamlBasic.\nFrom Echo Require Import Base.Bytes Model.Cbor Model.Fmt.\n"
        "Extraction Language OCaml.\n"
        'Extraction "model.ml" run_value run_bytes code_of widen16 widen32 narrow16 narrow32 f64_to_int f64_is_nan '
        'widen16_table_fp enc decode show run_record.\n')
    rc, out = vf.sh(["coqc", "-noglob", "-Q", vf.COQ, "Echo", "Extract.v"], cwd=tmp, timeout=300)
    if rc: raise vf.Broken("extraction failed: " + out[-1500:])
    shutil.copy(src, os.path.join(tmp, "driver.ml"))
    rc, out = vf.sh(["ocamlfind", "ocamlopt", "-w", "-a", "-O3", "model.mli", "model.ml", "driver.ml", "-o", "driver"], cwd=tmp, timeout=300)
    if rc: raise vf.Broken("ocaml build of the model driver failed: " + out[-1500:])
    for old in os.listdir(vf.WORK):
        if old.startswith("c12-ocaml-") and ".tmp" not in old and os.path.join(vf.WORK, old) != d:
            shutil.rmtree(os.path.join(vf.WORK, old), ignore_errors=True)
    shutil.rmtree(d, ignore_errors=True)
    os.rename(tmp, d)
    return exe


def run_model(exe, cases, shards=None):
    """Runs the extracted model on the cases (sharded); returns one line per case."""
    import concurrent.futures
    shards = shards or min(vf.NCPU, max(1, len(cases) // 4))
    chunks = [cases[i::shards] for i in range(shards)]
    def one(i):
        path = vf.write_cases("c12-model-%d" % i, chunks[i])
        rc, out = vf.sh([exe, path], timeout=1500)
        if rc: raise vf.Broken(f"model driver exited {rc}: {out[-800:]}")
        ls = out.splitlines()
        if len(ls) != len(chunks[i]): raise vf.Broken(f"model driver printed {len(ls)} lines for {len(chunks[i])} cases")
        return ls
    with concurrent.futures.ThreadPoolExecutor(max_workers=shards) as ex:
        parts = list(ex.map(one, range(shards)))
    res = [None] * len(cases)
    for i, part in enumerate(parts):
        for j, v in enumerate(part):
            res[i + j * shards] = v
    return res

# ----------------------------------------------------------------------------- run

def run(tier, seed, replay=None):
    r = vf.Run(PROP, tier, seed, "proof")
    rng = r.rng
    r.assumptions = [
        "Coq 8.16.1 kernel (coqc; vm_compute for witnesses, the 2^16 half-precision sweep and descriptor well-formedness); "
        "no axioms (Print Assumptions: closed under the global context for every pinned theorem)",
        "models = coq/Model/Cbor.v (ABI canonical CBOR value codec on bit patterns, UTF-8 validity as an executable predicate) and "
        "coq/Model/Fmt.v (format descriptors for the fixed little-endian records, hand-transcribed from causal_wal.rs / lib.rs)",
        "round-then-compare float narrowing (half::f16::from_f64, `as f32`) is modelled as exact representability; validated "
        "against the half crate for all 2^16 halves and against Rust casts on sampled f32/f64 patterns each run",
        "the model is executed through Coq extraction (ExtrOcamlBasic only) + props/c12_driver.ml; a sample of cases is re-evaluated "
        "by the kernel (vm_compute) each run and must agree with the extracted model",
        "documented domain of decode_value (commit 65efcf1): nesting depth <= MAX_DECODE_DEPTH = 128; deeper values encode but are "
        "rejected (theorem cbor_depth_129_encodes_but_is_rejected; wf_value requires vdepth <= 128); the element budget is modelled "
        "(dec_value_b) and proved transparent on accepted inputs (cbor_budget_only_removes / cbor_budget_transparent)",
        "huge declared array/map lengths are fed to the real decoder too (the element budget rejects them before any allocation)",
        "exercised by the implementation-side oracle only, not modelled: WalReceiptCorrelationRecord, retained IngressEnvelope v2 "
        "(+ v1 legacy upgrade), WalRuntimeStateDeltaRecord/provenance_codec, MBUS frames v1/v2, ELOG; Edict canonical CBOR is compared "
        "with the float-free fragment of the ABI model (its depth/node budgets are not modelled); serde DTO layer (kernel_port), "
        "scene CBOR and columnar snapshots are outside this check",
    ]
    r.cov["trusted_base"] = ["coqc 8.16.1 kernel + vm_compute", "Coq extraction to OCaml (Require Extraction ExtrOcamlBasic; no Extract Constant/"
                             "Inductive of our own) + ocamlfind ocamlopt 4.13.1 + props/c12_driver.ml (value text parser, N<->hex conversions)",
                             "python generator/renderer props/c12.py",
                             "harness c12.rs (value text syntax, error-class mapping, fingerprint, alloc guard, semantic-equality oracle)"]
    r.proof_phase(THEOREMS)
    if tier == "thorough":
        import time as _t
        t1 = _t.time()
        try:
            rc, out = vf.sh(["coqchk", "-o", "-silent", "-Q", vf.COQ, "Echo", "Echo.Props.C12"], timeout=1500)
            r.phase("coqchk", ok=(rc == 0), seconds=round(_t.time() - t1, 1), tail=out[-400:])
            if rc: r.is_broken("coqchk", out[-1500:])
        except Exception as e:
            r.is_broken("coqchk", repr(e))
    try:
        bins = vf.cargo_build(["c12"])
        r.phase("P3_build", ok=True)
    except vf.Broken as e:
        r.is_broken("harness-build", e)
        return r.finish()

    quick = tier == "quick"
    if replay:
        d = json.load(open(replay))
        cases = [d["replay"]["case"]] if "case" in d.get("replay", {}) else []
        impl_only = []
    else:
        cases = list(vf.load_corpus(PROP))
        # value direction
        nv = 1200 if quick else 12000
        vals = []
        for i in range(nv):
            d = rng.choice([0, 1, 2, 2, 3, 3, 4]) if i % 25 else rng.choice([6, 8])
            vals.append(gen_value(rng, d))
        for z in INT_BOUNDS + INT_BELOW_I64: vals.append(("i", z))
        for b in FLOAT_SPECIAL + FLOAT_OUTSIDE + FLOAT_HUGE: vals.append(("f", b))
        for t in TEXTS + LONG_TEXTS: vals.append(("t", list(t.encode("utf8"))))
        vcases = ["v=" + show(v) for v in vals]
        cases += vcases
        # byte direction
        nb = 2500 if quick else 25000
        bcases, sabs = [], {}
        for i in range(nb):
            v = gen_value(rng, rng.choice([0, 1, 1, 2, 2, 3]), allow_defect=False, allow_bad=False)
            mode = i % 5
            if mode in (0, 1):
                sab, b = sabotaged(rng, v)
            elif mode == 2:
                sab, b = "valid", py_enc(gen_value(rng, rng.choice([1, 2, 3, 4]), allow_bad=False), rng)
            elif mode == 3:
                sab, b = "mutate", mutate(rng, py_enc(v, rng))
            elif i % 40 == 4:
                hd = rng.choice([0x9a, 0x9b, 0xba, 0xbb, 0x5b, 0x7b, 0x9b])
                sab, b = "huge-length", bytes([hd]) + bytes([rng.choice([0, 0xff, rng.getrandbits(8)]) for _ in range(rng.choice([4, 8, 9, 12]))])
            else:
                sab, b = "random", bytes([rng.choice([0x18, 0x19, 0x38, 0x58, 0x78, 0x81, 0x82, 0x98, 0xa1, 0xa2, 0xb8, 0xf9, 0xfa, 0xfb,
                                                       rng.getrandbits(8)])] + [rng.getrandbits(8) for _ in range(rng.randint(0, 11))])
            if len(b) > 3000: continue
            sabs[sab] = sabs.get(sab, 0) + 1
            bcases.append("b=" + (b.hex() or "-"))
        cases += bcases
        r.cov["byte_case_kinds"] = dict(sorted(sabs.items()))
        # Edict canonical CBOR: same byte strings, and float-free values
        ecases = ["eb=" + c[2:] for c in bcases[::2]]
        ecases += ["ev=" + show(strip_floats(v, rng)) for v in vals[:(400 if quick else 4000)]]
        ecases += ["ev=" + show(v) for v in vals[:(60 if quick else 600)]]
        cases += ecases
        r.cov["edict_cases"] = len(ecases)
        # nesting depth boundary (MAX_DECODE_DEPTH = 128) and element-budget edge cases; ABI only
        def nest(k, leaf, kind):
            v = leaf
            for i in range(k):
                v = ("a", [v]) if kind == "a" or (kind == "x" and i % 2) else ("m", [(("i", 0), v)])
            return v
        deep = []
        for k in (126, 127, 128, 129, 130, 200):
            for kind in "amx":
                for leaf in (("i", 0), ("a", []), ("m", []), ("f", 0x3ff8000000000000)):
                    deep.append("v=" + show(nest(k, leaf, kind)))
            deep.append("v=" + show(("a", [nest(k, ("N",), "a"), ("i", 1)])))
            deep.append("v=" + show(("m", [(nest(k - 1, ("i", 1), "a"), ("N",))])))        # depth through a map KEY
            deep.append("b=" + ("81" * k + "00"))
            deep.append("b=" + ("a100" * k + "f6"))
            deep.append("b=" + ("81" * k + "80"))
            deep.append("b=" + ("81" * k + "a0"))
            deep.append("b=" + ("81" * k))
            deep.append("b=" + ("9f" * 1 + "81" * k + "00"))
        for bb in ("8200", "820000", "83000000", "8400c0", "84c000", "8500", "98190000", "a20000", "a2000000", "a200000000", "a300",
                   "8281008100", "828100", "9900ff00", "b900ff00", "8a00010203040506070809", "8b00010203040506070809",
                   "82820000820000", "8282000082000000", "a182000000", "a18200", "85" + "00" * 4, "85" + "00" * 5, "85" + "c0" * 5):
            deep.append("b=" + bb)
        cases += deep
        r.cov["depth_and_budget_boundary_cases"] = len(deep)
        # fixed little-endian records / frames
        rcases = gen_record_cases(rng, 40 if quick else 400)
        # WalRuntimeStateDeltaRecord: valid payloads come from the harness (public constructors), then mutations
        try:
            gp = vf.write_cases("c12-gen", ["gen=18 seed=%d" % (seed % 1000 + i) for i in range(6 if quick else 40)])
            rc, gout = vf.run_bin(bins["c12"], gp, timeout=300)
            seeds18 = [bytes.fromhex(l.split()[1]) for l in gout.splitlines() if l.startswith("gen ") and l != "gen E"]
        except Exception:
            seeds18 = []
        for sb in seeds18:
            rcases.append("rec=18 b=" + sb.hex())
            for _ in range(6 if quick else 20):
                mb = mutate(rng, sb) if rng.random() < 0.7 else sb[:rng.randrange(len(sb))]
                rcases.append("rec=18 b=" + (mb.hex() or "-"))
        r.cov["state_delta_seed_payloads"] = len(seeds18)
        cases += rcases
        r.cov["record_cases"] = len(rcases)
        # float primitives, utf8 via text heads, exhaustive universes
        fls = [gen_float(rng, True) for _ in range(2000 if quick else 20000)] + FLOAT_SPECIAL + FLOAT_OUTSIDE + FLOAT_HUGE
        for i in range(0, len(fls), 100):
            cases.append("fl=" + ",".join("%016x" % b for b in fls[i:i + 100]))
        w32s = [rng.getrandbits(32) for _ in range(1000 if quick else 10000)] + [0, 1, 0x7fffff, 0x800000, 0x7f7fffff, 0x7f800000,
                                                                                  0x7f800001, 0x7fc00000, 0xffc00001, 0x80000000, 0x80000001]
        for i in range(0, len(w32s), 100):
            cases.append("w32=" + ",".join("%08x" % b for b in w32s[i:i + 100]))
        cases.append("f16tab=1")
        cases.append("exh=0 p=-")
        cases.append("exh=1 p=-")
        cases.append("exh=2 p=-")
        hot = [0x00, 0x17, 0x18, 0x19, 0x1a, 0x1b, 0x1c, 0x1f, 0x20, 0x38, 0x39, 0x3b, 0x40, 0x41, 0x42, 0x58, 0x59, 0x5f, 0x60, 0x61,
               0x62, 0x78, 0x79, 0x7f, 0x80, 0x81, 0x82, 0x98, 0x99, 0x9f, 0xa0, 0xa1, 0xb8, 0xb9, 0xbf, 0xc0, 0xd8, 0xe0, 0xf4, 0xf5,
               0xf6, 0xf7, 0xf8, 0xf9, 0xfa, 0xfb, 0xfc, 0xff]
        firsts = hot if quick else list(range(256))      # thorough: the whole 3-byte universe, model vs implementation
        for b0 in firsts:
            cases.append("exh=2 p=%02x" % b0)
        # implementation-side oracle over the whole 3-byte universe (accepted => re-encodes identically)
        impl_only = [] if not quick else ["exh=3 p=- rle=0"]

    import time
    try:
        t0 = time.time()
        path = vf.write_cases("c12", cases + impl_only)
        rc, out = vf.run_bin(bins["c12"], path, timeout=1500)
        r.phase("impl_run", seconds=round(time.time() - t0, 1)); t0 = time.time()
        if rc:
            raise vf.Broken(f"harness c12 exited {rc}: {out[-800:]}")
        lines = out.splitlines()
        if len(lines) != len(cases) + len(impl_only):
            raise vf.Broken(f"harness printed {len(lines)} lines for {len(cases) + len(impl_only)} cases")
        impl_full = lines[:len(cases)]
        extra = lines[len(cases):]
        keep = [i for i, l in enumerate(impl_full) if "skip=alloc-guard" not in l]
        r.cov["skipped_alloc_guard"] = len(cases) - len(keep)
        kcases = [cases[i] for i in keep]
        kimpl = [impl_full[i] for i in keep]
        exe = build_driver()
        r.phase("model_build", seconds=round(time.time() - t0, 1)); t0 = time.time()
        model = run_model(exe, kcases)
        # codecs exercised by the implementation-side oracle only (no model): nothing to compare
        for i, c in enumerate(kcases):
            if c.startswith("rec=") and int(c.split()[0][4:]) not in MODELLED_RECORDS:
                model[i] = impl_comparable(kimpl[i])
        r.phase("model_run_extracted", seconds=round(time.time() - t0, 1), cases=len(kcases)); t0 = time.time()
        # kernel cross-check of the extraction: a sample of small cases through coqc/vm_compute
        small = [i for i, c in enumerate(kcases) if len(c) < 160 and c[:2] in ("v=", "b=")]
        pick = sorted(rng.sample(small, min(len(small), 24 if quick else 300)))
        pick += [i for i, c in enumerate(kcases) if c in ("exh=0 p=-", "exh=1 p=-", "exh=1 p=f9", "exh=1 p=f97e")]
        kvals = vf.coq_eval("c12", PRE, [term_of(kcases[i]) for i in pick], shards=(2 if quick else 8), timeout=900)
        kbad = [(kcases[i], model[i], model_line(kcases[i], v)) for i, v in zip(pick, kvals) if model_line(kcases[i], v) != model[i]]
        r.cov["kernel_vm_compute_crosschecked"] = len(pick)
        for c, a, b in kbad[:2]:
            r.is_broken("extraction-vs-kernel", f"extracted model and vm_compute disagree on {c[:200]}\n ocaml: {a[:300]}\n coq  : {b[:300]}")
        r.phase("model_run_kernel_crosscheck", seconds=round(time.time() - t0, 1), terms=len(pick))
    except (vf.Broken, ValueError, KeyError, IndexError) as e:
        r.is_broken("correspondence-run", repr(e))
        return r.finish()

    impl = [impl_comparable(l) for l in kimpl]
    bad = vf.diff_lines(r, kcases, impl, model)
    nfail = 0
    for c, l in zip(kcases, kimpl):
        o = oracle_of(l)
        if o != "ok":
            nfail += 1
            for sig in signature(o):
                r.violation(sig, f"implementation oracle failed: {o} on {c[:200]}", {"case": c, "oracle": o, "impl": l[:400]})
        if l.startswith("panic"):
            r.violation("abi:panic", "harness caught a panic: " + l[:200], {"case": c, "impl": l[:400]})
    tot = {"total": 0, "acc": 0, "bad": 0, "bad_f16nan": 0}
    firsts = []
    full3 = [(c, l) for c, l in zip(kcases, kimpl) if c.startswith("exh=2 p=") and c != "exh=2 p=-"]
    use_extra = len(full3) < 256
    for c, l in list(zip(kcases, kimpl)) + [("exh=3 p=-", l) for l in extra]:
        if c.startswith("exh=") and " total=" in l:
            m = dict(t.split("=", 1) for t in l.split()[1:])
            if (use_extra and c == "exh=3 p=-") or (not use_extra and c.startswith("exh=2 p=") and c != "exh=2 p=-"):
                for k in tot: tot[k] += int(m[k])
            if m["first"] != "-": firsts += m["first"].split(",")
            if int(m["bad_f16nan"]) > 0:
                r.violation("abi:f16-nan-payload-accepted", f"{m['bad_f16nan']} byte strings in universe `{c}` (half-precision NaN payloads) are "
                            f"accepted and re-encode as f97e00; first: {m['first']}", {"case": "b=" + m["first"].split(",")[0]})
            if int(m["bad"]) > int(m["bad_f16nan"]):
                r.violation("abi:accepted-noncanonical:other", f"exhaustive `{c}`: {m['bad']} accepted non-canonical, first {m['first']}",
                            {"case": "b=" + m["first"].split(",")[-1]})
    tot["first_noncanonical"] = firsts[:6]
    r.cov["exhaustive_3_byte_universe_impl_oracle"] = tot
    for i in bad[:3]:
        r.is_broken("correspondence", f"model and implementation differ on: {kcases[i][:300]}\n impl : {impl[i][:600]}\n model: {model[i][:600]}")
    # evidence
    r.cov["evaluations"] = len(kcases)
    vcs = [c for c in kcases if c.startswith("v=")]
    bcs = [c for c in kcases if c.startswith("b=")]
    nontriv = {c for c in vcs if size(parse_value(c[2:])) >= 3} | {c for c in bcs if len(c) > 8}
    r.cov["distinct_nontrivial"] = len(nontriv)
    r.cov["rule"] = ("non-trivial = value with >= 3 nodes, or byte string of >= 4 bytes; every case is run through the real "
                     "echo_wasm_abi::{encode_value,decode_value} and the Coq model (vm_compute) and compared on bytes / decoded value / error class")
    r.cov["value_cases"] = len(vcs)
    r.cov["byte_cases"] = len(bcs)
    acc = sum(1 for c, l in zip(kcases, impl) if c.startswith("b=") and " dec=E:" not in l)
    r.cov["byte_cases_accepted"] = acc
    errh = {}
    for c, l in zip(kcases, impl):
        if c.startswith("b=") and " dec=E:" in l:
            k = l.split(" dec=E:")[1].split()[0]; errh[k] = errh.get(k, 0) + 1
    r.cov["byte_cases_error_class_histogram"] = dict(sorted(errh.items(), key=lambda kv: int(kv[0])))
    fc = {}
    for c in vcs:
        for n in walk(parse_value(c[2:])):
            if n[0] == "f":
                k = float_class(n[1]); fc[k] = fc.get(k, 0) + 1
    r.cov["float_class_histogram"] = dict(sorted(fc.items()))
    dh = {}
    for c in vcs:
        k = depth(parse_value(c[2:])); dh[k] = dh.get(k, 0) + 1
    r.cov["value_depth_histogram"] = dict(sorted(dh.items()))
    r.cov["exhaustive_model_vs_impl"] = {"len0": 1, "len1": 256, "len2": 65536,
                                         "len3": 65536 * sum(1 for c in kcases if c.startswith("exh=2 p=") and c != "exh=2 p=-")}
    rec_hist = {}
    for c, l in zip(kcases, kimpl):
        if c.startswith("rec="):
            rid = int(c.split()[0][4:]); nm = (RECORDS.get(rid) or (ORACLE_ONLY_RECORDS.get(rid),))[0]
            h = rec_hist.setdefault(nm, {"cases": 0, "accepted": 0, "modelled": rid in MODELLED_RECORDS})
            h["cases"] += 1; h["accepted"] += l.startswith("rec ok")
    r.cov["record_codecs"] = rec_hist
    r.cov["edict_accepted"] = sum(1 for c, l in zip(kcases, kimpl) if c[:3] in ("eb=", "ev=") and "=E " not in l)
    r.cov["exercised_not_modelled"] = sorted(ORACLE_ONLY_RECORDS.values()) + [
        "Edict canonical CBOR depth/node budgets (the codec itself is compared with the float-free fragment of the ABI model)"]
    r.cov["traces_validated_against_impl"] = len(kcases) - len(bad)
    r.cov["oracle_failures"] = nfail
    r.cov["samples"] = [c[:300] for c in (vcs[:2] + bcs[:2])]
    r.phase("P4_correspondence", cases=len(kcases), differing=len(bad))
    r.phase("P5_oracle", failing=nfail)
    return r.finish()


MANIFEST = {
    "category": "proof",
    "text": ("Coq theorems (no axioms, 27 pinned) over an executable, byte-exact model of the ABI canonical CBOR codec "
             "(echo-wasm-abi/src/canonical.rs: value tree, integers in [-2^64,2^64), floats as bit patterns with exact f16/f32/f64 "
             "width selection and the integral-float-to-integer rule, UTF-8 validity, maps sorted by encoded key bytes, the decoder's "
             "depth limit MAX_DECODE_DEPTH = 128 and its element budget): "
             "cbor_roundtrip (decode(encode v) = norm v for every well-formed value of nesting depth <= 128, the documented domain; "
             "cbor_depth_129_encodes_but_is_rejected shows the boundary is exact), cbor_canonical (for EVERY byte string: accepted "
             "=> re-encodes to exactly those bytes), decode injectivity, encoding independent of map entry order, decoder output is "
             "in normal form, every other spelling of a value is rejected, and rejection lemmas per class (trailing bytes, tags, "
             "indefinite lengths, non-minimal heads, wide floats, integral floats, NaN payloads); plus generic fmt_roundtrip / "
             "fmt_canonical / injectivity / trailing-byte rejection proved once by induction on format descriptors and instantiated "
             "for 14 hand-transcribed WAL record descriptors and the EINT envelope (StrandForkRecord with its canonical-order "
             "check). The models are tied to /repo by running the Coq-extracted model and the real crates on the same cases: "
             "generated values (boundary integers, every float class, deep/wide maps), sabotaged and mutated encodings, ALL byte "
             "strings of length <= 2 and the 3-byte universe (48 first bytes in quick, all 256 in thorough; the whole 16.8M-string "
             "universe is additionally checked by the implementation-side oracle every run), float narrowing against the half crate "
             "for all 2^16 halves and sampled f32/f64, descriptor-generated and mutated record payloads; the harness independently "
             "checks the property itself (semantic round trip, accepted => canonical, writer determinism) for these codecs and for "
             "Edict canonical CBOR, retained ingress envelopes, receipt-correlation and runtime-state-delta records, MBUS frames "
             "v1/v2 and ELOG."),
    "note": ("Trusted: Coq kernel + vm_compute; Coq extraction (ExtrOcamlBasic) + OCaml driver props/c12_driver.ml (cross-checked against "
             "kernel vm_compute on a sample each run); python generator; harness c12.rs. Modelled rather than verified: canonical.rs and "
             "the record layouts as Gallina functions/descriptors; round-then-compare float narrowing as exact representability "
             "(validated against the half crate / Rust casts each run). Exercised by the implementation-side oracle only (not modelled): "
             "WalReceiptCorrelationRecord, retained IngressEnvelope v2 (+v1 legacy upgrade), WalRuntimeStateDeltaRecord/provenance_codec, "
             "MBUS frames v1/v2 (round trip + writer determinism only, as the property scopes them), ELOG; Edict canonical CBOR is "
             "compared with the float-free fragment of the ABI model (depth/node budgets not modelled). Outside: serde DTO layer "
             "(kernel_port), scene CBOR, columnar snapshots. Domain: values nested deeper than 128 encode but are rejected by decode_value "
             "(Decode(\"nesting too deep\"), /repo 65efcf1) - wf_value requires depth <= 128; the decoder's element budget is modelled and "
             "proved transparent on accepted inputs (cbor_budget_only_removes / cbor_budget_transparent). Found and fixed "
             "while building: f16 NaN payloads accepted (f8fd569), integers below i64::MIN not decodable (35fff59), integral floats "
             ">= 2^64 truncated by the encoder (50eacdd), StrandForkRecord decode normalising writer-head order."),
}
