"""C12 — canonical encodings are bijective."""
import os, json, struct, math
import vf

PROP = "C12"
THEOREMS = ["cbor_roundtrip", "cbor_canonical", "cbor_decode_injective", "cbor_noncanonical_rejected", "cbor_decode_normal",
            "cbor_enc_wf", "cbor_reject_trailing", "cbor_reject_tag", "cbor_reject_indefinite", "cbor_reject_nonminimal_head",
            "cbor_reject_f16_nan_payload", "cbor_reject_integral_float", "cbor_reject_wide_float64", "cbor_reject_wide_float32",
            "narrow16_exact", "narrow32_exact", "cbor_decode_never_out_of_fuel"]
PRE = ("From Coq Require Import List NArith ZArith.\nFrom Echo Require Import Base.Bytes Model.Cbor.\n"
       "Import ListNotations.\nOpen Scope N_scope.\n")

CANON_NAN = 0x7ff8000000000000

# ----------------------------------------------------------------------------- value syntax (shared with harness / Cbor.v show)

def show(v):
    k = v[0]
    if k == "T": return "T"
    if k == "F": return "F"
    if k == "N": return "N"
    if k == "i": return ("i+%x" % v[1]) if v[1] >= 0 else ("i-%x" % -v[1])
    if k == "f": return "f%016x" % v[1]
    if k == "t": return "t[%s]" % bytes(v[1]).hex()
    if k == "b": return "b[%s]" % bytes(v[1]).hex()
    if k == "a": return "a(" + ",".join(show(x) for x in v[1]) + ")"
    if k == "m": return "m(" + ",".join(show(a) + ":" + show(b) for a, b in v[1]) + ")"
    if k == "g": return "g%x(%s)" % (v[1], show(v[2]))
    raise ValueError(k)


class _VP:
    def __init__(s, t): s.t = t; s.i = 0
    def hexrun(s):
        j = s.i
        while s.i < len(s.t) and s.t[s.i] in "0123456789abcdef": s.i += 1
        return s.t[j:s.i]
    def value(s):
        c = s.t[s.i]; s.i += 1
        if c in "TFN": return (c,)
        if c == "i":
            sg = s.t[s.i]; s.i += 1
            n = int(s.hexrun(), 16)
            return ("i", -n if sg == "-" else n)
        if c == "f":
            h = s.t[s.i:s.i + 16]; s.i += 16
            return ("f", int(h, 16))
        if c in "tb":
            s.i += 1
            h = s.hexrun(); s.i += 1
            return (c, list(bytes.fromhex(h)))
        if c == "a":
            s.i += 1; items = []
            if s.t[s.i] != ")":
                while True:
                    items.append(s.value())
                    if s.t[s.i] == ",": s.i += 1
                    else: break
            s.i += 1
            return ("a", items)
        if c == "m":
            s.i += 1; es = []
            if s.t[s.i] != ")":
                while True:
                    k = s.value(); s.i += 1
                    v = s.value(); es.append((k, v))
                    if s.t[s.i] == ",": s.i += 1
                    else: break
            s.i += 1
            return ("m", es)
        if c == "g":
            t = int(s.hexrun(), 16); s.i += 1
            v = s.value(); s.i += 1
            return ("g", t, v)
        raise ValueError("value syntax: %r at %d" % (s.t, s.i))


def parse_value(t):
    p = _VP(t); v = p.value()
    if p.i != len(t): raise ValueError("trailing value text")
    return v


def coq_value(v):
    k = v[0]
    if k == "T": return "VBool true"
    if k == "F": return "VBool false"
    if k == "N": return "VNull"
    if k == "i": return "VInt (%d)%%Z" % v[1]
    if k == "f": return "VFloat 0x%x" % v[1]
    if k == "t": return "VText " + vf.coq_bytes(v[1])
    if k == "b": return "VBytes " + vf.coq_bytes(v[1])
    if k == "a": return "VArray [" + ";".join("(" + coq_value(x) + ")" for x in v[1]) + "]"
    if k == "m": return "VMap [" + ";".join("((%s),(%s))" % (coq_value(a), coq_value(b)) for a, b in v[1]) + "]"
    if k == "g": return "VTag %d (%s)" % (v[1], coq_value(v[2]))
    raise ValueError(k)


def size(v):
    k = v[0]
    if k == "a": return 1 + sum(size(x) for x in v[1])
    if k == "m": return 1 + sum(size(a) + size(b) for a, b in v[1])
    if k == "g": return 1 + size(v[2])
    return 1


def depth(v):
    k = v[0]
    if k == "a": return 1 + max([depth(x) for x in v[1]] + [0])
    if k == "m": return 1 + max([max(depth(a), depth(b)) for a, b in v[1]] + [0])
    if k == "g": return 1 + depth(v[2])
    return 0


def walk(v):
    yield v
    k = v[0]
    if k == "a":
        for x in v[1]: yield from walk(x)
    elif k == "m":
        for a, b in v[1]:
            yield from walk(a); yield from walk(b)
    elif k == "g":
        yield from walk(v[2])

# ----------------------------------------------------------------------------- generator-side float helpers (not trusted)

def f64bits(x): return struct.unpack(">Q", struct.pack(">d", x))[0]
def bits64f(b): return struct.unpack(">d", struct.pack(">Q", b))[0]
def h2d(h): return f64bits(struct.unpack(">e", struct.pack(">H", h))[0])
def s2d(s): return f64bits(struct.unpack(">f", struct.pack(">I", s))[0])


def float_class(b):
    e = (b >> 52) & 0x7ff; m = b & ((1 << 52) - 1)
    if e == 0x7ff: return "nan" if m else "inf"
    x = bits64f(b)
    if x == 0: return "zero"
    big = ""
    if x == math.floor(x):
        if -(2.0 ** 64) <= x < 2.0 ** 64: return "integral"
        big = "big-integral-"            # integral floats outside the CBOR integer range stay floats
    if e == 0: return "f64-subnormal"
    try:
        if f64bits(struct.unpack(">e", struct.pack(">e", x))[0]) == b: return "fits-f16"
    except (OverflowError, struct.error):
        pass
    try:
        if f64bits(struct.unpack(">f", struct.pack(">f", x))[0]) == b: return big + "fits-f32"
    except (OverflowError, struct.error):
        pass
    return big + "needs-f64"


INT_BOUNDS = [0, 1, 10, 23, 24, 25, 255, 256, 65535, 65536, 2 ** 32 - 1, 2 ** 32, 2 ** 53, 2 ** 63 - 1, 2 ** 63, 2 ** 64 - 1,
              -1, -10, -24, -25, -256, -257, -65536, -65537, -2 ** 32, -2 ** 32 - 1, -2 ** 63 + 1, -2 ** 63]
INT_BELOW_I64 = [-2 ** 63 - 1, -2 ** 63 - 2, -2 ** 64, -2 ** 64 + 1, -(2 ** 63) - 2 ** 40]
FLOAT_SPECIAL = [0x0000000000000000, 0x8000000000000000, 0x3ff0000000000000, 0xbff0000000000000, 0x3ff8000000000000,
                 0x3fb999999999999a, 0x7ff0000000000000, 0xfff0000000000000, 0x7ff8000000000000, 0x7ff8000000000001,
                 0xfff8000000000000, 0x7ff0000000000001, 0x7ff4000000000000, 0x0000000000000001, 0x000fffffffffffff,
                 0x0010000000000000, 0x7fefffffffffffff, 0x40effc0000000000, 0x40effc0000000001, 0x3f10000000000000,
                 0x3e70000000000000, 0x3e60000000000000, 0x3e78000000000000, 0x36a0000000000000, 0x3690000000000000,
                 0x380fffffc0000000, 0x3810000000000000, 0x47efffffe0000000, 0x47effffff0000000, 0x3ff0000000000001,
                 0x3ff0000020000000, 0x3ff0040000000000, 0x3ff0020000000000, 0x4340000000000000, 0x433fffffffffffff,
                 0x43e0000000000000, 0xc3e0000000000000, 0x43dfffffffffffff, 0x43efffffffffffff, 0x4330000000000001,
                 0x4059000000000000, 0x40c3880000000000, 0x3fe0000000000000, 0x3fd5555555555555, 0x400921fb54442d18]
FLOAT_OUTSIDE = [0x43f0000000000000, 0x43f0000000000001, 0x4400000000200000, 0x47e0000000000000, 0xc7e0000000000000,
                 0xc3e0000000000001, 0xc3f0000000000000, 0x47d0000000000000, 0x4500000000000000]
FLOAT_HUGE = [0x47e0000000000001, 0x47f0000000000000, 0x7e37e43c8800759c, 0xfe37e43c8800759c, 0x47e8000000000000]
TEXTS = ["", "a", "id", "kind", "héllo", "€", "😀", "\x00", "\x7f", "key", "z" * 23, "y" * 24,
         "\u0080", "߿", "ࠀ", "￿", "\U00010000", "\U0010ffff", "á"]


def gen_int(rng, allow_defect):
    r = rng.random()
    if r < 0.04: return rng.choice(INT_BELOW_I64)
    if r < 0.45: return rng.choice(INT_BOUNDS)
    if r < 0.7: return rng.randint(-300, 300)
    bl = rng.choice([8, 16, 32, 33, 62, 63, 64])
    n = rng.getrandbits(bl)
    if rng.random() < 0.5:
        n = -n - 1
    return n


def gen_float(rng, allow_defect):
    return gen_float1(rng, allow_defect)


def gen_float1(rng, allow_defect):
    r = rng.random()
    if r < 0.04: return rng.choice(FLOAT_OUTSIDE)
    if r < 0.30: return rng.choice(FLOAT_SPECIAL)
    if r < 0.34: return rng.choice(FLOAT_HUGE)
    if r < 0.50: return h2d(rng.getrandbits(16))
    if r < 0.66: return s2d(rng.getrandbits(32))
    if r < 0.72: return s2d(rng.getrandbits(23) | (rng.getrandbits(1) << 31))          # f32 subnormals
    if r < 0.78: return h2d(rng.getrandbits(10) | (rng.getrandbits(1) << 15))          # f16 subnormals
    if r < 0.84: return f64bits(float(rng.randint(-70000, 70000)) + rng.choice([0.0, 0.5, 0.25, 0.125, 2.0 ** -11, 2.0 ** -30]))
    return rng.getrandbits(64)


LONG_TEXTS = ["x" * 255, "w" * 256, "é" * 128]


def gen_text(rng):
    r = rng.random()
    if r < 0.02: return rng.choice(LONG_TEXTS)
    if r < 0.6: return rng.choice(TEXTS)
    return "".join(rng.choice(["a", "b", "0", " ", "é", "€", "😀", "\x00", "߿", "퟿", ""]) for _ in range(rng.randint(0, 30)))


def gen_value(rng, d, allow_defect=True, allow_bad=True, budget=None):
    if budget is None: budget = [120]
    budget[0] -= 1
    r = rng.random()
    if d <= 0 or budget[0] <= 0: r *= 0.7
    if r < 0.22: return ("i", gen_int(rng, allow_defect))
    if r < 0.42:
        return ("f", gen_float(rng, allow_defect))
    if r < 0.52: return ("t", list(gen_text(rng).encode("utf8")))
    if r < 0.60:
        n = rng.choice([0, 1, 2, 5, 23, 24, 32, 255, 256]) if rng.random() < 0.6 else rng.randint(0, 40)
        return ("b", [rng.getrandbits(8) for _ in range(n)])
    if r < 0.70: return (rng.choice("TFN"),)
    if r < 0.84:
        n = rng.choice([0, 1, 2, 3, 5, 23, 24]) if rng.random() < 0.8 else rng.randint(0, 40)
        n = min(n, max(0, budget[0]))
        return ("a", [gen_value(rng, d - 1, allow_defect, allow_bad, budget) for _ in range(n)])
    if r < 0.985 or not allow_bad:
        n = rng.choice([0, 1, 2, 3, 4, 8, 23, 24]) if rng.random() < 0.85 else rng.randint(0, 30)
        n = min(n, max(0, budget[0] // 2))
        es, seen = [], set()
        for j in range(n):
            kr = rng.random()
            if kr < 0.45: k = ("i", gen_int(rng, False) if rng.random() < 0.5 else j)
            elif kr < 0.8: k = ("t", list((gen_text(rng) if rng.random() < 0.5 else "k%d" % j).encode("utf8")))
            elif kr < 0.9: k = ("f", gen_float(rng, False))
            else: k = gen_value(rng, min(d - 1, 1), False, allow_bad, budget)
            budget[0] -= 1
            es.append((k, gen_value(rng, d - 1, allow_defect, allow_bad, budget)))
        if allow_bad and es and rng.random() < 0.06:
            k, _ = rng.choice(es)
            if k[0] == "i" and rng.random() < 0.5 and abs(k[1]) < 2 ** 53:
                k = ("f", f64bits(float(k[1])))                     # numerically equal key spelled as a float
            es.insert(rng.randint(0, len(es)), (k, gen_value(rng, 0, False, False)))
        return ("m", es)
    return ("g", rng.choice([0, 1, 24, 55799, 2 ** 32]), gen_value(rng, d - 1, allow_defect, allow_bad, budget))

# ----------------------------------------------------------------------------- generator-side encoder with sabotage (not trusted)

def head(major, n, width=None):
    """CBOR head; width None = minimal, else forced argument width in bytes (0 = immediate)."""
    if width is None:
        width = 0 if n < 24 else 1 if n < 256 else 2 if n < 65536 else 4 if n < 2 ** 32 else 8
    if width == 0: return bytes([major * 32 + n])
    info = {1: 24, 2: 25, 4: 26, 8: 27}[width]
    return bytes([major * 32 + info]) + (n & (256 ** width - 1)).to_bytes(width, "big")


def enc_float_py(b, rng=None, sab=None):
    cls = float_class(b)
    x = bits64f(b)
    if sab == "float-wider":
        if cls in ("fits-f16",): return (b"\xfa" + struct.pack(">f", x)) if rng.random() < 0.5 else (b"\xfb" + struct.pack(">d", x))
        if cls in ("fits-f32", "big-integral-fits-f32"): return b"\xfb" + struct.pack(">d", x)
        if cls in ("nan", "inf"): return (b"\xfa" + struct.pack(">I", s_nan_inf(b))) if rng.random() < 0.5 else b"\xfb" + b.to_bytes(8, "big")
    if sab == "float-integral" and cls in ("integral", "zero"):
        for fmt, tag in ((">e", b"\xf9"), (">f", b"\xfa"), (">d", b"\xfb")):
            try:
                p = struct.pack(fmt, x)
                if struct.unpack(fmt, p)[0] == x and rng.random() < 0.6: return tag + p
            except (OverflowError, struct.error):
                pass
        return b"\xfb" + struct.pack(">d", x)
    if sab == "nan-payload" and cls == "nan":
        return b"\xf9" + (0x7c00 | rng.randint(1, 0x3ff) | (rng.getrandbits(1) << 15)).to_bytes(2, "big")
    if cls == "nan": return b"\xf9\x7e\x00"
    if cls == "inf": return b"\xf9\x7c\x00" if x > 0 else b"\xf9\xfc\x00"
    if cls in ("zero", "integral"): return enc_int_py(int(x))
    if cls == "fits-f16": return b"\xf9" + struct.pack(">e", x)
    if cls in ("fits-f32", "big-integral-fits-f32"): return b"\xfa" + struct.pack(">f", x)
    return b"\xfb" + struct.pack(">d", x)


def s_nan_inf(b):
    s = (b >> 63) << 31
    return s | 0x7f800000 | ((b >> 29) & 0x7fffff)


def enc_int_py(z, width=None):
    return head(0, z, width) if z >= 0 else head(1, -1 - z, width)


def py_enc(v, rng=None, target=None, sab=None, counter=None):
    """Encodes like the ABI encoder; if `target` is the index (pre-order) of a node, applies sabotage `sab` there."""
    if counter is None: counter = [0]
    me = counter[0]; counter[0] += 1
    hit = (target == me)
    k = v[0]
    pre = b""
    if hit and sab == "tag": pre = head(6, rng.choice([0, 1, 2, 24, 55799]))
    wider = None
    def widen(n):
        mins = 0 if n < 24 else 1 if n < 256 else 2 if n < 65536 else 4 if n < 2 ** 32 else 8
        opts = [w for w in (1, 2, 4, 8) if w > mins]
        return rng.choice(opts) if opts else None
    if k in "TFN": out = {"T": b"\xf5", "F": b"\xf4", "N": b"\xf6"}[k]
    elif k == "i":
        z = v[1]
        w = widen(z if z >= 0 else -1 - z) if (hit and sab == "head-wider") else None
        if hit and sab == "int-as-float" and abs(z) < 2 ** 53:
            out = enc_float_py(f64bits(float(z)), rng, "float-integral")
        else:
            out = enc_int_py(z, w)
    elif k == "f": out = enc_float_py(v[1], rng, sab if hit else None)
    elif k in "tb":
        n = len(v[1]); w = widen(n) if (hit and sab == "head-wider") else None
        if hit and sab == "indefinite": out = bytes([(2 if k == "b" else 3) * 32 + 31]) + head(2 if k == "b" else 3, n) + bytes(v[1]) + b"\xff"
        else: out = head(2 if k == "b" else 3, n, w) + bytes(v[1])
    elif k == "a":
        n = len(v[1]); w = widen(n) if (hit and sab == "head-wider") else None
        body = b"".join(py_enc(x, rng, target, sab, counter) for x in v[1])
        if hit and sab == "indefinite": out = b"\x9f" + body + b"\xff"
        elif hit and sab == "len-off": out = head(4, max(0, n + rng.choice([-1, 1]))) + body
        else: out = head(4, n, w) + body
    elif k == "m":
        ents = [(py_enc(a, rng, target, sab, counter), py_enc(b, rng, target, sab, counter)) for a, b in v[1]]
        ents.sort(key=lambda e: e[0])
        n = len(ents); w = widen(n) if (hit and sab == "head-wider") else None
        if hit and sab == "map-swap" and n >= 2:
            i = rng.randrange(n - 1); ents[i], ents[i + 1] = ents[i + 1], ents[i]
        if hit and sab == "map-dup" and n >= 1:
            i = rng.randrange(n); ents.insert(i, ents[i]); n += 1
        if hit and sab == "map-lenfirst" and n >= 2:
            ents.sort(key=lambda e: (len(e[0]), e[0]))        # RFC 7049 length-first order
        body = b"".join(a + b for a, b in ents)
        if hit and sab == "indefinite": out = b"\xbf" + body + b"\xff"
        else: out = head(5, n, w) + body
    elif k == "g":
        out = head(6, v[1]) + py_enc(v[2], rng, target, sab, counter)
    return pre + out


SABOTAGES = ["head-wider", "float-wider", "float-integral", "int-as-float", "nan-payload", "map-swap", "map-dup",
             "map-lenfirst", "indefinite", "tag", "len-off", "trailing", "truncate"]


def sabotaged(rng, v):
    nodes = list(walk(v))
    want = {"head-wider": "itbam", "float-wider": "f", "float-integral": "f", "int-as-float": "i", "nan-payload": "f",
            "map-swap": "m", "map-dup": "m", "map-lenfirst": "m", "indefinite": "tbam", "tag": "TFNiftbam", "len-off": "a"}
    def applicable(sab):
        if sab in ("trailing", "truncate"): return [0]
        idx = [i for i, n in enumerate(nodes) if n[0] in want[sab]]
        if sab == "float-wider": idx = [i for i in idx if float_class(nodes[i][1]) in ("fits-f16", "fits-f32", "big-integral-fits-f32", "nan", "inf")]
        if sab == "float-integral": idx = [i for i in idx if float_class(nodes[i][1]) in ("integral", "zero")]
        if sab == "nan-payload": idx = [i for i in idx if float_class(nodes[i][1]) == "nan"]
        if sab == "int-as-float": idx = [i for i in idx if abs(nodes[i][1]) < 2 ** 53]
        if sab in ("map-swap", "map-lenfirst"): idx = [i for i in idx if len(nodes[i][1]) >= 2]
        if sab == "map-dup": idx = [i for i in idx if len(nodes[i][1]) >= 1]
        return idx
    order = list(SABOTAGES); rng.shuffle(order)
    for sab in order:
        idx = applicable(sab)
        if not idx: continue
        if sab in ("trailing", "truncate"):
            b = py_enc(v, rng)
            if sab == "trailing": return sab, b + bytes([rng.getrandbits(8) for _ in range(rng.randint(1, 3))])
            return sab, b[:rng.randrange(len(b))] if len(b) > 0 else b
        return sab, py_enc(v, rng, rng.choice(idx), sab)
    return "none", py_enc(v, rng)


def mutate(rng, b):
    b = bytearray(b)
    for _ in range(rng.choice([1, 1, 1, 2, 3])):
        op = rng.random()
        if not b: b.append(rng.getrandbits(8)); continue
        i = rng.randrange(len(b))
        if op < 0.3: b[i] ^= 1 << rng.randrange(8)
        elif op < 0.5: b[i] = rng.choice([0x00, 0x17, 0x18, 0x19, 0x1a, 0x1b, 0x1f, 0x20, 0x38, 0x3b, 0x40, 0x5f, 0x60, 0x7f, 0x80, 0x9f,
                                          0xa0, 0xa1, 0xbf, 0xc0, 0xd8, 0xf4, 0xf5, 0xf6, 0xf7, 0xf8, 0xf9, 0xfa, 0xfb, 0xff, rng.getrandbits(8)])
        elif op < 0.65: b.insert(i, rng.getrandbits(8))
        elif op < 0.8: del b[i]
        elif op < 0.9: del b[i:]
        else: b.append(rng.getrandbits(8))
    return bytes(b)

# ----------------------------------------------------------------------------- model side rendering

def _txt(l): return "".join(chr(c) for c in l)


def model_value_line(val):
    ec, eb, (dc, db), (_nc, nb) = val
    if ec != 0: return "abi enc=E:%d dec=-" % ec
    return "abi enc=%s dec=%s" % (vf.hexb(eb), _txt(db) if dc == 0 else "E:%d" % dc)


def model_bytes_line(val, inp):
    dc, db, (rc, rb) = val
    if dc != 0: return "abi dec=E:%d reenc=-" % dc
    re = ("same" if list(rb) == list(inp) else vf.hexb(rb)) if rc == 0 else "E:%d" % rc
    return "abi dec=%s reenc=%s" % (_txt(db), re)


def term_of(case):
    m = dict(t.split("=", 1) for t in case.split())
    if "v" in m: return "run_value (%s)" % coq_value(parse_value(m["v"]))
    if "b" in m: return "run_bytes %s" % vf.coq_bytes(list(bytes.fromhex(m["b"])) if m["b"] != "-" else [])
    if "exh" in m:
        p = [] if m.get("p", "-") == "-" else list(bytes.fromhex(m["p"]))
        return "exh_codes %s %s%%nat" % (vf.coq_bytes(p), m["exh"])
    if "f16tab" in m: return "widen16_table_fp"
    if "fl" in m:
        xs = ";".join("0x" + h for h in m["fl"].split(","))
        return ("map (fun b => (f64_is_nan b, narrow16 b, narrow32 b, match f64_to_int b with Some z => "
                "(1, (if (z <? 0)%%Z then 1 else 0), Z.to_N (Z.abs z)) | None => (0, 0, 0) end)) [%s]" % xs)
    if "w32" in m:
        return "map widen32 [%s]" % ";".join("0x" + h for h in m["w32"].split(","))
    raise ValueError(case)


def _opt(o, fmt):
    if o == "None": return "-"
    return fmt % o[2][0]


def model_line(case, val):
    m = dict(t.split("=", 1) for t in case.split())
    if "v" in m: return model_value_line(val)
    if "b" in m: return model_bytes_line(val, list(bytes.fromhex(m["b"])) if m["b"] != "-" else [])
    if "exh" in m: return "exh rle=" + ",".join("%dx%d" % (c, n) for c, n in val)
    if "f16tab" in m: return "f16tab fp=%d" % val
    if "fl" in m:
        out = []
        for isnan, n16, n32, (has, neg, mag) in val:
            if isnan == "true": a = b = "nan"
            else: a, b = _opt(n16, "%04x"), _opt(n32, "%08x")
            out.append("%s/%s/%s" % (a, b, "-" if not has else ("-%x" % mag if neg else "+%x" % mag)))
        return "fl " + ",".join(out)
    if "w32" in m: return "w32 " + ",".join("%016x" % x for x in val)
    raise ValueError(case)


def impl_comparable(line):
    """Strip oracle / statistics from a harness line."""
    if line.startswith("abi "): return line.split(" oracle=")[0]
    if line.startswith("exh "): return line.split(" total=")[0]
    if line.startswith("f16tab "): return line.split(" narrow_bad=")[0]
    return line


def oracle_of(line):
    if " oracle=" in line: return line.split(" oracle=")[1].split()[0]
    return "ok"


def signature(o):
    """Stable signature of a failing oracle string."""
    kinds = []
    for part in o[5:].split(","):
        if "int-below-i64" in part: kinds.append("abi:int-below-i64-encodes-but-does-not-decode")
        elif "integral-float-outside-int-range" in part: kinds.append("abi:integral-float-outside-int-range-truncated")
        elif "f16-nan-payload" in part: kinds.append("abi:f16-nan-payload-accepted")
        elif part == "rt-reencode-differs": continue
        else: kinds.append("abi:" + part)
    return kinds or ["abi:" + o]

# ----------------------------------------------------------------------------- extracted model driver

def build_driver():
    """Extracts Model/Cbor.v to OCaml (ExtrOcamlBasic only) and builds props/c12_driver.ml against it (cached)."""
    import hashlib, shutil
    src = os.path.join(vf.ROOT, "props", "c12_driver.ml")
    vo = os.path.join(vf.COQ, "Model", "Cbor.vo")
    h = hashlib.sha1(open(src, "rb").read() + open(vo, "rb").read() + open(os.path.join(vf.COQ, "Base", "Bytes.vo"), "rb").read()).hexdigest()[:12]
    d = os.path.join(vf.WORK, "c12-ocaml-" + h)
    exe = os.path.join(d, "driver")
    if os.path.exists(exe):
        return exe
    tmp = d + ".tmp%d" % os.getpid()
    shutil.rmtree(tmp, ignore_errors=True)
    os.makedirs(tmp)
    open(os.path.join(tmp, "Extract.v"), "w").write(
        "From Coq Require Import Extraction ExtrOcamlBasic.\nFrom Echo Require Import Base.Bytes Model.Cbor.\n"
        "Extraction Language OCaml.\n"
        'Extraction "model.ml" run_value run_bytes code_of widen16 widen32 narrow16 narrow32 f64_to_int f64_is_nan widen16_table_fp.\n')
    rc, out = vf.sh(["coqc", "-noglob", "-Q", vf.COQ, "Echo", "Extract.v"], cwd=tmp, timeout=300)
    if rc: raise vf.Broken("extraction failed: " + out[-1500:])
    shutil.copy(src, os.path.join(tmp, "driver.ml"))
    rc, out = vf.sh(["ocamlfind", "ocamlopt", "-w", "-a", "-O3", "model.mli", "model.ml", "driver.ml", "-o", "driver"], cwd=tmp, timeout=300)
    if rc: raise vf.Broken("ocaml build of the model driver failed: " + out[-1500:])
    for old in os.listdir(vf.WORK):
        if old.startswith("c12-ocaml-") and ".tmp" not in old and os.path.join(vf.WORK, old) != d:
            shutil.rmtree(os.path.join(vf.WORK, old), ignore_errors=True)
    shutil.rmtree(d, ignore_errors=True)
    os.rename(tmp, d)
    return exe


def run_model(exe, cases, shards=None):
    """Runs the extracted model on the cases (sharded); returns one line per case."""
    import concurrent.futures
    shards = shards or min(vf.NCPU, max(1, len(cases) // 4))
    chunks = [cases[i::shards] for i in range(shards)]
    def one(i):
        path = vf.write_cases("c12-model-%d" % i, chunks[i])
        rc, out = vf.sh([exe, path], timeout=1500)
        if rc: raise vf.Broken(f"model driver exited {rc}: {out[-800:]}")
        ls = out.splitlines()
        if len(ls) != len(chunks[i]): raise vf.Broken(f"model driver printed {len(ls)} lines for {len(chunks[i])} cases")
        return ls
    with concurrent.futures.ThreadPoolExecutor(max_workers=shards) as ex:
        parts = list(ex.map(one, range(shards)))
    res = [None] * len(cases)
    for i, part in enumerate(parts):
        for j, v in enumerate(part):
            res[i + j * shards] = v
    return res

# ----------------------------------------------------------------------------- run

def run(tier, seed, replay=None):
    r = vf.Run(PROP, tier, seed, "proof")
    rng = r.rng
    r.assumptions = [
        "Coq 8.16.1 kernel (coqc, vm_compute for witnesses and finite sweeps)",
        "model = coq/Model/Cbor.v (ABI canonical CBOR value codec on bit patterns); tie = python generator + harness c12.rs + "
        "vm_compute evaluation of the model on the same cases",
    ]
    r.cov["trusted_base"] = ["coqc 8.16.1 kernel + vm_compute", "python generator/renderer props/c12.py",
                             "harness c12.rs (value text syntax, error-class mapping, fingerprint)"]
    r.proof_phase(THEOREMS)
    try:
        bins = vf.cargo_build(["c12"])
        r.phase("P3_build", ok=True)
    except vf.Broken as e:
        r.is_broken("harness-build", e)
        return r.finish()

    quick = tier == "quick"
    if replay:
        d = json.load(open(replay))
        cases = [d["replay"]["case"]] if "case" in d.get("replay", {}) else []
        impl_only = []
    else:
        cases = list(vf.load_corpus(PROP))
        # value direction
        nv = 1200 if quick else 12000
        vals = []
        for i in range(nv):
            d = rng.choice([0, 1, 2, 2, 3, 3, 4]) if i % 25 else rng.choice([6, 8])
            vals.append(gen_value(rng, d))
        for z in INT_BOUNDS + INT_BELOW_I64: vals.append(("i", z))
        for b in FLOAT_SPECIAL + FLOAT_OUTSIDE + FLOAT_HUGE: vals.append(("f", b))
        for t in TEXTS + LONG_TEXTS: vals.append(("t", list(t.encode("utf8"))))
        vcases = ["v=" + show(v) for v in vals]
        cases += vcases
        # byte direction
        nb = 2500 if quick else 25000
        bcases, sabs = [], {}
        for i in range(nb):
            v = gen_value(rng, rng.choice([0, 1, 1, 2, 2, 3]), allow_defect=False, allow_bad=False)
            mode = i % 5
            if mode in (0, 1, 2):
                sab, b = sabotaged(rng, v)
            elif mode == 3:
                sab, b = "mutate", mutate(rng, py_enc(v, rng))
            else:
                sab, b = "random", bytes([rng.choice([0x18, 0x19, 0x38, 0x58, 0x78, 0x81, 0x82, 0x98, 0xa1, 0xa2, 0xb8, 0xf9, 0xfa, 0xfb,
                                                       rng.getrandbits(8)])] + [rng.getrandbits(8) for _ in range(rng.randint(0, 11))])
            if len(b) > 3000: continue
            sabs[sab] = sabs.get(sab, 0) + 1
            bcases.append("b=" + (b.hex() or "-"))
        cases += bcases
        r.cov["byte_case_kinds"] = dict(sorted(sabs.items()))
        # float primitives, utf8 via text heads, exhaustive universes
        fls = [gen_float(rng, True) for _ in range(2000 if quick else 20000)] + FLOAT_SPECIAL + FLOAT_OUTSIDE + FLOAT_HUGE
        for i in range(0, len(fls), 100):
            cases.append("fl=" + ",".join("%016x" % b for b in fls[i:i + 100]))
        w32s = [rng.getrandbits(32) for _ in range(1000 if quick else 10000)] + [0, 1, 0x7fffff, 0x800000, 0x7f7fffff, 0x7f800000,
                                                                                  0x7f800001, 0x7fc00000, 0xffc00001, 0x80000000, 0x80000001]
        for i in range(0, len(w32s), 100):
            cases.append("w32=" + ",".join("%08x" % b for b in w32s[i:i + 100]))
        cases.append("f16tab=1")
        cases.append("exh=0 p=-")
        cases.append("exh=1 p=-")
        cases.append("exh=2 p=-")
        hot = [0x00, 0x17, 0x18, 0x19, 0x1a, 0x1b, 0x1c, 0x1f, 0x20, 0x38, 0x39, 0x3b, 0x40, 0x41, 0x42, 0x58, 0x59, 0x5f, 0x60, 0x61,
               0x62, 0x78, 0x79, 0x7f, 0x80, 0x81, 0x82, 0x98, 0x99, 0x9f, 0xa0, 0xa1, 0xb8, 0xb9, 0xbf, 0xc0, 0xd8, 0xe0, 0xf4, 0xf5,
               0xf6, 0xf7, 0xf8, 0xf9, 0xfa, 0xfb, 0xfc, 0xff]
        firsts = hot if quick else list(range(256))      # thorough: the whole 3-byte universe, model vs implementation
        for b0 in firsts:
            cases.append("exh=2 p=%02x" % b0)
        # implementation-side oracle over the whole 3-byte universe (accepted => re-encodes identically)
        impl_only = [] if not quick else ["exh=3 p=- rle=0"]

    import time
    try:
        t0 = time.time()
        path = vf.write_cases("c12", cases + impl_only)
        rc, out = vf.run_bin(bins["c12"], path, timeout=1500)
        r.phase("impl_run", seconds=round(time.time() - t0, 1)); t0 = time.time()
        if rc:
            raise vf.Broken(f"harness c12 exited {rc}: {out[-800:]}")
        lines = out.splitlines()
        if len(lines) != len(cases) + len(impl_only):
            raise vf.Broken(f"harness printed {len(lines)} lines for {len(cases) + len(impl_only)} cases")
        impl_full = lines[:len(cases)]
        extra = lines[len(cases):]
        keep = [i for i, l in enumerate(impl_full) if "skip=alloc-guard" not in l]
        r.cov["skipped_alloc_guard"] = len(cases) - len(keep)
        kcases = [cases[i] for i in keep]
        kimpl = [impl_full[i] for i in keep]
        exe = build_driver()
        r.phase("model_build", seconds=round(time.time() - t0, 1)); t0 = time.time()
        model = run_model(exe, kcases)
        r.phase("model_run_extracted", seconds=round(time.time() - t0, 1), cases=len(kcases)); t0 = time.time()
        # kernel cross-check of the extraction: a sample of small cases through coqc/vm_compute
        small = [i for i, c in enumerate(kcases) if len(c) < 160 and not c.startswith("exh") and not c.startswith("f16tab")]
        pick = sorted(rng.sample(small, min(len(small), 48 if quick else 400)))
        pick += [i for i, c in enumerate(kcases) if c in ("exh=0 p=-", "exh=1 p=-", "exh=1 p=f9", "exh=1 p=f97e")]
        kvals = vf.coq_eval("c12", PRE, [term_of(kcases[i]) for i in pick], timeout=900)
        kbad = [(kcases[i], model[i], model_line(kcases[i], v)) for i, v in zip(pick, kvals) if model_line(kcases[i], v) != model[i]]
        r.cov["kernel_vm_compute_crosschecked"] = len(pick)
        for c, a, b in kbad[:2]:
            r.is_broken("extraction-vs-kernel", f"extracted model and vm_compute disagree on {c[:200]}\n ocaml: {a[:300]}\n coq  : {b[:300]}")
        r.phase("model_run_kernel_crosscheck", seconds=round(time.time() - t0, 1), terms=len(pick))
    except (vf.Broken, ValueError, KeyError, IndexError) as e:
        r.is_broken("correspondence-run", repr(e))
        return r.finish()

    impl = [impl_comparable(l) for l in kimpl]
    bad = vf.diff_lines(r, kcases, impl, model)
    nfail = 0
    for c, l in zip(kcases, kimpl):
        o = oracle_of(l)
        if o != "ok":
            nfail += 1
            for sig in signature(o):
                r.violation(sig, f"implementation oracle failed: {o} on {c[:200]}", {"case": c, "oracle": o, "impl": l[:400]})
        if l.startswith("panic"):
            r.violation("abi:panic", "harness caught a panic: " + l[:200], {"case": c, "impl": l[:400]})
    tot = {"total": 0, "acc": 0, "bad": 0, "bad_f16nan": 0}
    firsts = []
    full3 = [(c, l) for c, l in zip(kcases, kimpl) if c.startswith("exh=2 p=") and c != "exh=2 p=-"]
    use_extra = len(full3) < 256
    for c, l in list(zip(kcases, kimpl)) + [("exh=3 p=-", l) for l in extra]:
        if c.startswith("exh=") and " total=" in l:
            m = dict(t.split("=", 1) for t in l.split()[1:])
            if (use_extra and c == "exh=3 p=-") or (not use_extra and c.startswith("exh=2 p=") and c != "exh=2 p=-"):
                for k in tot: tot[k] += int(m[k])
            if m["first"] != "-": firsts += m["first"].split(",")
            if int(m["bad_f16nan"]) > 0:
                r.violation("abi:f16-nan-payload-accepted", f"{m['bad_f16nan']} byte strings in universe `{c}` (half-precision NaN payloads) are "
                            f"accepted and re-encode as f97e00; first: {m['first']}", {"case": "b=" + m["first"].split(",")[0]})
            if int(m["bad"]) > int(m["bad_f16nan"]):
                r.violation("abi:accepted-noncanonical:other", f"exhaustive `{c}`: {m['bad']} accepted non-canonical, first {m['first']}",
                            {"case": "b=" + m["first"].split(",")[-1]})
    tot["first_noncanonical"] = firsts[:6]
    r.cov["exhaustive_3_byte_universe_impl_oracle"] = tot
    for i in bad[:3]:
        r.is_broken("correspondence", f"model and implementation differ on: {kcases[i][:300]}\n impl : {impl[i][:600]}\n model: {model[i][:600]}")
    # evidence
    r.cov["evaluations"] = len(kcases)
    vcs = [c for c in kcases if c.startswith("v=")]
    bcs = [c for c in kcases if c.startswith("b=")]
    nontriv = {c for c in vcs if size(parse_value(c[2:])) >= 3} | {c for c in bcs if len(c) > 8}
    r.cov["distinct_nontrivial"] = len(nontriv)
    r.cov["rule"] = ("non-trivial = value with >= 3 nodes, or byte string of >= 4 bytes; every case is run through the real "
                     "echo_wasm_abi::{encode_value,decode_value} and the Coq model (vm_compute) and compared on bytes / decoded value / error class")
    r.cov["value_cases"] = len(vcs)
    r.cov["byte_cases"] = len(bcs)
    acc = sum(1 for c, l in zip(kcases, impl) if c.startswith("b=") and " dec=E:" not in l)
    r.cov["byte_cases_accepted"] = acc
    errh = {}
    for c, l in zip(kcases, impl):
        if c.startswith("b=") and " dec=E:" in l:
            k = l.split(" dec=E:")[1].split()[0]; errh[k] = errh.get(k, 0) + 1
    r.cov["byte_cases_error_class_histogram"] = dict(sorted(errh.items(), key=lambda kv: int(kv[0])))
    fc = {}
    for c in vcs:
        for n in walk(parse_value(c[2:])):
            if n[0] == "f":
                k = float_class(n[1]); fc[k] = fc.get(k, 0) + 1
    r.cov["float_class_histogram"] = dict(sorted(fc.items()))
    dh = {}
    for c in vcs:
        k = depth(parse_value(c[2:])); dh[k] = dh.get(k, 0) + 1
    r.cov["value_depth_histogram"] = dict(sorted(dh.items()))
    r.cov["exhaustive_model_vs_impl"] = {"len0": 1, "len1": 256, "len2": 65536,
                                         "len3": 65536 * sum(1 for c in kcases if c.startswith("exh=2 p=") and c != "exh=2 p=-")}
    r.cov["traces_validated_against_impl"] = len(kcases) - len(bad)
    r.cov["oracle_failures"] = nfail
    r.cov["samples"] = [c[:300] for c in (vcs[:2] + bcs[:2])]
    r.phase("P4_correspondence", cases=len(kcases), differing=len(bad))
    r.phase("P5_oracle", failing=nfail)
    return r.finish()
