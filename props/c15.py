"""C15 — speculative lanes fork faithfully and settle lawfully."""
import os, json
import vf

PROP = "C15"
THEOREMS = ["fork_prefix", "fork_basis_pinned", "fork_heads_fresh", "fork_atomic", "lane_isolation",
            "strands_stay_wellformed", "plan_pure_deterministic", "settle_atomic", "never_overwrite",
            "import_takes_strand_values", "parent_unchanged_off_its_writes", "parent_stays_verifiable",
            "histories_stay_coherent", "initial_world_wellformed"]
PRE = ("From Coq Require Import List NArith.\nFrom Echo Require Import Model.Strand.\n"
       "Import ListNotations.\nOpen Scope N_scope.\n")
NK, NPRE = 6, 3


# --------------------------------------------------------------------------- generator
class Gen:
    """Builds one scenario (the `steps=` field).  Lanes / strands are numbered as the harness numbers them."""
    def __init__(self, rng):
        self.r = rng
        self.nonce = 0
        self.steps = []
        self.lanes = {0: 0}          # lane -> number of committed ticks (prediction; only used to pick fork ticks)
        self.strands = {}            # strand -> (src, child, fork tick)
        self.next_lane = 1
        self.next_strand = 0

    def prog(self, acts):
        self.nonce += 1
        return "+".join(acts + [f"n{self.nonce}"])

    def acts(self, nodes, reads=(), style=None):
        r = self.r
        out, used = [], set()
        for k in nodes:
            if k in used:
                continue
            used.add(k)
            c = style or r.choice("ssssuucdw")
            if c == "s":
                out.append(f"s{k}.{r.randint(1, 3)}")
            elif c == "u":
                out.append(f"u{k}.{r.randint(1, 3)}")
            elif c == "c":
                out.append(f"c{k}")
            elif c == "d":
                out.append(f"d{k}" if k >= NPRE else f"s{k}.{r.randint(1, 3)}")
            else:
                out.append(f"w{k}")
        for k in reads:
            if k not in used:
                used.add(k)
                out.append(f"r{k}")
        return out

    def tick(self, intents):
        """intents: list of (lane, acts)"""
        items = []
        for lane, acts in intents:
            items.append(f"{lane}.{self.prog(acts)}")
            self.lanes[lane] = self.lanes.get(lane, 0) + 1
        self.steps.append("T:" + ",".join(items))

    def fork(self, src, k, mode="S", child=None, strand=None):
        child = self.next_lane if child is None else child
        strand = self.next_strand if strand is None else strand
        self.steps.append(f"F:{src}:{k}:{child}:{strand}:{mode}")
        ok = (mode in "SA" and src in self.lanes and k < self.lanes[src] and child not in self.lanes
              and strand not in self.strands)
        if ok:
            self.lanes[child] = k + 1
            self.strands[strand] = (src, child, k)
        if child == self.next_lane:
            self.next_lane += 1
        if strand == self.next_strand:
            self.next_strand += 1
        return ok, child, strand

    def probe(self, strand, settle=True, both=True):
        r = self.r
        self.steps.append(f"R:{strand}")
        self.steps.append(f"P:{strand}:r")
        if both:
            self.steps.append(f"P:{strand}:p")
        if settle:
            pol = r.choice("rp")
            if pol == "p" and r.random() < 0.5:
                self.steps.append(f"S:{strand}:p:x")
            self.steps.append(f"S:{strand}:{pol}")

    def line(self, i):
        return f"id={i} steps=" + "/".join(self.steps)


def gen_overlap(rng, i):
    """base ticks, fork at any tick, interleaved parent / strand ticks with a chosen footprint relation, settle"""
    g = Gen(rng)
    r = rng
    rel = r.choice(["disjoint", "read", "write-same", "write-diff", "obstruct", "obstruct", "random", "idle-parent",
                    "idle-strand"])
    nbase = r.randint(1, 3)
    ox = 3 + r.randrange(3)
    made_at = r.randrange(nbase)
    for j in range(nbase):
        if rel == "obstruct" and j == made_at:
            g.tick([(0, [f"u{ox}.1"] + g.acts([r.randrange(NPRE)]))])
        else:
            g.tick([(0, g.acts(r.sample(range(NK), r.randint(1, 2))))])
    k = r.randrange(made_at, nbase) if rel == "obstruct" else r.randrange(nbase)
    ok, child, strand = g.fork(0, k)
    nodes = list(range(NK))
    r.shuffle(nodes)
    pn, sn, shared = nodes[:2], nodes[2:4], nodes[4]
    rounds = r.randint(1, 3)
    for j in range(rounds):
        p_acts = s_acts = None
        if rel == "disjoint":
            p_acts, s_acts = g.acts(pn[: r.randint(1, 2)]), g.acts(sn[: r.randint(1, 2)])
        elif rel == "read":
            # the strand reads what the parent writes (or the other way round)
            if r.random() < 0.6:
                p_acts, s_acts = g.acts([shared] + pn[:1], style="s"), g.acts(sn[:1], reads=[shared])
            else:
                p_acts, s_acts = g.acts(pn[:1], reads=[shared]), g.acts([shared] + sn[:1], style="s")
        elif rel == "write-same":
            v, sh = r.randint(1, 3), shared % NPRE
            p_acts = [f"s{sh}.{v}"] + g.acts([x for x in pn[:1] if x != sh])
            s_acts = [f"s{sh}.{v}"] + g.acts([x for x in sn[:1] if x != sh])
        elif rel == "write-diff":
            sh = shared % NPRE
            p_acts = [f"s{sh}.1"] + g.acts([x for x in pn[:1] if x != sh])
            s_acts = [f"s{sh}.2"] + g.acts([x for x in sn[:1] if x != sh])
        elif rel == "obstruct":
            x = ox
            if j == 0:
                # the node exists on both lanes; the parent deletes it, the strand keeps using it
                p_acts, s_acts = [f"d{x}"], [r.choice([f"s{x}.2", f"d{x}", f"s{x}.3", f"u{x}.2"])]
            else:
                p_acts, s_acts = g.acts([y for y in pn[:1] if y != x]) or ["r0"], g.acts(list(dict.fromkeys(sn[:1] + [x])), style="s")
        elif rel == "idle-parent":
            s_acts = g.acts(r.sample(range(NK), r.randint(1, 3)))
        elif rel == "idle-strand":
            p_acts = g.acts(r.sample(range(NK), r.randint(1, 3)))
        else:
            p_acts = g.acts(r.sample(range(NK), r.randint(1, 3))) if r.random() < 0.8 else None
            s_acts = g.acts(r.sample(range(NK), r.randint(1, 3))) if r.random() < 0.8 else None
        intents = []
        if p_acts:
            intents.append((0, p_acts))
        if s_acts and ok:
            intents.append((child, s_acts))
        if not intents:
            continue
        if len(intents) == 2 and r.random() < 0.5:
            # separate scheduler passes, either order
            a, b = intents if r.random() < 0.5 else intents[::-1]
            g.tick([a])
            g.tick([b])
        else:
            g.tick(intents)
        if r.random() < 0.25:
            g.steps.append(f"R:{strand}")
    g.probe(strand)
    if r.random() < 0.4:
        # keep going after the settlement: more ticks, then settle again
        g.tick([(0, g.acts(r.sample(range(NK), 1)))] + ([(child, g.acts(r.sample(range(NK), 2)))] if ok else []))
        g.probe(strand, both=False)
    return g.line(i)


def gen_every_tick(rng, i):
    """fork at every tick of a history (and one past its end), report on each strand, tick some, settle some"""
    g = Gen(rng)
    r = rng
    n = r.randint(2, 4)
    for _ in range(n):
        g.tick([(0, g.acts(r.sample(range(NK), r.randint(1, 2))))])
    made = []
    for k in range(n + 1):
        ok, child, strand = g.fork(0, k)
        if ok:
            made.append((child, strand))
    for child, strand in made:
        if r.random() < 0.7:
            g.tick([(child, g.acts(r.sample(range(NK), r.randint(1, 2))))])
    for child, strand in made:
        g.probe(strand, settle=r.random() < 0.6, both=False)
    return g.line(i)


def gen_chain(rng, i):
    """strand of a strand, support pins, settlement inner-first or outer-first"""
    g = Gen(rng)
    r = rng
    g.tick([(0, g.acts(r.sample(range(NK), 2)))])
    if r.random() < 0.5:
        g.tick([(0, g.acts(r.sample(range(NK), 1)))])
    ok1, c1, s1 = g.fork(0, r.randrange(g.lanes[0]))
    g.tick([(c1, g.acts(r.sample(range(NK), 2)))])
    if r.random() < 0.5:
        g.tick([(c1, g.acts(r.sample(range(NK), 1))), (0, g.acts(r.sample(range(NK), 1)))])
    ok2, c2, s2 = g.fork(c1, r.randrange(g.lanes[c1]))
    g.tick([(c2, g.acts(r.sample(range(NK), 2)))])
    ok3, c3, s3 = g.fork(0, 0)
    g.steps.append(f"X:{s1}:{s3}:0")
    g.steps.append(f"X:{s2}:{s1}:{r.randint(0, 2)}")
    if r.random() < 0.3:
        g.steps.append(f"X:{s1}:{s1}:0")
    if r.random() < 0.5:
        g.tick([(c1, g.acts(r.sample(range(NK), 1))), (c3, g.acts(r.sample(range(NK), 1)))])
    order = [s2, s1, s3] if r.random() < 0.5 else [s1, s2, s3]
    for s in order:
        g.probe(s, both=r.random() < 0.5)
    return g.line(i)


def gen_invalid(rng, i):
    """malformed requests: forks beyond history, onto existing lanes / strands, bad head sets, non-shared settle"""
    g = Gen(rng)
    r = rng
    g.tick([(0, g.acts(r.sample(range(NK), 2)))])
    g.tick([(0, g.acts(r.sample(range(NK), 1)))])
    ok, child, strand = g.fork(0, r.randint(0, 1), mode=r.choice("SA"))
    g.tick([(child, g.acts(r.sample(range(NK), 2)))])
    for _ in range(r.randint(2, 4)):
        kind = r.choice(["beyond", "dup-lane", "dup-strand", "two-heads", "wrong-head", "unknown-src", "onto-src"])
        if kind == "beyond":
            g.fork(0, g.lanes[0] + r.randint(0, 3))
        elif kind == "dup-lane":
            g.fork(0, 0, child=r.choice([child, 0]))
        elif kind == "dup-strand":
            g.fork(0, 0, strand=strand)
        elif kind == "two-heads":
            g.fork(0, 0, mode="H")
        elif kind == "wrong-head":
            g.fork(0, 0, mode="W")
        elif kind == "unknown-src":
            g.fork(9, 0)
        else:
            g.fork(child, 0, child=child)
    g.steps.append(f"R:{r.choice([strand, 7])}")
    g.steps.append(f"P:{r.choice([strand, 7])}:r")
    g.steps.append(f"S:{strand}:{r.choice('rp')}")
    g.steps.append(f"S:7:r")
    return g.line(i)


ACTS1 = ["s0.1", "s0.2", "c0", "r0", "w0", "u3.2", "d3", "s3.1", "s1.1"]


def gen_exhaustive(two_rounds=False):
    """every (parent action, strand action[, second strand action]) over a two-node universe, both policies;
    node 3 and attachment 0 exist before the fork"""
    out = []
    i = 700000
    for a in ACTS1:
        for b in ACTS1:
            for b2 in (ACTS1 if two_rounds else [None]):
                for order in ("ps", "sp") if not two_rounds else ("ps",):
                    for pol in "rp":
                        g = Gen(None)
                        g.tick([(0, ["s0.1", "u3.1"])])
                        g.fork(0, 0)
                        t = [[(0, [a])], [(1, [b])]]
                        for x in (t if order == "ps" else t[::-1]):
                            g.tick(x)
                        if b2:
                            g.tick([(1, [b2])])
                        g.steps += ["R:0", f"P:0:{pol}", f"S:0:{pol}"]
                        out.append(g.line(i))
                        i += 1
    return out


GENS = [(gen_overlap, 6), (gen_every_tick, 1), (gen_chain, 2), (gen_invalid, 1)]


def gen_cases(rng, n, start=0):
    bag = [g for g, wgt in GENS for _ in range(wgt)]
    return [bag[(start + i) % len(bag)](rng, start + i) for i in range(n)]


# --------------------------------------------------------------------------- harness output -> model term
def fields(line):
    return dict(t.split("=", 1) for t in line.split(" ") if "=" in t)


def nl(xs):
    return "[" + ";".join(str(x) for x in xs) + "]"


def slots_of(s):
    return [] if s in ("-", "") else [int(x) for x in s.split(".")]


def patch_term(s):
    ins, outs, ops = s.split(";")
    ol = []
    if ops != "-":
        for o in ops.split("&"):
            req, ws = o.split(">")
            wl = []
            for w in ws.split("."):
                if not w:
                    continue
                sl, v = w.split("=")
                wl.append(f"({sl},{'None' if v == '-' else 'Some ' + str(int(v, 16))})")
            ol.append(f"mkOp {nl(slots_of(req))} [{';'.join(wl)}]")
    return f"(mkPatch {nl(slots_of(ins))} {nl(slots_of(outs))} [{';'.join(ol)}])"


POL = {"r": "(mkPolicy 1 false)", "p": "(mkPolicy 2 true)"}


def step_term(s):
    f = s.split(":")
    if f[0] == "T":
        if f[1] == "-":
            return "STick []"
        ts = []
        for it in ":".join(f[1:]).split("~"):
            lane, p = it.split("@", 1)
            ts.append(f"(({lane},0),{patch_term(p)})")
        return f"STick [{';'.join(ts)}]"
    if f[0] == "F":
        src, k, child, sx, mode = f[1:6]
        heads = {"S": f"[({child},0)]", "A": f"[({child},0)]", "H": f"[({child},0);({child},1)]", "W": f"[({src},2)]"}[mode]
        return f"SFork (mkForkReq {sx} {src} {k} {child} {heads} {'false' if mode == 'A' else 'true'})"
    if f[0] == "R":
        return f"SReport {f[1]}"
    if f[0] == "P":
        return f"SPlan {f[1]} {POL[f[2]]}"
    if f[0] == "S":
        return f"SSettle {f[1]} {POL[f[2]]} {'true' if f[3] == 'x' else 'false'}"
    return "SNop"


def dump_term(s):
    if s == "-":
        return "[]"
    return "[" + ";".join(f"({a},{int(b, 16)})" for a, b in (x.split("=") for x in s.split(","))) + "]"


def to_term(impl_line):
    m = fields(impl_line)
    if m.get("in", "-") == "-":
        return "run_c [] []"
    steps = [step_term(s) for s in m["in"].split("/")]
    return f"run_c {dump_term(m['init'])} [{';'.join(steps)}]"


# --------------------------------------------------------------------------- model value -> harness text
def dstr(d):
    return ",".join(f"{a}={b:010x}" for a, b in d) if d else "-"


def sstr(l):
    return ".".join(str(x) for x in l) if l else "-"


def decs(ds):
    out = []
    for tag, t, why, rv, sl in ds:
        rvs = {0: "", 1: ":C" + sstr(sl), 2: ":O" + sstr(sl), 3: ":X" + sstr(sl)}[rv]
        if tag == 1:
            out.append(f"I{t}{rvs}")
        elif tag == 2:
            out.append(f"C{t}:{why}{rvs}")
        else:
            out.append(f"P{t}:{sstr(sl)}")
    return ",".join(out) if out else "-"


ERR = {1: "notfound", 2: "nonshared", 3: "drift", 4: "shell", 5: "basis", 6: "other"}


def obs_str(o, impl_obs):
    name, a = (o, []) if isinstance(o, str) else (o[1], o[2])
    if name == "OTick":
        return "T:" + ("~".join(f"{l}@{t}@{dstr(d)}" for l, t, d in a[0]) if a[0] else "-")
    if name == "OTickErr":
        return "T:err"
    if name == "OFork":
        return f"F:ok:{a[0]}:{a[1]}:{dstr(a[2])}"
    if name == "OForkErr":
        return "F:err"
    if name == "OReport":
        cls, ov, rd, wr, pw, start, endp1, pt = a
        c = {0: "A", 1: "D", 2: "V" + sstr(ov)}[cls]
        return f"R:{c}:{sstr(rd)}:{sstr(wr)}:{sstr(pw)}:{start}:{'-' if endp1 == 0 else endp1 - 1}:{pt}"
    if name == "OReportErr":
        return "R:err"
    if name == "ONoStrand":
        return "R:nostrand"
    if name == "OPlan":
        return "P:" + decs(a[0])
    if name == "OPlanErr":
        return "P:err:" + ERR[a[0]]
    if name == "OSettle":
        ds, im, co, pl, sh, ln, st = a
        return f"S:ok:{decs(ds)}:{sstr(im)}:{sstr(co)}:{sstr(pl)}:{sh}:{ln}:{dstr(st)}"
    if name == "OSettleErr":
        return "S:err:" + ERR[a[0]]
    if name == "ONop":
        return impl_obs            # support pins: exercised, not modelled
    return "?" + str(name)


def render_model(val, impl_line):
    m = fields(impl_line)
    io = m.get("obs", "-").split("/") if m.get("obs", "-") != "-" else []
    if len(val) != len(io):
        return f"(model produced {len(val)} observations for {len(io)} steps)"
    return "/".join(obs_str(o, io[i]) for i, o in enumerate(val)) or "-"


# --------------------------------------------------------------------------- running both sides
def both(tag, cases, bins):
    path = vf.write_cases(tag, cases)
    rc, out = vf.run_bin(bins["c15"], path, timeout=1500)
    lines = [l for l in out.splitlines() if l.startswith("id=")]
    if rc or len(lines) != len(cases):
        raise vf.Broken(f"harness c15 exited {rc} with {len(lines)} lines for {len(cases)} cases: {out[-800:]}")
    vals = vf.coq_eval(tag, PRE, [to_term(l) for l in lines], timeout=1500)
    impl = [fields(l).get("obs", "-") for l in lines]
    model = [render_model(v, l) for v, l in zip(vals, lines)]
    oracle = [fields(l).get("oracle", "FAIL:no-oracle") for l in lines]
    return lines, impl, model, oracle


def sig_of(o):
    # FAIL:settle:parent-slot-15-overwritten@7,... -> settle:parent-slot-overwritten
    first = o.split("FAIL:", 1)[1].split(",")[0].split("@")[0]
    return "oracle:" + "-".join(p for p in first.replace(":", "-").split("-") if not p.isdigit())


def first_diff(a, b):
    xa, xb = a.split("/"), b.split("/")
    for i, (p, q) in enumerate(zip(xa, xb)):
        if p != q:
            return i, p, q
    return min(len(xa), len(xb)), "(length)", "(length)"


def run(tier, seed, replay=None):
    r = vf.Run(PROP, tier, seed, "proof")
    r.assumptions = [
        "Coq 8.16.1 kernel (coqc; vm_compute for the non-vacuity Example and for evaluating the model); Print Assumptions: closed",
        "model = coq/Model/Strand.v: worldline state as slot->value map, patch ops as guarded constant writes, provenance "
        "entries with declared in/out slots, fork_strand, live_basis_report, plan (pure fold with simulated state and "
        "blocked-reason latch, both plural policies), settle (append per decision, partial restore on failure, shell last); "
        "all hashes are universally quantified functions",
        "tie = python generator + harness/src/bin/c15.rs driving the real WorldlineRuntime / ProvenanceService / Engine "
        "(super_tick with a data-driven rule, fork_strand, live_basis_report, plan/settle_with_policy, pin_support); the model "
        "is evaluated on the abstracted patches the implementation committed and must reproduce every fork result, basis "
        "report, plan, settlement result and post-state",
        "PARTIAL: braid shell bodies / digests, member blinding, retention posture and support pins are exercised by the "
        "harness (shell law, rollback, pin coordinate) but not modelled; DeleteNode's isolation requirement and portal / "
        "instance ops are outside the op abstraction (the generator never produces them; the harness flags them)",
    ]
    r.cov["trusted_base"] = ["coqc 8.16.1 kernel + vm_compute", "python generator/renderer props/c15.py",
                             "harness c15.rs (abstraction: GraphStore -> slot/value map, WarpOp -> guarded write, "
                             "SettlementPlan -> decision string)"]
    r.proof_phase(THEOREMS)
    if tier == "thorough" and not replay:
        import time as _t
        t1 = _t.time()
        try:
            rc, out = vf.sh(["coqchk", "-o", "-silent", "-Q", vf.COQ, "Echo", "Echo.Props.C15"], timeout=1500)
            r.phase("P1b_coqchk", ok=(rc == 0), seconds=round(_t.time() - t1, 1), tail=out[-300:])
            if rc:
                r.is_broken("coqchk", out[-1500:])
        except Exception as e:
            r.is_broken("coqchk", repr(e))
    if replay:
        d = json.load(open(replay))
        cases = [d["replay"]["case"]] if "case" in d.get("replay", {}) else []
    else:
        cases = vf.load_corpus(PROP)
        n = 60 if tier == "quick" else 900
        cases += gen_cases(r.rng, n, start=1000)
        ex = gen_exhaustive(two_rounds=False)
        if tier == "quick":
            cases += r.rng.sample(ex, 24)
        else:
            cases += ex + r.rng.sample(gen_exhaustive(two_rounds=True), 600)
        r.cov["exhaustive_universe"] = (f"{len(ACTS1)}^2 (parent action, strand action) x 2 orders x 2 policies = {len(ex)} "
                                        + ("all run, plus 600 sampled two-round cases" if tier != "quick"
                                           else "of which 24 sampled in the quick tier"))
    try:
        bins = vf.cargo_build(["c15"])
        r.phase("P3_build", ok=True)
    except vf.Broken as e:
        r.is_broken("harness-build", e)
        return r.finish()
    try:
        lines, impl, model, oracle = both("c15", cases, bins)
    except vf.Broken as e:
        r.is_broken("correspondence-run", e)
        lines, impl, model, oracle = [], [], [], []
    bad = vf.diff_lines(r, cases, impl, model) if lines else []
    for i, o in enumerate(oracle):
        if o != "ok":
            r.violation(sig_of(o), f"implementation oracle failed: {o}", {"case": cases[i], "oracle": o})
    for i in bad[:3]:
        # shrink: drop steps while model and implementation still disagree
        steps = fields(cases[i])["steps"].split("/")
        def still(cand):
            c = f"id=s steps=" + "/".join(cand)
            _, a, b, _ = both("c15shrink", [c], bins)
            return a != b
        small = vf.shrink_list(steps, still, max_rounds=14) if len(steps) <= 16 else steps
        c = "id=s steps=" + "/".join(small)
        _, a, b, o = both("c15shrink", [c], bins)
        k, x, y = first_diff(a[0], b[0])
        r.is_broken("correspondence", f"model and implementation differ at step {k} of: {c}\n impl : {x}\n model: {y}")
        if o[0] != "ok":
            r.violation(sig_of(o[0]), "oracle fails on shrunk disagreement", {"case": c, "oracle": o[0]})
    if (r.broken and not r.violations) and not replay:
        extra = gen_cases(r.rng, 300 if tier == "quick" else 3000, start=500000)
        path = vf.write_cases("c15search", extra)
        rc, out = vf.run_bin(bins["c15"], path, timeout=1500)
        for c, l in zip(extra, [l for l in out.splitlines() if l.startswith("id=")]):
            o = fields(l).get("oracle", "ok")
            if o != "ok":
                r.violation(sig_of(o), "oracle failed during search", {"case": c, "oracle": o})
                break
        r.phase("P6_search", cases=len(extra))
    # ---- evidence
    hist = {}
    def bump(k):
        hist[k] = hist.get(k, 0) + 1
    nontriv = 0
    for ob in impl:
        kinds = set()
        for s in ob.split("/"):
            f = s.split(":")
            if f[0] == "R" and len(f) > 1:
                bump("report:" + (f[1][0] if f[1][0] in "ADV" else f[1]))
            elif f[0] == "F":
                bump("fork:" + f[1])
            elif f[0] == "P":
                if f[1] == "err":
                    bump("plan:err:" + f[2])
                else:
                    for d in ":".join(f[1:]).split(","):
                        if not d or d == "-":
                            bump("plan:empty")
                            continue
                        g = d.split(":")
                        k = g[0][0]
                        if k == "C":
                            k += g[1] + (g[2][0] if len(g) > 2 else "")
                        elif k == "I" and len(g) > 1:
                            k += g[1][0]
                        bump("decision:" + k)
                        kinds.add(k)
            elif f[0] == "S":
                bump("settle:" + (f[1] if f[1] == "ok" else "err:" + f[2]))
            elif f[0] == "X":
                bump("pin:" + f[1])
        if len(kinds) >= 1:
            nontriv += 1
    r.cov["evaluations"] = len(cases)
    r.cov["distinct_nontrivial"] = nontriv
    r.cov["rule"] = ("scenarios run on the real runtime and on the Coq model: base ticks, forks at every tick (and past the end, "
                     "onto existing lanes/strands, with bad head sets), interleaved parent/strand ticks with disjoint, "
                     "read-overlapping, equal-write, different-write and obstructing footprints, both plural policies, "
                     "injected late shell failure, chained strands, support pins; non-trivial = at least one planned decision")
    r.cov["observable_histogram"] = dict(sorted(hist.items()))
    r.cov["steps_total"] = sum(len(fields(c)["steps"].split("/")) for c in cases)
    r.cov["traces_validated_against_impl"] = len(cases) - len(bad) if lines else 0
    r.cov["samples"] = cases[:3]
    r.phase("P4_correspondence", cases=len(cases), differing=len(bad))
    r.phase("P5_oracle", failing=sum(1 for o in oracle if o != "ok"))
    return r.finish()


MANIFEST = {
    "category": "proof",
    "text": ("Coq theorems (no axioms, every hash a universally quantified function) over an executable model of strands: worldline "
             "state as a slot->value map, patch ops as guarded constant writes, provenance entries with declared in/out slots, "
             "fork_strand (prefix copy rewritten to the child lane, fresh heads, basis pinned to lane/tick/commit id/boundary hash, "
             "restore on error), live_basis_report (closed footprint vs parent writes), plan (pure fold with simulated state, "
             "blocked-reason latch, overlap_slots_are_clean, both plural policies) and settle (one appended entry per decision, "
             "partial restore on failure, shell last). Proved: fork_prefix, fork_basis_pinned, fork_heads_fresh, fork_atomic, "
             "lane_isolation (+ the well-formedness it needs is invariant), plan_pure_deterministic (the plan depends on the strand "
             "record, two frontiers and two histories only), settle_atomic (any error => runtime and provenance unchanged), "
             "never_overwrite (a slot the parent wrote since the fork keeps the parent's value, for strand patches that declare "
             "their writes to such slots), import_takes_strand_values, parent_stays_verifiable (the extended parent history replays "
             "with recorded roots to the settled state), coordinate coherence invariant; non-vacuity example with a disjoint import, "
             "a read overlap revalidated clean, a write-overlap conflict and an injected late failure. Tie: generated scenarios "
             "(forks at every tick and past the end, interleaved parent/strand ticks with disjoint / read-overlapping / "
             "equal-write / different-write / obstructing footprints, both plural policies, late shell failure injected through "
             "the public API, chained strands, support pins, malformed requests, plus an exhaustive one-round universe) run on the "
             "real WorldlineRuntime/ProvenanceService/Engine and on the model fed with the patches the implementation committed; "
             "fork results, basis reports, plans, settlement results and post-states must agree, and the harness checks the "
             "property itself on the implementation (prefix equality of commit ids/roots/patches, no shared heads, lane isolation "
             "by fingerprints, plan twice identical and side-effect free, failed fork/settle leaves everything unchanged, parent "
             "slots written or changed since the fork keep their value, imports take the strand's values, parent replays from "
             "its own provenance)."),
    "note": ("PARTIAL: braid shell bodies and digests, member blinding, retention posture and support pins are exercised (shell "
             "law, rollback of shells and plural bindings, pin coordinate) but not modelled; the only settlement failure that can be "
             "injected through the public API is the final shell append (after all entries were appended); honest_on/honest_slots "
             "is an explicit hypothesis of never_overwrite (ingress event nodes are written outside declared slots; they are "
             "unique per intent and the oracle also checks actually-changed slots). Trusted: Coq kernel + vm_compute; python "
             "generator/renderer; harness c15.rs abstraction (GraphStore -> slot/value map with 40-bit value hashes, WarpOp -> "
             "guarded write; DeleteNode isolation and portal/instance ops are outside the op abstraction and flagged if met)."),
}
