(* C12 model driver: runs the Coq-extracted model (Model/Cbor.v -> model.ml, ExtrOcamlBasic only)
   on a case file and prints the same canonical lines as harness/src/bin/c12.rs (minus oracle
   fields).  Built at check time by props/c12.py into .cache/. *)
open Model

(* ---- conversions between OCaml data and extracted N / Z ---- *)

let rec pos_of_bits (bits : bool list) : positive =
  (* bits lsb first, last one is the leading 1 *)
  match bits with
  | [] -> XH
  | [ _ ] -> XH
  | b :: r -> if b then XI (pos_of_bits r) else XO (pos_of_bits r)

let n_of_hex (h : string) : n =
  (* bits lsb first *)
  let bits = ref [] in
  String.iter
    (fun c ->
      let d =
        match c with
        | '0' .. '9' -> Char.code c - 48
        | 'a' .. 'f' -> Char.code c - 87
        | 'A' .. 'F' -> Char.code c - 55
        | _ -> failwith "hex"
      in
      (* prepend msb-first bits; we build msb-first list then reverse *)
      bits := (d land 1 = 1) :: (d land 2 = 2) :: (d land 4 = 4) :: (d land 8 = 8) :: !bits)
    h;
  (* !bits is lsb-first already: the last hex digit was pushed last with its lsb at the head *)
  let rec strip l = match l with false :: r -> strip r | _ -> l in
  let msb_first = strip (List.rev !bits) in
  match msb_first with
  | [] -> N0
  | _ -> Npos (pos_of_bits (List.rev msb_first))

let n_of_int (i : int) : n = n_of_hex (Printf.sprintf "%x" i)

let rec bits_of_pos (p : positive) (acc : bool list) : bool list =
  (* returns lsb-first list appended in reverse: we accumulate msb last *)
  match p with XH -> true :: acc | XO q -> bits_of_pos q (false :: acc) | XI q -> bits_of_pos q (true :: acc)

let hex_of_n (x : n) : string =
  match x with
  | N0 -> "0"
  | Npos p ->
      (* bits_of_pos gives msb-first list *)
      let msb = bits_of_pos p [] in
      let len = List.length msb in
      let pad = (4 - (len mod 4)) mod 4 in
      let rec padl k l = if k = 0 then l else padl (k - 1) (false :: l) in
      let l = padl pad msb in
      let b = Buffer.create 16 in
      let rec go l =
        match l with
        | a :: b1 :: c :: d :: r ->
            let v = (if a then 8 else 0) + (if b1 then 4 else 0) + (if c then 2 else 0) + if d then 1 else 0 in
            Buffer.add_char b "0123456789abcdef".[v];
            go r
        | [] -> ()
        | _ -> failwith "pad"
      in
      go l;
      Buffer.contents b

let rec int_of_pos (p : positive) : int = match p with XH -> 1 | XO q -> 2 * int_of_pos q | XI q -> (2 * int_of_pos q) + 1
let int_of_n (x : n) : int = match x with N0 -> 0 | Npos p -> int_of_pos p

let byte_tab : n array = Array.init 256 n_of_int
let bytes_of_hex (h : string) : n list =
  if h = "-" || h = "" then []
  else List.init (String.length h / 2) (fun i -> byte_tab.(int_of_string ("0x" ^ String.sub h (2 * i) 2)))

let hex_of_bytes (l : n list) : string =
  if l = [] then "-"
  else begin
    let b = Buffer.create 64 in
    List.iter (fun x -> Buffer.add_string b (Printf.sprintf "%02x" (int_of_n x))) l;
    Buffer.contents b
  end

let text_of_bytes (l : n list) : string =
  let b = Buffer.create 64 in
  List.iter (fun x -> Buffer.add_char b (Char.chr (int_of_n x))) l;
  Buffer.contents b

(* ---- value text syntax ---- *)

let parse_value (s : string) : value =
  let i = ref 0 in
  let peek () = if !i < String.length s then s.[!i] else '\000' in
  let hexrun () =
    let st = !i in
    while !i < String.length s && (match s.[!i] with '0' .. '9' | 'a' .. 'f' -> true | _ -> false) do incr i done;
    String.sub s st (!i - st)
  in
  let rec value () : value =
    let c = peek () in
    incr i;
    match c with
    | 'T' -> VBool true
    | 'F' -> VBool false
    | 'N' -> VNull
    | 'i' ->
        let neg = peek () = '-' in
        incr i;
        let m = n_of_hex (hexrun ()) in
        VInt (match m with N0 -> Z0 | Npos p -> if neg then Zneg p else Zpos p)
    | 'f' ->
        let h = String.sub s !i 16 in
        i := !i + 16;
        VFloat (n_of_hex h)
    | 't' | 'b' ->
        incr i;
        let h = hexrun () in
        incr i;
        if c = 't' then VText (bytes_of_hex h) else VBytes (bytes_of_hex h)
    | 'a' ->
        incr i;
        let items = ref [] in
        if peek () <> ')' then begin
          let continue = ref true in
          while !continue do
            items := value () :: !items;
            if peek () = ',' then incr i else continue := false
          done
        end;
        incr i;
        VArray (List.rev !items)
    | 'm' ->
        incr i;
        let es = ref [] in
        if peek () <> ')' then begin
          let continue = ref true in
          while !continue do
            let k = value () in
            incr i;
            let v = value () in
            es := (k, v) :: !es;
            if peek () = ',' then incr i else continue := false
          done
        end;
        incr i;
        VMap (List.rev !es)
    | 'g' ->
        let t = n_of_hex (hexrun ()) in
        incr i;
        let v = value () in
        incr i;
        VTag (t, v)
    | _ -> failwith ("value syntax: " ^ s)
  in
  let v = value () in
  if !i <> String.length s then failwith "trailing value text";
  v

(* ---- case handling ---- *)

let kv (line : string) : (string * string) list =
  List.filter_map
    (fun tok ->
      match String.index_opt tok '=' with
      | Some j -> Some (String.sub tok 0 j, String.sub tok (j + 1) (String.length tok - j - 1))
      | None -> None)
    (String.split_on_char ' ' line)

let run_line (line : string) : string =
  let m = kv line in
  let get k = List.assoc_opt k m in
  let rec has_float_or_tag (v : value) : bool =
    match v with
    | VFloat _ | VTag _ -> true
    | VArray l -> List.exists has_float_or_tag l
    | VMap es -> List.exists (fun (k, w) -> has_float_or_tag k || has_float_or_tag w) es
    | _ -> false
  in
  match get "rec", get "ev", get "eb" with
  | Some id, _, _ ->
      let inp = bytes_of_hex (match get "b" with Some b -> b | None -> "-") in
      let c, re = run_record (n_of_int (int_of_string id)) inp in
      (match int_of_n c with
       | 0 -> "rec err"
       | 1 -> Printf.sprintf "rec ok reenc=%s" (if re = inp then "same" else hex_of_bytes re)
       | _ -> "rec model-cannot-reencode")
  | _, Some vs, _ ->
      let v = parse_value vs in
      if has_float_or_tag v then "edict enc=E"
      else (match enc v with Ok b -> Printf.sprintf "edict enc=%s" (hex_of_bytes b) | Err _ -> "edict enc=E")
  | _, _, Some bh ->
      (match decode (bytes_of_hex bh) with
       | Ok v when not (has_float_or_tag v) -> Printf.sprintf "edict dec=%s" (text_of_bytes (show v))
       | _ -> "edict dec=E")
  | None, None, None ->
  match get "v", get "b", get "exh", get "f16tab", get "fl", get "w32" with
  | Some vs, _, _, _, _, _ ->
      let ((ec, eb), (dc, db)), (_nc, _nb) = run_value (parse_value vs) in
      if int_of_n ec <> 0 then Printf.sprintf "abi enc=E:%d dec=-" (int_of_n ec)
      else
        Printf.sprintf "abi enc=%s dec=%s" (hex_of_bytes eb)
          (if int_of_n dc = 0 then text_of_bytes db else Printf.sprintf "E:%d" (int_of_n dc))
  | _, Some bh, _, _, _, _ ->
      let inp = bytes_of_hex bh in
      let (dc, db), (rc, rb) = run_bytes inp in
      if int_of_n dc <> 0 then Printf.sprintf "abi dec=E:%d reenc=-" (int_of_n dc)
      else
        Printf.sprintf "abi dec=%s reenc=%s" (text_of_bytes db)
          (if int_of_n rc = 0 then if rb = inp then "same" else hex_of_bytes rb else Printf.sprintf "E:%d" (int_of_n rc))
  | _, _, Some ns, _, _, _ ->
      let n = int_of_string ns in
      let prefix = bytes_of_hex (match get "p" with Some p -> p | None -> "-") in
      let total = 1 lsl (8 * n) in
      let b = Buffer.create 1024 in
      let cur = ref "" and cnt = ref 0 in
      for i = 0 to total - 1 do
        let suffix = List.init n (fun j -> byte_tab.((i lsr (8 * (n - 1 - j))) land 255)) in
        let c = code_of (prefix @ suffix) in
        let cs = Printf.sprintf "%Lu" (Int64.of_string ("0x" ^ hex_of_n c)) in
        if cs = !cur then incr cnt
        else begin
          if !cnt > 0 then Buffer.add_string b (Printf.sprintf "%s%sx%d" (if Buffer.length b > 0 then "," else "") !cur !cnt);
          cur := cs;
          cnt := 1
        end
      done;
      if !cnt > 0 then Buffer.add_string b (Printf.sprintf "%s%sx%d" (if Buffer.length b > 0 then "," else "") !cur !cnt);
      "exh rle=" ^ Buffer.contents b
  | _, _, _, Some _, _, _ -> Printf.sprintf "f16tab fp=%d" (int_of_string ("0x" ^ hex_of_n widen16_table_fp))
  | _, _, _, _, Some l, _ ->
      let one h =
        let b = n_of_hex h in
        let pad w s = String.make (max 0 (w - String.length s)) '0' ^ s in
        let a, c =
          if f64_is_nan b then ("nan", "nan")
          else
            ( (match narrow16 b with Some x -> pad 4 (hex_of_n x) | None -> "-"),
              match narrow32 b with Some x -> pad 8 (hex_of_n x) | None -> "-" )
        in
        let iv =
          match f64_to_int b with
          | None -> "-"
          | Some Z0 -> "+0"
          | Some (Zpos p) -> "+" ^ hex_of_n (Npos p)
          | Some (Zneg p) -> "-" ^ hex_of_n (Npos p)
        in
        Printf.sprintf "%s/%s/%s" a c iv
      in
      "fl " ^ String.concat "," (List.map one (String.split_on_char ',' l))
  | _, _, _, _, _, Some l ->
      let pad w s = String.make (max 0 (w - String.length s)) '0' ^ s in
      "w32 " ^ String.concat "," (List.map (fun h -> pad 16 (hex_of_n (widen32 (n_of_hex h)))) (String.split_on_char ',' l))
  | _ -> "unknown-case"

let () =
  let ic = open_in Sys.argv.(1) in
  (try
     while true do
       let line = String.trim (input_line ic) in
       if line <> "" && line.[0] <> '#' then begin
         (try print_endline (run_line line) with e -> print_endline ("model-exception " ^ Printexc.to_string e))
       end
     done
   with End_of_file -> ());
  close_in ic
