"""Shared by props/c10.py and props/c11.py: evaluating coq/Model/Wal.v on real segment bytes.

BLAKE3 is a section variable in the model.  For execution it is instantiated with `tbl_hash tbl`, a
finite table holding the real blake3 value (computed by the `vfhash` binary = blake3 crate) of exactly
the preimages the model asks for (`Wal.queries`, iterated until no new preimage appears); every other
preimage gets an out-of-band value.  A missing or wrong table entry can only make the model *disagree*
with the implementation (a visible correspondence failure), never agree by accident.
"""
import vf

PRE = ("From Coq Require Import List NArith.\nFrom Echo Require Import Base.Bytes Model.Wal.\n"
       "Import ListNotations.\nOpen Scope N_scope.\n")
FP_MOD = (1 << 61) - 1
ERR_NAMES = {1: "store.digest", 2: "store.unknown_kind", 3: "decode.eof", 4: "decode.enum", 5: "decode.trailing",
             6: "decode.embedded", 7: "store.segment_mismatch", 8: "val.payload_digest", 9: "val.header_checksum",
             10: "val.frame_checksum", 11: "val.empty", 12: "val.txid", 13: "val.epoch", 14: "val.local_index",
             15: "val.lsn", 16: "val.first_lsn", 17: "val.last_lsn", 18: "val.count", 19: "val.root",
             20: "val.commit_digest"}


def fp(bs):
    return len(bs)


def hexbytes(b):
    """Gallina term for a byte string (one hex numeral; list notation parses quadratically)"""
    b = bytes(b)
    return "(bytes_of_hex %d 0x%s)" % (len(b), b.hex() or "0")


def fnv64(s):
    h = 0xcbf29ce484222325
    for b in s.encode():
        h ^= b
        h = (h * 0x100000001b3) & 0xFFFFFFFFFFFFFFFF
    return h


class HashTable:
    def __init__(self):
        self.d = {}          # bytes -> int digest

    def add_missing(self, preimages):
        new = [p for p in {bytes(p) for p in preimages} if p not in self.d]
        if new:
            hx = vf.vfhash([p.hex() for p in new])
            for p, h in zip(new, hx):
                self.d[p] = int(h, 16)
        return len(new)

    def term(self):
        buckets = {}
        for p, d in self.d.items():
            buckets.setdefault(fp(p), []).append((p, d))
        items = []
        for k in sorted(buckets):
            es = ";".join("(%s,%d)" % (hexbytes(p), d) for p, d in sorted(buckets[k]))
            items.append("(%d,[%s])" % (k, es))
        return "[" + ";".join(items) + "]"


def build_table(tag, byte_strings, tbl=None, rounds=5):
    """Fills `tbl` with the real blake3 of every preimage `Wal.queries` asks for on the given inputs."""
    tbl = tbl or HashTable()
    for rnd in range(rounds):
        t = tbl.term()
        terms = ["queries (tbl_hash %s) %s" % (t, hexbytes(b)) for b in byte_strings]
        vals = vf.coq_eval(f"{tag}-q{rnd}", PRE, terms)
        qs = [bytes(q) for v in vals for q in v]
        if tbl.add_missing(qs) == 0:
            return tbl
    raise vf.Broken("hash table for the WAL model did not reach a fixpoint")


def render_summary(s):
    """model summary -> the harness notation `ok/<n>/<tail>/<fnv>` | `err/<class>` and the tx list string"""
    (flag, code, lsn, txs) = s
    if flag == 1:
        return "err/" + ERR_NAMES.get(code, "unknown%d" % code), ""
    txl = ";".join("%064x:%064x:%d:%d:%d" % tuple(t) for t in txs)
    tail = {0: "C", 1: "N"}.get(code, "A%d" % lsn)
    return "ok/%d/%s/%016x" % (len(txs), tail, fnv64(txl)), txl


def render_rle(runs):
    out, k = [], 0
    for s, n in runs:
        out.append("%d-%d=%s" % (k, k + n - 1, render_summary(s)[0]))
        k += n
    return ",".join(out) if out else "-"


def flat4(v):
    """((a,b),c),d) style nested tuples come back from the parser as flat tuples already"""
    return v
