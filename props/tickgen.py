"""Shared case generator / model-term builder for the engine-tick properties (C01, C02, C14)."""
import vf

POOL = ["01", "0102", "aa", "ff00", "-"]


def gen_graph(rng, big=False, tail_shards=False, force_portal=False):
    k = rng.randint(3, 9) if not big else 330
    items = ["I1.1"]
    nodes = {1: [1]}
    for n in range(2, k + 1):
        items.append(f"N1.{n}.{rng.randint(5, 7)}")
        nodes[1].append(n)
    if tail_shards:
        # scopes in the last shards (shard = low byte of the node id): static round-robin with a worker count that does
        # not divide 256 must still execute them
        for n in rng.sample([250, 251, 252, 253, 254, 255, 511, 767], rng.randint(2, 4)):
            items.append(f"N1.{n}.6")
            nodes[1].append(n)
    edges = {1: []}
    for e in range(rng.randint(0, 5) if not big else 20):
        eid = 20 + e
        a, b = rng.choice(nodes[1]), rng.choice(nodes[1])
        items.append(f"E1.{eid}.{a}.{b}.8")
        edges[1].append((eid, a, b))
        if rng.random() < 0.3:
            items.append(f"B1.{eid}.{rng.choice(POOL[:4])}")
    for n in nodes[1]:
        if rng.random() < 0.4:
            items.append(f"A1.{n}.{rng.choice(POOL[:4])}")
    if not big and (force_portal or rng.random() < 0.35):
        pn = rng.choice(nodes[1][1:]) if len(nodes[1]) > 1 else 1
        nodes["portal_owner"] = pn
        items.append(f"P2.1.1.{pn}")
        nodes[2] = [1]
        edges[2] = []
        for n in range(2, rng.randint(2, 5)):
            items.append(f"N2.{n}.6")
            nodes[2].append(n)
        if len(nodes[2]) > 1:
            items.append(f"E2.40.{nodes[2][0]}.{nodes[2][-1]}.8")
            edges[2].append((40, nodes[2][0], nodes[2][-1]))
    return ";".join(items), nodes, edges


def gen_programs(rng, nodes, edges, nrules=4, big=False, local=0.5, safe=False):
    k = max(nodes[1])
    def tgt():
        return "s" if rng.random() < local else str(rng.randint(1, k))
    progs = []
    for r in range(nrules):
        ins = []
        if big:
            ins.append(f"sa.s.{'%02x' % r}")
            progs.append(f"{r}:" + ",".join(ins))
            continue
        if safe:
            # exactly one write (so one program never emits two ops under one key) plus reads; always applicable
            wr = rng.choice([f"sa.s.{rng.choice(POOL)}", "ca.s", f"sa.{tgt()}.{rng.choice(POOL)}"])
            reads = [rng.choice([f"rn.{tgt()}", f"ra.{tgt()}", f"he.{rng.choice([20, 21, 30])}"]) for _ in range(rng.choice([0, 1, 2]))]
            g = (("?" if rng.random() < 0.6 else "!") + f"s={rng.choice(POOL[:4])}|") if rng.random() < 0.3 else ""
            progs.append(f"{r}:" + ",".join(reads + [g + wr]))
            continue
        for _ in range(rng.choice([1, 1, 2, 3])):
            g = ""
            if rng.random() < 0.25:
                g = ("?" if rng.random() < 0.6 else "!") + f"{tgt()}={rng.choice(POOL[:4])}|"
            kind = rng.random()
            if kind < 0.35:
                ins.append(g + f"sa.{tgt()}.{rng.choice(POOL)}")
            elif kind < 0.45:
                ins.append(g + f"un.{rng.randint(1, k + 2)}.{rng.randint(5, 7)}")
            elif kind < 0.60:
                ins.append(g + f"ue.{rng.choice([20, 21, 30, 31])}.{tgt()}.{rng.randint(1, k)}.{rng.choice([8, 9])}")
            elif kind < 0.68 and edges[1]:
                e = rng.choice(edges[1])
                ins.append(g + f"de.{e[1]}.{e[0]}")
            elif kind < 0.75:
                ins.append(g + f"se.{rng.choice([20, 21, 30])}.{rng.choice(POOL)}")
            elif kind < 0.80:
                ins.append(g + f"dn.{rng.randint(2, k + 1)}")
            elif kind < 0.86:
                ins.append(g + f"rn.{tgt()}")
            elif kind < 0.91:
                ins.append(g + f"ra.{tgt()}")
            elif kind < 0.96:
                ins.append(g + f"ca.{tgt()}")
            elif kind < 0.98:
                ins.append(g + f"he.{rng.choice([20, 21, 30])}")
            else:
                ins.append(g + f"re.{rng.choice([20, 21, 30])}")
        progs.append(f"{r}:" + ",".join(ins))
    return ";".join(progs)


def gen_enq(rng, nodes, nrules=4, big=False, safe=False):
    reqs = []
    if big:
        for n in nodes[1]:
            for r in range(nrules):
                reqs.append((r, 1, n))
        rng.shuffle(reqs)
        return reqs
    for _ in range(rng.choice([0, 1, 2, 3, 4, 5, 6, 8, 12]) if not safe else rng.choice([3, 4, 5, 6, 8, 10])):
        w = rng.choice(list(nodes))
        reqs.append((rng.randrange(nrules), w, rng.choice(nodes[w] + ([] if safe else [99]))))
    return reqs


def gen_case(rng, big=False, perms=4, local=0.5, extra="", safe=False, tail_shards=False, divergent=False):
    descent = "descent=1" in extra
    g, nodes, edges = gen_graph(rng, big, tail_shards=tail_shards, force_portal=descent)
    powner = nodes.pop("portal_owner", None)
    r = gen_programs(rng, nodes, edges, big=big, local=local, safe=safe)
    if divergent:
        # one rule emits two DIFFERENT ops under one sort key (clear-then-set): the merge must reject the tick whatever the
        # schedule (a fast path that skips the merge for a single non-empty delta would commit it on one worker)
        rules = r.split(";")
        rules[rng.randrange(len(rules))] = f"{rng.randrange(4)}:sa.s.-,sa.s.{rng.choice(POOL[:4])}"
        seen, out = set(), []
        for x in rules:
            i = x.split(":")[0]
            if i not in seen:
                seen.add(i); out.append(x)
        r = ";".join(out)
    enq = gen_enq(rng, nodes, big=big, safe=safe)
    if descent and powner is not None:
        # cross-instance conflicts: with the descent chain passed to apply_in_warp every candidate matched in instance 2
        # reads the portal slot (alpha attachment of the owner node in instance 1); a parent candidate that writes the
        # owner's attachment conflicts with it, and whichever sorts later must name the other as its blocker
        rules = r.split(";")
        wi = rng.randrange(len(rules))
        rules[wi] = rules[wi].split(":")[0] + ":" + rng.choice(["sa.s.aa", "ca.s", "sa.s.-"])
        r = ";".join(rules)
        widx = int(rules[wi].split(":")[0])
        extra_reqs = [(widx, 1, powner)] + [(rng.randrange(4), 2, rng.choice(nodes[2])) for _ in range(rng.randint(1, 3))]
        for q in extra_reqs:
            enq.insert(rng.randint(0, len(enq)), q)
    e = ";".join(f"{a}.{b}.{c}" for a, b, c in enq) or "-"
    return f"g={g} r={r} enq={e} perms={perms} seed={rng.getrandbits(30)}" + ((" " + extra) if extra else "")


# ---------------------------------------------------------------------------- model terms

PRE = ("From Coq Require Import List NArith.\nFrom Echo Require Import Model.Sched Model.Tick.\n"
       "Import ListNotations.\nOpen Scope N_scope.\n"
       "Definition mres (m : merge_result) : N * list N :=\n"
       "  match m with MergeOk ops => (0, map op_content ops) | MergeConflict => (1, []) | MergeWriteToNewWarp => (2, []) end.\n"
       "Definition idx_of (tbl : list cand) (c : cand) : N :=\n"
       "  (fix go (l : list cand) (i : N) := match l with [] => i | d :: r => if andb (c_scope d =? c_scope c) (c_rule d =? c_rule c) then i else go r (i + 1) end) tbl 0.\n"
       "Definition run (tbl : list cand) (enq : list N) :=\n"
       "  let t := tick tbl enq in\n"
       "  (to_order t, to_receipt t, mres (to_merged t), map (map (idx_of tbl)) (work_units (accepted (drained tbl enq)))).\n"
       "(* > 1024 candidates: drain_thin = small_sort by theorem (Props/C03.v drain_is_sorted_permutation) *)\n"
       "Definition run_big (tbl : list cand) (enq : list N) :=\n"
       "  let order := map t_handle (small_sort (enqueue_all (queue_of tbl enq))) in\n"
       "  let cs := map (fun h => nth (N.to_nat h) tbl dflt_cand) order in\n"
       "  (order, receipt (map c_fp cs), mres (merge (flat_map c_ops (accepted cs))), map (map (idx_of tbl)) (work_units (accepted cs))).\n")


def parse_table(tbl):
    rows = []
    if tbl == "-":
        return rows
    for it in tbl.split(";"):
        sh, compact, warp, node, fp, ops = it.split(":")
        sets = fp.split("/")
        o = []
        if ops != "-":
            for x in ops.split("+"):
                rank, content, target = x.split(".")
                o.append((int(rank), int(content), int(target, 16)))
        rows.append({"scope": int(sh, 16), "rule": int(compact), "warp": int(warp), "node": int(node, 16),
                     "sets": [([] if s == "-" else s.split("+")) for s in sets], "ops": o})
    return rows


def table_term(rows):
    keyids = {}
    def kid(cls, s):
        return keyids.setdefault((cls, s), len(keyids) + 1)
    cands = []
    for r in rows:
        w = r["warp"]
        nr, nw, er, ew, ar, aw = r["sets"]
        def ks(cls, l):
            # `W<warp>~<key>` = a resource of another instance (descent-chain read); plain keys live in the row's instance.
            # key ids are per (class, instance, key) so that equal local ids of different instances stay distinct
            out = []
            for k in l:
                kw, kk = (int(k[1:].split("~")[0]), k.split("~", 1)[1]) if k.startswith("W") and "~" in k else (w, k)
                out.append(f"({kw},{kid((cls, kw), kk)})")
            return "[" + ";".join(out) + "]"
        fp = ("{| n_read := %s; n_write := %s; e_read := %s; e_write := %s; a_read := %s; a_write := %s; b_in := []; b_out := []; "
              "factor_mask := 18446744073709551615 |}" % (ks("n", nr), ks("n", nw), ks("e", er), ks("e", ew), ks("a", ar), ks("a", aw)))
        ops = "[" + ";".join("{| op_key := %d; op_content := %d; op_new := None; op_target := Some %d |}" % o for o in r["ops"]) + "]"
        cands.append("{| c_scope := %s; c_rule := %d; c_warp := %d; c_node := %s; c_fp := %s; c_ops := %s |}" %
                     (vf.coq_hexN("%x" % r["scope"]), r["rule"], w, vf.coq_hexN("%x" % r["node"]), fp, ops))
    return "[" + ";".join(cands) + "]"


def to_term(tbl, enq):
    rows = parse_table(tbl)
    e = "[" + ("" if enq == "-" else enq.replace(",", ";")) + "]"
    fn = "run_big" if len(rows) > 1024 else "run"
    return f"{fn} {table_term(rows)} {e}"


def render_model(v):
    order, rc, (mk, mc), units = v[0], v[1], v[2], v[3]
    o = ",".join(str(h) for h in order) or "-"
    if isinstance(rc, tuple) and rc[0] == "app" and rc[1] == "Some":
        ent = rc[2][0]
        dec = "".join("1" if e[0] == "true" else "0" for e in ent) or "-"
        blk = ",".join(("+".join(str(x) for x in e[1]) or "-") for e in ent) or "-"
    else:
        dec, blk = "CORRUPT", "CORRUPT"
    merged = {0: ",".join(str(x) for x in mc) or "-", 1: "MergeConflict", 2: "MergeWriteToNewWarp"}[mk]
    us = "|".join(",".join(str(i) for i in u) for u in units) or "-"
    return f"order={o} dec={dec} blk={blk} merged={merged}", us


def fields(line):
    return dict(t.split("=", 1) for t in line.split() if "=" in t)
