"""C02 — parallel execution is invisible: every worker schedule commits the same tick."""
import json
import vf, tickgen

PROP = "C02"
THEOREMS = ["schedule_invisible", "workers_invisible", "policies_invisible", "merge_is_multiset_function",
            "poison_fails_every_schedule", "honest_fails_no_schedule"]


def run_impl(bins, tag, cases, timeout=1700):
    path = vf.write_cases(tag, cases)
    rc, out = vf.run_bin(bins["c02"], path, timeout=timeout)
    lines = [l for l in out.splitlines() if l.startswith("tbl=")]
    if rc or len(lines) != len(cases):
        raise vf.Broken(f"harness c02 exited {rc} with {len(lines)}/{len(cases)} lines: {out[-800:]}")
    return lines


def run(tier, seed, replay=None):
    r = vf.Run(PROP, tier, seed, "proof")
    r.assumptions = [
        "Coq 8.16.1 kernel; no axioms (Print Assumptions: closed under the global context)",
        "model = coq/Model/Tick.v: build_work_units (group accepted items by (instance, shard) in canonical order), schedules = assignments of unit "
        "indices to workers with each worker's private order increasing in unit index (what the atomic claim counter can produce), per-worker "
        "deltas, the five shard policies, merge; poisoned workers stop claiming. The claim that 'reachable schedules = assignments' is argued from "
        "exec.rs; memory ordering of the Relaxed counter and real preemption are NOT exhibited by the model",
        "tie: hook verif_hooks::set_claim_script replaces the atomic counter of execute_work_queue by a scripted assignment (feature echo_verif); "
        "unscripted real threads for several worker counts are the only evidence about the counter itself",
    ]
    r.cov["trusted_base"] = ["coqc 8.16.1 kernel + vm_compute", "props/c02.py + props/tickgen.py", "harness tick.rs/c02.rs",
                             "hook execute_work_queue_scripted (emulation of the work queue under a claim script)"]
    r.proof_phase(THEOREMS)
    r.tables_phase("Sched")
    if replay:
        d = json.load(open(replay))
        cases = [d["replay"]["case"]] if "case" in d.get("replay", {}) else []
    else:
        cases = vf.load_corpus(PROP)
        n = 40 if tier == "quick" else 400
        for i in range(n):
            cases.append(tickgen.gen_case(r.rng, local=0.9, safe=True, extra="maxassign=243 reps=1 threads=1,2,4,8,32"))
        for i in range(8 if tier == "quick" else 100):
            cases.append(tickgen.gen_case(r.rng, local=0.5, extra="maxassign=81 reps=2 threads=1,3,16" + (" descent=1" if i % 2 else "")))
        for i in range(30 if tier == "quick" else 240):
            cases.append(tickgen.gen_case(r.rng, local=0.9, safe=True, tail_shards=True, divergent=(i % 3 != 0),
                                          extra="maxassign=81 reps=1 threads=1,2,3"))
        for _ in range(1 if tier == "quick" else 4):
            cases.append(tickgen.gen_case(r.rng, big=True, extra="maxassign=6 reps=1 threads=2,7"))
        if tier == "thorough":
            cases += [tickgen.gen_case(r.rng, local=0.9, safe=True, extra="maxassign=729 reps=20 threads=" + ",".join(str(w) for w in range(1, 33)))
                      for _ in range(20)]
    try:
        bins = vf.cargo_build(["c02"])
        impl = run_impl(bins, "c02", cases)
    except vf.Broken as e:
        r.is_broken("harness", e)
        return r.finish()
    f = [tickgen.fields(l) for l in impl]
    for c, x in zip(cases, f):
        if x["oracle"] != "ok":
            o = x["oracle"]
            r.violation("oracle:" + o.split(":", 1)[1].split(":")[0].split(",")[0], f"implementation-side oracle failed: {o}", {"case": c, "oracle": o})
    # model: work units (canonical (instance, shard) grouping of the accepted candidates in drain order)
    bad = []
    try:
        vals = vf.coq_eval("c02", tickgen.PRE, [tickgen.to_term(x["tbl"], x["enq"]) for x in f], timeout=1500)
        for i, (x, v) in enumerate(zip(f, vals)):
            if x["res"].startswith("Err:"):
                continue
            _, units = tickgen.render_model(v)
            if units != x["units"]:
                bad.append((i, x["units"], units))
    except vf.Broken as e:
        r.is_broken("model-eval", e)
    for i, a, m in bad[:3]:
        r.is_broken("correspondence", f"work units differ on: {cases[i][:1200]}\n impl : {a}\n model: {m}")
    if r.broken and not r.violations and not replay:
        extra = [tickgen.gen_case(r.rng, local=0.8, safe=True, extra="maxassign=243 reps=3 threads=1,2,3,5,8,13,32") for _ in range(300)]
        for c, l in zip(extra, run_impl(bins, "c02search", extra)):
            o = tickgen.fields(l)["oracle"]
            if o != "ok":
                r.violation("oracle:" + o.split(":", 1)[1].split(":")[0], "oracle failed during search", {"case": c, "oracle": o})
                break
        r.phase("P6_search", cases=len(extra))
    r.cov["evaluations"] = len(cases)
    r.cov["scripted_schedules_run"] = sum(int(x["scripted"]) for x in f)
    r.cov["threaded_runs"] = sum(int(x["threaded"]) for x in f)
    r.cov["policy_runs"] = sum(int(x["policy"]) for x in f)
    hist = {}
    for x in f:
        k = 0 if x["units"] == "-" else x["units"].count("|") + 1
        hist[k] = hist.get(k, 0) + 1
    r.cov["work_unit_count_histogram"] = dict(sorted(hist.items()))
    r.cov["distinct_nontrivial"] = len({c for c, x in zip(cases, f) if x["units"].count("|") >= 1})
    r.cov["rule"] = ("generated ticks (as in C01, programs biased to scope-local writes so that several candidates are accepted); for each tick all "
                     "assignments of work units to 2 and 3 workers are enumerated through the claim-script hook when there are at most maxassign of "
                     "them (sampled otherwise), plus unscripted racing threads for the listed worker counts and the five shard policies x {1,2,3,8} "
                     "workers through execute_parallel_with_policy; non-trivial = at least two work units")
    r.cov["traces_validated_against_impl"] = len(cases) - len(bad)
    r.cov["samples"] = [c[:600] for c in cases[:2]]
    r.phase("P4_correspondence", cases=len(cases), differing=len(bad))
    r.phase("P5_oracle", failing=sum(1 for x in f if x["oracle"] != "ok"))
    return r.finish()


MANIFEST = {
    "category": "proof",
    "text": ("Coq theorems (no axioms): for every worker count and every assignment of work units to workers the merged op sequence equals the "
             "single-worker one (the per-worker deltas are a permutation of the accepted ops and the merge is a function of the op multiset: sort "
             "by key, reject divergent, dedupe); the five shard policies are indistinguishable after the merge; a poisoning item fails the tick under "
             "every schedule (including schedules where earlier poisoned workers stop claiming) and without one no schedule fails. Tied to /repo by a "
             "hook that scripts the claim order of execute_work_queue: all assignments for small unit counts are enumerated on the real engine and "
             "must commit bit-identically (snapshot, receipt, state dump), plus unscripted racing threads and the five policies; the model's work "
             "units are compared with the real build_work_units."),
    "note": ("PARTIAL by nature: thread interleavings, the Relaxed atomic counter and preemption are runtime behaviour a Gallina model cannot exhibit; "
             "the scripted hook replaces the counter, and unscripted threaded runs are exploration-level evidence only. Trusted: Coq kernel, "
             "generator, harness, the scripted emulation hook. Modelled rather than verified: exec.rs build_work_units/execute_work_queue/policies, "
             "merge_parallel_deltas."),
}
