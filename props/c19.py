"""C19 — deterministic math is bit-stable and canonical."""
import os, json, struct, sys, time, subprocess
import vf

PROP = "C19"
THEOREMS = ["new_canonical", "new_idempotent", "canonical_classes", "canonical_fixed_points", "ops_closed",
            "sin_odd_any_rounding", "cos_even", "sin_odd", "new_matches_adder", "sin_table_facts",
            "q32_total", "q32_saturates", "q32_mul_nearest", "q32_div_nearest", "q32_to_f32_canonical",
            "prng_next_int_range", "prng_never_zero_state", "from_axis_angle_total", "from_axis_angle_unchanged",
            "sin_cos_range", "sin_cos_is_signed_interp", "sin_interp_segment_range"]
PRE = ("From Coq Require Import List NArith ZArith.\n"
       "From Echo Require Import Model.TrigTable Model.Scalar.\n"
       "Import ListNotations.\nOpen Scope N_scope.\n"
       "Definition F := flocq_prims.\n"
       "Fixpoint prng_f32s (n : nat) (st : prng_state) : list N :=\n"
       "  match n with O => [] | S k => let '(v, st') := prng_next_f32 st in v :: prng_f32s k st' end.\n"
       "Fixpoint prng_ints (n : nat) (st : prng_state) (lo hi : Z) : option (list Z * prng_state) :=\n"
       "  match n with O => Some ([], st) | S k =>\n"
       "    match prng_next_int 200 st lo hi with None => None | Some (v, st') =>\n"
       "      match prng_ints k st' lo hi with None => None | Some (l, st2) => Some (v :: l, st2) end end end.\n"
       "Definition enc (z : Z) : N := Z.to_N (z mod 2 ^ 64).\n"
       "Definition v3l (v : vec3) : list N := let '(a, b, c) := v in [a; b; c].\n"
       "Definition q4l (q : quat) : list N := let '(a, b, c, d) := q in [a; b; c; d].\n")

TRANSLATOR = os.path.join(vf.ROOT, "translator", "gen_trig_table.py")
TABLE_V = os.path.join(vf.COQ, "Model", "TrigTable.v")

ONE = 0x3f800000
CANON_NAN = 0x7fc00000
SPECIAL = [0x00000000, 0x80000000, 0x00000001, 0x80000001, 0x007fffff, 0x807fffff, 0x00800000, 0x80800000,
           0x7f7fffff, 0xff7fffff, 0x7f800000, 0xff800000, 0x7fc00000, 0xffc00000, 0x7f800001, 0xffffffff,
           0x7fa0dead, 0x3f800000, 0xbf800000, 0x3f7fffff, 0x3f800001, 0x40000000, 0x3f000000, 0x3fc90fdb,
           0x40490fdb, 0x4096cbe4, 0x40c90fdb, 0x3fc90fda, 0x3fc90fdc, 0x40490fda, 0x40490fdc, 0x40c90fda,
           0x40c90fdc, 0xc0c90fdb, 0x4b800000, 0x4b7fffff, 0x5f000000, 0x2f800000, 0x358637bd, 0x7e967699,
           0x60ad78ec, 0x5f7fffff, 0x1f800000, 0x00ffffff, 0x7f000000, 0x34000000, 0x33800000, 0x4f000000]
I64S = [0, 1, -1, 2**63 - 1, -2**63, -2**63 + 1, 2**32, -2**32, 2**32 + 1, 2**31, 2**31 + 1, 0x7fffffff80000000,
        3 * 2**31, -3 * 2**31, 2**62, -2**62, 2**33 + 2**31, 6442450944, 0x80000000, 0x180000000, 0x100000001]


def f2b(x):
    return struct.unpack("<I", struct.pack("<f", x))[0]


def finite(b):
    return (b >> 23) & 0xff != 0xff


def isnan(b):
    return (b >> 23) & 0xff == 0xff and b & 0x7fffff != 0


def ref_new(b):
    e, m = (b >> 23) & 0xff, b & 0x7fffff
    if e == 0xff and m:
        return CANON_NAN
    if e == 0:
        return 0
    return b


# ------------------------------------------------------------------------------------------------ generators

def gen_bits(rng):
    k = rng.randrange(9)
    if k == 0:
        return rng.choice(SPECIAL)
    if k == 1:
        return rng.getrandbits(32)
    if k in (2, 3):
        return (rng.getrandbits(1) << 31) | ((107 + rng.randrange(41)) << 23) | rng.getrandbits(23)
    if k == 4:          # near k*pi/2 (also the table knots i*pi/2048)
        base = f2b(rng.randrange(64) * 1.5707963267948966) if rng.random() < 0.5 else f2b(rng.randrange(1025) * 1.5707963267948966 / 1024)
        return (max(0, base + rng.randrange(-4, 5)) & 0x7fffffff) | (rng.getrandbits(1) << 31)
    if k == 5:
        return (rng.getrandbits(1) << 31) | (rng.randrange(255) << 23) | rng.choice([0, 0x7fffff, 1, 0x400000])
    if k == 6:
        return (rng.getrandbits(1) << 31) | ((100 + rng.randrange(30)) << 23) | rng.getrandbits(23)
    if k == 7:
        return (rng.getrandbits(1) << 31) | ((150 + rng.randrange(105)) << 23) | rng.getrandbits(23)
    return (rng.getrandbits(1) << 31) | (rng.randrange(1, 40) << 23) | rng.getrandbits(23)     # tiny normals


def gen_moderate(rng):
    if rng.randrange(12) == 0:
        return rng.choice([0, ONE, 0xbf800000, 0x3f000000, 0x80000000])
    return (rng.getrandbits(1) << 31) | ((117 + rng.randrange(21)) << 23) | rng.getrandbits(23)


def gen_finite_any(rng):
    while True:
        b = gen_bits(rng)
        if finite(b):
            return b


def gen_i64(rng):
    k = rng.randrange(7)
    if k == 0:
        return rng.choice(I64S)
    if k == 1:
        return rng.getrandbits(64) - 2**63
    if k == 2:
        return (rng.getrandbits(64) - 2**63) >> rng.randrange(63)
    if k == 3:
        return rng.randrange(-2**39, 2**39)
    if k == 4:
        return (rng.randrange(2**20) << 16) | 0x8000
    if k == 5:
        return (1 << rng.randrange(63)) + rng.randrange(-1, 2)
    return rng.choice([1, -1]) * ((rng.randrange(2**31) << 32) | rng.choice([0, 0x80000000, 0x7fffffff, 0x80000001]))


def h8(b):
    return "%08x" % b


def gen_ops(rng, n):
    """Stratified single-op cases over every public function family."""
    cases = []
    unary_f = ["new", "neg", "sin", "cos", "sincos", "fxfrom", "cfx", "mrotx", "mroty", "mrotz"]
    binary_f = ["add", "sub", "mul", "div"]
    # every special class through every unary / binary scalar op
    for b in SPECIAL:
        for op in ["new", "neg", "sin", "cos", "fxfrom", "cfx"]:
            cases.append(f"op={op} x={h8(b)}")
    for a in SPECIAL[:24]:
        for b in rng.sample(SPECIAL, 6):
            cases.append(f"op={rng.choice(binary_f)} x={h8(a)},{h8(b)}")
    for v in I64S:
        cases.append(f"op=fxto x={v}")
        cases.append(f"op=dneg x={v}")
        cases.append(f"op=cfxi x={v}")
        for w in rng.sample(I64S, 3):
            cases.append(f"op={rng.choice(['dadd', 'dsub', 'dmul', 'ddiv'])} x={v},{w}")
    while len(cases) < n:
        k = rng.randrange(100)
        if k < 22:
            op = rng.choice(unary_f)
            b = gen_bits(rng)
            if op.startswith("mrot") and not finite(b):
                b = gen_finite_any(rng)
            cases.append(f"op={op} x={h8(b)}")
        elif k < 40:
            cases.append(f"op={rng.choice(binary_f)} x={h8(gen_bits(rng))},{h8(gen_bits(rng))}")
        elif k < 46:
            cases.append(f"op={rng.choice(['fxto', 'dneg', 'dsin', 'dcos', 'cfxi'])} x={gen_i64(rng)}")
        elif k < 56:
            cases.append(f"op={rng.choice(['dadd', 'dsub', 'dmul', 'ddiv'])} x={gen_i64(rng)},{gen_i64(rng)}")
        elif k < 60:
            s0, s1 = rng.choice([0, 1, rng.getrandbits(64)]), rng.choice([0, 2, rng.getrandbits(64)])
            cases.append(f"op=prng x={s0},{s1},{rng.randrange(1, 6)}")
        elif k < 62:
            cases.append(f"op=prngu x={rng.choice([0, 42, rng.getrandbits(64)])},{rng.randrange(1, 5)}")
        elif k < 68:
            lo = rng.choice([-2**31, -10, 0, rng.randrange(-2**31, 2**31)])
            hi = rng.choice([2**31 - 1, 10, 255, rng.randrange(-2**31, 2**31)])
            lo, hi = min(lo, hi), max(lo, hi)
            if rng.randrange(6) == 0:
                hi = lo + rng.choice([0, 1, 3, 255, 256])
                hi = min(hi, 2**31 - 1)
            cases.append(f"op=prngint x={rng.getrandbits(64)},{rng.getrandbits(64)},{lo},{hi},{rng.randrange(1, 5)}")
        elif k < 82:
            op = rng.choice(["vadd", "vsub", "vcross", "vdot", "vscale", "vlen", "vnorm"])
            g = gen_bits if rng.random() < 0.4 else gen_moderate
            nargs = {"vadd": 6, "vsub": 6, "vcross": 6, "vdot": 6, "vscale": 4, "vlen": 3, "vnorm": 3}[op]
            cases.append(f"op={op} x=" + ",".join(h8(g(rng)) for _ in range(nargs)))
        elif k < 92:
            op = rng.choice(["qmul", "qnorm", "qaxis", "qmat"])
            g = gen_finite_any if rng.random() < 0.25 else gen_moderate
            nargs = {"qmul": 8, "qnorm": 4, "qaxis": 4, "qmat": 4}[op]
            cases.append(f"op={op} x=" + ",".join(h8(g(rng)) for _ in range(nargs)))
        else:
            op = rng.choice(["mmul", "mpoint", "mdir", "meuler", "maxis"])
            nargs = {"mmul": 32, "mpoint": 19, "mdir": 19, "meuler": 3, "maxis": 4}[op]
            g = gen_finite_any if ((op == "meuler" and rng.random() < 0.5) or (op == "maxis" and rng.random() < 0.25)) else gen_moderate
            cases.append(f"op={op} x=" + ",".join(h8(g(rng)) for _ in range(nargs)))
    return cases


# ------------------------------------------------------------------------------------------------ model side

def parse_case(line):
    m = dict(t.split("=", 1) for t in line.split())
    return m["op"], [t for t in m.get("x", "").split(",") if t]


def N(tok):
    return "0x" + tok


def Z(tok):
    v = int(tok)
    return f"({v})%Z"


def vec(toks):
    return "(" + ",".join(N(t) for t in toks) + ")"


def lst(toks):
    return "[" + ";".join(N(t) for t in toks) + "]"


def to_term(line):
    """Gallina term for one op case; always a pair (result, tripwire-observed f32 values)."""
    op, x = parse_case(line)
    if op == "new":
        return f"([new {N(x[0])}; codec_canonicalize_f32 {N(x[0])}; new_via_adder {N(x[0])}], @nil N)"
    if op in ("add", "sub", "mul", "div"):
        return f"([s_{op} F (new {N(x[0])}) (new {N(x[1])})], @nil N)"
    if op == "neg":
        return f"([s_neg (new {N(x[0])})], @nil N)"
    if op == "sin":
        return f"([s_sin F (new {N(x[0])})], [new {N(x[0])}])"
    if op == "cos":
        return f"([s_cos F (new {N(x[0])})], [new {N(x[0])}])"
    if op == "sincos":
        return f"(let sc := s_sin_cos F (new {N(x[0])}) in [fst sc; snd sc], [new {N(x[0])}])"
    if op == "fxfrom":
        return f"(enc (fx_from_f32 {N(x[0])}), @nil N)"
    if op == "cfx":
        return f"(enc (codec_fx_from_f32 {N(x[0])}), @nil N)"
    if op == "cfxi":
        return f"(enc (codec_fx_from_i64 {Z(x[0])}), @nil N)"
    if op == "fxto":
        return f"([fx_to_f32 {Z(x[0])}], @nil N)"
    if op in ("dadd", "dsub", "dmul", "ddiv"):
        return f"(enc (dfix_{op[1:]} {Z(x[0])} {Z(x[1])}), @nil N)"
    if op in ("dneg", "dsin", "dcos"):
        return f"(enc (dfix_{op[1:]} {Z(x[0])}), @nil N)"
    if op == "prng":
        return f"(prng_f32s {int(x[2])} (prng_from_seed {int(x[0])} {int(x[1])}), @nil N)"
    if op == "prngu":
        return f"(prng_f32s {int(x[1])} (prng_from_seed_u64 {int(x[0])}), @nil N)"
    if op == "prngint":
        return (f"(match prng_ints {int(x[4])} (prng_from_seed {int(x[0])} {int(x[1])}) {Z(x[2])} {Z(x[3])} with "
                f"None => None | Some (l, st) => Some (map enc l, fst (prng_next_f32 st)) end, @nil N)")
    if op in ("vadd", "vsub", "vcross"):
        return f"(v3l (v_{op[1:]} F {vec(x[0:3])} {vec(x[3:6])}), @nil N)"
    if op == "vscale":
        return f"(v3l (v_scale F {vec(x[0:3])} {N(x[3])}), @nil N)"
    if op == "vdot":
        return f"([v_dot F {vec(x[0:3])} {vec(x[3:6])}], @nil N)"
    if op == "vlen":
        return f"([v_length F {vec(x[0:3])}], @nil N)"
    if op == "vnorm":
        return f"(v3l (v_normalize F {vec(x[0:3])}), @nil N)"
    if op == "qmul":
        return f"(let q := q4l (q_multiply F {vec(x[0:4])} {vec(x[4:8])}) in (q, q))"
    if op == "qnorm":
        return f"(let q := q4l (q_normalize F {vec(x[0:4])}) in (q, q))"
    if op == "qaxis":
        return f"(let q := q4l (q_from_axis_angle F {vec(x[0:3])} {N(x[3])}) in (q, p_mul F {N(x[3])} HALF :: q))"
    if op == "qmat":
        return f"(q_to_mat4 F {vec(x[0:4])}, q4l (q_normalize F {vec(x[0:4])}))"
    if op == "mmul":
        return f"(m_multiply F {lst(x[0:16])} {lst(x[16:32])}, @nil N)"
    if op in ("mrotx", "mroty", "mrotz"):
        return f"(m_rotation_{op[-1]} F {N(x[0])}, [{N(x[0])}])"
    if op == "meuler":
        return f"(m_rotation_from_euler F {N(x[0])} {N(x[1])} {N(x[2])}, {lst(x[0:3])})"
    if op == "maxis":
        return (f"(let q := q_from_axis_angle F {vec(x[0:3])} {N(x[3])} in "
                f"(q_to_mat4 F q, p_mul F {N(x[3])} HALF :: q4l q ++ q4l (q_normalize F q)))")
    if op == "mpoint":
        return f"(v3l (m_transform_point F {lst(x[0:16])} {vec(x[16:19])}), @nil N)"
    if op == "mdir":
        return f"(v3l (m_transform_direction F {lst(x[0:16])} {vec(x[16:19])}), @nil N)"
    raise ValueError("unknown op " + op)


# Vec3::new documents "callers must ensure values are finite".  With two different NaN payloads in the operands the payload
# of the result depends on operand order, which LLVM may commute between optimisation levels: recorded, not compared.
INFO_FAMILIES = {"vec3_nan_inputs"}
RAW_OPS = {"vadd", "vsub", "vcross", "vscale", "vdot", "vlen", "vnorm", "qmul", "qnorm", "qaxis", "qmat",
           "mmul", "mrotx", "mroty", "mrotz", "meuler", "maxis", "mpoint", "mdir"}
TRIG_OPS = {"sin", "cos", "sincos"}


def canon_hex_tokens(op, toks):
    """raw-f32 families: the sign/payload of a NaN produced by the FPU is platform behaviour, not part of the
    IEEE model; every NaN is compared as `nan` (profile equality of the exact bits is checked by the stream digests)."""
    if op not in RAW_OPS:
        return toks
    out = []
    for t in toks:
        try:
            out.append("nan" if isnan(int(t, 16)) else t)
        except ValueError:
            out.append(t)
    return out


def dec(n):
    return n - (1 << 64) if n >= (1 << 63) else n


def render_model(line, val, profile):
    """Expected harness `r=` field for one case from the model value, per build profile."""
    op, x = parse_case(line)
    res, tw = val
    trip = any(not finite(b) for b in tw)
    if op in TRIG_OPS and trip:
        return "tripwire" if profile == "debug" else "00000000,3f800000"
    if op in RAW_OPS and trip and profile == "debug":
        return "panic"                      # debug_assert in Quat::new / sin_cos_f32 (documented tripwire)
    if op == "new":
        return ",".join(h8(b) for b in res[:2])
    if op in ("fxfrom", "cfx", "cfxi", "dadd", "dsub", "dmul", "ddiv", "dneg", "dsin", "dcos"):
        return str(dec(res))
    if op == "prngint":
        if res == "None":
            return "model-out-of-fuel"
        l, last = res[2][0]
        return ",".join([str(dec(v)) for v in l] + [h8(last)])
    toks = [h8(b) for b in res]
    return ",".join(canon_hex_tokens(op, toks))


def impl_field(op, rfield):
    return ",".join(canon_hex_tokens(op, rfield.split(",")))


# ------------------------------------------------------------------------------------------------ running

def run_lines(binpath, tag, lines, timeout=3000):
    path = vf.write_cases(tag, lines)
    rc, out = vf.run_bin(binpath, path, timeout=timeout)
    if rc:
        raise vf.Broken(f"harness c19 ({tag}) exited {rc}: {out[-800:]}")
    return out.splitlines()


def parse_fams(lines, prefix):
    fams, oracle, fails = {}, None, []
    for l in lines:
        if l.startswith(prefix + " family="):
            m = dict(t.split("=", 1) for t in l.split()[1:])
            fams[m["family"]] = (m["digest"], int(m["n"]))
        elif l.startswith(prefix + "fail "):
            fails.append(l)
        elif l.startswith(prefix + " ") and "oracle=" in l:
            oracle = l.split("oracle=", 1)[1].strip()
    return fams, oracle, fails


def check_table(r):
    """P2: regenerate the sine table from the Rust source and compare with the file the proofs were checked against."""
    rc, out = vf.sh([sys.executable, TRANSLATOR, vf.REPO], timeout=60)
    if rc:
        r.is_broken("translator", "gen_trig_table.py cannot parse trig_lut.rs: " + out[-400:])
        r.phase("P2_regenerate", ok=False)
        return False
    cur = open(TABLE_V).read()
    if out != cur:
        if not vf.SCRATCH:
            # the checked-in table changed in /repo: regenerate and let the proofs be re-checked against it
            open(TABLE_V, "w").write(out)
            r.phase("P2_regenerate", ok=True, regenerated=True)
            return True
        r.is_broken("translator:table-differs", "SIN_QTR_LUT_BITS / SIN_QTR_SEGMENTS in the scratch tree differ from coq/Model/TrigTable.v")
        r.phase("P2_regenerate", ok=False)
        return False
    r.phase("P2_regenerate", ok=True, regenerated=False, entries=out.count("0x") - 1)
    return True


def sig_of(fail):
    return fail.split(",")[0]


def ops_phase(r, bins, cases, tag):
    """P4+P5 on single-op cases: both profiles vs the model, plus the harness oracle."""
    vals = vf.coq_eval(tag, PRE, [to_term(c) for c in cases])
    stats = {"differing": 0, "oracle_failing": 0, "panics_on_finite": 0}
    per_profile = {}
    for prof in ("debug", "release"):
        out = run_lines(bins[prof], f"{tag}-{prof}", cases)
        lines = [l for l in out if l.startswith("r=")]
        per_profile[prof] = lines
        if len(lines) != len(cases):
            r.is_broken("correspondence", f"{prof}: {len(lines)} result lines for {len(cases)} cases")
            continue
        for c, l, v in zip(cases, lines, vals):
            op, x = parse_case(c)
            rfield = l.split(" oracle=")[0][2:]
            oracle = l.split(" oracle=")[1] if " oracle=" in l else "FAIL:no-oracle"
            want = render_model(c, v, prof)
            got = impl_field(op, rfield)
            if oracle != "ok":
                stats["oracle_failing"] += 1
                for f in oracle[5:].split(","):
                    r.violation("oracle:" + f, f"implementation oracle failed ({prof}): {f} on {c} -> {l}",
                                {"case": c, "profile": prof, "impl": l})
            if want == "model-out-of-fuel":
                continue
            if got != want:
                finite_in = all(finite(int(t, 16)) for t in x) if op in RAW_OPS else True
                if got == "panic" and finite_in and op == "qaxis":
                    # the debug build panics where the release build returns NaN components
                    r.violation("oracle:quat-from_axis_angle-nan-from-finite-input",
                                f"debug build panics on finite input: {c}", {"case": c, "profile": prof, "impl": l})
                    continue
                stats["differing"] += 1
                r.is_broken("correspondence", f"model and implementation ({prof}) differ on: {c}\n impl : {got}\n model: {want}")
                if got == "panic":
                    r.violation("oracle:unexpected-panic", f"{prof} build panics on {c}", {"case": c, "profile": prof})
    # model-internal tie: F32Scalar::new through the Flocq adder equals the field-level definition
    for c, v in zip(cases, vals):
        if parse_case(c)[0] == "new" and v[0][0] != v[0][2]:
            r.is_broken("model:new-vs-adder", f"new (bit fields) and new (x + 0.0 through Flocq) differ on {c}: {v[0]}")
    if "debug" in per_profile and "release" in per_profile and len(per_profile["debug"]) == len(per_profile["release"]):
        for c, a, b in zip(cases, per_profile["debug"], per_profile["release"]):
            if a != b and "tripwire" not in a and not a.startswith("r=panic"):
                r.violation("profile-divergence:op", f"debug and release differ on {c}: {a} / {b}", {"case": c, "debug": a, "release": b})
    return vals, stats


def digest_phase(r, bins, line, tag, prefix, timeout=3000):
    """(b): the same input stream / sweep through both profiles; per-family digests must agree."""
    res = {}
    for prof in ("debug", "release"):
        t0 = time.time()
        out = run_lines(bins[prof], f"{tag}-{prof}", [line], timeout=timeout)
        fams, oracle, fails = parse_fams(out, prefix)
        res[prof] = (fams, oracle, fails, round(time.time() - t0, 1))
        if oracle is None:
            r.is_broken("digest-run", f"{prof}: no oracle line for {line}: {out[-3:]}")
        elif oracle != "ok":
            for f in oracle[5:].split(","):
                first = next((x for x in fails if f in x), "")
                r.violation("oracle:" + f, f"{prefix} oracle failed ({prof}): {f} {first}", {"case": line, "profile": prof, "detail": first})
    d, e = res["debug"][0], res["release"][0]
    differing = sorted(k for k in set(d) | set(e) if d.get(k) != e.get(k) and k not in INFO_FAMILIES)
    info = {k: (d.get(k, ("", 0))[0] == e.get(k, ("", 0))[0]) for k in INFO_FAMILIES if k in d or k in e}
    if info:
        r.cov.setdefault("out_of_domain_families_profile_equal", {}).update(info)
    return res, differing


def bisect_stream(bins, seed, n, fam):
    """smallest n for which the family digest differs between profiles"""
    lo, hi = 0, n
    while hi - lo > 1:
        mid = (lo + hi) // 2
        line = f"stream seed={seed} n={mid}"
        a = parse_fams(run_lines(bins["debug"], "c19bis-d", [line]), "stream")[0].get(fam)
        b = parse_fams(run_lines(bins["release"], "c19bis-r", [line]), "stream")[0].get(fam)
        if a != b:
            hi = mid
        else:
            lo = mid
    return hi


def bisect_sweep(bins, base_line, total, fam):
    lo, hi = 0, total
    while hi - lo > 1:
        mid = (lo + hi) // 2
        line = f"{base_line} lo={lo} hi={mid}"
        a = parse_fams(run_lines(bins["debug"], "c19bis-d", [line]), "sweep")[0].get(fam)
        b = parse_fams(run_lines(bins["release"], "c19bis-r", [line]), "sweep")[0].get(fam)
        if a != b:
            hi = mid
        else:
            lo = mid
    return lo


def run(tier, seed, replay=None):
    r = vf.Run(PROP, tier, seed, "proof")
    r.assumptions = [
        "Coq 8.16.1 kernel (coqc; vm_compute for table facts, the zero case of sin_odd and the non-vacuity Example). "
        "Bit-pattern theorems are closed under the global context; theorems that mention the Flocq binary32 instance "
        "inherit Flocq's four classical axioms of the real numbers: ClassicalDedekindReals.sig_not_dec, "
        "ClassicalDedekindReals.sig_forall_dec, FunctionalExtensionality.functional_extensionality_dep, Classical_Prop.classic",
        "model = coq/Model/Scalar.v (f32 as 32-bit patterns; F32Scalar::new; trig.rs/vec3.rs/quat.rs/mat4.rs over a record of "
        "float primitives instantiated with Flocq IEEE-754 binary32 RNE; Q32.32 and DFix64 in Z; xoroshiro128+ in N mod 2^64) + "
        "coq/Model/TrigTable.v regenerated from trig_lut.rs by translator/gen_trig_table.py and compared on every run",
        "bit-stability across optimisation levels / platforms is a property of rustc/LLVM/the FPU, not of a model: the debug-vs-release "
        "digests and the exhaustive sweeps are differential evidence on this machine (x86_64), not proof",
        "release semantics are modelled; the debug-only tripwires (debug_assert on a non-finite angle in sin_cos_f32 and on "
        "non-finite components in Quat::new) are documented by the crate and are treated as out of domain",
    ]
    r.cov["trusted_base"] = ["coqc 8.16.1 kernel + vm_compute", "Flocq 4.1.0 (IEEE754.Binary/Bits) as the meaning of f32 arithmetic",
                             "python generator/renderer props/c19.py", "translator/gen_trig_table.py",
                             "harness c19.rs (reference oracles: field-level new, f64-exact Q32.32, hardware sqrt)", "blake3 crate"]
    tm = {}
    t0 = time.time()
    table_ok = check_table(r)
    ok = r.proof_phase(THEOREMS)
    tm["proof_s"] = round(time.time() - t0, 1); t0 = time.time()
    try:
        bins = {"debug": vf.cargo_build(["c19"])["c19"], "release": vf.cargo_build(["c19"], release=True)["c19"]}
        r.phase("P3_build", ok=True, profiles=["debug", "release"], lanes=["det_float (F32Scalar)", "det_fixed (DFix64)"])
        tm["build_s"] = round(time.time() - t0, 1); t0 = time.time()
    except (vf.Broken, subprocess.TimeoutExpired) as e:
        r.is_broken("harness-build", e)
        return r.finish()

    if replay:
        d = json.load(open(replay))
        line = d.get("replay", {}).get("case")
        cases = [line] if line else []
        try:
            if line and line.startswith("op="):
                ops_phase(r, bins, cases, "c19replay")
            elif line and line.startswith("stream"):
                _, diff = digest_phase(r, bins, line, "c19replay", "stream")
                for fam in diff:
                    r.violation("profile-divergence:" + fam, f"digest differs on {line}", {"case": line})
            elif line and line.startswith("sweep"):
                _, diff = digest_phase(r, bins, line, "c19replay", "sweep")
                for fam in diff:
                    r.violation("profile-divergence:sweep-" + fam, f"digest differs on {line}", {"case": line})
        except vf.Broken as e:
            r.is_broken("replay", e)
        r.cov["evaluations"] = len(cases)
        r.cov["samples"] = cases[:3]
        return r.finish()

    # ---- (a) correspondence on single ops, corpus first
    corpus = vf.load_corpus(PROP)
    n_ops = 3000 if tier == "quick" else 30000
    cases = corpus + gen_ops(r.rng, n_ops)
    try:
        vals, stats = ops_phase(r, bins, cases, "c19ops")
    except (vf.Broken, subprocess.TimeoutExpired) as e:
        r.is_broken("correspondence-run", e)
        return r.finish()
    r.phase("P4_correspondence", cases=len(cases), corpus=len(corpus), differing=stats["differing"], profiles=2)
    tm["ops_s"] = round(time.time() - t0, 1); t0 = time.time()

    # ---- (b) fixed input stream through every family, both profiles
    n_stream = 40000 if tier == "quick" else 1500000
    sline = f"stream seed={seed} n={n_stream}"
    fam_counts = {}
    try:
        sres, sdiff = digest_phase(r, bins, sline, "c19stream", "stream")
        fam_counts = {k: v[1] for k, v in sres["release"][0].items()}
        for fam in sdiff:
            k = bisect_stream(bins, seed, n_stream, fam)
            r.violation("profile-divergence:" + fam, f"debug and release digests differ for family {fam}; first at stream iteration {k}",
                        {"case": f"stream seed={seed} n={k}", "family": fam})
        r.phase("P5b_profile_digests", stream=sline, families=sorted(fam_counts), differing=sdiff,
                digests={k: v[0] for k, v in sres["release"][0].items()})
    except (vf.Broken, subprocess.TimeoutExpired) as e:
        r.is_broken("stream-run", e)

    tm["stream_s"] = round(time.time() - t0, 1); t0 = time.time()
    # ---- (c) sweeps of the unary functions
    sweeps = []
    off = r.rng.randrange(61)
    sweeps.append((f"sweep kind=stride step=61 offset={off} threads={vf.NCPU}", ((1 << 32) - off + 60) // 61))
    lows = sorted(set([0, 1, 2, 3, 0xfffff, 0xffffe, 0x80000, 0x7ffff, 0x80001, 0x55555, 0xaaaaa, 0x90fdb, 0x90fda, 0x90fdc,
                       0x6cbe4, 0x40000, 0xc0000] + [r.rng.getrandbits(20) for _ in range(47)]))
    sweeps.append((f"sweep kind=strat lows={','.join('%x' % l for l in lows)} threads={vf.NCPU}", 4096 * len(lows)))
    if tier == "thorough":
        sweeps.append((f"sweep kind=full threads={vf.NCPU}", 1 << 32))
    swept = 0
    sweep_info = []
    for line, total in sweeps:
        try:
            res, diff = digest_phase(r, bins, line, "c19sweep", "sweep", timeout=6000)
            swept += 2 * total
            sweep_info.append({"line": line[:80], "patterns": total, "wall_debug_s": res["debug"][3], "wall_release_s": res["release"][3],
                               "differing": diff, "calls": {k: v[1] for k, v in res["release"][0].items()}})
            for fam in diff:
                i = bisect_sweep(bins, line, total, fam)
                r.violation("profile-divergence:sweep-" + fam, f"debug and release differ in sweep family {fam} at index {i} of `{line[:60]}`",
                            {"case": f"{line} lo={i} hi={i + 1}", "family": fam})
        except (vf.Broken, subprocess.TimeoutExpired) as e:
            r.is_broken("sweep-run", e)
    r.phase("P5c_sweeps", sweeps=sweep_info)
    tm["sweeps_s"] = round(time.time() - t0, 1); t0 = time.time()
    r.cov["phase_wall_s"] = tm

    # ---- P6: if a proof / the table / the correspondence broke and nothing concrete failed, search harder on the oracles
    known = {k.get("signature") for k in vf.known_findings(PROP)}
    if r.broken and not [v for v in r.violations if v[0] not in known]:
        try:
            extra = gen_ops(r.rng, 20000)
            for prof in ("debug", "release"):
                out = [l for l in run_lines(bins[prof], "c19search-" + prof, extra) if l.startswith("r=")]
                for c, l in zip(extra, out):
                    if " oracle=ok" not in l and "oracle:" + l.split("oracle=FAIL:")[-1].split(",")[0] not in known:
                        r.violation("oracle:" + l.split("oracle=FAIL:")[-1].split(",")[0], "oracle failed during search", {"case": c, "impl": l, "profile": prof})
                        break
            if tier == "quick" and not [v for v in r.violations if v[0] not in known]:
                digest_phase(r, bins, f"sweep kind=full threads={vf.NCPU}", "c19search", "sweep", timeout=6000)
            r.phase("P6_search", cases=len(extra))
        except (vf.Broken, subprocess.TimeoutExpired) as e:
            r.is_broken("search-run", e)

    if tier == "thorough":
        rc, out = vf.sh(["coqchk", "-o", "-silent", "-Q", vf.COQ, "Echo", "Echo.Props.C19"], timeout=1500)
        r.phase("coqchk", ok=(rc == 0), tail=out[-600:])
        if rc:
            r.is_broken("coqchk", out[-1200:])

    ophist = {}
    for c in cases:
        ophist[parse_case(c)[0]] = ophist.get(parse_case(c)[0], 0) + 1
    classes = {"nan": 0, "inf": 0, "subnormal": 0, "zero": 0, "normal": 0}
    for c in cases:
        op, x = parse_case(c)
        if op in ("new", "add", "sub", "mul", "div", "neg", "sin", "cos", "sincos", "fxfrom", "cfx"):
            for t in x:
                b = int(t, 16)
                k = ("nan" if isnan(b) else "inf" if not finite(b) else "zero" if b & 0x7fffffff == 0 else
                     "subnormal" if (b >> 23) & 0xff == 0 else "normal")
                classes[k] += 1
    nontriv = {c for c in cases if parse_case(c)[0] not in ("new", "neg", "cfxi", "dneg")}
    r.cov["evaluations"] = 2 * len(cases) + 2 * sum(fam_counts.values()) + swept
    r.cov["distinct_nontrivial"] = len(nontriv)
    r.cov["rule"] = ("evaluations = single-op cases x2 profiles + stream calls x2 profiles + swept bit patterns x2 profiles; "
                     "non-trivial single-op case = anything but new/neg/integer negation (i.e. arithmetic, trig, conversions, "
                     "PRNG sequences, vector/quaternion/matrix ops), each compared bit for bit with the Coq model in both profiles")
    r.cov["op_histogram"] = dict(sorted(ophist.items()))
    r.cov["scalar_input_classes"] = classes
    r.cov["stream_calls_per_family"] = fam_counts
    r.cov["patterns_swept_per_profile"] = swept // 2
    r.cov["traces_validated_against_impl"] = len(cases) - stats["differing"]
    r.cov["model_vs_impl_profiles"] = ["debug(opt-level=1, overflow-checks, debug-assertions)", "release(opt-level=3)"]
    r.cov["table_regenerated_equal"] = table_ok
    r.cov["samples"] = [cases[len(corpus)], cases[len(cases) // 2], cases[-1], sline]
    r.phase("P5_oracle", failing=stats["oracle_failing"])
    return r.finish()


MANIFEST = {
    "category": "proof",
    "text": ("Coq theorems over an executable model of warp-math (f32 as its 32-bit pattern): F32Scalar::new maps every pattern into the "
             "canonical set {+0, normals, +-inf, 0x7fc00000}, is idempotent, and every scalar operation (+ - * / neg sin cos) is `new` of a "
             "32-bit pattern, hence canonical, for ANY float primitives (closed proofs, no axioms); sine is exactly odd and cosine exactly even "
             "at the F32Scalar level for any rounding behaviour because only sign-bit algebra is used; Q32.32 conversion is total into i64, "
             "DFix64 add/sub/neg are the exact result clamped (no wrap) and mul/div are the nearest value unless saturated; xoroshiro128+ "
             "never reaches the zero state and next_int stays in range. Range: for every 32-bit pattern |sin| and |cos| are at most 1.0 "
             "under IEEE binary32 round-to-nearest-even (Flocq): every component is a signed quarter-wave interpolation value, interpolation "
             "on every segment of the checked-in table (regenerated from trig_lut.rs and compared on every run; finite check of all 1024 "
             "segments lifted by forallb_forall) stays in [0,1] for every fraction in [0,1] by monotone rounding, the index/fraction side "
             "conditions hold, and float order agrees with bit order on [0,1]. "
             "Tie: the model instantiated with Flocq binary32 and the real crates (both the debug and the release build "
             "of the same harness, both scalar lanes det_float and det_fixed) run the same stratified single-op cases over scalar, trig, "
             "fixed, codec, PRNG, vec3, quat and mat4 functions and are compared bit for bit; a fixed input stream and sweeps of the unary "
             "functions (quick: every 61st pattern + all exponents x 64 mantissa tails; thorough: all 2^32 patterns) go through both builds "
             "with independent reference oracles (canonical result, sin odd / cos even, range, f64-exact Q32.32, hardware sqrt) and per-family "
             "blake3 digests of all output bits must be equal across the two builds."),
    "note": ("Bit-stability across optimisation levels and platforms is a property of rustc/LLVM/the FPU, not of a model: the debug-vs-release "
             "digests and the exhaustive sweeps are DIFFERENTIAL EVIDENCE on this x86_64 machine (exploration), not proof; other targets are not "
             "exercised. Trusted: Coq 8.16.1 kernel + vm_compute; Flocq 4.1.0 as the meaning of f32 arithmetic (theorems that mention the binary32 "
             "instance inherit its four classical axioms: ClassicalDedekindReals.sig_not_dec, ClassicalDedekindReals.sig_forall_dec, "
             "FunctionalExtensionality.functional_extensionality_dep, Classical_Prop.classic; the bit-pattern, closure, symmetry, Q32.32 and PRNG "
             "theorems are closed under the global context); props/c19.py, translator/gen_trig_table.py, harness c19.rs, blake3. Modelled rather "
             "than verified: scalar.rs, trig.rs, vec3.rs, quat.rs, mat4.rs, fixed_q32_32.rs, prng.rs, lib.rs(det_sqrt_f32, libm::sqrtf taken as "
             "correctly rounded), codec.rs canonicalize_f32/fx_from_f32/fx_from_i64 as Gallina functions; `x % TAU` as the exact remainder. "
             "Release semantics are modelled; the debug-only tripwires (debug_assert on non-finite angles and in Quat::new), which the crate "
             "documents, are treated as out of domain. Quat::from_axis_angle (with the overflow repair of the former finding "
             "quat-from_axis_angle-nan-from-finite-input) is proved total on every finite axis and any angle (from_axis_angle_total). "
             "Informational: NaN payloads propagated through raw Vec3 "
             "operations (out of the documented finite domain) differ between debug and release."),
}
