"""C06 — the state root commits to exactly the reachable state."""
import os, json
import vf

PROP = "C06"
THEOREMS = ["reach_bfs_sound_complete", "root_layout_free", "root_layout_free_sem", "root_injective_refuted",
            "root_injective_same_skeleton_partial", "root_single_mutation_partial", "root_preimage_is_content_encoding",
            "acc_agrees", "acc_refines_store", "acc_agrees_any_representation", "api_states_well_formed"]
PRE = ("From Coq Require Import List NArith.\nFrom Echo Require Import Base.FinMap Base.Order Base.Bytes Model.Root.\n"
       "Import ListNotations.\nOpen Scope N_scope.\n"
       "Definition T248 : N := Eval vm_compute in (2 ^ 248).\nDefinition MAXID : N := Eval vm_compute in (2 ^ 256 - 1).\n")
M256 = (1 << 256) - 1

# ----------------------------------------------------------------------------- case syntax

def hx(n):
    return "%x" % n


def att_s(a):
    if a is None:
        return "-"
    if a[0] == "a":
        return "a.%s.%s" % (hx(a[1]), vf.hexb(a[2]))
    return "d.%s" % hx(a[1])


def akey_s(k):
    return "-" if k is None else "%d.%d.%s.%s" % (k[0], k[1], hx(k[2]), hx(k[3]))


def sop_s(o):
    t = o[0]
    if t == "I": return "I:%s:%s:%s" % (hx(o[1]), hx(o[2]), akey_s(o[3]))
    if t == "N": return "N:%s:%s:%s" % (hx(o[1]), hx(o[2]), hx(o[3]))
    if t == "E": return "E:%s:%s:%s:%s:%s" % tuple(hx(x) for x in o[1:6])
    if t in "AB": return "%s:%s:%s:%s" % (t, hx(o[1]), hx(o[2]), att_s(o[3]))
    if t in "XY": return "%s:%s:%s" % (t, hx(o[1]), hx(o[2]))
    if t == "Z": return "Z:%s:%s:%s" % (hx(o[1]), hx(o[2]), hx(o[3]))
    raise ValueError(o)


def wop_s(o):
    t = o[0]
    if t == "OP": return "OP:%s:%s:%s:%s" % (akey_s(o[1]), hx(o[2]), hx(o[3]), "r" if o[4] is None else "e." + hx(o[4]))
    if t == "UI": return "UI:%s:%s:%s" % (hx(o[1]), hx(o[2]), akey_s(o[3]))
    if t == "DI": return "DI:%s" % hx(o[1])
    if t == "UN": return "UN:%s:%s:%s" % (hx(o[1]), hx(o[2]), hx(o[3]))
    if t == "DN": return "DN:%s:%s" % (hx(o[1]), hx(o[2]))
    if t == "UE": return "UE:%s:%s:%s:%s:%s" % tuple(hx(x) for x in o[1:6])
    if t == "DE": return "DE:%s:%s:%s" % (hx(o[1]), hx(o[2]), hx(o[3]))
    if t == "SA": return "SA:%s:%s" % (akey_s(o[1]), att_s(o[2]))
    raise ValueError(o)


def p_att(s):
    if s == "-":
        return None
    f = s.split(".")
    if f[0] == "a":
        return ("a", int(f[1], 16), [] if f[2] == "-" else list(bytes.fromhex(f[2])))
    return ("d", int(f[1], 16))


def p_akey(s):
    if s == "-":
        return None
    f = s.split(".")
    return (int(f[0]), int(f[1]), int(f[2], 16), int(f[3], 16))


def p_sop(s):
    f = s.split(":")
    t = f[0]
    if t == "I": return ("I", int(f[1], 16), int(f[2], 16), p_akey(f[3]))
    if t == "N": return ("N", int(f[1], 16), int(f[2], 16), int(f[3], 16))
    if t == "E": return ("E",) + tuple(int(x, 16) for x in f[1:6])
    if t in "AB": return (t, int(f[1], 16), int(f[2], 16), p_att(f[3]))
    if t in "XY": return (t, int(f[1], 16), int(f[2], 16))
    if t == "Z": return ("Z", int(f[1], 16), int(f[2], 16), int(f[3], 16))
    raise ValueError(s)


def p_wop(s):
    f = s.split(":")
    t = f[0]
    if t == "OP": return ("OP", p_akey(f[1]), int(f[2], 16), int(f[3], 16), None if f[4] == "r" else int(f[4][2:], 16))
    if t == "UI": return ("UI", int(f[1], 16), int(f[2], 16), p_akey(f[3]))
    if t == "DI": return ("DI", int(f[1], 16))
    if t == "UN": return ("UN", int(f[1], 16), int(f[2], 16), int(f[3], 16))
    if t == "DN": return ("DN", int(f[1], 16), int(f[2], 16))
    if t == "UE": return ("UE",) + tuple(int(x, 16) for x in f[1:6])
    if t == "DE": return ("DE", int(f[1], 16), int(f[2], 16), int(f[3], 16))
    if t == "SA": return ("SA", p_akey(f[1]), p_att(f[2]))
    raise ValueError(s)


def items(s):
    return [] if s in ("", "-") else s.split(";")


def parse_case(line):
    m = dict(t.split("=", 1) for t in line.split())
    return {"root": int(m["root"], 16), "s": [p_sop(x) for x in items(m.get("s", "-"))],
            "t": [p_sop(x) for x in items(m["t"])] if "t" in m else None,
            "ops": [p_wop(x) for x in items(m["ops"])] if "ops" in m else None,
            "shuf": int(m.get("shuf", "0")), "muts": m.get("muts", "0"), "seed": int(m.get("seed", "1")),
            "kind": m.get("kind", "-")}


def render_case(root, s, t=None, ops=None, shuf=0, muts=0, seed=1, kind="-"):
    out = ["root=" + hx(root), "s=" + (";".join(sop_s(o) for o in s) or "-")]
    if t is not None:
        out.append("t=" + (";".join(sop_s(o) for o in t) or "-"))
    if ops is not None:
        out.append("ops=" + (";".join(wop_s(o) for o in ops) or "-"))
    out += ["shuf=%d" % shuf, "muts=%d" % muts, "seed=%d" % seed, "kind=" + kind]
    return " ".join(out)

# ----------------------------------------------------------------------------- Gallina terms

_TABLE = None     # per-case table of large ids: each 256-bit literal is parsed once (let-bound)


def cN(n):
    """Gallina term for an id.  Long literals are slow to parse in Coq, so structured ids are written
    as small expressions and each remaining 256-bit literal is let-bound once per case."""
    if n < (1 << 32):
        return "0x%x" % n
    if n > M256 - (1 << 16):
        return "(MAXID - %d)" % (M256 - n)
    if n & (n - 1) == 0:
        return "(2 ^ %d)" % (n.bit_length() - 1)
    hi, lo = n >> 248, n & ((1 << 248) - 1)
    if lo < (1 << 32):
        return "(%d * T248 + 0x%x)" % (hi, lo)
    if _TABLE is None:
        return "0x%x" % n
    if n not in _TABLE:
        _TABLE[n] = "i%d" % len(_TABLE)
    return _TABLE[n]


def c_att(a):
    if a is None:
        return "None"
    if a[0] == "a":
        return "(Some (Atom %s %s))" % (cN(a[1]), vf.coq_bytes(a[2]))
    return "(Some (Descend %s))" % cN(a[1])


def c_akey(k):
    return "(mkAkey %d %d %s %s)" % (k[0], k[1], cN(k[2]), cN(k[3]))


def c_oakey(k):
    return "None" if k is None else "(Some %s)" % c_akey(k)


def c_edge(i, f, t, ty):
    return "(mkEdge %s %s %s %s)" % (cN(i), cN(f), cN(t), cN(ty))


def c_sop(o):
    t = o[0]
    if t == "I": return "SInst %s %s %s" % (cN(o[1]), cN(o[2]), c_oakey(o[3]))
    if t == "N": return "SNode %s %s %s" % (cN(o[1]), cN(o[2]), cN(o[3]))
    if t == "E": return "SEdge %s %s" % (cN(o[1]), c_edge(o[2], o[3], o[4], o[5]))
    if t == "A": return "SNatt %s %s %s" % (cN(o[1]), cN(o[2]), c_att(o[3]))
    if t == "B": return "SEatt %s %s %s" % (cN(o[1]), cN(o[2]), c_att(o[3]))
    if t == "X": return "SDelCascade %s %s" % (cN(o[1]), cN(o[2]))
    if t == "Y": return "SDelIso %s %s" % (cN(o[1]), cN(o[2]))
    if t == "Z": return "SDelEdge %s %s %s" % (cN(o[1]), cN(o[2]), cN(o[3]))


def c_wop(o):
    t = o[0]
    if t == "OP": return "OpenPortal %s %s %s %s" % (c_akey(o[1]), cN(o[2]), cN(o[3]), "PRequire" if o[4] is None else "(PEmpty %s)" % cN(o[4]))
    if t == "UI": return "UpsertInst %s %s %s" % (cN(o[1]), cN(o[2]), c_oakey(o[3]))
    if t == "DI": return "DeleteInst %s" % cN(o[1])
    if t == "UN": return "UpsertNode %s %s %s" % (cN(o[1]), cN(o[2]), cN(o[3]))
    if t == "DN": return "DeleteNode %s %s" % (cN(o[1]), cN(o[2]))
    if t == "UE": return "UpsertEdge %s %s" % (cN(o[1]), c_edge(o[2], o[3], o[4], o[5]))
    if t == "DE": return "DeleteEdge %s %s %s" % (cN(o[1]), cN(o[2]), cN(o[3]))
    if t == "SA": return "SetAtt %s %s" % (c_akey(o[1]), c_att(o[2]))


def to_term(line):
    global _TABLE
    _TABLE = {}
    try:
        body = _to_term(line)
        lets = "".join("let %s := 0x%x in " % (v, k) for k, v in _TABLE.items())
        return lets + body
    finally:
        _TABLE = None


def _to_term(line):
    c = parse_case(line)
    s = "[" + ";".join(c_sop(o) for o in c["s"]) + "]"
    parts = ["observe s %s" % cN(c["root"])]
    parts.append("None" if c["t"] is None else "Some (observe (build [%s]) %s)" % (";".join(c_sop(o) for o in c["t"]), cN(c["root"])))
    parts.append("None" if c["ops"] is None else "Some (observe_ops s %s [%s])" % (cN(c["root"]), ";".join(c_wop(o) for o in c["ops"])))
    return "let s := build %s in (%s, (%s, %s))" % (s, parts[0], parts[1], parts[2])

# ----------------------------------------------------------------------------- rendering the model

def opt(v):
    """Coq option value -> (present, payload)."""
    if v == "None":
        return False, None
    assert isinstance(v, tuple) and v[0] == "app" and v[1] == "Some", v
    return True, v[2][0]


class Hashes:
    """Collects preimages, hashes them in one vfhash call."""
    def __init__(self):
        self.pre = []
    def add(self, bs):
        self.pre.append(vf.hexb(bs))
        return len(self.pre) - 1
    def run(self):
        self.out = vf.vfhash(self.pre) if self.pre else []


def sk_s(sk):
    return ",".join("%d.%d" % (a, b) for a, b in sk) or "-"


def render_model(vals, hs):
    """First pass registers preimages, returns closures producing the final strings."""
    plans = []
    for v in vals:
        o1, (o2, o3) = v
        plan = {}
        ok, p = opt(o1)
        if not ok:
            plan["base"] = None
        else:
            dang, par, wf, (pre, (apre, (canon, sk))) = p
            plan["wf"] = [wf]
            plan["base"] = (dang, par, hs.add(pre), hs.add(apre), hs.add(canon), sk_s(sk), pre, apre)
        ok2, p2 = opt(o2)
        if ok2:
            okk, q = opt(p2)
            if not okk:
                plan["t"] = None
            else:
                dang, par, wf, (pre, (apre, (canon, sk))) = q
                plan["wf"] = plan.get("wf", []) + [wf]
                plan["t"] = (dang, par, hs.add(pre), hs.add(canon), sk_s(sk))
        ok3, p3 = opt(o3)
        if ok3:
            e, body = p3
            eok, ev = opt(e)
            if eok:
                plan["ops"] = ("err", ev)
            else:
                bok, b = opt(body)
                if not bok:
                    plan["ops"] = ("noroot",)
                else:
                    dang, par, wf, (pre, (oa, canon)) = b
                    plan["wf"] = plan.get("wf", []) + [wf]
                    aok, apre = opt(oa)
                    plan["ops"] = ("ok", dang, par, hs.add(pre), hs.add(apre) if aok else None, hs.add(canon), pre, apre)
        plans.append(plan)
    return plans


def rootstr(dang, par, h):
    return "panic" if dang else ("err" if par else h)


def finish_model(plans, hs):
    out, info = [], []
    H = hs.out
    for p in plans:
        inf = {}
        if p["base"] is None:
            out.append("root=err acc=- content=- sk=-")
            info.append(inf)
            continue
        dang, par, i_r, i_a, i_c, sk, pre, apre = p["base"]
        ln = "root=%s acc=%s content=%s sk=%s" % (rootstr(dang, par, H[i_r]), H[i_a], H[i_c], sk)
        inf["acc_is_root_minus_prefix"] = (pre[19:] == apre)
        inf["acc_equals_root"] = (pre == apre)
        inf["wf"] = p.get("wf", [])
        if "t" in p:
            if p["t"] is None:
                ln += " root2=err content2=- sk2=-"
            else:
                d2, p2, j_r, j_c, sk2 = p["t"]
                ln += " root2=%s content2=%s sk2=%s" % (rootstr(d2, p2, H[j_r]), H[j_c], sk2)
        if "ops" in p:
            o = p["ops"]
            if o[0] == "err":
                ln += " res=%s root3=- acc3=- content3=-" % o[1]
            elif o[0] == "noroot":
                ln += " res=ok root3=err acc3=- content3=-"
            else:
                _, d3, p3, k_r, k_a, k_c, pre3, apre3 = o
                ln += " res=ok root3=%s acc3=%s content3=%s" % (rootstr(d3, p3, H[k_r]), "panic" if k_a is None else H[k_a], H[k_c])
        out.append(ln)
        info.append(inf)
    return out, info

# ----------------------------------------------------------------------------- generators

def rid(rng, pool=None):
    """32-byte id: a mix of full random values and structured ones (small, high byte + low word,
    near the maximum, powers of two, one-bit neighbours of an existing id)."""
    style = rng.random()
    if style < 0.2:
        return rng.getrandbits(256)
    if style < 0.4:
        return rng.randint(0, 40)
    if style < 0.65:
        return (rng.randint(0, 255) << 248) | rng.getrandbits(rng.choice([8, 16, 31]))
    if style < 0.75:
        return M256 - rng.randint(0, 300)
    if style < 0.85:
        return 1 << rng.choice([8, 64, 128, 248, 255])
    if pool:
        return rng.choice(pool) ^ (1 << rng.choice([0, 7, 8, 255]))      # long shared prefix / suffix
    return rng.getrandbits(256)


def distinct(rng, n, pool=None):
    out = []
    while len(out) < n:
        x = rid(rng, out or pool)
        if x not in out:
            out.append(x)
    return out


def ratom(rng, types):
    ln = rng.choice([0, 0, 1, 2, 7, 8, 9, 15, 16, 31, 32, 33, 40])
    style = rng.random()
    bs = [0] * ln if style < 0.2 else [255] * ln if style < 0.3 else [rng.randint(0, 255) for _ in range(ln)]
    return ("a", rng.choice(types), bs)


class Gen:
    """One abstract multi-instance state: instances, nodes, edges, attachments, junk."""
    def __init__(self, rng, tier, wellformed=True, dangling=False):
        self.rng = rng
        nw = rng.choice([1, 1, 2, 2, 3])
        self.warps = distinct(rng, nw)
        self.types = distinct(rng, 3)
        self.nodes = {w: distinct(rng, rng.randint(2, 5 if tier == "quick" else 6)) for w in self.warps}
        self.roots = {w: self.nodes[w][0] for w in self.warps}
        self.missing = {w: set() for w in self.warps}       # node ids that are referenced but get no record
        self.edges = {w: [] for w in self.warps}
        self.reachable = {}
        self.natt, self.eatt = {}, {}
        self.parent = {self.warps[0]: None}
        self.junk = []
        for w in self.warps:
            ns = self.nodes[w]
            for n in ns[1:]:
                if rng.random() < 0.12:
                    self.missing[w].add(n)
            if rng.random() < 0.05:
                self.missing[w].add(ns[0])                    # root node without record
            # mostly connected from the root: each further node hangs off an already reachable one
            # (75%), the rest is unreachable junk; plus a few arbitrary extra edges (cycles, parallel
            # edges, edges out of junk, self loops).  12% of the instances have no edges at all.
            self.reachable[w] = [ns[0]]
            if rng.random() >= 0.12:
                for n in ns[1:]:
                    if rng.random() < 0.75:
                        f = rng.choice(self.reachable[w])
                        self.edges[w].append((rid(rng), f, n, rng.choice(self.types)))
                        self.reachable[w].append(n)
                for _ in range(rng.randint(0, len(ns))):
                    self.edges[w].append((rid(rng), rng.choice(ns), rng.choice(ns), rng.choice(self.types)))
                seen = set()
                self.edges[w] = [e for e in self.edges[w] if not (e[0] in seen or seen.add(e[0]))]
            for n in ns:
                if rng.random() < 0.4:
                    self.natt[(w, n)] = ratom(rng, self.types)
            for e in self.edges[w]:
                if rng.random() < 0.3:
                    self.eatt[(w, e[0])] = ratom(rng, self.types)
        # portals: child i hangs off a slot of an earlier warp
        for i, cw in enumerate(self.warps[1:], 1):
            pw = rng.choice(self.warps[:i])
            near = rng.random() < 0.85          # portal on a slot reachable inside the parent instance
            r_edges = [e for e in self.edges[pw] if e[1] in self.reachable[pw]]
            if (r_edges if near else self.edges[pw]) and rng.random() < 0.5:
                e = rng.choice(r_edges if near else self.edges[pw])
                key = (2, 2, pw, e[0])
                if wellformed or rng.random() < 0.7:
                    self.eatt[(pw, e[0])] = ("d", cw)
            else:
                cand = [n for n in (self.reachable[pw] if near else self.nodes[pw]) if n not in self.missing[pw]] or self.nodes[pw]
                n = rng.choice(cand)
                key = (1, 1, pw, n)
                if wellformed or rng.random() < 0.7:
                    self.natt[(pw, n)] = ("d", cw)
            if not wellformed and rng.random() < 0.3:
                key = rng.choice([None, (key[0], 3 - key[1], key[2], key[3]), (key[0], key[1], key[2], rid(rng))])
            self.parent[cw] = key
        if dangling:
            w = rng.choice(self.warps)
            self.natt[(w, rng.choice(self.nodes[w]))] = ("d", rid(rng))
        # junk that nothing points to
        for w in self.warps:
            if rng.random() < 0.5:
                self.junk.append(("A", w, rid(rng), ratom(rng, self.types)))
            if rng.random() < 0.5:
                self.junk.append(("B", w, rid(rng), ratom(rng, self.types)))

    def inst_ops(self):
        return [("I", w, self.roots[w], self.parent[w]) for w in self.warps]

    def elem_ops(self):
        ops = []
        for w in self.warps:
            for n in self.nodes[w]:
                if n not in self.missing[w]:
                    ops.append(("N", w, n, self.rng.choice(self.types)))
            for e in self.edges[w]:
                ops.append(("E", w, e[0], e[1], e[2], e[3]))
        for (w, n), a in self.natt.items():
            ops.append(("A", w, n, a))
        for (w, e), a in self.eatt.items():
            ops.append(("B", w, e, a))
        return ops + list(self.junk)

    def noise(self, k):
        rng, out = self.rng, []
        for _ in range(k):
            w = rng.choice(self.warps + [rid(rng)]) if rng.random() < 0.9 else rid(rng)
            ns = self.nodes.get(w) or [rid(rng)]
            es = [e[0] for e in self.edges.get(w, [])] or [rid(rng)]
            c = rng.random()
            if c < 0.2:
                e = rng.choice(self.edges.get(w) or [(rid(rng), rid(rng), rid(rng), rid(rng))])
                out.append(("E", w, e[0], rng.choice(ns), rng.choice(ns), rng.choice(self.types)))   # re-parent / retarget
            elif c < 0.35:
                out.append(("X", w, rng.choice(ns)))
            elif c < 0.5:
                out.append(("Y", w, rng.choice(ns)))
            elif c < 0.65:
                e = rng.choice(self.edges.get(w) or [(rid(rng), rid(rng), rid(rng), rid(rng))])
                out.append(("Z", w, e[1] if rng.random() < 0.8 else rng.choice(ns), e[0]))
            elif c < 0.75:
                out.append(("A", w, rng.choice(ns), None if rng.random() < 0.5 else ratom(rng, self.types)))
            elif c < 0.85:
                out.append(("B", w, rng.choice(es), None if rng.random() < 0.5 else ratom(rng, self.types)))
            elif c < 0.95:
                out.append(("N", w, rng.choice(ns), rng.choice(self.types)))
            else:
                out.append(("I", w, rng.choice(ns), self.parent.get(w)))
        return out

    def wops(self, k, valid_bias=0.8):
        """Op sequence for apply_ops_to_state / SnapshotAccumulator::apply_ops.  With probability
        `valid_bias` every op is chosen to be accepted by the store (so the roots get compared);
        otherwise ops are a mix of valid and invalid ones (error paths)."""
        rng, out = self.rng, []
        allgood = rng.random() < valid_bias
        live_edges = {w: list(self.edges[w]) for w in self.warps}
        natt, eatt = dict(self.natt), dict(self.eatt)
        gone_nodes = {w: set(self.missing[w]) for w in self.warps}
        children = {p[2] for p in self.parent.values() if p}
        alive = list(self.warps)
        def is_portal(v):
            return v is not None and v[0] == "d"
        for _ in range(k):
            good = allgood or rng.random() < 0.5
            w = rng.choice(alive) if good else rng.choice(self.warps + [rid(rng)])
            ns = self.nodes.get(w) or [rid(rng)]
            real = [n for n in ns if n not in gone_nodes.get(w, set())] or ns
            es = live_edges.get(w) or []
            c = rng.random()
            if c < 0.14:
                # delete + re-create under the same id: the attachment must not survive on either side
                att_es = [e for e in es if (w, e[0]) in eatt and not is_portal(eatt[(w, e[0])])]
                iso = [n for n in real if all(n not in (e[1], e[2]) for e in es)]
                att_iso = [n for n in iso if (w, n) in natt and not is_portal(natt[(w, n)])] or \
                          [n for n in iso if not is_portal(natt.get((w, n)))]
                if att_es and (rng.random() < 0.5 or not att_iso):
                    e = rng.choice(att_es)
                    out += [("DE", w, e[1], e[0]), ("UE", w, e[0], e[1], e[2], rng.choice(self.types))]
                    eatt.pop((w, e[0]), None)
                elif att_iso:
                    n = rng.choice(att_iso)
                    out += [("DN", w, n), ("UN", w, n, rng.choice(self.types))]
                    natt.pop((w, n), None)
                else:
                    out.append(("UN", w, rng.choice(ns), rng.choice(self.types)))
            elif c < 0.28:
                n = rng.choice(ns + [rid(rng)])
                out.append(("UN", w, n, rng.choice(self.types)))
                gone_nodes.get(w, set()).discard(n)
            elif c < 0.45:
                if es and rng.random() < 0.4:
                    e = rng.choice(es)
                    es.remove(e)
                    eid = e[0]
                else:
                    eid = rid(rng)
                ne = (eid, rng.choice(ns), rng.choice(ns), rng.choice(self.types))
                out.append(("UE", w) + ne)
                if w in live_edges:
                    live_edges[w].append(ne)
            elif c < 0.58:
                cand = [e for e in es if not is_portal(eatt.get((w, e[0])))] if good else es
                if cand:
                    e = rng.choice(cand)
                    out.append(("DE", w, e[1] if good else rng.choice(ns), e[0]))
                    if good:
                        es.remove(e)
                        eatt.pop((w, e[0]), None)
                else:
                    out.append(("DE", w, rng.choice(ns), rid(rng)) if not good else ("UN", w, rng.choice(ns), rng.choice(self.types)))
            elif c < 0.66:
                iso = [n for n in real if all(n not in (e[1], e[2]) for e in es) and not is_portal(natt.get((w, n)))
                       and n != self.roots.get(w)]
                if good and iso:
                    n = rng.choice(iso)
                    out.append(("DN", w, n))
                    gone_nodes[w].add(n)
                    natt.pop((w, n), None)
                elif good:
                    out.append(("UN", w, rng.choice(ns), rng.choice(self.types)))
                else:
                    out.append(("DN", w, rng.choice(ns)))
            elif c < 0.82:
                if good:
                    slots = [(1, 1, w, n) for n in real if not is_portal(natt.get((w, n)))] + \
                            [(2, 2, w, e[0]) for e in es if not is_portal(eatt.get((w, e[0])))]
                    if not slots:
                        out.append(("UN", w, rng.choice(ns), rng.choice(self.types)))
                        continue
                    key = rng.choice(slots)
                    v = rng.choice([None, ratom(rng, self.types), ratom(rng, self.types)])
                    (natt if key[0] == 1 else eatt)[(w, key[3])] = v
                    if v is None:
                        (natt if key[0] == 1 else eatt).pop((w, key[3]), None)
                else:
                    if rng.random() < 0.6 or not es:
                        key = (1, rng.choice([1, 2]), w, rng.choice(ns))
                    else:
                        key = (2, rng.choice([1, 2]), w, rng.choice(es)[0])
                    v = rng.choice([None, ratom(rng, self.types), ("d", rng.choice(self.warps)), ("d", rid(rng))])
                out.append(("SA", key, v))
            elif c < 0.92:
                slots = [n for n in real if not is_portal(natt.get((w, n)))]
                if good and slots:
                    n = rng.choice(slots)
                    cw = rid(rng)
                    out.append(("OP", (1, 1, w, n), cw, rid(rng), rng.choice(self.types)))
                    natt[(w, n)] = ("d", cw)
                elif good:
                    out.append(("UN", w, rng.choice(ns), rng.choice(self.types)))
                else:
                    key = (1, 1, w, rng.choice(ns))
                    cw = rid(rng) if rng.random() < 0.5 else rng.choice(self.warps)
                    out.append(("OP", key, cw, rid(rng) if cw not in self.roots else self.roots[cw],
                                rng.choice(self.types) if rng.random() < 0.7 else None))
            elif c < 0.96:
                leaves = [cw for cw in alive[1:] if cw not in children and self.parent.get(cw)]
                if good and leaves:
                    cw = rng.choice(leaves)
                    p = self.parent[cw]
                    slotmap = natt if p[0] == 1 else eatt
                    if p[0] in (1, 2) and p[0] == p[1] and slotmap.get((p[2], p[3])) == ("d", cw):
                        out += [("SA", p, None), ("DI", cw)]
                        slotmap.pop((p[2], p[3]), None)
                        alive.remove(cw)
                        live_edges.pop(cw, None)
                    else:
                        out.append(("UN", w, rng.choice(ns), rng.choice(self.types)))
                elif good:
                    out.append(("UN", w, rng.choice(ns), rng.choice(self.types)))
                else:
                    out.append(("DI", rng.choice(self.warps[1:] or [rid(rng)])))
            else:
                if good:
                    out.append(("UI", w, rng.choice(real), self.parent.get(w)))     # move an instance's root node
                else:
                    out.append(("UI", rng.choice(self.warps + [rid(rng)]), rng.choice(ns), rng.choice([None, (1, 1, w, rng.choice(ns))])))
        # ops addressed to an instance deleted earlier in the same sequence are invalid by construction
        return out


def gen_case(rng, tier, i):
    style = i % 10
    wellformed = style != 7
    g = Gen(rng, tier, wellformed=wellformed, dangling=(style == 8 and rng.random() < 0.5))
    insts = g.inst_ops()
    elems = g.elem_ops()
    rng.shuffle(insts)
    s_el = list(elems)
    rng.shuffle(s_el)
    seed = rng.getrandbits(32)
    root = g.warps[0]
    shuf = 4 if tier == "quick" else 10
    if style in (0, 1, 2):      # plain state, all single mutations + shuffles on the implementation
        return render_case(root, insts + s_el, shuf=shuf, muts=1, seed=seed, kind="state")
    if style == 3:              # construction with re-parenting, deletes, overwrites
        return render_case(root, insts + s_el + g.noise(rng.randint(1, 6)), shuf=shuf, muts=1, seed=seed, kind="noisy")
    if style == 4:              # same element set in another order
        t_el = list(elems)
        rng.shuffle(t_el)
        return render_case(root, insts + s_el, t=list(reversed(insts)) + t_el, shuf=2, seed=seed, kind="perm")
    if style == 5:              # second script differs by a few extra operations
        return render_case(root, insts + s_el, t=insts + s_el + g.noise(rng.randint(1, 2)), shuf=2, seed=seed, kind="pair")
    if style in (6, 7):         # op sequence on store and accumulator
        return render_case(root, insts + s_el, ops=g.wops(rng.randint(1, 6)), shuf=0, seed=seed, kind="ops" if wellformed else "ops-illformed")
    if style == 8:
        return render_case(root, insts + s_el + g.noise(rng.randint(0, 3)), ops=g.wops(rng.randint(1, 4), valid_bias=0.5), shuf=1, muts=1, seed=seed, kind="mixed")
    return f3_case(rng, seed)


def be(n):
    return list(n.to_bytes(32, "big"))


def f3_case(rng, seed, exact=True):
    """DESIGN F3 family: node record with 31-byte atom vs. one edge bucket from the root key."""
    w, r, aty = rng.getrandbits(256), rng.getrandbits(256), rng.getrandbits(256)
    t1 = int.from_bytes(bytes([1] + [0] * 7 + [rng.randint(0, 255) for _ in range(24)]), "big")
    atom = [rng.randint(0, 255) for _ in range(30)] + [0]
    tail = be(t1)[8:] + [1, 1] + be(aty) + list((31).to_bytes(8, "little")) + atom
    eid, ety, eto = (int.from_bytes(bytes(tail[k:k + 32]), "big") for k in (0, 32, 64))
    if not exact:
        ety ^= 1 << rng.randint(0, 255)
    a = [("I", w, r, None), ("N", w, r, t1), ("A", w, r, ("a", aty, atom))]
    b = [("I", w, r, None), ("E", w, eid, r, eto, ety)]
    return render_case(w, a, t=b, seed=seed, kind="f3" if exact else "f3-near")

# ----------------------------------------------------------------------------- run

def both(tag, cases, bins):
    path = vf.write_cases(tag, cases)
    rc, out = vf.run_bin(bins["c06"], path, timeout=1500)
    if rc:
        raise vf.Broken(f"harness c06 exited {rc}: {out[-800:]}")
    full = [l for l in out.splitlines() if l.startswith("root=")]
    impl = [l.split(" oracle=")[0] for l in full]
    oracle = [l.split(" oracle=")[1].split()[0] if " oracle=" in l else "FAIL:no-oracle" for l in full]
    stats = [l.rsplit(" stats=", 1)[1] if " stats=" in l else "-" for l in full]
    vals = vf.coq_eval(tag, PRE, [to_term(c) for c in cases], timeout=3000)
    hs = Hashes()
    plans = render_model(vals, hs)
    hs.run()
    model, info = finish_model(plans, hs)
    return impl, model, oracle, stats, info


def sig_of(flag):
    base = flag.split(":")[0]
    if base.startswith("accumulator-root-") or base.startswith("state-root-differs"):
        return base
    return flag


def run(tier, seed, replay=None):
    r = vf.Run(PROP, tier, seed, "proof")
    r.assumptions = [
        "Coq 8.16.1 kernel (coqc; vm_compute for the refutation witnesses and non-vacuity Examples); no axioms",
        "model = coq/Model/Root.v (GraphStore with insertion-ordered buckets, WarpState, apply_ops_to_state, "
        "collect_reachable_graph as fuelled BFS, compute_state_root preimage, SnapshotAccumulator); tie = python "
        "generator + harness/src/bin/c06.rs (public API + echo_verif hooks) + vm_compute of the model on the same "
        "cases; preimages hashed with the blake3 crate",
        "the harness is a debug build: states with a reachable portal to a missing instance hit debug_assert! in "
        "snapshot.rs and are compared as `panic` (release behaviour = skip, modelled but not exercised)",
        "reverse indexes of GraphStore are not modelled (checked coherent on the Rust side); WSC byte layout is "
        "checked by write -> from_bytes -> validate -> same rows on the implementation only",
    ]
    r.cov["trusted_base"] = ["coqc 8.16.1 kernel + vm_compute", "python generator/renderer props/c06.py",
                             "harness c06.rs (abstraction: reachable content via public read accessors)", "blake3 crate"]
    r.proof_phase(THEOREMS)
    if replay:
        d = json.load(open(replay))
        cases = [d["replay"]["case"]] if "case" in d.get("replay", {}) else []
    else:
        cases = vf.load_corpus(PROP)
        n = 240 if tier == "quick" else 2400
        for i in range(n):
            cases.append(gen_case(r.rng, tier, i))
        for i in range(6 if tier == "quick" else 100):
            cases.append(f3_case(r.rng, r.rng.getrandbits(32), exact=False))
    try:
        bins = vf.cargo_build(["c06", "vfhash"])
        r.phase("P3_build", ok=True)
    except vf.Broken as e:
        r.is_broken("harness-build", e)
        return r.finish()
    try:
        impl, model, oracle, stats, info = both("c06", cases, bins)
    except (vf.Broken, Exception) as e:
        r.is_broken("correspondence-run", repr(e))
        return r.finish()
    bad = vf.diff_lines(r, cases, impl, model)
    nfail = 0
    for i, o in enumerate(oracle):
        if o == "ok":
            continue
        nfail += 1
        for flag in o[5:].split(","):
            r.violation(sig_of(flag), f"implementation oracle failed: {flag}", {"case": cases[i], "oracle": o, "impl": impl[i]})
    for i in bad[:1]:
        c = parse_case(cases[i])
        def still(cand, c=c):
            line = render_case(c["root"], cand, t=c["t"], ops=c["ops"], seed=c["seed"])
            a, b, _, _, _ = both("c06shrink", [line], bins)
            return a != b
        small = vf.shrink_list(c["s"], still, max_rounds=24) if len(c["s"]) <= 40 else c["s"]
        line = render_case(c["root"], small, t=c["t"], ops=c["ops"], seed=c["seed"], muts=1, shuf=2)
        a, b, o, _, _ = both("c06shrink", [line], bins)
        r.is_broken("correspondence", f"model and implementation differ on: {line}\n impl : {a[0]}\n model: {b[0]}")
        if o[0] != "ok":
            for flag in o[0][5:].split(","):
                r.violation(sig_of(flag), "oracle fails on shrunk disagreement", {"case": line, "oracle": o[0]})
    if (r.broken and not r.violations) and not replay:
        # P6 search: larger budget on the implementation's own oracle
        extra = [gen_case(r.rng, "thorough", i) for i in range(1500)]
        path = vf.write_cases("c06search", extra)
        rc, out = vf.run_bin(bins["c06"], path, timeout=1500)
        for c, l in zip(extra, [l for l in out.splitlines() if l.startswith("root=")]):
            if " oracle=ok" not in l:
                o = l.split(" oracle=")[1].split()[0]
                for flag in o[5:].split(","):
                    r.violation(sig_of(flag), "oracle failed during search", {"case": c, "impl": l})
        r.phase("P6_search", cases=len(extra))
    # evidence
    tot = {}
    for s in stats:
        for kv in ([] if s == "-" else s.split(",")):
            k, v = kv.split(":")
            tot[k] = tot.get(k, 0) + int(v)
    kinds = {}
    for c in cases:
        k = parse_case(c)["kind"]
        kinds[k] = kinds.get(k, 0) + 1
    nontriv = {c for c, m in zip(cases, model) if "sk=" in m and any(int(x.split(".")[0]) >= 2 or int(x.split(".")[1]) >= 1
               for x in m.split("sk=")[1].split()[0].split(",") if x != "-")}
    r.cov["evaluations"] = len(cases)
    r.cov["distinct_nontrivial"] = len(nontriv)
    r.cov["rule"] = ("generated multi-instance states (1-3 instances, portals through node and edge slots, dangling edges, missing root "
                     "records, orphan attachments, noisy construction with re-parenting/cascade deletes) run through harness and Coq "
                     "model; non-trivial = reachable content with >=2 node records or >=1 edge bucket in some instance")
    r.cov["case_kinds"] = kinds
    r.cov["implementation_side_runs"] = tot
    r.cov["res_histogram"] = {}
    for m in model:
        if " res=" in m:
            k = m.split(" res=")[1].split()[0]
            r.cov["res_histogram"][k] = r.cov["res_histogram"].get(k, 0) + 1
    r.cov["model_says_acc_preimage_equals_root_preimage"] = sum(1 for x in info if x.get("acc_equals_root"))
    wfs = [w for x in info for w in x.get("wf", [])]
    r.cov["wf_state_evaluated_on_generated_states"] = {"states": len(wfs), "well_formed": sum(wfs)}
    if wfs and sum(wfs) != len(wfs):
        # the hypothesis of the layout / agreement theorems fails on an API-built state: the theorems stop applying
        i = next(i for i, x in enumerate(info) if 0 in x.get("wf", []))
        r.is_broken("wf_state-false-on-api-built-state", cases[i])
    r.cov["traces_validated_against_impl"] = len(cases) - len(bad)
    r.cov["samples"] = cases[:3]
    r.phase("P4_correspondence", cases=len(cases), differing=len(bad))
    r.phase("P5_oracle", failing=nfail)
    return r.finish()

MANIFEST = {
    "category": "proof",
    "text": ("Coq theorems (no axioms) over an executable model of GraphStore (insertion-ordered edge buckets), WarpState, "
             "apply_ops_to_state, collect_reachable_graph, compute_state_root and the columnar SnapshotAccumulator: the queue-driven "
             "traversal equals an inductive reachability relation (fuel never runs out); the state-root preimage is the encoding of the "
             "reachable content and is the same for any two well-formed states that agree on what is reachable (bucket insertion order, "
             "unreachable nodes/edges/attachments/instances are free); every state built through the API or by patch replay is well "
             "formed; with equal section counts equal roots imply equal content or a hash collision, and every single content mutation "
             "changes the preimage; the accumulator feeds the hasher the same bytes as snapshot.rs on every state (acc_agrees) and keeps "
             "doing so after any op sequence the store accepts, without panicking (acc_refines_store). Full injectivity is REFUTED "
             "(root_injective_refuted: the preimage has no section counts; witness replayed on the real code, listed as known finding). "
             "The model is tied to /repo by running it (vm_compute) and the real crates on the same generated multi-instance states and op "
             "sequences and comparing state root, accumulator root, reachable content and patch-replay verdicts byte for byte (model "
             "preimages hashed with blake3); the harness additionally checks on the implementation alone that construction-order shuffles "
             "never change the root, that every single mutation changes the root iff it changes the reachable content, that both "
             "state-root implementations agree before and after op sequences, and that WSC write -> read -> validate denotes the same rows."),
    "note": ("Trusted: Coq kernel + vm_compute; python generator/renderer; harness c06.rs (its own reachability/content abstraction over "
             "public read accessors); blake3 crate. Modelled rather than verified: graph.rs/warp_state.rs/snapshot.rs/snapshot_accum.rs/"
             "tick_patch.rs::apply_ops_to_state as Gallina functions; GraphStore reverse indexes are not modelled (coherence checked on "
             "the Rust side); WSC tables and byte layout (build.rs/write.rs/view.rs/validate.rs) are exercised by round-trip on the "
             "implementation only (no WSC theorem); debug builds panic (debug_assert!) on a reachable portal to a missing instance, the "
             "release behaviour (skip) is modelled but not exercised. Known finding: state-root-preimage-not-uniquely-decodable "
             "(format level). Fixed during the build: accumulator-root-omits-domain-prefix (commit e41f993)."),
}
