"""C14 — undeclared access never commits."""
import json
import vf, tickgen

PROP = "C14"
THEOREMS = ["guard_is_sound", "guard_is_complete", "write_validation_exact", "violation_fails_tick",
            "honest_tick_never_flagged", "targets_cover_effects_partial", "targets_cover_effects_refuted"]
PRE = ("From Coq Require Import List NArith.\nFrom Echo Require Import Model.Patch Model.Guard.\n"
       "Import ListNotations.\nOpen Scope N_scope.\n"
       "Definition outcome (g : guard) (tr : list event) : N := match execute_item_enforced g tr with ItemOk _ => 0 | ItemPoisoned => 1 end.\n"
       "Definition locN (l : loc) : N * N := match l with LNode n => (0, n) | LEdge e => (1, e) | LNodeAtt n => (2, n) | LEdgeAtt e => (3, e) end.\n")

H16 = lambda n: "%016x" % n


def omissions(ins, scope):
    """(set, key) pairs whose omission makes instruction `ins` (executed at `scope`) undeclared"""
    f = ins.split(".")
    t = lambda s: scope if s == "s" else int(s)
    k = f[0]
    if k == "rn" or k == "ra": return [("nr", H16(t(f[1])))]
    if k == "ca": return [("nr", H16(scope)), ("aw", "n%s0" % H16(t(f[1])))]
    if k == "he": return [("er", H16(int(f[1])))]
    if k == "re": return [("ar", "e%s3" % H16(int(f[1])))]
    if k == "sa": return [("aw", "n%s0" % H16(t(f[1])))]
    if k == "un": return [("nw", H16(int(f[1])))]
    if k == "dn": return [("nw", H16(int(f[1]))), ("aw", "n%s0" % H16(int(f[1])))]
    if k == "ue": return [("nw", H16(t(f[2]))), ("ew", H16(int(f[1])))]
    if k == "de": return [("nw", H16(t(f[1]))), ("ew", H16(int(f[2]))), ("aw", "e%s3" % H16(int(f[2])))]
    if k == "se": return [("aw", "e%s3" % H16(int(f[1])))]
    return []


# he.21 / rn.9 / ra.9 / re.21 probe resources that are ABSENT from the pre-tick store: observing absence is a read too
ACCESS_INS = ["rn.3", "rn.s", "ra.2", "ca.s", "ca.4", "he.20", "re.20", "he.21", "rn.9", "ra.9", "re.21", "sa.s.aa", "sa.3.-", "un.9.6", "un.2.7", "dn.5",
              "ue.21.s.3.8", "ue.20.4.3.8", "de.2.20", "se.20.bb", "se.20.-"]
# op.4.2: OpenPortal{RequireExisting} on a slot the rule DOES declare in a_write: still an instance-level op
VIOLATING_INS = ["xw.2.5", "io.4", "pn", "op.4.2", "op.2.2"]
GRAPH = "I1.1;N1.2.5;N1.3.5;N1.4.5;N1.5.6;N1.6.6;N1.258.6;E1.20.2.3.8;B1.20.aa;A1.2.0102;A1.4.01"


def gen_targeted(rng):
    """one rule performs a specific access; its footprint omits exactly that access (or nothing)"""
    others = ["1:sa.s.01", "2:rn.s,sa.s.02", "3:ca.s"]
    scope = rng.choice([2, 3, 4, 6])
    if rng.random() < 0.2:
        ins = rng.choice(VIOLATING_INS)
        prog0 = "0:" + ",".join(rng.sample(["sa.s.aa", ins], 2))
        omit = "-"
    else:
        ins = rng.choice(ACCESS_INS)
        prog0 = "0:" + ins
        om = omissions(ins, scope)
        pick = rng.choice(om + [None]) if om else None
        omit = "-" if pick is None else f"0:{pick[0]}:{pick[1]}"
    # honest neighbours at other scopes; the probe sits at a random position of the enqueue sequence
    reqs = [(r, 1, n) for r, n in zip([1, 2, 3, 1, 2], rng.sample([2, 3, 4, 5, 6, 258], 5))]
    reqs = reqs[:rng.randint(0, 5)]
    reqs.insert(rng.randint(0, len(reqs)), (0, 1, scope))
    enq = ";".join(f"{a}.{b}.{c}" for a, b, c in reqs)
    return f"mode=tick g={GRAPH} r={prog0};{';'.join(others)} enq={enq} omit={omit} seed={rng.getrandbits(20)}"


def gen_cover(rng):
    kind = rng.choice(["UN", "DN", "UE", "UE", "UE", "DE", "SN", "SE"])
    n = lambda: rng.choice([2, 3, 4, 5, 6, 9])
    op = {"UN": f"UN.{n()}.{rng.randint(5, 7)}", "DN": f"DN.{rng.choice([5, 6, 9])}",
          "UE": f"UE.{rng.choice([20, 21])}.{n()}.{n()}.{rng.choice([8, 9])}", "DE": f"DE.{rng.choice([2, 3])}.{rng.choice([20, 21])}",
          "SN": f"SN.{n()}.{rng.choice(['aa', '-'])}", "SE": f"SE.{rng.choice([20, 21])}.{rng.choice(['bb', '-'])}"}[kind]
    g = GRAPH + (";E1.21.4.5.9" if rng.random() < 0.5 else "")
    return f"mode=cover g={g} op={op}"


# ---------------------------------------------------------------------------- model terms

def akey(s):
    o, p = s[0], s[1]
    w, i = s[2:].split(".")
    return f"(mk_akey {'true' if o == 'e' else 'false'} {'true' if p == 'b' else 'false'} {w} {i})"


def event(e):
    f = e.split(".")
    k = f[0]
    if k == "rN": return f"Read (ANode {f[1]})"
    if k == "rA": return f"Read (AAdj {f[1]})"
    if k == "rNA": return f"Read (ANodeAtt {f[1]})"
    if k == "rEA": return f"Read (AEdgeAtt {f[1]})"
    if k == "rH": return f"Read (AHasEdge {f[1]})"
    if k == "UN": return f"Emit (UpsertNode {f[1]} {f[2]} {f[3]})"
    if k == "DN": return f"Emit (DeleteNode {f[1]} {f[2]})"
    if k == "UE": return f"Emit (UpsertEdge {f[1]} {f[2]} {f[3]} {f[4]} {f[5]})"
    if k == "DE": return f"Emit (DeleteEdge {f[1]} {f[2]} {f[3]})"
    if k == "SA": return f"Emit (SetAtt {akey(f[1] + '.' + f[2])} {'None' if f[3] == '-' else '(Some (Atom 1 []))'})"
    if k == "OP": return f"Emit (OpenPortal {akey(f[1] + '.' + f[2])} {f[3]} 1 None)"     # init None = RequireExisting
    if k == "UW": return f"Emit (UpsertWI {f[1]} 1 None)"
    if k == "DW": return f"Emit (DeleteWI {f[1]})"
    if k == "PANIC": return "ExecPanic"
    raise ValueError(e)


def item_term(item):
    w, sets, evs = item.split(":")
    nr, nw, er, ew, ar, aw = [([] if s == "-" else s.split("+")) for s in sets.split("/")]
    L = lambda l: "[" + ";".join(l) + "]"
    g = ("{| g_warp := %s; g_nodes_read := %s; g_nodes_write := %s; g_edges_read := %s; g_edges_write := %s; "
         "g_atts_read := %s; g_atts_write := %s; g_system := false |}" %
         (w, L(nr), L(nw), L(er), L(ew), L([akey(k) for k in ar]), L([akey(k) for k in aw])))
    tr = L([] if evs == "-" else [event(e) for e in evs.split("+")])
    return f"outcome {g} {tr}"


def cover_term(opspec):
    f = opspec.split(".")
    k = f[0]
    o = {"UN": lambda: f"UpsertNode 1 {f[1]} {f[2]}", "DN": lambda: f"DeleteNode 1 {f[1]}",
         "UE": lambda: f"UpsertEdge 1 {f[1]} {f[2]} {f[3]} {f[4]}", "DE": lambda: f"DeleteEdge 1 {f[1]} {f[2]}",
         "SN": lambda: f"SetAtt (node_alpha 1 {f[1]}) None", "SE": lambda: f"SetAtt (edge_beta 1 {f[1]}) None"}[k]()
    return f"map locN (target_locs ({o}))"


def run_impl(bins, tag, cases, timeout=1700):
    path = vf.write_cases(tag, cases)
    rc, out = vf.run_bin(bins["c14"], path, timeout=timeout)
    lines = [l for l in out.splitlines() if l.startswith("items=") or l.startswith("applied=")]
    if rc or len(lines) != len(cases):
        raise vf.Broken(f"harness c14 exited {rc} with {len(lines)}/{len(cases)} lines: {out[-800:]}")
    return lines


def run(tier, seed, replay=None):
    r = vf.Run(PROP, tier, seed, "proof")
    r.assumptions = [
        "Coq 8.16.1 kernel; no axioms (Print Assumptions: closed under the global context)",
        "model = coq/Model/Guard.v: FootprintGuard sets, guarded GraphView accessors (which read kind each accessor checks), op_write_targets, "
        "check_op in the order of the code, execute_item_enforced (catch_unwind + post-hoc validation); an executor is a trace of reads/emits/panic; "
        "store-level effects reuse coq/Model/Patch.v; tick-level failure composes with the poisoned-worker model of Tick.v (C02)",
        "the engine's unwinding through merge_parallel_deltas/resume_unwind and Engine state after the panic are exercised, not modelled",
    ]
    r.cov["trusted_base"] = ["coqc 8.16.1 kernel + vm_compute", "props/c14.py (targeted omission generator, item -> Gallina term)",
                             "harness tick.rs/c14.rs (tracing interpreter, independent reference predicate, observable-change diff)"]
    r.proof_phase(THEOREMS)
    r.tables_phase("Guard")
    if replay:
        d = json.load(open(replay))
        cases = [d["replay"]["case"]] if "case" in d.get("replay", {}) else []
    else:
        cases = vf.load_corpus(PROP)
        nt, nh, nc = (120, 40, 150) if tier == "quick" else (2500, 800, 3000)
        cases += [gen_targeted(r.rng) for _ in range(nt)]
        # honest programs: never flagged; half of them pass the descent chain of descended instances (Stage B1 law)
        cases += ["mode=tick " + tickgen.gen_case(r.rng, perms=0, extra=("descent=1" if i % 2 else "")) for i in range(nh)]
        cases += [gen_cover(r.rng) for _ in range(nc)]
    try:
        bins = vf.cargo_build(["c14"])
        impl = run_impl(bins, "c14", cases)
    except vf.Broken as e:
        r.is_broken("harness", e)
        return r.finish()
    terms, where = [], []
    for i, (c, l) in enumerate(zip(cases, impl)):
        f = tickgen.fields(l)
        if l.startswith("items="):
            if f["oracle"] != "ok":
                o = f["oracle"]
                r.violation("oracle:" + o.split(":", 1)[1].split(":")[0], f"implementation-side oracle failed: {o}", {"case": c, "oracle": o})
            if f["items"] != "-":
                for it in f["items"].split(";"):
                    terms.append(item_term(it)); where.append(i)
        else:
            terms.append(cover_term(tickgen.fields(c)["op"])); where.append(i)
    bad = []
    try:
        vals = vf.coq_eval("c14", PRE, terms, timeout=1500)
        poisoned = {}
        for i, v, t in zip(where, vals, terms):
            l = impl[i]
            if l.startswith("items="):
                poisoned[i] = poisoned.get(i, False) or (v == 1)
            else:
                f = tickgen.fields(l)
                tl = {("N", "E", "NA", "EA")[k] + str(n) for k, n in v}
                changed = set() if f["changed"] == "-" else set(f["changed"].split(","))
                extra = changed - tl
                if extra:
                    op = tickgen.fields(cases[i])["op"]
                    if op.startswith("UE.") and all(x.startswith("N") for x in extra):
                        r.violation("upsert-edge-reparent-old-source-unattributed",
                                    f"UpsertEdge re-parenting changes adjacency of {sorted(extra)} which is not an attributed write target",
                                    {"case": cases[i], "changed": sorted(changed), "attributed": sorted(tl)})
                    else:
                        r.violation("unattributed-observable-change", f"op changes {sorted(extra)} outside its attributed targets",
                                    {"case": cases[i], "changed": sorted(changed), "attributed": sorted(tl)})
        for i, p in poisoned.items():
            f = tickgen.fields(impl[i])
            model_expect = "viol" if p else "clean"
            if model_expect != f["expect"] or (p and f["res"] not in ("violation", "panic")) or ((not p) and f["res"] == "violation"):
                bad.append((i, f"expect={f['expect']} res={f['res']}", f"model={model_expect}"))
    except vf.Broken as e:
        r.is_broken("model-eval", e)
    for i, a, m in bad[:3]:
        r.is_broken("correspondence", f"guard model and implementation differ on: {cases[i][:900]}\n impl : {a}\n model: {m}")
    ticks = [tickgen.fields(l) for l in impl if l.startswith("items=")]
    r.cov["evaluations"] = len(cases)
    r.cov["engine_ticks_run"] = sum(int(x["runs"]) for x in ticks)
    r.cov["ticks_expected_to_fail"] = sum(1 for x in ticks if x["expect"] == "viol")
    r.cov["ticks_expected_clean"] = sum(1 for x in ticks if x["expect"] == "clean")
    r.cov["cover_ops"] = sum(1 for l in impl if l.startswith("applied="))
    r.cov["distinct_nontrivial"] = len({c for c, l in zip(cases, impl) if l.startswith("items=") and tickgen.fields(l)["items"].count(";") >= 1})
    r.cov["rule"] = ("targeted ticks: one rule performs one access/op kind (node read, adjacency read, node/edge attachment read, edge existence, each "
                     "op kind, cross-instance op, instance-level op, executor panic) with a footprint omitting exactly one declared key or nothing, "
                     "placed at a random position among honest rewrites and run under 1 worker, every scripted assignment for 2 and 3 workers and "
                     "racing threads; honest generated ticks (never flagged); single ops applied to stores with the observable change compared "
                     "with the attributed targets; non-trivial = at least two accepted candidates")
    r.cov["traces_validated_against_impl"] = len(cases) - len(bad)
    r.cov["samples"] = [cases[0][:500], cases[-1][:300]] if cases else []
    r.phase("P4_correspondence", items=len(terms), differing=len(bad))
    return r.finish()


MANIFEST = {
    "category": "proof",
    "text": ("Coq theorems (no axioms): the enforcement wrapper accepts an item only if every read was declared, every emitted op is inside the declared "
             "writes of its own instance (no cross-instance op, no instance-level op from a user rule) and the executor did not panic (soundness), "
             "never flags an honest item (completeness), the write validation accepts exactly the declared ops; one violating item anywhere fails "
             "the tick under every worker count and claim order; attributed write targets cover every observable change for all ops except a "
             "re-parenting UpsertEdge (full statement refuted with a witness = known finding). Tied to /repo by real ticks whose rule footprint omits "
             "exactly one access (every access/op kind, every position, every scripted worker assignment): the tick must fail with a footprint "
             "violation and leave the state untouched, honest ticks must never be flagged; per-item model outcome vs implementation; observable "
             "change of single ops (real apply) vs the model's attributed targets."),
    "note": ("Trusted: Coq kernel; generator; harness tracing interpreter and its independent reference predicate. Modelled rather than verified: "
             "footprint_guard.rs, the guarded accessors of graph_view.rs, execute_item_enforced. Exercised only: panic unwinding through the engine "
             "(resume_unwind), debug_assertions-gated enforcement (the harness builds with debug assertions, i.e. enforcement on)."),
}
