"""C20 — retained content is returned intact or not at all."""
import json, itertools, subprocess
import vf

PROP = "C20"
THEOREMS = ["get_intact_mem", "get_intact_disk", "store_invariant_mem", "store_invariant_disk",
            "get_refines_offered_mem", "get_refines_offered_disk", "get_after_put_mem", "get_after_put_disk",
            "put_verified_rejects_mem", "put_verified_rejects_disk", "put_idempotent_mem",
            "put_verified_idempotent_mem", "put_idempotent_disk", "pin_content_neutral_mem",
            "pin_content_neutral_disk", "reopen_preserves", "corrupt_detected", "corrupt_after_put_detected",
            "deleted_is_absent", "fault_is_local", "coordinate_no_alias", "load_returns_first_content",
            "load_never_retained_is_obstruction", "retain_equal_idempotent", "retain_different_content_rejected",
            "load_range_is_bounded_slice", "cas_import_ok_is_intact", "withheld_or_corrupt_is_obstruction_cas",
            "sc_import_ok_is_intact", "withheld_or_corrupt_is_obstruction_sc", "export_import_roundtrip_cas_partial",
            "export_import_roundtrip_sc_partial"]
PRE = ("From Coq Require Import List NArith.\nFrom Echo Require Import Base.FinMap Base.Bytes Model.Cas.\n"
       "Import ListNotations.\nOpen Scope N_scope.\n")
U64 = (1 << 64) - 1
RAW = ["=" + "00" * 32, "=" + "ff" * 32, "=" + "00" * 31 + "01"]


# ------------------------------------------------------------------------------------------------ cases
def hx(b):
    return bytes(b).hex() if b else "-"


def unhx(s):
    return [] if s in ("", "-") else list(bytes.fromhex(s))


def parse_case(line):
    m = dict(t.split("=", 1) for t in line.split())
    pool = [unhx(x) for x in m["pool"].split(",")] if m.get("pool") else []
    ops = [] if m.get("ops", "-") in ("", "-") else m["ops"].split(";")
    coords = [] if m.get("coords", "-") in ("", "-") else m["coords"].split(",")
    mx = m.get("max", "-")
    c = {"kind": m.get("kind", "mem"), "max": None if mx == "-" else int(mx), "pool": pool, "ops": ops, "coords": coords}
    if c["kind"] == "exp":
        c.update(seed=int(m.get("seed", "1")), pairs=int(m.get("pairs", "1")),
                 mats=[] if m.get("mats", "-") in ("", "-") else m["mats"].split(","))
    return c


def render_case(c):
    if c["kind"] == "exp":
        return (f"kind=exp seed={c['seed']} pairs={c['pairs']} pool={','.join(hx(b) for b in c['pool'])} "
                f"mats={','.join(c['mats']) or '-'}")
    s = f"kind={c['kind']}"
    if c["kind"] in ("mem", "idx"):
        s += f" max={'-' if c['max'] is None else c['max']}"
    s += " pool=" + ",".join(hx(b) for b in c["pool"])
    if c["kind"] == "idx":
        s += " coords=" + (",".join(c["coords"]) or "-")
    return s + " ops=" + (";".join(c["ops"]) or "-")


def rand_bytes(rng):
    ln = rng.choice([0, 1, 1, 2, 3, 4, 5, 8, 12, 33])
    st = rng.random()
    if st < 0.15:
        return [0] * ln
    if st < 0.3:
        return [0xff] * ln
    return [rng.randint(0, 255) for _ in range(ln)]


def corrupt(rng, b):
    """flip / truncate / extend / replace"""
    k = rng.choice(["flip", "trunc", "ext", "repl"])
    b = list(b)
    if k == "flip" and b:
        i = rng.randrange(len(b)); b[i] ^= 1 << rng.randrange(8); return b
    if k == "trunc" and b:
        return b[:rng.randrange(len(b))]
    if k == "ext" or not b:
        return b + [rng.randint(0, 255) for _ in range(rng.randint(1, 3))]
    return [rng.randint(0, 255) for _ in range(len(b))]


def href(rng, n, wild=0.2):
    r = rng.random()
    if r < 1 - wild or n == 0:
        return f"#{rng.randrange(n)}" if n else rng.choice(RAW)
    if r < 1 - wild / 2:
        return f"~{rng.randrange(n)}"
    return rng.choice(RAW)


def store_op(rng, n, disk):
    r = rng.random()
    i = rng.randrange(n)
    if r < 0.22:
        return f"p:{i}"
    if r < 0.40:
        # put_verified: matching hash, hash of another pool item ("wrong hash" stream), flipped, raw
        q = rng.random()
        h = f"#{i}" if q < 0.5 else href(rng, n, 0.5)
        return f"v:{h}:{i}"
    if r < 0.58:
        return "g:" + href(rng, n)
    if r < 0.66:
        return "h:" + href(rng, n)
    if r < 0.74:
        return "i:" + href(rng, n)
    if r < 0.80:
        return "u:" + href(rng, n)
    if r < 0.85:
        return "q:" + href(rng, n)
    if not disk:
        return "g:" + href(rng, n)
    if r < 0.88:
        return "l"
    if r < 0.91:
        return "r"
    if r < 0.96:
        return f"w:{href(rng, n, 0.1)}:{i}"
    if r < 0.985:
        return "d:" + href(rng, n, 0.1)
    return "s:" + href(rng, n, 0.1)


def gen_pool(rng, disk=False):
    pool = [rand_bytes(rng) for _ in range(rng.randint(1, 5))]
    if rng.random() < 0.3:
        pool.append(list(rng.choice(pool)))          # duplicate content
    if rng.random() < 0.5:
        pool.append([])
    if disk or rng.random() < 0.3:
        for b in list(pool)[:3]:
            pool.append(corrupt(rng, b))
    return pool


def gen_mem(rng, big=False):
    pool = gen_pool(rng)
    sizes = [len(b) for b in pool]
    mx = rng.choice([None, 0, sum(sizes[:2]), sum(sizes[:2]) + 1, max(0, sum(sizes[:2]) - 1), sum(sizes), 1 << 20])
    n = rng.randint(0, 60 if big else 14)
    return {"kind": "mem", "max": mx, "pool": pool, "coords": [], "ops": [store_op(rng, len(pool), False) for _ in range(n)]}


def gen_disk(rng, big=False):
    pool = gen_pool(rng, disk=True)
    n = rng.randint(0, 40 if big else 14)
    return {"kind": "disk", "max": None, "pool": pool, "coords": [], "ops": [store_op(rng, len(pool), True) for _ in range(n)]}


def gen_disk_every_file(rng):
    """put k blobs, then corrupt (each kind) / repair / delete EVERY stored file, reading after each step"""
    k = rng.randint(1, 4)
    pool, seen = [], set()
    while len(pool) < k:
        b = rand_bytes(rng)
        if tuple(b) not in seen:
            seen.add(tuple(b)); pool.append(b)
    ops = [f"p:{i}" for i in range(k)] + ["l"]
    if rng.random() < 0.5:
        ops.append("r")
    for i in range(k):
        for _ in range(2):
            pool.append(corrupt(rng, pool[i]))
            j = len(pool) - 1
            ops += [f"w:#{i}:{j}", f"g:#{i}", f"h:#{i}"]
            if rng.random() < 0.5:
                ops += [rng.choice([f"p:{i}", f"v:#{i}:{i}"]), f"g:#{i}"]
        ops += [f"s:#{i}", "l"]
    for i in range(k):
        ops += [f"d:#{i}", f"g:#{i}", f"h:#{i}", "l"]
        if rng.random() < 0.3:
            ops += ["r", f"g:#{i}"]
    return {"kind": "disk", "max": None, "pool": pool, "coords": [], "ops": ops}


def resplit(rng, c):
    """same concatenation namespace||schema_hash_hex||artifact_hash_hex, other field boundaries (fields may become
    empty); SemanticBlobCoordinate has public fields and validates nothing, so every split is a legal coordinate"""
    cat = c[0] + c[1] + c[2]
    for _ in range(8):
        i = rng.randint(0, len(cat)); j = rng.randint(i, len(cat))
        if rng.random() < 0.3:
            i = rng.choice([0, len(c[0])]); j = rng.choice([i, len(cat)])
        n = [cat[:i], cat[i:j], cat[j:], c[3], c[4]]
        if n[:3] != c[:3]:
            return n
    return [cat, "", "", c[3], c[4]] if c[1] or c[2] else ["", cat, "", c[3], c[4]]


def gen_coords(rng):
    h64 = "0123456789abcdef" * 4
    ns = ["app", "app/", "ap", "écho", "", "abcd", "abc"]
    sc = ["aa", "ab", "AA", "", "ef01", "def01", h64]
    ar = ["01", "02", "", h64, h64[:63]]
    dg = [0, 1, 1 << 255, (1 << 256) - 1, rng.getrandbits(256)]
    base = [rng.choice(ns), rng.choice(sc), rng.choice(ar), rng.randrange(6), rng.choice(dg)]
    out = [list(base)]
    for _ in range(rng.randint(1, 4)):
        c = list(rng.choice(out))
        f = rng.randrange(9)
        if f == 0:
            c[0] = rng.choice(ns)
        elif f == 1:
            c[1] = rng.choice(sc)
        elif f == 2:
            c[2] = rng.choice(ar)
        elif f == 3:
            c[3] = rng.randrange(6)                    # differs only in role
        elif f == 4:
            c[4] = rng.choice(dg)                      # differs only in semantic_digest
        elif f >= 6:
            c = resplit(rng, c)                        # differs only in where the string fields end
        out.append(c)                                  # f == 5: an equal coordinate under another index
    return [f"{hx(c[0].encode())}/{hx(c[1].encode())}/{hx(c[2].encode())}/{c[3]}/{vf.hex32(c[4])}" for c in out]


def gen_idx(rng, big=False):
    pool = gen_pool(rng)
    # every non-empty item gets a sibling of the SAME length with different bytes (one flipped bit) and the pool
    # always has items of other lengths, so that a retain on an occupied coordinate meets all three situations:
    # equal bytes / different bytes of equal length / different bytes of another length
    sib = {}
    for i in range(len(pool)):
        if pool[i] and i not in sib:
            t = list(pool[i]); k = rng.randrange(len(t)); t[k] ^= 1 << rng.randrange(8)
            pool.append(t); sib[i] = len(pool) - 1; sib[len(pool) - 1] = i
    if not sib:
        pool += [[7, 7], [7, 6]]; sib[len(pool) - 2] = len(pool) - 1; sib[len(pool) - 1] = len(pool) - 2
    coords = gen_coords(rng)
    nc, n = len(coords), len(pool)
    ops, occupied = [], {}
    for _ in range(rng.randint(0, 40 if big else 14)):
        r = rng.random()
        ci = rng.randrange(nc)
        if r < 0.36:
            if occupied and rng.random() < 0.6:
                ci = rng.choice(sorted(occupied)); cur = occupied[ci]
                q = rng.random()
                if q < 0.3:
                    pi = cur                                             # equal bytes: idempotent
                elif q < 0.7 and cur in sib:
                    pi = sib[cur]                                        # different bytes, same length
                else:
                    oth = [j for j in range(n) if len(pool[j]) != len(pool[cur])]
                    pi = rng.choice(oth) if oth else rng.randrange(n)   # different bytes, other length
            else:
                pi = rng.randrange(n)
            occupied.setdefault(ci, pi)
            ops.append(f"R:{ci}:{pi}")
            if rng.random() < 0.35:
                ops.append(f"L:{ci}")
        elif r < 0.52:
            ops.append(f"L:{ci}")
        elif r < 0.67:
            big_arg = rng.random() < 0.25      # u64-boundary arguments (20-digit numbers are slow to print in Coq)
            off = rng.choice([0, 0, 1, 2, 5, 12, 13] + ([U64, U64 - 1, 1 << 63] if big_arg else []))
            ln = rng.choice([0, 1, 2, 3, 5, 12, 34] + ([U64, 1 << 63] if big_arg else []))
            mxb = rng.choice([0, 1, 2, 5, 64] + ([U64] if big_arg else []))
            ops.append(f"G:{ci}:{off}:{ln}:{mxb}")
        elif r < 0.73:
            ops.append("B:" + href(rng, n))
        elif r < 0.80:
            ops.append(f"D:{ci}")
        elif r < 0.86:
            ops.append("F")                    # the index now faces an empty store (descriptors stay)
        else:
            ops.append(store_op(rng, n, False))
    mx = rng.choice([None, None, 3, 1 << 20])
    return {"kind": "idx", "max": mx, "pool": pool, "coords": coords, "ops": ops}


def gen_exp(rng):
    """causal-history record set for the three export profiles: 1-3 submission/tick pairs in a real WAL segment and
    0-4 retained material records (kind/posture/coordinate) whose digests are the BLAKE3 of pool items"""
    n = rng.randint(0, 4)
    pool, mats, seen = [], [], set()
    for i in range(n):
        if pool and rng.random() < 0.12:
            pi = rng.randrange(len(pool))              # same bytes under another record (typed duplicate-mismatch)
        else:
            b = rand_bytes(rng)
            while tuple(b) in seen:
                b = b + [rng.randint(0, 255)]
            seen.add(tuple(b)); pool.append(b); pi = len(pool) - 1
        posture = 0 if rng.random() < 0.75 else rng.randint(1, 5)
        coord = rng.choice([1, 2, 3, 1 << 255, (1 << 256) - 1])
        mats.append([rng.randint(1, 7), posture, coord, pi])
    if not pool:
        pool = [[1]]
    # one corrupted version per material (flip / truncate / extend / replace), different from every original
    for m in mats:
        bad = corrupt(rng, pool[m[3]])
        while tuple(bad) in seen:
            bad = bad + [rng.randint(0, 255)]
        seen.add(tuple(bad)); pool.append(bad); m.append(len(pool) - 1)
    mats = [f"{m[0]}/{m[1]}/{vf.hex32(m[2])}/{m[3]}/{m[4]}" for m in mats]
    return {"kind": "exp", "max": None, "pool": pool, "coords": [], "ops": [], "seed": rng.getrandbits(32),
            "pairs": rng.randint(1, 3), "mats": mats}


def exhaustive(kind, depth):
    """every op sequence of the given length over a small alphabet on two byte strings"""
    pool = [[1, 2, 3], [7]]
    if kind == "mem":
        alpha = ["p:0", "p:1", "v:#0:0", "v:#0:1", "v:~1:1", "g:#0", "g:#1", "i:#0", "u:#0", "q:#0"]
    else:
        alpha = ["p:0", "v:#0:0", "v:#0:1", "g:#0", "w:#0:1", "w:#1:1", "d:#0", "r", "i:#0", "q:#0", "l", "s:#0"]
    for seq in itertools.product(alpha, repeat=depth):
        yield {"kind": kind, "max": 3 if kind == "mem" else None, "pool": pool, "coords": [], "ops": list(seq)}


# ------------------------------------------------------------------------------------------------ model side
def hashes_for(cases):
    """real BLAKE3 of every pool item of every case (one vfhash call)"""
    flat = [hx(b) for c in cases for b in c["pool"]]
    hs = vf.vfhash(flat) if flat else []
    out, k = [], 0
    for c in cases:
        out.append([int(h, 16) for h in hs[k:k + len(c["pool"])]]); k += len(c["pool"])
    return out


def href_val(tok, hs):
    if tok[0] == "#":
        return hs[int(tok[1:])]
    if tok[0] == "~":
        return hs[int(tok[1:])] ^ 1
    return int(tok[1:], 16)


def universe(c, hs):
    u = set(hs)
    for o in c["ops"]:
        for f in o.split(":"):
            if f and f[0] in "#~=":
                u.add(href_val(f, hs))
    return sorted(u)


class Ranks:
    """Monotone injection of the 256-bit values occurring in a case into 1..k.  The model only ever compares hashes
    (N.compare / N.eqb), so running it on ranks instead of the real values is the same run up to this renaming; it
    avoids parsing/printing 77-digit numbers in Coq (~1 s each)."""
    def __init__(self, values):
        self.vals = sorted(set(values))
        self.rk = {v: i + 1 for i, v in enumerate(self.vals)}
    def N(self, v):
        return str(self.rk[v])
    def hex(self, r):
        return vf.hex32(self.vals[r - 1])


def case_ranks(c, hs):
    return Ranks(universe(c, hs)), Ranks([int(s.split("/")[4], 16) for s in c["coords"]])


def op_term(tok, c, hs, R):
    N = R.N
    f = tok.split(":")
    k = f[0]
    if k == "p":
        return f"Put {vf.coq_bytes(c['pool'][int(f[1])])}"
    if k == "v":
        return f"PutV {N(href_val(f[1], hs))} {vf.coq_bytes(c['pool'][int(f[2])])}"
    if k in "ghiuqds":
        name = {"g": "Get", "h": "Has", "i": "Pin", "u": "Unpin", "q": "IsPinned", "d": "EnvDelete", "s": "EnvStray"}[k]
        return f"{name} {N(href_val(f[1], hs))}"
    if k == "l":
        return "ListAll"
    if k == "r":
        return "Reopen"
    if k == "w":
        return f"EnvWrite {N(href_val(f[1], hs))} {vf.coq_bytes(c['pool'][int(f[2])])}"
    raise ValueError(tok)


def coord_term(s, RC):
    f = s.split("/")
    return (f"({vf.coq_bytes(unhx(f[0]))},({vf.coq_bytes(unhx(f[1]))},({vf.coq_bytes(unhx(f[2]))},"
            f"({int(f[3])},{RC.N(int(f[4], 16))}))))")


def iop_term(tok, c, hs, R):
    N = R.N
    f = tok.split(":")
    k = f[0]
    if k == "R":
        return f"IRetain c{int(f[1])} {vf.coq_bytes(c['pool'][int(f[2])])}"
    if k == "L":
        return f"ILoad c{int(f[1])}"
    if k == "G":
        return f"ILoadRange c{int(f[1])} {int(f[2])} {int(f[3])} {int(f[4])}"
    if k == "B":
        return f"ILoadByHash {N(href_val(f[1], hs))}"
    if k == "D":
        return f"IDescriptor c{int(f[1])}"
    if k == "F":
        return "IFreshStore"
    return f"IStore ({op_term(tok, c, hs, R)})"


def to_term(c, hs):
    """(fun H uni c0 .. => (fun r => observations) (run ...)) (table_hash [...]) [...] coords...
    beta-redexes rather than nested lets: Coq's type checker is super-linear in nested let-bound literals"""
    R, RC = case_ranks(c, hs)
    N = R.N
    tbl = ";".join(f"({vf.coq_bytes(b)},{N(h)})" for b, h in zip(c["pool"], hs))
    uni = ";".join(N(h) for h in universe(c, hs))
    mx = "None" if c["max"] is None else f"(Some {c['max']})"
    memdump = ("(map (fun h => (mem_get s h, mem_is_pinned s h)) uni, mem_len s, m_bytes s, "
               "mem_pinned_count s, mem_over_budget s)")
    args = f"(table_hash [{tbl}]) [{uni}]"
    if c["kind"] == "mem":
        ops = ";".join(op_term(o, c, hs, R) for o in c["ops"])
        return (f"(fun (H : bytes -> N) (uni : list N) => (fun r : mtier * list out => (fun s : mtier => (snd r, {memdump})) (fst r)) "
                f"(mem_run H (mem_new {mx}) [{ops}])) {args}")
    if c["kind"] == "disk":
        ops = ";".join(op_term(o, c, hs, R) for o in c["ops"])
        return (f"(fun (H : bytes -> N) (uni : list N) => (fun r : disk * list out => (fun d : disk => "
                "(snd r, (map (fun h => (disk_get H d h, disk_is_pinned d h)) uni, disk_pinned_count d, d_files d))) (fst r)) "
                f"(disk_run H (disk_open []) [{ops}])) {args}")
    nc = len(c["coords"])
    cb = "".join(f" (c{i} : coord)" for i in range(nc))
    ca = "".join(f" {coord_term(s, RC)}" for s in c["coords"])
    ops = ";".join(iop_term(o, c, hs, R) for o in c["ops"])
    descs = ";".join(f"descriptor ix c{i}" for i in range(nc))
    return (f"(fun (H : bytes -> N) (uni : list N){cb} => (fun r : istate * list iout => (fun (ix : index) (s : mtier) => "
            f"(snd r, {memdump}, [{descs}])) (fst (fst r)) (snd (fst r))) "
            f"(irun H ([], mem_new {mx}) [{ops}])) {args}{ca}")


# ---- export profiles (record-level model of the material validation) ----
EXP_SEG = [255, 254, 253]          # stands for the WAL segment bytes (the model never looks inside them)


def exp_worlds(c, hs):
    """Mirrors the variant construction of harness c20.rs `exp::run`.  Returns (variants, R, RC): variants is a list of
    (name, stage, coq_term); stage in {'x','i'} says whether the harness observes it at export or import."""
    mats = []
    for t in c["mats"]:
        f = t.split("/")
        mats.append({"kind": int(f[0]), "post": int(f[1]), "coord": int(f[2], 16), "pi": int(f[3]),
                     "bad": int(f[4]) if len(f) > 4 else None})
    for m in mats:
        m["dig"] = hs[m["pi"]]; m["bytes"] = c["pool"][m["pi"]]
    seg_h = max(hs) + 1 if hs else 1
    R = Ranks(list(hs) + [seg_h])
    RC = Ranks([m["coord"] for m in mats] + [0])
    def mat(m, dig=None, post=None):
        return f"({R.N(m['dig'] if dig is None else dig)},({RC.N(m['coord'])},({m['kind']},{m['post'] if post is None else post})))"
    def pays(ms, skip=None, subst=None):
        out = []
        for i, m in enumerate(ms):
            if m["post"] == 0 and i != skip:
                b = subst[1] if subst and subst[0] == i else m["bytes"]
                out.append(f"({mat(m)},{vf.coq_bytes(b)})")
        return "[" + ";".join(out) + "]"
    def mlist(ms):
        return "[" + ";".join(mat(m) for m in ms) + "]"
    def refs(ms, bump=None, drop=None):
        out = []
        for i, m in enumerate(ms):
            if m["post"] == 0 and not (drop is not None and (m["dig"], m["coord"], m["kind"]) == drop):
                out.append(f"(({m['kind']},{RC.N(m['coord'])}),({R.N(m['dig'])},{len(m['bytes']) + (1 if bump == i else 0)}))")
        return "[" + ";".join(out) + "]"
    def cas(ms, without=None, repl=None, noseg=False):
        ent = [] if noseg else [(seg_h, EXP_SEG)]
        for m in ms:
            if m["post"] == 0 and all(e[0] != m["dig"] for e in ent):
                ent.append((m["dig"], m["bytes"]))
        ent = [(h, (repl[1] if repl and repl[0] == h else b)) for h, b in ent if h != without]
        return "[" + ";".join(f"({R.N(h)},{vf.coq_bytes(b)})" for h, b in ent) + "]"
    seg = lambda bump=0: f"[((0,{RC.N(0)}),({R.N(seg_h)},{len(EXP_SEG) + bump}))]"
    SC = lambda M, P: f"(inl (sc_check H {M} {P}), retention_ok {M})"
    CAS = lambda M, SG, RF, CS: f"(inr (cas_check H {M} {SG} {RF} {CS}), retention_ok {M})"
    present = [i for i, m in enumerate(mats) if m["post"] == 0]
    V = [("sc", SC(mlist(mats), pays(mats)))]
    for i in present:
        m = mats[i]
        bad = c["pool"][m["bad"]]
        V.append((f"sc.w{i}", SC(mlist(mats), pays(mats, skip=i))))
        V.append((f"sc.c{i}", SC(mlist(mats), pays(mats, subst=(i, bad)))))
        m2 = [dict(x, post=3) if x["dig"] == m["dig"] else x for x in mats]
        V.append((f"sc.iw{i}.x", SC(mlist(m2), pays(m2))))
        V.append((f"sc.iw{i}", SC(mlist(mats), pays(m2))))
        bh = hs[m["bad"]]
        m3 = [dict(x, dig=bh, bytes=bad) if x["dig"] == m["dig"] else x for x in mats]
        V.append((f"sc.ic{i}.x", SC(mlist(m3), pays(m3))))
        V.append((f"sc.ic{i}", SC(mlist(mats), pays(m3))))
    V.append(("cas", CAS(mlist(mats), seg(), refs(mats), cas(mats))))
    V.append(("cas.wseg", CAS(mlist(mats), seg(), refs(mats), cas(mats, noseg=True))))
    seen = set()
    for i in present:
        m = mats[i]
        if m["dig"] in seen:
            continue
        seen.add(m["dig"])
        V.append((f"cas.w{i}", CAS(mlist(mats), seg(), refs(mats), cas(mats, without=m["dig"]))))
        V.append((f"cas.c{i}.given", CAS(mlist(mats), seg(), refs(mats), cas(mats, repl=(m["dig"], c["pool"][m["bad"]])))))
    for i in present:
        V.append((f"cas.l{i}", CAS(mlist(mats), seg(), refs(mats, bump=i), cas(mats))))
    V.append(("cas.lseg", CAS(mlist(mats), seg(1), refs(mats), cas(mats))))
    if present:
        i = present[0]; m = mats[i]
        V.append((f"cas.xr{i}", CAS(mlist(mats), seg(), refs(mats, drop=(m["dig"], m["coord"], m["kind"])), cas(mats))))
        m2 = [dict(x, post=3) if j == i else x for j, x in enumerate(mats)]
        V.append((f"cas.ir{i}.x", CAS(mlist(m2), seg(), refs(m2), cas(mats))))
        V.append((f"cas.ir{i}", CAS(mlist(mats), seg(), refs(m2), cas(mats))))
    return V, R, RC, seg_h


def to_term_exp(c, hs):
    V, R, RC, seg_h = exp_worlds(c, hs)
    tbl = ";".join(f"({vf.coq_bytes(b)},{R.N(h)})" for b, h in zip(c["pool"], hs))
    tbl += (";" if tbl else "") + f"({vf.coq_bytes(EXP_SEG)},{R.N(seg_h)})"
    body = ";".join(f"({t} : (sc_res + cas_res) * bool)" for _, t in V)
    return f"(fun (H : bytes -> N) => [{body}]) (table_hash [{tbl}])"


def exp_tok(v, R, RC, stage):
    """token the harness prints for a validation outcome observed at export ('x') or import ('i')"""
    side, res = v[1], v[2][0]
    px = "E:x-" if stage == "x" else "E:"
    hxr = lambda r: R.hex(r)
    if res in ("SCOk", "CASOk"):
        return "ok"
    if res == "SCDuplicate":
        return "E:x-retained-envelope" if stage == "x" else "E:other"
    if res == "CASDuplicate":
        return "E:x-cas-references" if stage == "x" else "E:cas-references"
    tag, a = res[1], res[2]
    if tag == "SCDigestMismatch":
        return f"{px}digest-mismatch:{hxr(a[0])}:{hxr(a[1])}"
    if tag == "SCMissing":
        return f"{px}missing-retained:{hxr(a[0])}"
    if tag == "SCExtra":
        return f"{px}extra-retained:{hxr(a[0])}"
    if tag == "CASRefMismatch":
        return f"{px}ref-mismatch:{a[0]}:{a[1]}"
    if tag == "CASMissingBlob":
        return f"E:missing-blob:{hxr(a[0])}:{RC.hex(a[1])}"
    if tag == "CASHashMismatch":
        return f"E:hash-mismatch:{hxr(a[0])}:{hxr(a[1])}"
    if tag == "CASLenMismatch":
        return f"E:len-mismatch:{a[0]}:{a[1]}"
    raise ValueError(res)


def render_model_exp(c, hs, vals):
    """Replays the control flow of exp::run on the model's outcomes and prints the tokens the model predicts."""
    V, R, RC, seg_h = exp_worlds(c, hs)
    val = {name: v for (name, _), v in zip(V, vals)}
    def export(name):
        """outcome of an export call followed (if it succeeds) by nothing: 'ok' or the export-stage token"""
        res, retok = val[name]
        r = res[2][0]
        if r in ("SCOk",):
            return "ok" if retok == "true" else "E:x-retention"
        if res[1] == "inr":
            # export of the CAS profile only canonicalises and compares the reference set
            if r == "CASDuplicate" or (isinstance(r, tuple) and r[1] == "CASRefMismatch"):
                return exp_tok(res, R, RC, "x")
            return "ok" if retok == "true" else "E:x-retention"
        return exp_tok(res, R, RC, "x")
    out = []
    sc = export("sc")
    out.append(f"sc={sc}")
    if sc == "ok":
        for name, _ in V:
            if name.startswith("sc.w") or name.startswith("sc.c"):
                out.append(f"{name}={export(name)}")
            elif name.startswith("sc.i") and not name.endswith(".x"):
                if export(name + ".x") == "ok":
                    out.append(f"{name}={exp_tok(val[name][0], R, RC, 'i')}")
    cas = export("cas")
    if cas == "ok":
        cas = exp_tok(val["cas"][0], R, RC, "i")
    out.append(f"cas={cas}")
    if cas == "ok":
        for name, _ in V:
            if not name.startswith("cas.") or name.endswith(".x"):
                continue
            if name.startswith("cas.xr"):
                out.append(f"{name}={export(name)}")
            elif name.startswith("cas.l") or name.startswith("cas.ir"):
                xn = name + ".x" if name.startswith("cas.ir") else name
                if export(xn) == "ok":
                    out.append(f"{name}={exp_tok(val[name][0], R, RC, 'i')}")
            else:
                out.append(f"{name}={exp_tok(val[name][0], R, RC, 'i')}")
    # segment-blob tokens carry the digest of the real WAL segment, unknown to the model: keep the class only
    out = [t.split(":")[0] + ":" + t.split(":")[1] if ("seg=" in t and t.count(":") > 1) else t for t in out]
    return "res=" + ",".join(out)


def exp_impl_view(line):
    """the tokens of a harness kind=exp line that the model predicts (the rest is oracle-only)"""
    keep = []
    for t in line[4:].split(","):
        k = t.split("=")[0]
        if k in ("sc", "cas") or k.startswith(("sc.w", "sc.c", "sc.iw", "sc.ic", "cas.w", "cas.l", "cas.xr", "cas.ir")) \
                or (k.startswith("cas.c") and k.endswith(".given")):
            if k in ("cas.wseg", "cas.lseg") and t.count(":") > 1:
                t = t.split(":")[0] + ":" + t.split(":")[1]
            keep.append(t)
    return "res=" + ",".join(keep)


_CUR = [None]


def HX(r):
    return _CUR[0].hex(r)


def opt_bytes(v):
    if v == "None":
        return "n"
    return "b" + vf.hexb(v[2][0])


def out_tok(o):
    if o == "OOk":
        return "ok"
    if o == "OUnit":
        return "-"
    tag, a = o[1], o[2]
    if tag == "OHash":
        return "H" + HX(a[0])
    if tag == "OMismatch":
        return "mm:" + HX(a[1])
    if tag == "OBytes":
        return opt_bytes(a[0])
    if tag == "OBool":
        return "1" if a[0] == "true" else "0"
    if tag == "OList":
        return "L" + "+".join(HX(h) for h in a[0])
    raise ValueError(o)


def err_tok(e):
    if e == "MissingSemanticCoordinate":
        return "E:coord"
    tag, a = e[1], e[2]
    if tag == "MissingBlob":
        return "E:blob:" + HX(a[0])
    if tag == "RangeExceedsBudget":
        return f"E:budget:{a[0]}:{a[1]}"
    if tag == "RangeOutOfBounds":
        return f"E:oob:{a[0]}:{a[1]}:{a[2]}"
    if tag == "SemanticCoordinateConflict":
        return f"E:conflict:{HX(a[0])}:{HX(a[1])}"
    raise ValueError(e)


def iout_tok(o):
    tag, a = o[1], o[2][0]
    if tag == "IOStore":
        return out_tok(a)
    if tag == "IOOptDesc":
        return "n" if a == "None" else f"d{HX(a[2][0][0])}/{a[2][0][1]}"
    if a[1] == "RErr":
        return err_tok(a[2][0])
    v = a[2][0]
    if tag == "IODesc":
        return f"d{HX(v[0])}/{v[1]}"
    if tag == "IOLoad":
        return f"d{HX(v[0])}/{v[1]}/{vf.hexb(v[2])}"
    if tag == "IORange":
        return f"d{HX(v[0])}/{v[1]}/{v[2]}/{vf.hexb(v[3])}"
    if tag == "IOBytes":
        return "b" + vf.hexb(v)
    raise ValueError(o)


def mem_dump_str(c, hs, d):
    probes, ln, nb, pc, over = d
    uni = universe(c, hs)
    ds = ";".join(f"{vf.hex32(h)}:{opt_bytes(g)}:{1 if p == 'true' else 0}" for h, (g, p) in zip(uni, probes)) or "-"
    return f"dump={ds} len={ln} bytes={nb} pins={pc} over={1 if over == 'true' else 0}"


def render_model(c, hs, v):
    _CUR[0] = case_ranks(c, hs)[0]
    if c["kind"] == "mem":
        outs, d = v
        return f"res={','.join(out_tok(o) for o in outs) or '-'} {mem_dump_str(c, hs, d)}"
    if c["kind"] == "disk":
        outs, (probes, pc, files) = v
        uni = universe(c, hs)
        ds = ";".join(f"{vf.hex32(h)}:{out_tok(g)}:{1 if p == 'true' else 0}" for h, (g, p) in zip(uni, probes)) or "-"
        fl = ";".join(f"{HX(h)}:{vf.hexb(b)}" for h, b in files) or "-"
        return f"res={','.join(out_tok(o) for o in outs) or '-'} dump={ds} pins={pc} files={fl}"
    outs, d, descs = v
    ix = ";".join("n" if x == "None" else f"d{HX(x[2][0][0])}/{x[2][0][1]}" for x in descs) or "-"
    return f"res={','.join(iout_tok(o) for o in outs) or '-'} {mem_dump_str(c, hs, d)} idx={ix}"


def both(tag, cases, bins, model=True):
    """cases: list of dicts.  Returns (impl lines without oracle, model lines, oracle verdicts)."""
    lines = [render_case(c) for c in cases]
    path = vf.write_cases(tag, lines)
    rc, out = vf.run_bin(bins["c20"], path, timeout=1500)
    if rc:
        raise vf.Broken(f"harness c20 exited {rc}: {out[-800:]}")
    full = [l for l in out.splitlines() if l.startswith("res=")]
    impl = [l.split(" oracle=")[0] for l in full]
    oracle = [l.split(" oracle=")[1].split()[0] if " oracle=" in l else "FAIL:no-oracle" for l in full]
    if not model:
        return impl, None, oracle
    if len(impl) != len(cases):
        raise vf.Broken(f"harness printed {len(impl)} lines for {len(cases)} cases: {out[-600:]}")
    both.last_full = list(impl)
    hs = hashes_for(cases)
    terms = [to_term_exp(c, h) if c["kind"] == "exp" else to_term(c, h) for c, h in zip(cases, hs)]
    vals = []
    for k in range(0, len(terms), 5000):          # bounded coqc jobs (a shard of a chunk is <= ~320 evaluations)
        try:
            vals += vf.coq_eval(f"{tag}_{k // 5000}" if k else tag, PRE, terms[k:k + 5000], timeout=1500)
        except subprocess.TimeoutExpired as e:
            raise vf.Broken(f"model evaluation timed out (machine overloaded?): {e}")
    mod = []
    for i, (c, h, v) in enumerate(zip(cases, hs, vals)):
        if c["kind"] == "exp":
            # material-level outcomes of the self-contained and CAS-addressed profiles are modelled; the ref-only
            # profile, WSC envelopes, projection comparison and WAL segment recovery are oracle-only
            mod.append(render_model_exp(c, h, v))
            impl[i] = exp_impl_view(impl[i])
        else:
            mod.append(render_model(c, h, v))
    return impl, mod, oracle


def run(tier, seed, replay=None):
    r = vf.Run(PROP, tier, seed, "proof")
    r.assumptions = [
        "Coq 8.16.1 kernel (coqc; vm_compute only in the non-vacuity Example); no axioms; the hash is a universally "
        "quantified function H and binding statements conclude `\\/ Collision H`",
        "model = coq/Model/Cas.v; tie = python generator + harness/src/bin/c20.rs (real echo-cas MemoryTier, DiskTier in "
        "/tmp/C20-*, RetainedBlobIndex) + vm_compute of the model with H := table of the real BLAKE3 values of every hashed byte string",
        "filesystem failures (DiskTierError::Io/InvalidBlobPath), usize overflow of byte_count and real crash/fsync "
        "durability are outside the model; of wsc/store.rs only the material validation of the self-contained and CAS-addressed "
        "profiles is modelled (record level: sc_check / cas_check); the ref-only profile, WSC envelope codec, projection-graph "
        "comparison, causal-anchor checks and WAL segment recovery are exercised by the harness oracle only",
        "hashes enter the model as ranks (monotone injection of the real BLAKE3 values occurring in the case): the model only compares hashes",
    ]
    r.cov["trusted_base"] = ["coqc 8.16.1 kernel + vm_compute", "python generator/renderer props/c20.py",
                             "harness c20.rs (abstraction: probe of get/is_pinned over the case's hash universe, directory scan)",
                             "blake3 crate (vfhash)"]
    r.proof_phase(THEOREMS)
    if tier == "thorough" and not replay:
        # independent re-check of the compiled closure of Props/C20.vo
        rc, out = vf.sh(["coqchk", "-o", "-silent", "-Q", vf.COQ, "Echo", "Echo.Props.C20"], timeout=1200)
        ok = rc == 0 and "Axioms: <none>" in out
        r.phase("P1b_coqchk", ok=ok, summary=" ".join(out.split())[-300:])
        if not ok:
            r.is_broken("coqchk", out[-1500:])
    if replay:
        d = json.load(open(replay))
        cases = [parse_case(d["replay"]["case"])] if "case" in d.get("replay", {}) else []
    else:
        cases = [parse_case(l) for l in vf.load_corpus(PROP)]
        q = tier == "quick"
        for i in range(130 if q else 1800):
            cases.append(gen_mem(r.rng, big=(i % 10 == 9)))
        for i in range(130 if q else 1800):
            cases.append(gen_disk(r.rng, big=(i % 10 == 9)))
        for i in range(30 if q else 500):
            cases.append(gen_disk_every_file(r.rng))
        for i in range(130 if q else 1800):
            cases.append(gen_idx(r.rng, big=(i % 10 == 9)))
        for i in range(40 if q else 350):
            cases.append(gen_exp(r.rng))
        cases += list(exhaustive("mem", 2)) + list(exhaustive("disk", 2))
        if not q:
            # exhaustive small universes: every op sequence of length 3 and 4 over the alphabets of `exhaustive`
            cases += list(exhaustive("mem", 3)) + list(exhaustive("mem", 4)) + list(exhaustive("disk", 3))
    try:
        bins = vf.cargo_build(["c20", "vfhash"])
        r.phase("P3_build", ok=True)
    except vf.Broken as e:
        r.is_broken("harness-build", e)
        return r.finish()
    try:
        impl, model, oracle = both("c20", cases, bins)
        both.last_full_main = list(both.last_full)
    except vf.Broken as e:
        r.is_broken("correspondence-run", e)
        return r.finish()
    bad = vf.diff_lines(r, cases, impl, model)
    for i, o in enumerate(oracle):
        if o != "ok":
            for sig in o.split(":", 1)[1].split(","):
                r.violation(sig, f"implementation oracle failed ({cases[i]['kind']}): {o}",
                            {"case": render_case(cases[i]), "oracle": o, "impl": impl[i] if i < len(impl) else ""})
    for n, i in enumerate(bad[:3]):
        c = cases[i]
        if c["kind"] == "exp":
            r.is_broken("correspondence", f"model and implementation differ on: {render_case(c)}\n impl : {impl[i]}\n model: {model[i]}")
            continue
        def still(cand):
            cc = dict(c, ops=cand)
            a, b, _ = both("c20shrink", [cc], bins)
            return a != b
        # shrinking re-runs harness + coqc per step: only the first disagreement, and only when the oracle is silent
        small = c["ops"]
        if n == 0 and not r.violations and len(c["ops"]) <= 40:
            small = vf.shrink_list(c["ops"], still, max_rounds=30)
        cc = dict(c, ops=small)
        a, b, o = both("c20shrink", [cc], bins)
        r.is_broken("correspondence", f"model and implementation differ on: {render_case(cc)}\n impl : {a[0]}\n model: {b[0]}")
        if o[0] != "ok":
            for sig in o[0].split(":", 1)[1].split(","):
                r.violation(sig, "oracle fails on shrunk disagreement", {"case": render_case(cc), "oracle": o[0]})
    if r.broken and not r.violations and not replay:
        # P6 search: bigger budget on the implementation's own oracle (no model in the loop)
        extra = []
        for i in range(4000):
            extra.append([gen_disk_every_file, gen_exp][(i // 4) % 2](r.rng) if i % 4 == 3
                         else [gen_mem, gen_disk, gen_idx][i % 4](r.rng, big=(i % 3 == 0)))
        extra += list(exhaustive("mem", 3)) + list(exhaustive("disk", 3))
        try:
            im, _, orc = both("c20search", extra, bins, model=False)
            for c, l, o in zip(extra, im, orc):
                if o != "ok":
                    for sig in o.split(":", 1)[1].split(","):
                        r.violation(sig, f"oracle failed during search: {o}", {"case": render_case(c), "impl": l})
                    break
        except vf.Broken as e:
            r.is_broken("search-run", e)
        r.phase("P6_search", cases=len(extra))
    # evidence
    kinds, opk, res = {}, {}, {"mm": 0, "conflict": 0, "missing-blob": 0, "missing-coord": 0, "budget": 0, "oob": 0, "none": 0}
    for c in cases:
        kinds[c["kind"]] = kinds.get(c["kind"], 0) + 1
        for o in c["ops"]:
            k = c["kind"] + ":" + o.split(":")[0]
            opk[k] = opk.get(k, 0) + 1
    for l in impl:
        body = l.split(" dump=")[0]
        res["mm"] += body.count("mm:"); res["conflict"] += body.count("E:conflict"); res["missing-blob"] += body.count("E:blob")
        res["missing-coord"] += body.count("E:coord"); res["budget"] += body.count("E:budget"); res["oob"] += body.count("E:oob")
        res["none"] += body.count(",n,")
    nontriv = {render_case(c) for c in cases if (sum(1 for o in c["ops"] if o[0] in "pvRwd") >= 2 and len(c["ops"]) >= 4)
               or (c["kind"] == "exp" and c["mats"])}
    r.cov["evaluations"] = len(cases)
    r.cov["distinct_nontrivial"] = len(nontriv)
    r.cov["rule"] = ("random + structured + exhaustive-small operation sequences on MemoryTier, DiskTier (real files under /tmp/C20-*, "
                     "with flip/truncate/extend/replace corruption, deletion of every stored file, stray temp files, reopen) and "
                     "RetainedBlobIndex; every case runs through the harness and the Coq model and the canonical lines are compared; "
                     "non-trivial = at least 4 ops of which at least 2 mutate (put/put_verified/retain/env write/env delete); kind=exp cases "
                     "(real WAL segment + record set through the three wsc export profiles with every referenced blob withheld/"
                     "corrupted) are checked by the harness oracle only and count as non-trivial when they carry retained material")
    r.cov["case_kinds"] = kinds
    r.cov["op_histogram"] = dict(sorted(opk.items()))
    r.cov["result_kinds_hit"] = res
    nexp = sum(1 for c in cases if c["kind"] == "exp")
    r.cov["traces_validated_against_impl"] = len(cases) - len(bad)
    r.cov["export_profile_cases"] = nexp
    ev = {}
    for c, l in zip(cases, getattr(both, "last_full_main", impl)):
        if c["kind"] == "exp":
            for t in l[4:].split(","):
                k, _, v = t.partition("=")
                k = k.rstrip("0123456789") if not k.startswith("cas.c") else "cas.c"
                cls = v.split(":")[0] + (":" + v.split(":")[1] if v.startswith("E:") else "")
                ev[k + "->" + cls.split("*")[0]] = ev.get(k + "->" + cls.split("*")[0], 0) + 1
    r.cov["export_profile_variant_outcomes"] = dict(sorted(ev.items()))
    r.cov["samples"] = [render_case(c) for c in cases[:2]] + [render_case(c) for c in cases if c["kind"] == "idx"][:1]
    r.phase("P4_correspondence", cases=len(cases), differing=len(bad))
    r.phase("P5_oracle", failing=sum(1 for o in oracle if o != "ok"))
    return r.finish()


MANIFEST = {
    "category": "proof",
    "text": ("Coq theorems (no axioms, hash = arbitrary function H, binding statements conclude `\\/ Collision H`) over an executable model "
             "of echo-cas MemoryTier (blobs + pins + exact byte accounting + advisory budget), DiskTier (one file per hash whose content "
             "is an arbitrary byte string, process-local pins, reopen, environment write/delete faults), RetainedBlobIndex (retain / load / "
             "load_range / load_by_hash over a MemoryTier, store replacement) and, at record level, the material validation of the "
             "self-contained and CAS-addressed wsc export profiles. Proved: every get returns bytes hashing to the key or nothing (memory: "
             "after any op sequence; disk: for any file state), invariant by induction over arbitrary op sequences (entries hash to their "
             "key, byte_count = sum of sizes), refinement to the set of offered byte strings (sound + complete up to Collision), get-after-"
             "put, put_verified rejects every mismatch with the store unchanged, put/put_verified idempotent, erasing all pin/unpin ops "
             "changes no content/accounting/result, reopen preserves content and drops pins, corrupted file => HashMismatch or Collision, "
             "deleted file => absent, faults are local to their key; index entry and load(c) are determined by the first retain at c alone "
             "(no aliasing), equal content idempotent, different content rejected or Collision, load_range is a bounded slice; accepted "
             "imports have every referenced blob/payload intact, withheld or corrupt material is an obstruction (or Collision), intact "
             "material is accepted (round trip, partial). Tie: generated + structured (corrupt/repair/delete every stored file) + exhaustive-"
             "small op sequences run through the real crates (DiskTier on real files under /tmp) and through the model under vm_compute with "
             "the real BLAKE3 values supplied as data; canonical result lines compared; an implementation-side reference-map oracle checks "
             "the property on every case; real WAL segments + record sets go through all three export profiles with every referenced blob "
             "individually withheld/corrupted/resized."),
    "note": ("Trusted: Coq kernel + vm_compute; python generator/renderer props/c20.py (incl. rank renaming of hashes and its replay of the "
             "export-variant control flow); harness c20.rs (probe-based state dump, directory scan, reference-map oracle); blake3 crate. "
             "Modelled rather than verified: memory.rs, disk.rs, retention.rs as Gallina functions; filesystem errors, usize overflow, "
             "fsync/rename durability are outside the model. wsc/store.rs (5k lines) is modelled only for retained/segment material "
             "validation (sc_check, cas_check); ref-only profile, WSC envelope codec, projection comparison, causal-anchor validation and "
             "WAL segment recovery are oracle-only. export_import_roundtrip_*_partial are stated given canonicalisation succeeds and the "
             "reference set equals the present records. Finding fixed during the build: MemoryTier::put_verified accepted mismatching "
             "bytes on an already stored key (repo commit bc954b7); oracle signature mem-put-verified-present-skips-verification guards it."),
}
